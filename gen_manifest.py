#!/usr/bin/env python3
"""Regenerates MANIFEST.json from the rule registry of bin/specvet (-list) and the tables below."""
import json, subprocess, collections, sys
out = subprocess.run(['./bin/specvet', '-list'], capture_output=True, text=True, check=True).stdout
rules = collections.defaultdict(list)
for l in out.splitlines():
    rid, props = l.split()[:2]
    for p in props.split(','):
        rules[p].append(rid)
TEXT = json.load(open('manifest_text.json'))
props = [json.loads(l) for l in open('properties.jsonl')]
checks, na = [], []
for p in props:
    pid = p['id']
    t = TEXT.get(pid, {})
    if pid in rules and 'text' in t and not t.get('not_applicable'):
        checks.append({
            "property_id": pid,
            "quick_cmd": f"./run {pid} quick",
            "thorough_cmd": f"./run {pid} thorough",
            "evidence_file": f"/verif/evidence/{pid}.json",
            "replay_cmd_template": f"./run {pid} --replay {{path}}",
            "engine": "specvet",
            "level_claimed": {"category": t.get('level', 'other'), "text": t['text'], "design_ref": f"DESIGN.md §4 {pid}"},
            "level_note": t['note'],
            "technique": t['technique'] + " (rules " + ", ".join(sorted(set(rules[pid]))) + ")",
        })
    else:
        na.append({"property_id": pid, "reason": t.get('not_applicable', 'no sound static rule built for this property yet; see DESIGN.md')})
m = {
    "version": 1,
    "setup_cmd": "./setup.sh",
    "hooks": {"guard": "verif", "enable": "n/a - static analysis needs no instrumentation; no hook commits exist", "baseline_off_cmd": "cd /repo && GOFLAGS=-mod=mod GOPROXY=off go test -vet=off -count=1 ./...", "source_commits": [], "add_only": True},
    "engines": [{"name": "specvet", "path": "/verif/checker", "serves_properties": sorted(c['property_id'] for c in checks), "kind_free_text": "purpose-built static analyser (Go, go/packages + go/ssa + call graph over the type-checked program of /repo); one process per property; decides structural necessary conditions, reports file:line + rule + construct"}],
    "checks": checks,
    "not_applicable": na,
    "notes": "Static analysis only: no test of basecomplextech/spec is executed by any check. ./run <Cxx> <tier> rebuilds specvet and analyses /repo's current working tree. Findings recorded in known_findings.json print KNOWN-FINDING and do not fail. An obligation the analyser cannot decide is reported as a violation (sound: alarm unless proved).",
}
json.dump(m, open('MANIFEST.json', 'w'), indent=1)
print("checks:", [c['property_id'] for c in checks]); print("not_applicable:", [n['property_id'] for n in na])
