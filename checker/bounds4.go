package main

import (
	"fmt"
	"go/ast"
	"go/types"
	"sort"

	"golang.org/x/tools/go/ssa"
)

// inferPost finds postconditions of private helpers that the signature convention does not reach (the bytes-like
// parameter is not the first one, the success flag is a bool, the bytes live in a field of the receiver).
//
// Eligible: an unexported function of the cone without declared postconditions whose last result is an error or a
// bool (the success flag) and that has at least one int result. Candidates, all conditioned on success
// (err == nil / ok == true), for every int result r:
//
//	r >= 0;   r <= len(q) for every bytes-like parameter q;   r <= len(p.f) for every bytes-like field path f
//	(depth <= 2) of a struct parameter p (the receiver included);   r <= r' for every other int result r'.
//
// Candidates are assumed at the calls (recursive ones too) and proved at every successful return of the candidate's
// own body; a candidate that cannot be proved under the candidates still standing is dropped, until nothing changes
// (Houdini greatest fixpoint - sound for partial correctness). What survives is a contract like any other: used
// at the call sites, re-proved and reported as "post" obligations by verifyFunc. A dropped candidate is not an
// obligation - nothing states that an arbitrary helper's int result is a size.
type postCand struct {
	q    CIneq
	desc string
}

func bytesFieldPaths(t types.Type, prefix string, depth int) []string {
	st, ok := t.Underlying().(*types.Struct)
	if !ok || depth > 2 {
		return nil
	}
	var out []string
	for i := 0; i < st.NumFields(); i++ {
		f := st.Field(i)
		if bytesLike(f.Type()) {
			out = append(out, prefix+"."+f.Name())
		} else if _, isSt := f.Type().Underlying().(*types.Struct); isSt {
			out = append(out, bytesFieldPaths(f.Type(), prefix+"."+f.Name(), depth+1)...)
		}
	}
	return out
}

func (e *BE) inferPost(cone []*ssa.Function) []string {
	e.inferredPost = map[*ssa.Function]*Contract{}
	cands := map[*ssa.Function][]postCand{}
	isErr := func(t types.Type) bool { return types.Identical(t, types.Universe.Lookup("error").Type()) }
	flagged := map[*ssa.Function]bool{}
	for _, f := range cone {
		if f.Parent() != nil || f.Origin() != nil || f.Blocks == nil {
			continue
		}
		hasBase := false
		if c := e.contractBase(f); c != nil {
			if c.Axiom {
				continue
			}
			hasBase = len(c.Post)+len(c.PostOK)+len(c.Locality) > 0
		}
		rs := f.Signature.Results()
		if rs.Len() == 0 {
			continue
		}
		if hasBase {
			// a declared / conventional contract exists: only add what it cannot say - how the table fields of a
			// returned List / Message relate to the returned size (decodeList: l.table.data + len(l.table.table) <= n)
			if rs.Len() >= 2 && isErr(rs.At(rs.Len()-1).Type()) {
				var cs []postCand
				for i := 0; i < rs.Len()-1; i++ {
					if !hasInv(rs.At(i).Type()) {
						continue
					}
					for k := 0; k < rs.Len()-1; k++ {
						b, ok := rs.At(k).Type().Underlying().(*types.Basic)
						if !ok || b.Kind() != types.Int {
							continue
						}
						for _, ip := range intFieldPaths(rs.At(i).Type(), "", 0) {
							cs = append(cs, postCand{cLE(cFieldR(i, ip, 'v'), cR(k)), fmt.Sprintf("result %d%s <= result %d", i, ip, k)})
							for _, bp := range bytesFieldPaths(rs.At(i).Type(), "", 0) {
								cs = append(cs, postCand{cLE(cAdd(cFieldR(i, ip, 'v'), cFieldR(i, bp, 'l')), cR(k)), fmt.Sprintf("result %d%s + len(result %d%s) <= result %d", i, ip, i, bp, k)})
							}
						}
					}
				}
				if len(cs) > 0 {
					flagged[f] = true
					cands[f] = cs
				}
			}
			continue
		}
		// with a success flag (error / bool as last result) the candidates hold on success; without one, always
		nval := rs.Len()
		if rs.Len() >= 2 && (isErr(rs.At(rs.Len()-1).Type()) || isBoolType(rs.At(rs.Len()-1).Type())) {
			flagged[f] = true
			nval = rs.Len() - 1
		} else if ast.IsExported(f.Name()) && !(rs.Len() == 1 && bytesLike(rs.At(0).Type())) {
			continue
		}
		var ints, byts []int
		for i := 0; i < nval; i++ {
			if b, ok := rs.At(i).Type().Underlying().(*types.Basic); ok && b.Kind() == types.Int {
				ints = append(ints, i)
			}
			if bytesLike(rs.At(i).Type()) {
				byts = append(byts, i)
			}
		}
		if ast.IsExported(f.Name()) && flagged[f] && len(byts) == 0 {
			// exported (value, n, err) functions are the signature convention's business
			if f.Signature.Recv() == nil {
				continue
			}
		}
		var cs []postCand
		// a bytes-like result is no longer than a bytes-like parameter / field, or than an integer field of a struct
		// parameter (the data size of a table: l.bytes[start:end] with end <= l.table.data)
		for _, i := range byts {
			for j, p := range f.Params {
				if bytesLike(p.Type()) {
					cs = append(cs, postCand{cLE(cLenR(i), cLenP(j)), fmt.Sprintf("len(result %d) <= len(%s)", i, p.Name())})
				}
				for _, path := range bytesFieldPaths(p.Type(), "", 0) {
					cs = append(cs, postCand{cLE(cLenR(i), cFieldP(j, path, 'l')), fmt.Sprintf("len(result %d) <= len(%s%s)", i, p.Name(), path)})
				}
				for _, path := range intFieldPaths(p.Type(), "", 0) {
					cs = append(cs, postCand{cLE(cLenR(i), cFieldP(j, path, 'v')), fmt.Sprintf("len(result %d) <= %s%s", i, p.Name(), path)})
				}
			}
		}
		for _, i := range ints {
			cs = append(cs, postCand{cGE(cR(i), cK(0)), fmt.Sprintf("result %d >= 0", i)})
			for j, p := range f.Params {
				if bytesLike(p.Type()) {
					cs = append(cs, postCand{cLE(cR(i), cLenP(j)), fmt.Sprintf("result %d <= len(%s)", i, p.Name())})
				}
				for _, path := range bytesFieldPaths(p.Type(), "", 0) {
					cs = append(cs, postCand{cLE(cR(i), cFieldP(j, path, 'l')), fmt.Sprintf("result %d <= len(%s%s)", i, p.Name(), path)})
				}
				for _, path := range intFieldPaths(p.Type(), "", 0) {
					cs = append(cs, postCand{cLE(cR(i), cFieldP(j, path, 'v')), fmt.Sprintf("result %d <= %s%s", i, p.Name(), path)})
				}
			}
			for _, k := range ints {
				if k != i {
					cs = append(cs, postCand{cLE(cR(i), cR(k)), fmt.Sprintf("result %d <= result %d", i, k)})
				}
			}
		}
		if len(cs) > 0 {
			cands[f] = cs
		}
	}
	install := func() {
		e.inferredPost = map[*ssa.Function]*Contract{}
		for f, cs := range cands {
			con := &Contract{Note: "inferred postcondition"}
			for _, c := range cs {
				if flagged[f] {
					con.PostOK = append(con.PostOK, c.q)
				} else {
					con.Post = append(con.Post, c.q)
				}
			}
			e.inferredPost[f] = con
		}
	}
	var fs []*ssa.Function
	for f := range cands {
		fs = append(fs, f)
	}
	sort.Slice(fs, func(i, j int) bool { return fnKey(fs[i]) < fnKey(fs[j]) })
	for round := 0; round < 8; round++ {
		install()
		changed := false
		for _, f := range fs {
			if len(cands[f]) == 0 {
				continue
			}
			fc := e.newFnCtx(f)
			env := &cenv{e: e}
			for _, p := range f.Params {
				env.params = append(env.params, p)
			}
			var keep []postCand
			for _, cand := range cands[f] {
				ok := true
				for _, ret := range returnsOf(f) {
					if ret.Block() == f.Recover {
						continue
					}
					var extra *factSet
					if flagged[f] {
						last := ret.Results[len(ret.Results)-1]
						ex, feasible := okExtra(last)
						if !feasible {
							continue
						}
						extra = ex
					}
					env.results = ret.Results
					goal, good := func() (q Ineq, good bool) {
						defer func() {
							if recover() != nil {
								good = false
							}
						}()
						return cand.q(env), true
					}()
					budget := 400
					if !good || !fc.prove(goal, ret.Block(), extra, nil, 6, &budget) {
						ok = false
						break
					}
				}
				if ok {
					keep = append(keep, cand)
				} else {
					changed = true
				}
			}
			cands[f] = keep
		}
		if !changed {
			break
		}
	}
	for f, cs := range cands {
		if len(cs) == 0 {
			delete(cands, f)
		}
	}
	install()
	var out []string
	for f, cs := range cands {
		for _, c := range cs {
			out = append(out, fnKey(f)+": "+c.desc)
		}
	}
	sort.Strings(out)
	return out
}

// okExtra: the facts under which a return with success flag `last` (an error or a bool) is a successful return;
// feasible is false when the flag is a constant failure.
func okExtra(last ssa.Value) (*factSet, bool) {
	extra := &factSet{}
	if isBoolType(last.Type()) {
		if c, ok := last.(*ssa.Const); ok && c.Value != nil {
			return extra, c.Value.String() == "true"
		}
		extra.atoms = append(extra.atoms, Atom{V: last, Bool: true, Truth: true})
		return extra, true
	}
	if knownNonNil(last) {
		return extra, false
	}
	if !isNilConst(last) {
		extra.atoms = append(extra.atoms, Atom{V: last, IsNil: true})
	}
	return extra, true
}
