package main

import (
	"go/token"

	"golang.org/x/tools/go/ssa"
)

// nilWhenNegative: in fn, whenever v < 0 the (single, bytes-like) result is nil. Decided on the exact ways of
// reaching each return (one alternative per acyclic path, so `v < 0 || v > size` guards are seen): a return of
// something other than the nil constant is acceptable only if every way of reaching it passes a branch that implies
// v >= 0 (or v > k / v >= k / v == k with k >= 0), or if it forwards the result of a helper that is handed v and
// has the same property for that parameter.
func nilWhenNegative(fn *ssa.Function, v ssa.Value, depth int) bool {
	if depth > 3 || fn.Blocks == nil {
		return false
	}
	rets := returnsOf(fn)
	if len(rets) == 0 {
		return false
	}
	for _, ret := range rets {
		if len(ret.Results) != 1 {
			return false
		}
		res := unspill(ret.Results[0])
		if isNilConst(res) {
			continue
		}
		// forwarded helper result
		if call, ok := res.(*ssa.Call); ok {
			if callee := call.Call.StaticCallee(); callee != nil && callee.Blocks != nil {
				forwarded := false
				for i, a := range call.Call.Args {
					if a == v && i < len(callee.Params) {
						forwarded = nilWhenNegative(callee, callee.Params[i], depth+1)
					}
				}
				if forwarded {
					continue
				}
			}
		}
		for _, path := range backPaths(ret.Block(), nil, 64) {
			if !impliesNonNegative(path, v) {
				return false
			}
		}
	}
	return true
}

func impliesNonNegative(path []Cond, v ssa.Value) bool {
	for _, cd := range path {
		for _, rel := range relsOf(cd) {
			x, y, op := rel.X, rel.Y, rel.Op
			if y == v {
				x, y = y, x
				switch op {
				case token.LSS:
					op = token.GTR
				case token.LEQ:
					op = token.GEQ
				case token.GTR:
					op = token.LSS
				case token.GEQ:
					op = token.LEQ
				}
			}
			if x != v {
				continue
			}
			k, ok := constInt(y)
			if !ok {
				continue
			}
			switch op {
			case token.GEQ, token.EQL:
				if k >= 0 {
					return true
				}
			case token.GTR:
				if k >= -1 {
					return true
				}
			}
		}
	}
	return false
}
