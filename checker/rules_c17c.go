package main

import (
	"go/token"
	"go/types"
	"strings"

	"golang.org/x/tools/go/ssa"
)

// selfAppendLine: every append on this line of fn (a method of a type of internal/writer with a pointer receiver)
// grows a slice field of the receiver and stores the result back into that same field:  s.stack = append(s.stack, e).
// The nesting stacks live in the pooled writer state and are truncated, not dropped, on reset: the append allocates
// only while the stack is deeper than ever before (amortised, not per message).
func selfAppendLine(c *Ctx, fn *ssa.Function, line int) bool {
	if fn.Signature.Recv() == nil || len(fn.Params) == 0 || fn.Pkg == nil || !strings.HasSuffix(fn.Pkg.Pkg.Path(), "internal/writer") {
		return false
	}
	if _, isPtr := fn.Params[0].Type().(*types.Pointer); !isPtr {
		return false
	}
	recv := ssa.Value(fn.Params[0])
	n := 0
	ok := true
	allInstrs(fn, func(i ssa.Instruction) {
		call, isCall := i.(*ssa.Call)
		if !isCall || c.Fset.Position(i.Pos()).Line != line {
			return
		}
		b, isB := call.Call.Value.(*ssa.Builtin)
		if !isB || b.Name() != "append" {
			return
		}
		n++
		ld, isLd := call.Call.Args[0].(*ssa.UnOp)
		if !isLd || ld.Op != token.MUL {
			ok = false
			return
		}
		fa, isFA := ld.X.(*ssa.FieldAddr)
		if !isFA || fa.X != recv {
			ok = false
			return
		}
		stored := false
		for _, u := range users(call) {
			if st, isSt := u.(*ssa.Store); isSt && st.Val == ssa.Value(call) {
				if fa2, isFA2 := st.Addr.(*ssa.FieldAddr); isFA2 && fa2.X == recv && fieldOf(fa2) == fieldOf(fa) {
					stored = true
				}
			}
		}
		if !stored {
			ok = false
		}
	})
	return ok && n > 0
}
