package main

import (
	"fmt"
	"go/constant"
	"go/token"
	"go/types"
	"sort"
	"strings"

	"golang.org/x/tools/go/ssa"
)

func init() {
	props["C11"] = &propInfo{Level: "other", Explanation: "Decides the structural part of 'handlers run only on negotiated connections and a hostile peer is confined to its connection': (R11.1) in handshakeAsServer/handshakeAsClient every return whose status may be OK (provenance lattice OK / NonOK / may-be-OK over status values) is dominated by handshaked.Set(), and Set() itself is dominated by the successful edges of the protocol-line comparison, the request/response read, the version check (and resp.Ok() on the client); (R11.2) the receive and send loops are started only on the OK edge of handshake(), createChannel hands out a channel only under handshaked.IsSet(), newChannelHandler is called only from receiveOpen; (R11.3) the message handed to dispatch comes from readMessage, whose OK return is dominated by a successful pmpx.ParseMessage; (R11.4) receiveMessage dispatches exactly {Batch, ChannelOpen, ChannelClose, ChannelData, ChannelWindow}, and the default, nested-batch and duplicate-open paths return a NonOK status; (R11.5) the per-connection goroutine of server.handle and ConnectDialer recover panics. Not decided: isolation between connections at run time, behaviour under arbitrary frame sequences.",
		Trusted: []string{"status.Status.OK() is Code == \"ok\" (read in the dependency)", "status constructors other than OKf/New(CodeOK) return non-OK statuses"}}

	register(&Rule{ID: "R11.1", Props: []string{"C11"}, Floor: 4,
		Doc: "handshake: every possibly-OK return is dominated by handshaked.Set(); Set() is dominated by the protocol/version/read checks",
		Run: runR11_1})
	register(&Rule{ID: "R11.2", Props: []string{"C11"}, Floor: 4,
		Doc: "loops start only after an OK handshake; channels are created only under handshaked.IsSet(); handlers are created only by receiveOpen",
		Run: runR11_2})
	register(&Rule{ID: "R11.4", Props: []string{"C11", "C03", "C20"}, Floor: 4,
		Doc: "dispatch exhaustiveness: receiveMessage handles exactly the 5 channel codes; default, nested batch and duplicate open are NonOK",
		Run: runR11_4})
}

func isFieldCall(call ssa.CallInstruction, field, method string) bool {
	cc := call.Common()
	if !cc.IsInvoke() || cc.Method.Name() != method {
		return false
	}
	u, ok := cc.Value.(*ssa.UnOp)
	if !ok || u.Op != token.MUL {
		return false
	}
	fa, ok := u.X.(*ssa.FieldAddr)
	return ok && fieldOf(fa).Name() == field
}

func runR11_1(c *Ctx, r *R) {
	sa := newStatusAn(c)
	protoLine := ""
	if p := c.Pkg("mpx"); p != nil {
		if k, ok := p.Types.Scope().Lookup("ProtocolLine").(*types.Const); ok {
			protoLine = constant.StringVal(k.Val())
		}
	}
	for _, spec := range []struct {
		fn   string
		need []string
	}{
		{"conn.handshakeAsServer", []string{"protocol-line", "read-ok:readLine", "read-ok:readRequest", "version"}},
		{"conn.handshakeAsClient", []string{"protocol-line", "read-ok:readLine", "read-ok:readResponse", "resp.Ok", "version"}},
	} {
		f := r.Need("mpx", spec.fn)
		if f == nil {
			continue
		}
		var sets []ssa.Instruction
		for _, call := range callsIn(f, false) {
			if isFieldCall(call, "handshaked", "Set") {
				sets = append(sets, call.(ssa.Instruction))
			}
		}
		if len(sets) == 0 {
			r.Bad(fnKey(f)+"/handshaked.Set", f.Pos(), "the handshake never sets the handshaked flag")
			continue
		}
		// (a) returns
		n := 0
		for _, ret := range returnsOf(f) {
			n++
			key := fmt.Sprintf("%s/return#%d", fnKey(f), n)
			if len(ret.Results) != 1 {
				r.Unk(key, ret.Pos(), "unexpected result count")
				continue
			}
			cl := sa.classOf(ret.Results[0], ret.Block(), false, 0)
			dominated := false
			for _, s := range sets {
				if dominatesInstr(s, ret) {
					dominated = true
				}
			}
			switch {
			case cl == SNonOK:
				r.OK(key, ret.Pos(), "returns a non-OK status")
			case dominated:
				r.OK(key, ret.Pos(), "status %s, after handshaked.Set()", cl)
			default:
				r.Bad(key, ret.Pos(), "returns a status that %s without having set handshaked: conn.run starts the receive/send loops on an OK status, so a connection that was refused or not negotiated would be served", map[SClass]string{SOK: "is OK", SUnknown: "may be OK"}[cl])
			}
		}
		// (b) guards of Set()
		for i, s := range sets {
			key := fmt.Sprintf("%s/handshaked.Set#%d/guards", fnKey(f), i+1)
			have := map[string]bool{}
			for _, cd := range pathConds(s.Block()) {
				for _, g := range classifyHandshakeGuard(cd, protoLine) {
					have[g] = true
				}
			}
			var missing []string
			for _, nd := range spec.need {
				if !have[nd] {
					missing = append(missing, nd)
				}
			}
			if len(missing) == 0 {
				r.OK(key, s.Pos(), "guarded by %s", strings.Join(spec.need, ", "))
			} else {
				r.Bad(key, s.Pos(), "handshaked.Set() is reachable without the successful edge of: %s (guards found: %s)", strings.Join(missing, ", "), strings.Join(sortedKeys(have), ", "))
			}
		}
	}
}

// classifyHandshakeGuard names the negotiation checks a dominating condition establishes.
func classifyHandshakeGuard(cd Cond, protoLine string) []string {
	return classifyHandshakeGuardD(cd, protoLine, 0)
}

func classifyHandshakeGuardD(cd Cond, protoLine string, depth int) []string {
	cv, truth := cd.V, cd.Truth
	if un, ok := cv.(*ssa.UnOp); ok && un.Op == token.NOT {
		cv, truth = un.X, !truth
	}
	var out []string
	switch x := cv.(type) {
	case *ssa.BinOp:
		if x.Op != token.EQL && x.Op != token.NEQ {
			break
		}
		eq := (x.Op == token.EQL) == truth
		for _, side := range []ssa.Value{x.X, x.Y} {
			k, ok := side.(*ssa.Const)
			if !ok || k.Value == nil {
				continue
			}
			if k.Value.Kind() == constant.String && constant.StringVal(k.Value) == protoLine && eq {
				out = append(out, "protocol-line")
			}
			if typeIs(k.Type(), pkgPath("proto/pmpx"), "Version") && eq {
				out = append(out, "version")
			}
		}
	case *ssa.Call:
		if v, ok := okCallOn(x); ok && truth {
			if ex, ok := v.(*ssa.Extract); ok {
				if call, ok := ex.Tuple.(*ssa.Call); ok {
					if o := calleeObj(call); o != nil {
						out = append(out, "read-ok:"+o.Name())
					}
				}
			}
			if call, ok := v.(*ssa.Call); ok {
				if o := calleeObj(call); o != nil {
					out = append(out, "write-ok:"+o.Name())
				}
			}
		}
		if o := calleeObj(x); o != nil && objName(o) == "ConnectResponse.Ok" && truth {
			out = append(out, "resp.Ok")
		}
		// a predicate helper of the package (requestSupportsVersion10(req)): its true result establishes what every
		// one of its true-returns establishes
		if callee := x.Call.StaticCallee(); callee != nil && callee.Blocks != nil && isBoolType(x.Type()) && truth && depth < 2 && callee.Pkg != nil && relPkg(callee.Pkg.Pkg.Path()) == "mpx" {
			var common map[string]bool
			for _, ret := range returnsOf(callee) {
				if len(ret.Results) != 1 {
					continue
				}
				rv := ret.Results[0]
				if k, ok := rv.(*ssa.Const); ok && k.Value != nil && k.Value.String() == "false" {
					continue
				}
				have := map[string]bool{}
				for _, alt := range backPaths(ret.Block(), nil, 32) {
					// guards that hold on this way of reaching the return; a guard counts only if on every way
					altHave := map[string]bool{}
					for _, pc := range alt {
						for _, g := range classifyHandshakeGuardD(pc, protoLine, depth+1) {
							altHave[g] = true
						}
					}
					if len(have) == 0 {
						have = altHave
						if len(have) == 0 {
							have = map[string]bool{"": true} // marker: some path establishes nothing
						}
					} else {
						for g := range have {
							if !altHave[g] {
								delete(have, g)
							}
						}
						if len(have) == 0 {
							have = map[string]bool{"": true}
						}
					}
				}
				if k, ok := rv.(*ssa.Const); !ok || k.Value == nil {
					for _, g := range classifyHandshakeGuardD(Cond{rv, true}, protoLine, depth+1) {
						have[g] = true
					}
				}
				if common == nil {
					common = have
				} else {
					for g := range common {
						if !have[g] {
							delete(common, g)
						}
					}
				}
			}
			for g := range common {
				if g != "" {
					out = append(out, g)
				}
			}
		}
	case *ssa.Phi:
		// `ok` flag of the version loop: a bool phi with a true edge set under  v == Version10
		if truth {
			for i, e := range x.Edges {
				if k, ok := e.(*ssa.Const); ok && k.Value != nil && k.Value.String() == "true" {
					for _, pc := range pathConds(x.Block().Preds[i]) {
						for _, g := range classifyHandshakeGuardD(pc, protoLine, depth) {
							if g == "version" {
								out = append(out, "version")
							}
						}
					}
					// the edge itself may be the true edge of the comparison
					pred := x.Block().Preds[i]
					if c := ifCond(pred); c != nil {
						for _, g := range classifyHandshakeGuardD(Cond{c, pred.Succs[0] == x.Block()}, protoLine, depth) {
							if g == "version" {
								out = append(out, "version")
							}
						}
					}
				}
			}
		}
	}
	return out
}

func runR11_2(c *Ctx, r *R) {
	// loops started only on the OK edge of handshake(): wherever in the package a loop is started, the start - or,
	// when it sits in a helper (conn.runLoops), every call of that helper - lies behind handshake().OK()
	if f := r.Need("mpx", "conn.run"); f != nil {
		hsOK := func(cd Cond, fn *ssa.Function) bool {
			cv, truth := cd.V, cd.Truth
			if un, ok := cv.(*ssa.UnOp); ok && un.Op == token.NOT {
				cv, truth = un.X, !truth
			}
			v, ok := okCallOn(cv)
			if !ok || !truth {
				return false
			}
			call, ok := v.(*ssa.Call)
			if !ok {
				return false
			}
			o := calleeObj(call)
			return o != nil && objName(o) == "conn.handshake"
		}
		for _, loop := range []string{"receiveLoop", "sendLoop"} {
			key := fnKey(f) + "/start-" + loop
			var starts []ssa.Instruction
			for _, g := range c.SrcFuncs("mpx") {
				if strings.HasPrefix(baseName(c.Fset.Position(g.Pos()).Filename), "test_") {
					continue
				}
				allInstrs(g, func(i ssa.Instruction) {
					// method value c.receiveLoop is a MakeClosure over the bound method wrapper
					if mc, ok := i.(*ssa.MakeClosure); ok {
						if fn, ok := mc.Fn.(*ssa.Function); ok && strings.Contains(fn.Name(), loop) {
							starts = append(starts, i)
						}
					}
					if call, ok := i.(ssa.CallInstruction); ok {
						if o := calleeObj(call); o != nil && objName(o) == "conn."+loop {
							starts = append(starts, i)
						}
					}
				})
			}
			if len(starts) == 0 {
				r.Unk(key, f.Pos(), "anchor lost: %s is not started anywhere in package mpx", loop)
				continue
			}
			okAll := true
			for _, s := range starts {
				if !guardedThroughCallers(c, "mpx", s, hsOK, 0) {
					okAll = false
				}
			}
			if okAll {
				r.OK(key, starts[0].Pos(), "started only after handshake().OK()")
			} else {
				r.Bad(key, starts[0].Pos(), "%s can start without a successful handshake: frames of a connection that was not negotiated would be dispatched to handlers", loop)
			}
		}
	}
	// createChannel returns a channel only under handshaked.IsSet()
	if f := r.Need("mpx", "conn.createChannel"); f != nil {
		n := 0
		for _, ret := range returnsOf(f) {
			if len(ret.Results) == 0 || isNilConst(unspill(ret.Results[0])) || ret.Block() == f.Recover {
				continue
			}
			n++
			key := fmt.Sprintf("%s/return-channel#%d", fnKey(f), n)
			guarded := false
			for _, cd := range pathConds(ret.Block()) {
				cv, truth := cd.V, cd.Truth
				if un, ok := cv.(*ssa.UnOp); ok && un.Op == token.NOT {
					cv, truth = un.X, !truth
				}
				if call, ok := cv.(*ssa.Call); ok && isFieldCall(call, "handshaked", "IsSet") && truth {
					guarded = true
				}
			}
			if guarded {
				r.OK(key, ret.Pos(), "channel returned only under handshaked.IsSet()")
			} else {
				r.Bad(key, ret.Pos(), "a channel can be created on a connection whose handshake has not completed")
			}
		}
		if n == 0 {
			r.Unk(fnKey(f)+"/return-channel", f.Pos(), "no non-nil channel return found")
		}
	}
	// newChannelHandler only from receiveOpen
	var callers []string
	for _, fn := range c.SrcFuncs("mpx") {
		for _, call := range callsIn(fn, false) {
			if o := calleeObj(call); o != nil && o.Name() == "newChannelHandler" && o.Pkg().Path() == pkgPath("mpx") {
				callers = append(callers, fnKey(fn))
			}
		}
	}
	sort.Strings(callers)
	callers = uniq(callers)
	if len(callers) == 1 && callers[0] == "mpx.conn.receiveOpen" {
		r.OK("mpx.newChannelHandler/callers", 0, "called only from conn.receiveOpen")
	} else {
		r.Bad("mpx.newChannelHandler/callers", 0, "handler tasks are created from %v, expected only conn.receiveOpen", callers)
	}
}

func runR11_4(c *Ctx, registered *R) {
	// registered for C11, C03 and C20; only "a second open frame for a live channel id is rejected" also belongs to
	// C20 (a channel id is handed to exactly one handler; an overwriting insert starts a second one and orphans the first)
	r := &R{c: c, rule: &Rule{ID: registered.rule.ID, Props: []string{"C11", "C03"}}}
	rDup := &R{c: c, rule: &Rule{ID: registered.rule.ID, Props: []string{"C11", "C03", "C20"}}}
	defer func() { registered.n += r.n + rDup.n }()
	f := r.Need("mpx", "conn.receiveMessage")
	if f == nil {
		return
	}
	sa := newStatusAn(c)
	p := c.Pkg("proto/pmpx")
	codeName := map[int64]string{}
	if p != nil {
		for _, n := range p.Types.Scope().Names() {
			if k, ok := p.Types.Scope().Lookup(n).(*types.Const); ok && strings.HasPrefix(n, "Code_") {
				if v, ok := constIntVal(k); ok {
					codeName[v] = n
				}
			}
		}
	}
	labels := typeSwitchLabels(f, func(v ssa.Value) bool { return typeIs(v.Type(), pkgPath("proto/pmpx"), "Code") })
	var got []string
	for v := range labels {
		got = append(got, codeName[v])
	}
	sort.Strings(got)
	want := []string{"Code_Batch", "Code_ChannelClose", "Code_ChannelData", "Code_ChannelOpen", "Code_ChannelWindow"}
	if strings.Join(got, ",") == strings.Join(want, ",") {
		r.OK(fnKey(f)+"/codes", f.Pos(), "dispatches exactly %v", got)
	} else {
		r.Bad(fnKey(f)+"/codes", f.Pos(), "dispatches %v, expected exactly %v", got, want)
	}
	// The dispatch may be one function or several (top-level / inside-a-batch / single-message helpers): every
	// receive* method of the connection that steers control by a frame code belongs to it. In each of them a return
	// that is not the result of another receive* method must be NonOK (default arm, nested batch).
	isCode := func(v ssa.Value) bool { return typeIs(v.Type(), pkgPath("proto/pmpx"), "Code") }
	var dispatch []*ssa.Function
	for _, g := range c.SrcFuncs("mpx") {
		if g.Parent() != nil || g.Signature.Recv() == nil || !strings.HasPrefix(g.Name(), "receive") {
			continue
		}
		if n := namedOf(g.Signature.Recv().Type()); n == nil || n.Obj().Name() != "conn" {
			continue
		}
		own := map[int64]bool{}
		typeSwitchLabelsInto(g, isCode, own, 3, map[*ssa.Function]bool{}) // depth 3: this function only
		if len(own) > 0 {
			dispatch = append(dispatch, g)
		}
	}
	for _, g := range dispatch {
		n := 0
		for _, ret := range returnsOf(g) {
			if len(ret.Results) != 1 {
				continue
			}
			if call, ok := ret.Results[0].(*ssa.Call); ok {
				if o := calleeObj(call); o != nil && strings.HasPrefix(o.Name(), "receive") {
					continue
				}
			}
			n++
			key := fmt.Sprintf("%s/reject#%d", fnKey(g), n)
			cl := sa.classOf(ret.Results[0], ret.Block(), false, 0)
			if cl == SNonOK {
				r.OK(key, ret.Pos(), "unexpected / nested-batch message is a connection error")
			} else {
				r.Bad(key, ret.Pos(), "an unexpected message code or a nested batch is answered with a status that %s instead of a connection error", cl)
			}
		}
	}
	// the nested-batch rejection: nothing receiveBatch calls for the messages inside a batch can reach receiveBatch
	// again. Calls are followed inside the package with constant bool arguments propagated into the callee's
	// branches (receiveMessage(m, true) cannot take the `!insideBatch` arm).
	if rb := r.Need("mpx", "conn.receiveBatch"); rb != nil {
		// functions of the package from which receiveBatch is reachable at all (plain static call graph)
		can := map[*ssa.Function]bool{rb: true}
		for changed := true; changed; {
			changed = false
			for _, g := range c.SrcFuncs("mpx") {
				if can[g] {
					continue
				}
				for _, call := range callsIn(g, false) {
					if cal := call.Common().StaticCallee(); cal != nil && can[cal] {
						can[g] = true
						changed = true
						break
					}
				}
			}
		}
		var reaches func(fn *ssa.Function, env map[*ssa.Parameter]bool, depth int, seen map[string]bool) bool
		reaches = func(fn *ssa.Function, env map[*ssa.Parameter]bool, depth int, seen map[string]bool) bool {
			if depth > 8 {
				return true // give up: assume reachable
			}
			sig := fnKey(fn)
			for _, p := range fn.Params {
				if v, ok := env[p]; ok {
					sig += fmt.Sprintf("|%s=%v", p.Name(), v)
				}
			}
			if seen[sig] {
				return false
			}
			seen[sig] = true
			for _, call := range callsIn(fn, false) {
				feasible := true
				for _, cd := range pathConds(call.Block()) {
					v, truth := cd.V, cd.Truth
					if un, ok := v.(*ssa.UnOp); ok && un.Op == token.NOT {
						v, truth = un.X, !truth
					}
					if p, ok := v.(*ssa.Parameter); ok {
						if val, known := env[p]; known && val != truth {
							feasible = false
						}
					}
				}
				if !feasible {
					continue
				}
				callee := call.Common().StaticCallee()
				if callee == nil || callee.Blocks == nil || callee.Pkg != fn.Pkg || !can[callee] {
					continue
				}
				if callee == rb {
					return true
				}
				env2 := map[*ssa.Parameter]bool{}
				for i, a := range call.Common().Args {
					if k, ok := a.(*ssa.Const); ok && k.Value != nil && isBoolType(k.Type()) && i < len(callee.Params) {
						env2[callee.Params[i]] = k.Value.String() == "true"
					}
				}
				if reaches(callee, env2, depth+1, seen) {
					return true
				}
			}
			return false
		}
		if reaches(rb, map[*ssa.Parameter]bool{}, 0, map[string]bool{}) {
			r.Bad(fnKey(f)+"/nested-batch", f.Pos(), "a batch inside a batch is dispatched again (unbounded recursion on hostile input): receiveBatch can be reached from the handling of the messages inside a batch")
		} else {
			r.OK(fnKey(f)+"/nested-batch", f.Pos(), "receiveBatch is not reachable from the handling of the messages inside a batch")
		}
	}
	// duplicate open is NonOK: in receiveOpen, or in the unexported helper that inserts for it (conn.addOpened), the
	// exits behind GetOrSet's exists == true return a NonOK status; the handler is started only where exists == false
	// is established (directly, or by the OK status of that helper)
	if g := r.Need("mpx", "conn.receiveOpen"); g != nil {
		found := false
		hosts := []*ssa.Function{g}
		for _, call := range callsIn(g, false) {
			if h := call.Common().StaticCallee(); h != nil && h.Blocks != nil && h.Pkg == g.Pkg && h != g {
				hosts = append(hosts, h)
			}
		}
		existsOf := func(cd Cond) (bool, bool) {
			v, truth := cd.V, cd.Truth
			for {
				un, isNot := v.(*ssa.UnOp)
				if !isNot || un.Op != token.NOT {
					break
				}
				v, truth = un.X, !truth
			}
			if ex, ok := v.(*ssa.Extract); ok {
				if call, ok := ex.Tuple.(*ssa.Call); ok {
					if o := calleeObj(call); o != nil && o.Name() == "GetOrSet" {
						return truth, true
					}
				}
			}
			return false, false
		}
		for _, h := range hosts {
			for _, ret := range returnsOf(h) {
				for _, cd := range pathConds(ret.Block()) {
					if truth, ok := existsOf(cd); ok && truth && len(ret.Results) > 0 {
						found = true
						cl := sa.classOf(ret.Results[len(ret.Results)-1], ret.Block(), false, 0)
						if cl == SNonOK {
							rDup.OK(fnKey(g)+"/duplicate-open", ret.Pos(), "duplicate channel id is a connection error")
						} else {
							rDup.Bad(fnKey(g)+"/duplicate-open", ret.Pos(), "duplicate channel id returns a status that %s", cl)
						}
					}
				}
			}
		}
		if !found {
			rDup.Bad(fnKey(g)+"/duplicate-open", g.Pos(), "no rejection path for an open frame with an existing channel id")
		}
		notExists := func(b *ssa.BasicBlock) bool {
			for _, cd := range pathConds(b) {
				if truth, ok := existsOf(cd); ok && !truth {
					return true
				}
			}
			return false
		}
		for _, call := range callsIn(g, false) {
			if o := calleeObj(call); o != nil && o.Name() == "newChannelHandler" {
				if establishedVia(sa, call.Block(), notExists, 0) {
					rDup.OK(fnKey(g)+"/duplicate-open/handler", call.Pos(), "the handler is started only for a channel id that was not registered before")
				} else {
					rDup.Bad(fnKey(g)+"/duplicate-open/handler", call.Pos(), "a handler is started although the open frame's channel id may already be registered: two handlers serve one id, frames of the first channel reach the second")
				}
			}
		}
	}
}
