package main

import (
	"go/constant"
	"go/token"
	"go/types"
	"strings"

	"golang.org/x/tools/go/ssa"
)

// Provenance lattice for status.Status values: is the value certainly OK, certainly not OK, or unknown.

const statusPath = "github.com/basecomplextech/baselibrary/status"

type SClass int

const (
	SBottom SClass = iota // no value (unreachable)
	SOK
	SNonOK
	SUnknown
)

func (a SClass) join(b SClass) SClass {
	switch {
	case a == SBottom:
		return b
	case b == SBottom:
		return a
	case a == b:
		return a
	}
	return SUnknown
}

func (a SClass) String() string { return [...]string{"none", "OK", "NonOK", "may-be-OK"}[a] }

func isStatusType(t types.Type) bool { return typeIs(t, statusPath, "Status") }

type statusAn struct {
	c    *Ctx
	memo map[string]SClass
	busy map[string]bool
}

func newStatusAn(c *Ctx) *statusAn {
	return &statusAn{c: c, memo: map[string]SClass{}, busy: map[string]bool{}}
}

// okCallOn returns (v, true) if cond is a call  v.OK()  on a status value.
func okCallOn(cond ssa.Value) (ssa.Value, bool) {
	call, ok := cond.(*ssa.Call)
	if !ok {
		return nil, false
	}
	o := calleeObj(call)
	if o == nil || o.Pkg() == nil || o.Pkg().Path() != statusPath || objName(o) != "Status.OK" || len(call.Call.Args) != 1 {
		return nil, false
	}
	return call.Call.Args[0], true
}

// errNonNilAt: error value v is known non-nil in block b.
func errNonNilAt(v ssa.Value, b *ssa.BasicBlock) bool {
	if knownNonNil(v) {
		return true
	}
	for _, cd := range pathConds(b) {
		for _, r := range relsOf(cd) {
			if r.Op == token.NEQ && ((r.X == v && isNilConst(r.Y)) || (r.Y == v && isNilConst(r.X))) {
				return true
			}
		}
	}
	return false
}

// classOf classifies status value v as seen from block b. nonNilParams: error-typed parameters of the enclosing
// function are assumed non-nil (used for summaries of wrappers such as mpxError(err)).
func (a *statusAn) classOf(v ssa.Value, b *ssa.BasicBlock, nonNilParams bool, depth int) SClass {
	if depth > 12 {
		return SUnknown
	}
	if u := unspill(v); u != v {
		return a.classOf(u, b, nonNilParams, depth+1)
	}
	// dominating  v.OK()  test
	if b != nil {
		for _, cd := range pathConds(b) {
			cv, truth := cd.V, cd.Truth
			if un, ok := cv.(*ssa.UnOp); ok && un.Op == token.NOT {
				cv, truth = un.X, !truth
			}
			if x, ok := okCallOn(cv); ok && sameStatusValue(x, v) {
				if truth {
					return SOK
				}
				return SNonOK
			}
		}
	}
	if u := unspill(v); u != v {
		return a.classOf(u, b, nonNilParams, depth+1)
	}
	switch x := v.(type) {
	case *ssa.UnOp:
		if x.Op == token.MUL {
			if g, ok := x.X.(*ssa.Global); ok {
				return a.globalClass(g)
			}
			// load of a local status variable (Alloc): join of the stored values
			if al, ok := x.X.(*ssa.Alloc); ok {
				cl := SBottom
				n := 0
				for _, u := range users(al) {
					if st, ok := u.(*ssa.Store); ok && st.Addr == al {
						n++
						cl = cl.join(a.classOf(st.Val, st.Block(), nonNilParams, depth+1))
					}
				}
				if n > 0 {
					return cl
				}
			}
		}
	case *ssa.Phi:
		cl := SBottom
		for i, e := range x.Edges {
			if ec, ok := a.edgeClass(e, x.Block().Preds[i], x.Block()); ok {
				cl = cl.join(ec)
				continue
			}
			cl = cl.join(a.classOf(e, x.Block().Preds[i], nonNilParams, depth+1))
		}
		return cl
	case *ssa.Call:
		return a.callClass(x, 0, b, nonNilParams, depth)
	case *ssa.Extract:
		if call, ok := x.Tuple.(*ssa.Call); ok {
			return a.callClass(call, x.Index, b, nonNilParams, depth)
		}
	case *ssa.Const:
		// zero Status{} has Code "" (CodeNone): not OK
		return SNonOK
	}
	return SUnknown
}

func sameStatusValue(a, b ssa.Value) bool {
	if a == b {
		return true
	}
	// two loads of the same local variable (named result / variable captured by a defer) with no store in between
	la, ok1 := a.(*ssa.UnOp)
	lb, ok2 := b.(*ssa.UnOp)
	if !ok1 || !ok2 || la.Op != token.MUL || lb.Op != token.MUL || la.X != lb.X {
		return false
	}
	al, ok := la.X.(*ssa.Alloc)
	if !ok {
		return false
	}
	first, second := ssa.Instruction(la), ssa.Instruction(lb)
	if !dominatesInstr(first, second) {
		first, second = second, first
		if !dominatesInstr(first, second) {
			return false
		}
	}
	for _, u := range users(al) {
		switch st := u.(type) {
		case *ssa.Store:
			if st.Addr == ssa.Value(al) && reachesInstr(first, st) && reachesInstr(st, second) {
				return false
			}
		case *ssa.UnOp, *ssa.DebugRef:
		case *ssa.FieldAddr:
			// st.Code etc.: field reads are fine, a field store between the loads is a modification
			for _, fu := range users(st) {
				if fs, ok := fu.(*ssa.Store); ok && fs.Addr == ssa.Value(st) && reachesInstr(first, fs) && reachesInstr(fs, second) {
					return false
				}
			}
		case *ssa.MakeClosure:
			// captured by a deferred closure: it runs at function exit, after both loads
		default:
			return false
		}
	}
	return true
}

func (a *statusAn) globalClass(g *ssa.Global) SClass {
	if g.Pkg == nil {
		return SUnknown
	}
	if g.Pkg.Pkg.Path() == statusPath {
		switch g.Name() {
		case "OK":
			return SOK
		case "None", "Closed", "Cancelled", "Timeout", "End", "Wait":
			return SNonOK
		}
		return SUnknown
	}
	key := "g:" + g.Pkg.Pkg.Path() + "." + g.Name()
	if c, ok := a.memo[key]; ok {
		return c
	}
	a.memo[key] = SUnknown
	cl := SBottom
	nStores := 0
	for _, m := range g.Pkg.Members {
		f, ok := m.(*ssa.Function)
		if !ok {
			continue
		}
		withAnon(f, func(fn *ssa.Function) {
			allInstrs(fn, func(i ssa.Instruction) {
				if st, ok := i.(*ssa.Store); ok && st.Addr == g {
					nStores++
					cl = cl.join(a.classOf(st.Val, st.Block(), false, 1))
				}
			})
		})
	}
	// methods may store too; only package-level functions and init are scanned: require exactly the init store
	if nStores != 1 {
		cl = SUnknown
	}
	a.memo[key] = cl
	return cl
}

// doneContextStatus: call is  X.Status()  on a context-like value, in a block reached through the select case
// that received from  X.Wait()  - a context whose Wait channel fired is done, its Status is its termination
// status (cancelled / timeout / closed), never OK.
func doneContextStatus(call *ssa.Call, b *ssa.BasicBlock) bool {
	cc := call.Call
	if !cc.IsInvoke() || cc.Method.Name() != "Status" || b == nil {
		return false
	}
	for _, cd := range pathConds(b) {
		if !cd.Truth {
			continue
		}
		eq, ok := cd.V.(*ssa.BinOp)
		if !ok || eq.Op != token.EQL {
			continue
		}
		ex, ok := eq.X.(*ssa.Extract)
		if !ok || ex.Index != 0 {
			continue
		}
		sel, ok := ex.Tuple.(*ssa.Select)
		if !ok {
			continue
		}
		k, ok := constInt(eq.Y)
		if !ok || int(k) >= len(sel.States) || k < 0 {
			continue
		}
		if wc, ok := sel.States[k].Chan.(*ssa.Call); ok && wc.Call.IsInvoke() && wc.Call.Method.Name() == "Wait" && wc.Call.Value == cc.Value {
			return true
		}
	}
	return false
}

func (a *statusAn) callClass(call *ssa.Call, idx int, b *ssa.BasicBlock, nonNilParams bool, depth int) SClass {
	if doneContextStatus(call, call.Block()) {
		return SNonOK
	}
	o := calleeObj(call)
	if o == nil || o.Pkg() == nil {
		return SUnknown
	}
	args := call.Call.Args
	if o.Pkg().Path() == statusPath {
		name := objName(o)
		switch {
		case name == "OKf":
			return SOK
		case name == "New" || name == "Newf":
			if len(args) > 0 {
				if c, ok := args[0].(*ssa.Const); ok && c.Value != nil && c.Value.Kind() == constant.String {
					if constant.StringVal(c.Value) == "ok" {
						return SOK
					}
					return SNonOK
				}
			}
			return SUnknown
		case strings.HasPrefix(name, "Wrap") || name == "Recover" || name == "RecoverStack":
			if len(args) > 0 && types.Identical(args[0].Type(), types.Universe.Lookup("error").Type()) {
				if errNonNilAt(args[0], call.Block()) || (nonNilParams && isParam(args[0])) {
					return SNonOK
				}
				return SUnknown
			}
			return SNonOK // Recover(e any)
		case name == "Status.WithCode":
			if len(args) == 2 {
				if c, ok := args[1].(*ssa.Const); ok && c.Value != nil && c.Value.Kind() == constant.String && constant.StringVal(c.Value) != "ok" {
					return SNonOK
				}
			}
			return SUnknown
		case name == "Status.WithError" || name == "Status.WrapText" || name == "Status.WrapTextf":
			if len(args) > 0 {
				return a.classOf(args[0], call.Block(), nonNilParams, depth+1)
			}
		case strings.HasPrefix(name, "Status."):
			return SUnknown
		default:
			return SNonOK // Error*, Closedf, Cancelledf, Timeoutf, Unavailable*, NotFound*, ... constructors
		}
		return SUnknown
	}
	fn := call.Call.StaticCallee()
	if fn == nil || fn.Blocks == nil || !strings.HasPrefix(o.Pkg().Path(), Mod) {
		return SUnknown
	}
	// is every error argument known non-nil at the call?
	nn := false
	hasErrParam := false
	allNN := true
	for i, p := range fn.Params {
		if types.Identical(p.Type(), types.Universe.Lookup("error").Type()) && i < len(args) {
			hasErrParam = true
			if !(errNonNilAt(args[i], call.Block()) || (nonNilParams && isParam(args[i]))) {
				allNN = false
			}
		}
	}
	if hasErrParam && allNN {
		nn = true
	}
	return a.funcClass(fn, idx, nn, depth)
}

func isParam(v ssa.Value) bool { _, ok := v.(*ssa.Parameter); return ok }

// funcClass: class of result idx of fn, joined over all returns.
func (a *statusAn) funcClass(fn *ssa.Function, idx int, nonNilParams bool, depth int) SClass {
	key := fnKey(fn) + "#" + string(rune('0'+idx))
	if nonNilParams {
		key += "!"
	}
	if c, ok := a.memo[key]; ok {
		return c
	}
	if a.busy[key] {
		return SUnknown
	}
	a.busy[key] = true
	cl := SBottom
	for _, ret := range returnsOf(fn) {
		if idx >= len(ret.Results) || !isStatusType(ret.Results[idx].Type()) {
			cl = SUnknown
			break
		}
		if nonNilParams && infeasibleUnderNonNilParams(ret.Block()) {
			continue
		}
		cl = cl.join(a.classOf(ret.Results[idx], ret.Block(), nonNilParams, depth+1))
	}
	delete(a.busy, key)
	a.memo[key] = cl
	return cl
}

// infeasibleUnderNonNilParams: block b is only reachable under  param == nil  for an error parameter.
func infeasibleUnderNonNilParams(b *ssa.BasicBlock) bool {
	for _, cd := range pathConds(b) {
		for _, r := range relsOf(cd) {
			if r.Op == token.EQL {
				x, y := r.X, r.Y
				if isNilConst(x) {
					x, y = y, x
				}
				if isNilConst(y) && isParam(x) && types.Identical(x.Type(), types.Universe.Lookup("error").Type()) {
					return true
				}
			}
		}
	}
	return false
}

// edgeClass: the class of status v on the CFG edge pred -> succ when the branch that ends pred tests v.OK() - the
// value merged by a phi behind `if st.OK() { ...; st = Errorf(...) }` is the failed status on the edge that skips
// the body (pathConds(pred) does not contain the test, the edge does).
func (a *statusAn) edgeClass(v ssa.Value, pred, succ *ssa.BasicBlock) (SClass, bool) {
	if len(pred.Instrs) == 0 {
		return SUnknown, false
	}
	iff, ok := pred.Instrs[len(pred.Instrs)-1].(*ssa.If)
	if !ok || pred.Succs[0] == pred.Succs[1] {
		return SUnknown, false
	}
	cv, truth := iff.Cond, pred.Succs[0] == succ
	for {
		un, ok := cv.(*ssa.UnOp)
		if !ok || un.Op != token.NOT {
			break
		}
		cv, truth = un.X, !truth
	}
	if x, ok := okCallOn(cv); ok && sameStatusValue(x, unspill(v)) {
		if truth {
			return SOK, true
		}
		return SNonOK, true
	}
	return SUnknown, false
}
