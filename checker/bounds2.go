package main

import (
	"fmt"
	"go/ast"
	"go/token"
	"go/types"
	"math/big"
	"sort"
	"strings"

	"golang.org/x/tools/go/ssa"
)

// ---- contracts table ----

func u8slice(t types.Type) bool { return bytesLike(t) }

// contractFor returns the contract of fn: explicit table entry, dependency axiom, or the signature convention
// G1 (func(b bytes, ...) (..., int, error): err == nil => 0 <= n <= len(b)) and G3 (bytes-like results are no
// longer than the bytes-like first parameter on ok returns).
func (e *BE) contractFor(fn *ssa.Function) *Contract {
	c := e.contractBase(fn)
	if fn == nil {
		return c
	}
	g := fn
	if g.Origin() != nil {
		g = g.Origin()
	}
	if ip := e.inferredPost[g]; ip != nil {
		// inferred size postcondition of a private helper (bounds4.go inferPost)
		nc := &Contract{Note: ip.Note}
		if c != nil {
			cp := *c
			nc = &cp
		}
		nc.PostOK = append(append([]CIneq{}, nc.PostOK...), ip.PostOK...)
		nc.Post = append(append([]CIneq{}, nc.Post...), ip.Post...)
		c = nc
	}
	extra := e.inferred[g]
	if len(extra) == 0 {
		return c
	}
	// inferred preconditions of a private helper (inferPre): proved at every call site, assumed in the body
	nc := &Contract{Note: "inferred preconditions"}
	if c != nil {
		cp := *c
		nc = &cp
		nc.Pre = append([]CIneq{}, c.Pre...)
	}
	for _, p := range extra {
		nc.Pre = append(nc.Pre, p.ineq)
	}
	return nc
}

// inferredPre: a candidate precondition of a private function, with its description.
type inferredPre struct {
	ineq CIneq
	desc string
}

// inferPre finds preconditions of private helpers by the greatest-fixpoint (Houdini) scheme: start from all
// candidates  p >= 0  and  p <= len(q)  (p an int parameter, q a bytes-like parameter) for every unexported function
// of the cone whose every use is a static call inside the module, and drop a candidate as soon as some call site
// cannot prove it under the candidates still standing. What survives is assumed in the helper's body and is an
// obligation (kind "pre") at each of its call sites, so the verification stays modular and sound.
func (e *BE) inferPre(cone []*ssa.Function, module []*ssa.Function) []string {
	inCone := map[*ssa.Function]bool{}
	for _, f := range cone {
		inCone[f] = true
	}
	// call sites and escaping uses
	sites := map[*ssa.Function][]*ssa.Call{}
	callerOf := map[*ssa.Call]*ssa.Function{}
	escapes := map[*ssa.Function]bool{}
	for _, f := range module {
		withAnon(f, func(g *ssa.Function) {
			allInstrs(g, func(i ssa.Instruction) {
				var callee *ssa.Function
				if c, ok := i.(ssa.CallInstruction); ok {
					callee = e.c.calleeOf(c.Common())
					if cv, ok := i.(*ssa.Call); ok && callee != nil {
						sites[callee] = append(sites[callee], cv)
						callerOf[cv] = g
					} else if callee != nil {
						escapes[callee] = true // go / defer: treated as unknown context
					}
				}
				for _, op := range i.Operands(nil) {
					if op == nil || *op == nil {
						continue
					}
					if fv, ok := (*op).(*ssa.Function); ok && fv != callee {
						escapes[fv] = true
					}
				}
			})
		})
	}
	e.inferred = map[*ssa.Function][]inferredPre{}
	for _, f := range cone {
		if f.Parent() != nil || f.Origin() != nil || escapes[f] || len(sites[f]) == 0 || !token.IsIdentifier(f.Name()) || ast.IsExported(f.Name()) {
			continue
		}
		if c := e.contractBase(f); c != nil && len(c.Pre) > 0 {
			continue // has a declared precondition already
		}
		var cands []inferredPre
		for i, p := range f.Params {
			b, ok := p.Type().Underlying().(*types.Basic)
			if !ok || b.Kind() != types.Int {
				continue
			}
			cands = append(cands, inferredPre{cGE(cP(i), cK(0)), fmt.Sprintf("%s >= 0", p.Name())})
			for j, q := range f.Params {
				if bytesLike(q.Type()) {
					cands = append(cands, inferredPre{cLE(cP(i), cLenP(j)), fmt.Sprintf("%s <= len(%s)", p.Name(), q.Name())})
				}
			}
		}
		if len(cands) > 0 {
			e.inferred[f] = cands
		}
	}
	for round := 0; round < 6; round++ {
		changed := false
		ctxs := map[*ssa.Function]*fnCtx{}
		for _, f := range sortedFuncs(e.inferred) {
			var keep []inferredPre
			for _, cand := range e.inferred[f] {
				ok := true
				for _, call := range sites[f] {
					caller := callerOf[call]
					fc := ctxs[caller]
					if fc == nil {
						fc = e.newFnCtx(caller)
						ctxs[caller] = fc
					}
					env := &cenv{e: e, params: call.Call.Args}
					goal, good := func() (q Ineq, good bool) {
						defer func() {
							if recover() != nil {
								good = false
							}
						}()
						return cand.ineq(env), true
					}()
					budget := 300
					if !good || !fc.prove(goal, call.Block(), nil, nil, 5, &budget) {
						ok = false
						break
					}
				}
				if ok {
					keep = append(keep, cand)
				} else {
					changed = true
				}
			}
			if len(keep) == 0 {
				delete(e.inferred, f)
			} else {
				e.inferred[f] = keep
			}
		}
		if !changed {
			break
		}
	}
	var out []string
	for _, f := range sortedFuncs(e.inferred) {
		for _, p := range e.inferred[f] {
			out = append(out, fnKey(f)+": "+p.desc)
		}
	}
	return out
}

func sortedFuncs(m map[*ssa.Function][]inferredPre) []*ssa.Function {
	var fs []*ssa.Function
	for f := range m {
		fs = append(fs, f)
	}
	sort.Slice(fs, func(i, j int) bool { return fnKey(fs[i]) < fnKey(fs[j]) })
	return fs
}

func (e *BE) contractBase(fn *ssa.Function) *Contract {
	if fn == nil {
		return nil
	}
	g := fn
	if g.Origin() != nil {
		g = g.Origin()
	}
	pk := ""
	if g.Pkg != nil {
		pk = g.Pkg.Pkg.Path()
	} else if o := g.Object(); o != nil && o.Pkg() != nil {
		pk = o.Pkg().Path()
	}
	name := g.Name()
	if recv := g.Signature.Recv(); recv != nil {
		if n := namedOf(recv.Type()); n != nil {
			name = n.Obj().Name() + "." + name
		}
	}
	full := pk + "." + name
	if c, ok := axiomContracts[full]; ok {
		return c
	}
	if !strings.HasPrefix(pk, Mod) {
		return nil
	}
	if c, ok := explicitContracts[relPkg(pk)+"."+name]; ok {
		return c
	}
	// conventions
	sig := fn.Signature
	ps := sig.Params()
	rs := sig.Results()
	c := &Contract{Note: "signature convention"}
	off := 0
	if sig.Recv() != nil {
		off = 1
	}
	firstBytes := -1
	if ps.Len() > 0 && bytesLike(ps.At(0).Type()) {
		firstBytes = off
	} else if sig.Recv() != nil && bytesLike(sig.Recv().Type()) && !strings.Contains(name, "Clone") {
		firstBytes = 0
	}
	if firstBytes < 0 {
		return c
	}
	hasErr := rs.Len() > 0 && types.Identical(rs.At(rs.Len()-1).Type(), types.Universe.Lookup("error").Type())
	for i := 0; i < rs.Len(); i++ {
		rt := rs.At(i).Type()
		var add []CIneq
		if b, ok := rt.Underlying().(*types.Basic); ok && b.Kind() == types.Int {
			add = []CIneq{cGE(cR(i), cK(0)), cLE(cR(i), cLenP(firstBytes))}
		}
		if bytesLike(rt) && !strings.Contains(name, "Clone") {
			add = []CIneq{cLE(cLenR(i), cLenP(firstBytes))}
		}
		if hasErr && bytesLike(rt) && !strings.Contains(name, "Clone") && sig.Recv() == nil {
			// G4 locality: a bytes-like result is a view into the value's own last n bytes of the input
			for j := 0; j < rs.Len(); j++ {
				if b, ok := rs.At(j).Type().Underlying().(*types.Basic); ok && b.Kind() == types.Int {
					exact := typeIs(rt, pkgPath("internal/types"), "Value")
					c.Locality = append(c.Locality, Locality{Res: i, N: j, Param: firstBytes, Exact: exact})
				}
			}
		}
		if hasErr {
			c.PostOK = append(c.PostOK, add...)
		} else if b, ok := rt.Underlying().(*types.Basic); ok && b.Kind() == types.Int && rs.Len() == 2 && i == 1 && sig.Recv() == nil {
			// G2: (value, n int) helpers report at most the bytes they were given (n may be a negative error marker)
			c.Post = append(c.Post, cLE(cR(i), cLenP(firstBytes)))
		}
	}
	return c
}

var axiomContracts = map[string]*Contract{}
var explicitContracts = map[string]*Contract{}

func init() {
	ci := compactintPath
	// compactint.Reverse*: n <= len(b), -1 <= n <= 9 (5 for 32-bit); read from the dependency source.
	for _, n := range []string{"ReverseUint32", "ReverseInt32"} {
		axiomContracts[ci+"."+n] = &Contract{Axiom: true, Post: []CIneq{cLE(cR(1), cLenP(0)), cGE(cR(1), cK(-1)), cLE(cR(1), cK(5))}}
	}
	for _, n := range []string{"ReverseUint64", "ReverseInt64"} {
		axiomContracts[ci+"."+n] = &Contract{Axiom: true, Post: []CIneq{cLE(cR(1), cLenP(0)), cGE(cR(1), cK(-1)), cLE(cR(1), cK(9))}}
	}
	// sort.Search(n, f) returns an index in [0, n] (standard library documentation)
	axiomContracts["sort.Search"] = &Contract{Axiom: true, Post: []CIneq{cGE(cR(0), cK(0)), cLE(cR(0), cP(0))}}
	// path/filepath.Ext returns a suffix of its argument (read from the standard library source)
	axiomContracts["path/filepath.Ext"] = &Contract{Axiom: true, Post: []CIneq{cLE(cLenR(0), cLenP(0))}}
	axiomContracts[ci+".ReverseSize"] = &Contract{Axiom: true, Post: []CIneq{cLE(cR(0), cLenP(0)), cGE(cR(0), cK(-1)), cLE(cR(0), cK(9))}}
	// encoding/binary.bigEndian: Uint16/32/64(b) require len(b) >= 2/4/8
	for n, k := range map[string]int64{"Uint16": 2, "Uint32": 4, "Uint64": 8, "PutUint16": 2, "PutUint32": 4, "PutUint64": 8} {
		axiomContracts["encoding/binary.bigEndian."+n] = &Contract{Axiom: true, Pre: []CIneq{cGE(cLenP(1), cK(k))}}
		axiomContracts["encoding/binary.littleEndian."+n] = &Contract{Axiom: true, Pre: []CIneq{cGE(cLenP(1), cK(k))}}
	}
	// explicit module contracts (beyond the signature conventions)
	ex := explicitContracts
	ex["internal/decode.decodeType"] = &Contract{Post: []CIneq{cGE(cR(1), cK(0)), cLE(cR(1), cK(1)), cLE(cR(1), cLenP(0))}}
	ex["internal/decode.decodeSize"] = &Contract{Post: []CIneq{cLE(cR(1), cLenP(0)), cGE(cR(1), cK(-1)), cLE(cR(1), cK(5))}}
	for _, n := range []string{"decodeBytesData", "decodeStringData"} {
		ex["internal/decode."+n] = &Contract{PostOK: []CIneq{cLE(cLenR(0), cP(1)), cGE(cLenR(0), cP(1)), cLE(cP(1), cLenP(0))}, Locality: []Locality{{Res: 0, N: -1, Param: 0}}}
	}
	for _, n := range []string{"decodeListTable", "decodeMessageTable"} {
		ex["internal/decode."+n] = &Contract{PostOK: []CIneq{cLE(cLenR(0), cP(1)), cGE(cLenR(0), cP(1)), cLE(cP(1), cLenP(0))}, Locality: []Locality{{Res: 0, N: -1, Param: 0}}}
	}
	tablePost := func() *Contract {
		return &Contract{PostOK: []CIneq{
			cGE(cR(1), cK(0)), cLE(cR(1), cLenP(0)),
			cLE(cFieldR(0, ".data", 'v'), cR(1)),
			cLE(cAdd(cFieldR(0, ".data", 'v'), cFieldR(0, ".table", 'l')), cR(1)),
		}}
	}
	ex["internal/decode.DecodeListTable"] = tablePost()
	ex["internal/decode.DecodeMessageTable"] = tablePost()
	newTable := func() *Contract {
		return &Contract{Post: []CIneq{
			cLE(cFieldR(0, ".data", 'v'), cP(1)), cGE(cFieldR(0, ".data", 'v'), cP(1)),
			cLE(cFieldR(0, ".table", 'l'), cLenP(0)), cGE(cFieldR(0, ".table", 'l'), cLenP(0)),
		}}
	}
	ex["internal/format.NewListTable"] = newTable()
	ex["internal/format.NewMessageTable"] = newTable()
	dataSize := func() *Contract {
		return &Contract{Post: []CIneq{cLE(cR(0), cFieldP(0, ".data", 'v')), cGE(cR(0), cFieldP(0, ".data", 'v'))}}
	}
	ex["internal/format.ListTable.DataSize"] = dataSize()
	ex["internal/format.MessageTable.DataSize"] = dataSize()
	// DecodeStruct: data size is part of the total size
	ex["internal/decode.DecodeStruct"] = &Contract{PostOK: []CIneq{cGE(cR(1), cK(0)), cLE(cR(1), cLenP(0)), cGE(cR(0), cK(0)), cLE(cR(0), cR(1))}}
	nonneg := func() *Contract { return &Contract{Post: []CIneq{cGE(cR(0), cK(0))}} }
	for _, n := range []string{"internal/format.messageTable.count", "internal/format.listTable.len", "internal/format.MessageTable.Len",
		"internal/format.ListTable.Len", "internal/types.List.Len", "internal/types.Message.Fields", "internal/types.Message.Len"} {
		ex[n] = nonneg()
	}
	// an entry count is at most the table's length in bytes (entries are >= 1 byte): a non-empty loop over the
	// entries means a non-empty table, hence data size < total size - what makes the recursive parser descend (R02.2)
	countLE := func(path string) *Contract {
		c := nonneg()
		if path == "" {
			c.Post = append(c.Post, cLE(cR(0), cLenP(0)))
		} else {
			c.Post = append(c.Post, cLE(cR(0), cFieldP(0, path, 'l')))
		}
		return c
	}
	ex["internal/format.messageTable.count"] = countLE("")
	ex["internal/format.listTable.len"] = countLE("")
	ex["internal/format.MessageTable.Len"] = countLE(".table")
	ex["internal/format.ListTable.Len"] = countLE(".table")
	ex["internal/types.List.Len"] = countLE(".table.table")
	ex["internal/types.Message.Fields"] = countLE(".table.table")
	// decodeList / ParseList / OpenList...: results carry the List invariant (checked through hasInv)
}

// ---- per-function verification ----

type Oblig struct {
	Kind string // slice, index, unsafe-load, makeslice, div, typeassert, panic, pre, post, inv
	At   ssa.Instruction
	Desc string
	OK   bool
	Why  string
}

type fnCtx struct {
	e   *BE
	fn  *ssa.Function
	con *Contract
	pre factSet
}

type solveState struct {
	fc           *fnCtx
	fs           factSet
	goal         Ineq
	sigma        map[ssa.Value]ssa.Value
	seenVar      map[int]bool
	seenCall     map[*ssa.Call]bool
	okCall       map[*ssa.Call]bool
	sumCall      map[*ssa.Call]bool
	budget       *int
	assumeNil    []ssa.Value
	pendingCalls []*ssa.Call
}

func (e *BE) newFnCtx(fn *ssa.Function) *fnCtx {
	fc := &fnCtx{e: e, fn: fn, con: e.contractFor(fn)}
	env := &cenv{e: e}
	for _, p := range fn.Params {
		env.params = append(env.params, p)
	}
	if fc.con != nil {
		for _, pi := range fc.con.Pre {
			fc.pre.ineqs = append(fc.pre.ineqs, pi(env))
		}
	}
	for _, p := range fn.Params {
		if hasInv(p.Type()) {
			fc.pre.ineqs = append(fc.pre.ineqs, e.structInv(p)...)
		}
	}
	return fc
}

func (st *solveState) substLin(l Lin) Lin {
	e := st.fc.e
	for iter := 0; iter < 20; iter++ {
		changed := false
		for _, id := range l.vars() {
			k := e.keys[id]
			to, ok := st.sigma[k.root]
			if !ok {
				continue
			}
			var rep Lin
			switch {
			case k.path != "":
				rep = e.fieldLin(to, k.path, k.kind)
			case k.kind == 'v':
				rep = e.expand(to)
			case k.kind == 'o':
				rep, _ = e.offOf(to)
			default:
				rep = e.lenOf(to, k.kind)
			}
			// guard against self substitution
			if len(rep.T) == 1 {
				if c, ok := rep.T[id]; ok && c.Cmp(bigOne) == 0 && rep.K.Sign() == 0 {
					continue
				}
			}
			l = l.subst(id, rep)
			changed = true
		}
		if !changed {
			break
		}
	}
	return l
}

func (st *solveState) addIneq(q Ineq) { st.fs.ineqs = append(st.fs.ineqs, Ineq{st.substLin(q.L)}) }

func (st *solveState) substVal(v ssa.Value) ssa.Value {
	for i := 0; i < 20; i++ {
		to, ok := st.sigma[v]
		if !ok {
			return v
		}
		v = to
	}
	return v
}

func knownNonNil(v ssa.Value) bool {
	switch x := v.(type) {
	case *ssa.MakeInterface, *ssa.Alloc, *ssa.MakeClosure, *ssa.Function:
		return true
	case *ssa.Call:
		if o := calleeObj(x); o != nil && o.Pkg() != nil {
			if (o.Pkg().Path() == "errors" && o.Name() == "New") || (o.Pkg().Path() == "fmt" && o.Name() == "Errorf") {
				return true
			}
		}
	}
	return false
}

// isNilKnown: the atoms imply v == nil.
func (st *solveState) nilKnown(v ssa.Value) bool {
	if isNilConst(v) {
		return true
	}
	for _, a := range st.fs.atoms {
		if !a.Bool && a.IsNil && st.substVal(a.V) == v {
			return true
		}
	}
	return false
}

// infeasible: the atoms are contradictory (x == nil for a value known non-nil, or both x==nil and x!=nil).
func (st *solveState) infeasible() bool {
	for _, a := range st.fs.atoms {
		if a.Bool {
			continue
		}
		v := st.substVal(a.V)
		if a.IsNil && knownNonNil(v) {
			return true
		}
		if !a.IsNil && isNilConst(v) {
			return true
		}
		for _, b := range st.fs.atoms {
			if !b.Bool && st.substVal(b.V) == v && a.IsNil != b.IsNil {
				return true
			}
		}
	}
	// boolean atoms with constant values
	for _, a := range st.fs.atoms {
		if !a.Bool {
			continue
		}
		v := st.substVal(a.V)
		if c, ok := v.(*ssa.Const); ok && c.Value != nil && c.Value.String() == "true" && !a.Truth {
			return true
		}
		if c, ok := v.(*ssa.Const); ok && c.Value != nil && c.Value.String() == "false" && a.Truth {
			return true
		}
	}
	return false
}

// callFacts adds the postcondition facts of a call whose result is in the cone.
func (st *solveState) callFacts(call *ssa.Call) {
	st.ptrPostFacts(call)
	if st.seenCall[call] && (st.okCall[call] || !st.callOK(call)) {
		return
	}
	e := st.fc.e
	callee := e.c.calleeOf(&call.Call)
	var con *Contract
	if callee != nil {
		con = e.contractFor(callee)
	}
	if con == nil || (!con.Axiom && len(con.Post)+len(con.PostOK)+len(con.Locality) == 0) {
		// no postcondition known (at most inferred preconditions): summarise the helper's exits instead
		if callee != nil && !st.okCall[call] && st.exitSummary(call, callee) {
			st.okCall[call] = true
		}
		st.seenCall[call] = true
		return
	}
	// a helper whose only postconditions are inferred ones is summarised exit by exit as well: the inferred
	// candidates are a fixed vocabulary, the exit summary carries the helper's own guards (start >= 0)
	if callee != nil && !st.sumCall[call] {
		if base := e.contractBase(callee); base == nil || (!base.Axiom && len(base.Post)+len(base.PostOK)+len(base.Locality) == 0) {
			if st.sumCall == nil {
				st.sumCall = map[*ssa.Call]bool{}
			}
			st.sumCall[call] = true
			st.exitSummary(call, callee)
		}
	}
	env := &cenv{e: e, params: call.Call.Args}
	n := 1
	if tup, ok := call.Type().(*types.Tuple); ok {
		n = tup.Len()
		for i := 0; i < n; i++ {
			if ex := extractOf(call, i); ex != nil {
				env.results = append(env.results, ex)
			} else {
				env.results = append(env.results, nil)
			}
		}
	} else {
		env.results = []ssa.Value{call}
	}
	safe := func(ci CIneq) (q Ineq, ok bool) {
		defer func() {
			if recover() != nil {
				ok = false
			}
		}()
		return ci(env), true
	}
	if !st.seenCall[call] {
		st.seenCall[call] = true
		for _, p := range con.Post {
			if q, ok := safe(p); ok {
				st.addIneq(q)
			}
		}
		// invariants of invariant-carrying results
		for _, r := range env.results {
			if r != nil && hasInv(r.Type()) {
				for _, q := range e.structInv(r) {
					st.addIneq(q)
				}
			}
		}
	}
	if !st.okCall[call] && st.callOK(call) {
		st.okCall[call] = true
		for _, p := range con.PostOK {
			if q, ok := safe(p); ok {
				st.addIneq(q)
			}
		}
		// locality of bytes-like results, relative to the argument: o >= len(arg) - n, o + len(res) <= len(arg)
		for _, lc := range con.Locality {
			if lc.Res >= len(env.results) || lc.N >= len(env.results) || env.results[lc.Res] == nil || (lc.N >= 0 && env.results[lc.N] == nil) || lc.Param >= len(env.params) {
				continue
			}
			o := linVar(e.id(vkey{env.results[lc.Res], "", 'o'}))
			ln := e.lenOf(env.results[lc.Res], 'l')
			al := e.lenOf(env.params[lc.Param], 'l')
			if lc.N < 0 { // suffix of the argument
				st.addIneq(leq(o.add(ln), al))
				st.addIneq(geq(o.add(ln), al))
				st.addIneq(geq(o, linConst(0)))
				continue
			}
			n := e.expand(env.results[lc.N])
			st.addIneq(geq(o, al.sub(n)))
			st.addIneq(leq(o.add(ln), al))
			st.addIneq(geq(o, linConst(0)))
			if lc.Exact {
				st.addIneq(leq(o, al.sub(n)))
				st.addIneq(leq(ln, n))
				st.addIneq(geq(ln, n))
			}
		}
	}
}

// callOK: the error result of the call is known nil on the current path.
func (st *solveState) callOK(call *ssa.Call) bool {
	tup, ok := call.Type().(*types.Tuple)
	if !ok {
		if types.Identical(call.Type(), types.Universe.Lookup("error").Type()) {
			return st.nilKnown(call)
		}
		return false
	}
	last := tup.Len() - 1
	if last < 0 {
		return false
	}
	if isBoolType(tup.At(last).Type()) {
		// helpers with a bool success flag: ok is known true on the current path
		ex := extractOf(call, last)
		if ex == nil {
			return false
		}
		for _, a := range st.fs.atoms {
			if a.Bool && a.Truth && (a.V == ssa.Value(ex) || st.substVal(a.V) == ssa.Value(ex)) {
				return true
			}
		}
		return false
	}
	if !types.Identical(tup.At(last).Type(), types.Universe.Lookup("error").Type()) {
		return false
	}
	ex := extractOf(call, last)
	if ex == nil {
		return false
	}
	return st.nilKnown(ex)
}

func (e *BE) isLoopHeaderPhi(p *ssa.Phi) bool {
	b := p.Block()
	for _, pr := range b.Preds {
		if b.Dominates(pr) {
			return true
		}
	}
	return false
}

// defFacts adds the definitional facts of variable id.
func (st *solveState) defFacts(id int) {
	e := st.fc.e
	k := e.keys[id]
	v := linVar(id)
	if k.kind != 'v' {
		st.addIneq(geq(v, linConst(0)))
		st.addIneq(leq(v, linBig(maxLen)))
		if k.kind == 'l' {
			// len <= cap
			if k.root != nil {
				if _, isSlice := k.root.Type().Underlying().(*types.Slice); isSlice && k.path == "" {
					st.addIneq(leq(v, linVar(e.id(vkey{k.root, k.path, 'c'}))))
				}
			}
		}
	}
	root := k.root
	if root == nil {
		return
	}
	// call results
	switch x := root.(type) {
	case *ssa.Call:
		st.callFacts(x)
	case *ssa.Extract:
		if c, ok := x.Tuple.(*ssa.Call); ok {
			st.callFacts(c)
		}
	case *ssa.Parameter:
		if hasInv(x.Type()) && k.path != "" {
			for _, q := range e.structInv(x) {
				st.addIneq(q)
			}
		}
	case *ssa.Phi:
		if e.isLoopHeaderPhi(x) {
			for _, q := range e.loopInv(st.fc, x) {
				st.addIneq(q)
			}
		}
	}
	if hasInv(root.Type()) && k.path != "" {
		switch root.(type) {
		case *ssa.UnOp, *ssa.Extract, *ssa.Call, *ssa.Field, *ssa.Parameter:
			for _, q := range e.structInv(root) {
				st.addIneq(q)
			}
		}
	}
	if k.kind != 'v' {
		return
	}
	// type range of the (field) value
	var t types.Type
	if k.path == "" {
		t = root.Type()
	} else {
		t = fieldPathType(root.Type(), k.path)
	}
	if t != nil {
		if lo, hi, ok := typeRange(t); ok {
			st.addIneq(geq(v, linBig(lo)))
			st.addIneq(leq(v, linBig(hi)))
		}
	}
	if k.path != "" {
		return
	}
	switch x := root.(type) {
	case *ssa.BinOp:
		a := e.expand(x.X)
		cy, isC := constInt(x.Y)
		nonneg := func() bool {
			lo, _ := e.interval(x.X, 0)
			if lo != nil && lo.Sign() >= 0 {
				return true
			}
			return st.fc.proveAt(geq(a, linConst(0)), x, 3)
		}
		posDiv := func() bool { // divisor is a phi of positive constants
			ph, ok := x.Y.(*ssa.Phi)
			if !ok {
				return false
			}
			for _, ed := range ph.Edges {
				if k, ok := constInt(ed); !ok || k <= 0 {
					return false
				}
			}
			return true
		}
		switch x.Op {
		case token.QUO:
			if !isC && posDiv() && nonneg() {
				st.addIneq(geq(v, linConst(0)))
				st.addIneq(leq(v, a))
			}
			if isC && cy > 0 && nonneg() {
				c := big.NewInt(cy)
				st.addIneq(leq(v.scale(c), a))
				st.addIneq(leq(a, v.scale(c).addK(cy-1)))
			}
		case token.REM:
			if isC && cy > 0 && nonneg() {
				st.addIneq(geq(v, linConst(0)))
				st.addIneq(leq(v, linConst(cy-1)))
			}
		case token.SHR:
			if isC && cy >= 0 && cy < 62 && nonneg() {
				c := new(big.Int).Lsh(bigOne, uint(cy))
				st.addIneq(leq(v.scale(c), a))
				st.addIneq(leq(a, v.scale(c).add(linBig(new(big.Int).Sub(c, bigOne)))))
			}
		case token.AND:
			if isC && cy >= 0 {
				st.addIneq(geq(v, linConst(0)))
				st.addIneq(leq(v, linConst(cy)))
			}
		}
	case *ssa.Convert:
		// possibly wrapping conversion: equal to the operand when the operand is provably in range at the definition
		if isIntegerType(x.Type()) && isIntegerType(x.X.Type()) {
			a := e.expand(x.X)
			lo, hi, ok := typeRange(x.Type())
			if ok && st.fc.proveAt(geq(a, linBig(lo)), x, 3) && st.fc.proveAt(leq(a, linBig(hi)), x, 3) {
				st.addIneq(leq(v, a))
				st.addIneq(geq(v, a))
			}
		}
	}
}

func fieldPathType(t types.Type, path string) types.Type {
	for _, n := range strings.Split(strings.TrimPrefix(path, "."), ".") {
		st, ok := deref(t).Underlying().(*types.Struct)
		if !ok {
			return nil
		}
		found := false
		for i := 0; i < st.NumFields(); i++ {
			if st.Field(i).Name() == n {
				t = st.Field(i).Type()
				found = true
			}
		}
		if !found {
			return nil
		}
	}
	return t
}

// proveAt proves goal at the program point just before instruction at (facts: function pre, dominating
// branch conditions, definitional facts), with a recursion budget.
func (fc *fnCtx) proveAt(goal Ineq, at ssa.Instruction, depth int) bool {
	budget := 400
	return fc.prove(goal, at.Block(), nil, nil, depth, &budget)
}

func (fc *fnCtx) prove(goal Ineq, at *ssa.BasicBlock, extra *factSet, sigma map[ssa.Value]ssa.Value, depth int, budget *int) bool {
	if *budget <= 0 || depth < 0 {
		return false
	}
	*budget--
	st := &solveState{fc: fc, sigma: map[ssa.Value]ssa.Value{}, seenVar: map[int]bool{}, seenCall: map[*ssa.Call]bool{}, okCall: map[*ssa.Call]bool{}, budget: budget}
	for k, v := range sigma {
		st.sigma[k] = v
	}
	st.goal = Ineq{st.substLin(goal.L)}
	for _, q := range fc.pre.ineqs {
		st.addIneq(q)
	}
	if extra != nil {
		for _, q := range extra.ineqs {
			st.addIneq(q)
		}
		st.fs.atoms = append(st.fs.atoms, extra.atoms...)
	}
	if extra != nil {
		st.fs.neqs = append(st.fs.neqs, extra.neqs...)
	}
	var cf factSet
	fc.e.condFacts(at, &cf)
	for _, q := range cf.ineqs {
		st.addIneq(q)
	}
	st.fs.atoms = append(st.fs.atoms, cf.atoms...)
	st.fs.neqs = append(st.fs.neqs, cf.neqs...)
	st.guardedFacts()
	st.domCalls(at)
	return st.solve(at, depth)
}

// domCalls adds the postcondition facts of every call in a block that strictly dominates `at`
// (SSA values are immutable, so what a completed call established stays true).
func (st *solveState) domCalls(at *ssa.BasicBlock) {
	for _, b := range st.fc.fn.Blocks {
		if b == at || !b.Dominates(at) {
			continue
		}
		for _, ins := range b.Instrs {
			if c, ok := ins.(*ssa.Call); ok && st.fc.e.c.calleeOf(&c.Call) != nil {
				st.pendingCalls = append(st.pendingCalls, c)
			}
		}
	}
	for _, ins := range at.Instrs {
		if c, ok := ins.(*ssa.Call); ok && st.fc.e.c.calleeOf(&c.Call) != nil {
			// calls in the same block: their facts only mention their own results unless the error is known nil,
			// which can only be established in a later block
			st.pendingCalls = append(st.pendingCalls, c)
		}
	}
}

func (st *solveState) solve(at *ssa.BasicBlock, depth int) bool {
	e := st.fc.e
	if st.infeasible() {
		return true
	}
	for _, c := range st.pendingCalls {
		st.callFacts(c)
	}
	// saturate definitional facts over the cone
	for round := 0; round < 12; round++ {
		vars := map[int]bool{}
		for v := range st.goal.L.T {
			vars[v] = true
		}
		// a known disequality (n != 0) is a fact about a value that may be DEFINED from the goal's variables
		// (n := len(t) / size): its definition is what connects it to the goal
		for _, nq := range st.fs.neqs {
			for v := range st.substLin(nq).T {
				vars[v] = true
			}
		}
		// ... and so is a bound on a single DEFINED value (n == 0 with n := len(t)/size gives n <= 0 and n >= 0):
		// quotients, remainders and shifts only - their definition is what relates them to anything else
		for _, q := range st.fs.ineqs {
			if len(q.L.T) != 1 {
				continue
			}
			for v := range q.L.T {
				if b, ok := e.keys[v].root.(*ssa.BinOp); ok && e.keys[v].path == "" {
					switch b.Op {
					case token.QUO, token.REM, token.SHR, token.SHL, token.AND:
						vars[v] = true
					}
				}
			}
		}
		// transitive cone through current facts
		for changed := true; changed; {
			changed = false
			for _, q := range st.fs.ineqs {
				hit := false
				for v := range q.L.T {
					if vars[v] {
						hit = true
						break
					}
				}
				if hit {
					for v := range q.L.T {
						if !vars[v] {
							vars[v] = true
							changed = true
						}
					}
				}
			}
		}
		var ids []int
		for v := range vars {
			ids = append(ids, v)
		}
		sort.Ints(ids)
		added := false
		for _, id := range ids {
			if !st.seenVar[id] {
				st.seenVar[id] = true
				st.defFacts(id)
				added = true
			} else {
				// a call whose ok-facts became available
				k := e.keys[id]
				switch x := k.root.(type) {
				case *ssa.Call:
					if !st.okCall[x] {
						st.callFacts(x)
					}
				case *ssa.Extract:
					if c, ok := x.Tuple.(*ssa.Call); ok && !st.okCall[c] {
						st.callFacts(c)
					}
				}
			}
		}
		if !added {
			break
		}
	}
	if st.infeasible() {
		return true
	}
	e.nFM++
	if entails(st.fs.ineqs, st.goal) {
		return true
	}
	// a disequality  L != 0  contradicted by the facts (they entail L == 0): the state is infeasible whatever the
	// goal - the edge of a phi taken under  t == K  while the path knows  t != K  (no CSE: two SSA values compare
	// the same operands)
	for _, nq := range st.fs.neqs {
		l := st.substLin(nq)
		if len(l.T) == 0 {
			continue
		}
		mentioned := false
		for _, q := range st.fs.ineqs {
			for v := range l.T {
				if _, ok := q.L.T[v]; ok {
					mentioned = true
				}
			}
		}
		if !mentioned {
			continue
		}
		e.nFM += 2
		if fmUnsat(append(append([]Ineq{}, st.fs.ineqs...), Ineq{l.neg().addK(-1)})) && fmUnsat(append(append([]Ineq{}, st.fs.ineqs...), Ineq{l.addK(-1)})) {
			return true
		}
	}
	if depth <= 0 {
		return false
	}
	// case split on a disequality  L != 0  that touches the cone:  L <= -1  or  L >= 1
	{
		cone := map[int]bool{}
		for v := range st.goal.L.T {
			cone[v] = true
		}
		for changed := true; changed; {
			changed = false
			for _, q := range st.fs.ineqs {
				hit := false
				for v := range q.L.T {
					if cone[v] {
						hit = true
						break
					}
				}
				if hit {
					for v := range q.L.T {
						if !cone[v] {
							cone[v] = true
							changed = true
						}
					}
				}
			}
		}
		for i, nq := range st.fs.neqs {
			l := st.substLin(nq)
			hit := false
			for v := range l.T {
				if cone[v] {
					hit = true
				}
			}
			if !hit {
				continue
			}
			rest := append(append([]Lin{}, st.fs.neqs[:i]...), st.fs.neqs[i+1:]...)
			okAll := true
			for _, side := range []Ineq{{l.neg().addK(-1)}, {l.addK(-1)}} {
				if *st.budget <= 0 {
					return false
				}
				*st.budget--
				sub := &solveState{fc: st.fc, sigma: st.sigma, seenVar: map[int]bool{}, seenCall: map[*ssa.Call]bool{}, okCall: map[*ssa.Call]bool{}, budget: st.budget, pendingCalls: st.pendingCalls}
				sub.goal = st.goal
				sub.fs.ineqs = append(append([]Ineq{}, st.fs.ineqs...), side)
				sub.fs.atoms = st.fs.atoms
				sub.fs.neqs = rest
				if !sub.solve(at, depth-1) {
					okAll = false
					break
				}
			}
			if okAll {
				return true
			}
			break
		}
	}
	// case split on a non-loop phi in the cone
	cone := map[int]bool{}
	for v := range st.goal.L.T {
		cone[v] = true
	}
	for changed := true; changed; {
		changed = false
		for _, q := range st.fs.ineqs {
			hit := false
			for v := range q.L.T {
				if cone[v] {
					hit = true
					break
				}
			}
			if hit {
				for v := range q.L.T {
					if !cone[v] {
						cone[v] = true
						changed = true
					}
				}
			}
		}
	}
	var phis []*ssa.Phi
	seen := map[*ssa.Phi]bool{}
	var ids []int
	for v := range cone {
		ids = append(ids, v)
	}
	sort.Ints(ids)
	for _, id := range ids {
		if p, ok := e.keys[id].root.(*ssa.Phi); ok && !e.isLoopHeaderPhi(p) && !seen[p] {
			if _, done := st.sigma[p]; !done {
				seen[p] = true
				phis = append(phis, p)
			}
		}
	}
	// also phis appearing in nil atoms (error phis)
	for _, a := range st.fs.atoms {
		if p, ok := st.substVal(a.V).(*ssa.Phi); ok && !e.isLoopHeaderPhi(p) && !seen[p] {
			seen[p] = true
			phis = append(phis, p)
		}
	}
	if len(phis) == 0 {
		return false
	}
	// prefer the phi whose block is latest in dominance order (closest to the use)
	sort.Slice(phis, func(i, j int) bool {
		bi, bj := phis[i].Block(), phis[j].Block()
		if bi != bj {
			if bi.Dominates(bj) {
				return false
			}
			if bj.Dominates(bi) {
				return true
			}
		}
		return phis[i].Pos() > phis[j].Pos()
	})
	p := phis[0]
	B := p.Block()
	for i, pred := range B.Preds {
		sigma := map[ssa.Value]ssa.Value{}
		for k, v := range st.sigma {
			sigma[k] = v
		}
		for _, ins := range B.Instrs {
			q, ok := ins.(*ssa.Phi)
			if !ok {
				break
			}
			sigma[q] = q.Edges[i]
		}
		extra := &factSet{}
		// keep the facts we have (they hold at `at`), add the path conditions of the predecessor and the edge
		extra.ineqs = append(extra.ineqs, st.fs.ineqs...)
		extra.atoms = append(extra.atoms, st.fs.atoms...)
		e.condFacts(pred, extra)
		if c := ifCond(pred); c != nil && pred.Succs[0] != pred.Succs[1] {
			e.addCond(Cond{c, pred.Succs[0] == B}, extra)
		}
		sub := &solveState{fc: st.fc, sigma: sigma, seenVar: map[int]bool{}, seenCall: map[*ssa.Call]bool{}, okCall: map[*ssa.Call]bool{}, budget: st.budget}
		if *st.budget <= 0 {
			return false
		}
		*st.budget--
		sub.goal = Ineq{sub.substLin(st.goal.L)}
		for _, q := range extra.ineqs {
			sub.addIneq(q)
		}
		sub.fs.atoms = extra.atoms
		sub.fs.neqs = append(append([]Lin{}, st.fs.neqs...), extra.neqs...)
		sub.pendingCalls = st.pendingCalls
		if !sub.solve(at, depth-1) {
			return false
		}
	}
	return true
}

// ---- loop invariants (Houdini) ----

func (e *BE) loopInv(fc *fnCtx, p *ssa.Phi) []Ineq {
	B := p.Block()
	if !e.invOK[B] {
		e.invOK[B] = true
		e.houdini(fc, B)
	}
	return e.inv[p]
}

func (e *BE) houdini(fc *fnCtx, B *ssa.BasicBlock) {
	type cand struct {
		phi *ssa.Phi
		mk  func(x Lin) Ineq // candidate as a function of the phi's value
	}
	var cands []cand
	var phis []*ssa.Phi
	for _, ins := range B.Instrs {
		p, ok := ins.(*ssa.Phi)
		if !ok {
			break
		}
		if !isIntegerType(p.Type()) {
			continue
		}
		phis = append(phis, p)
		var inits []ssa.Value
		for i, pr := range B.Preds {
			if !B.Dominates(pr) {
				inits = append(inits, p.Edges[i])
			}
		}
		if len(inits) != 1 {
			continue
		}
		I := e.expand(inits[0])
		cands = append(cands,
			cand{p, func(x Lin) Ineq { return geq(x, I) }},
			cand{p, func(x Lin) Ineq { return leq(x, I) }},
		)
		// x >= 0 when the initial value is provably >= 0 at the loop entry
		for i, pr := range B.Preds {
			if !B.Dominates(pr) {
				_ = i
				budget := 100
				if fc.prove(geq(I, linConst(0)), pr, nil, nil, 2, &budget) {
					cands = append(cands, cand{p, func(x Lin) Ineq { return geq(x, linConst(0)) }})
				}
			}
		}
	}
	alive := make([]bool, len(cands))
	for i := range alive {
		alive[i] = true
	}
	install := func() {
		for _, p := range phis {
			e.inv[p] = nil
		}
		for i, c := range cands {
			if alive[i] {
				e.inv[c.phi] = append(e.inv[c.phi], c.mk(linVar(e.id(vkey{c.phi, "", 'v'}))))
			}
		}
	}
	for iter := 0; iter < 10; iter++ {
		install()
		changed := false
		for i, c := range cands {
			if !alive[i] {
				continue
			}
			for k, pr := range B.Preds {
				if !B.Dominates(pr) {
					continue
				}
				goal := c.mk(e.expand(c.phi.Edges[k]))
				extra := &factSet{}
				if cnd := ifCond(pr); cnd != nil && pr.Succs[0] != pr.Succs[1] {
					e.addCond(Cond{cnd, pr.Succs[0] == B}, extra)
				}
				budget := 200
				if !fc.prove(goal, pr, extra, nil, 3, &budget) {
					alive[i] = false
					changed = true
					break
				}
			}
		}
		if !changed {
			break
		}
	}
	install()
}

// ---- obligations ----

type ptrProv struct {
	base ssa.Value // slice/string/array pointer the pointer was derived from
	off  Lin
	ok   bool
}

// provenance of an unsafe/ordinary pointer: &s[i], unsafe.Pointer(p), unsafe.Add(p, k), (*T)(p)
func (e *BE) ptrOf(v ssa.Value, depth int) ptrProv {
	if depth > 10 {
		return ptrProv{}
	}
	if c := e.capturedLoad(v); c != nil {
		return e.ptrOf(c, depth+1)
	}
	switch x := v.(type) {
	case *ssa.IndexAddr:
		return ptrProv{base: x.X, off: e.expand(x.Index), ok: true}
	case *ssa.Convert:
		return e.ptrOf(x.X, depth+1)
	case *ssa.ChangeType:
		return e.ptrOf(x.X, depth+1)
	case *ssa.Call:
		if bi, ok := x.Call.Value.(*ssa.Builtin); ok && bi.Name() == "Add" && len(x.Call.Args) == 2 {
			p := e.ptrOf(x.Call.Args[0], depth+1)
			if p.ok {
				p.off = p.off.add(e.expand(x.Call.Args[1]))
			}
			return p
		}
		if _, isBuiltin := x.Call.Value.(*ssa.Builtin); !isBuiltin {
			return e.ptrOfCall(x) // a helper with a pointer postcondition (bounds10.go)
		}
	}
	return ptrProv{}
}

func isUnsafePointerDerived(v ssa.Value, depth int) bool {
	if depth > 10 {
		return false
	}
	switch x := v.(type) {
	case *ssa.Convert:
		if b, ok := x.X.Type().Underlying().(*types.Basic); ok && b.Kind() == types.UnsafePointer {
			return true
		}
		return isUnsafePointerDerived(x.X, depth+1)
	case *ssa.Call:
		if bi, ok := x.Call.Value.(*ssa.Builtin); ok && bi.Name() == "Add" {
			return true
		}
	}
	return false
}

// verifyFunc checks every obligation of fn and returns them.
func (e *BE) verifyFunc(fn *ssa.Function) []Oblig {
	fc := e.newFnCtx(fn)
	var obs []Oblig
	prove := func(kind string, at ssa.Instruction, desc string, goals ...Ineq) {
		ok := true
		why := ""
		for _, g := range goals {
			budget := 600
			if !fc.prove(g, at.Block(), nil, nil, 6, &budget) {
				ok = false
				why = "cannot prove " + e.show(g)
				break
			}
		}
		obs = append(obs, Oblig{Kind: kind, At: at, Desc: desc, OK: ok, Why: why})
	}
	for _, b := range fn.Blocks {
		for _, ins := range b.Instrs {
			switch x := ins.(type) {
			case *ssa.Slice:
				lo := linConst(0)
				if x.Low != nil {
					lo = e.expand(x.Low)
				}
				ln := e.lenOf(x.X, 'l')
				var hi Lin
				if x.High != nil {
					hi = e.expand(x.High)
				} else {
					hi = ln
				}
				desc := fmt.Sprintf("slice %s[%s:%s]", x.X.Name(), lo.String(e.name), hi.String(e.name))
				// 0 <= lo <= hi <= len (falls back to cap for reslicing within capacity)
				goals := []Ineq{geq(lo, linConst(0)), leq(lo, hi)}
				budget := 600
				if fc.prove(leq(hi, ln), b, nil, nil, 6, &budget) {
					prove("slice", x, desc, goals...)
				} else {
					_, isSl := x.X.Type().Underlying().(*types.Slice)
					if isSl {
						goals = append(goals, leq(hi, e.lenOf(x.X, 'c')))
					} else {
						goals = append(goals, leq(hi, ln))
					}
					prove("slice", x, desc, goals...)
				}
			case *ssa.IndexAddr:
				idx := e.expand(x.Index)
				ln := e.lenOf(x.X, 'l')
				prove("index", x, fmt.Sprintf("index %s[%s]", x.X.Name(), idx.String(e.name)), geq(idx, linConst(0)), lss(idx, ln))
			case *ssa.Index:
				if _, isMap := x.X.Type().Underlying().(*types.Map); isMap {
					continue
				}
				idx := e.expand(x.Index)
				ln := e.lenOf(x.X, 'l')
				prove("index", x, fmt.Sprintf("index %s[%s]", x.X.Name(), idx.String(e.name)), geq(idx, linConst(0)), lss(idx, ln))
			case *ssa.UnOp:
				if x.Op == token.MUL && isUnsafePointerDerived(x.X, 0) {
					pp := e.ptrOf(x.X, 0)
					sz := int64(1)
					if bt, ok := x.Type().Underlying().(*types.Basic); ok {
						switch bt.Kind() {
						case types.Uint16, types.Int16:
							sz = 2
						case types.Uint32, types.Int32, types.Float32:
							sz = 4
						case types.Uint64, types.Int64, types.Float64, types.Int, types.Uint:
							sz = 8
						case types.String:
							sz = -1
						}
					} else {
						sz = -1
					}
					if sz == -1 {
						// header cast idiom *(*string)(unsafe.Pointer(&p)) with p a local slice variable
						if okCast := stringHeaderCast(x); okCast {
							obs = append(obs, Oblig{Kind: "unsafe-load", At: x, Desc: "string header view of a local []byte variable", OK: true})
						} else {
							obs = append(obs, Oblig{Kind: "unsafe-load", At: x, Desc: "unsafe load of a composite type", OK: false, Why: "unsafe cast of unknown shape"})
						}
						continue
					}
					if !pp.ok {
						if _, _, isParam := ptrParamOf(x.X, 0); isParam && e.ptrReqs(fn) != nil {
							obs = append(obs, Oblig{Kind: "unsafe-load", At: x, Desc: "load through a pointer parameter at a constant offset: the readable bytes are a precondition proved at every call site (bounds8.go)", OK: true})
							continue
						}
						obs = append(obs, Oblig{Kind: "unsafe-load", At: x, Desc: "unsafe pointer load", OK: false, Why: "pointer provenance unknown"})
						continue
					}
					ln := e.lenOf(pp.base, 'l')
					prove("unsafe-load", x, fmt.Sprintf("unsafe load at %s+%s (%d bytes)", pp.base.Name(), pp.off.String(e.name), sz),
						geq(pp.off, linConst(0)), leq(pp.off.addK(sz), ln))
				}
			case *ssa.MakeSlice:
				prove("makeslice", x, "make: len >= 0, len <= cap", geq(e.expand(x.Len), linConst(0)), leq(e.expand(x.Len), e.expand(x.Cap)))
			case *ssa.BinOp:
				if (x.Op == token.QUO || x.Op == token.REM) && isIntegerType(x.Type()) {
					if _, isC := constInt(x.Y); !isC {
						d := e.expand(x.Y)
						// divisor != 0: prove d >= 1 (all divisors in the cone are positive sizes)
						prove("div", x, "division by a non-constant divisor", geq(d, linConst(1)))
					}
				}
			case *ssa.TypeAssert:
				if !x.CommaOk {
					obs = append(obs, Oblig{Kind: "typeassert", At: x, Desc: "type assertion without comma-ok", OK: false, Why: "may panic"})
				}
			case *ssa.Panic:
				obs = append(obs, Oblig{Kind: "panic", At: x, Desc: "explicit panic", OK: false, Why: "explicit panic reachable"})
			case *ssa.Call:
				callee := e.c.calleeOf(&x.Call)
				if callee == nil {
					continue
				}
				con := e.contractFor(callee)
				if con != nil && len(con.Pre) > 0 {
					env := &cenv{e: e, params: x.Call.Args}
					var goals []Ineq
					for _, p := range con.Pre {
						goals = append(goals, p(env))
					}
					prove("pre", x, "precondition of "+fnKey(callee), goals...)
				}
				// pointer preconditions (bounds8.go): k bytes readable at the pointer handed to the helper
				if reqs := e.ptrReqs(callee); len(reqs) > 0 {
					for idx := 0; idx < len(x.Call.Args); idx++ {
						k, need := reqs[idx]
						if !need {
							continue
						}
						pp := e.ptrOf(x.Call.Args[idx], 0)
						if !pp.ok {
							obs = append(obs, Oblig{Kind: "unsafe-load", At: x, Desc: fmt.Sprintf("%d bytes readable at the pointer handed to %s", k, callee.Name()), OK: false, Why: "pointer provenance unknown"})
							continue
						}
						prove("unsafe-load", x, fmt.Sprintf("%d bytes readable at %s+%s handed to %s", k, pp.base.Name(), pp.off.String(e.name), callee.Name()),
							geq(pp.off, linConst(0)), leq(pp.off.addK(k), e.lenOf(pp.base, 'l')))
					}
				}
				// guarded preconditions (bounds7.go): proved under the assumption that the guard argument is nil
				if gps := e.guardedFor(callee); len(gps) > 0 {
					ok, why := true, ""
					for _, gp := range gps {
						goal, extra, needed, good := e.guardedGoal(gp, x)
						if !needed {
							continue
						}
						budget := 600
						if !good || !fc.prove(goal, x.Block(), extra, nil, 6, &budget) {
							ok, why = false, "cannot prove "+gp.desc
							break
						}
					}
					obs = append(obs, Oblig{Kind: "pre", At: x, Desc: "guarded precondition of " + fnKey(callee), OK: ok, Why: why})
				}
				for _, a := range x.Call.Args {
					if hasInv(a.Type()) {
						if inv := e.structInv(a); len(inv) > 0 {
							prove("inv", x, fmt.Sprintf("type invariant of %s passed to %s", a.Type(), callee.Name()), inv...)
						}
					}
				}
			case *ssa.Return:
				e.verifyReturn(fc, x, &obs)
			}
		}
	}
	return obs
}

func stringHeaderCast(ld *ssa.UnOp) bool {
	cv, ok := ld.X.(*ssa.Convert)
	if !ok {
		return false
	}
	cv2, ok := cv.X.(*ssa.Convert)
	if !ok {
		return false
	}
	al, ok := cv2.X.(*ssa.Alloc)
	if !ok {
		return false
	}
	_, isSl := deref(al.Type()).Underlying().(*types.Slice)
	return isSl && bytesLike(deref(al.Type()))
}

func (e *BE) verifyReturn(fc *fnCtx, ret *ssa.Return, obs *[]Oblig) {
	con := fc.con
	sig := fc.fn.Signature
	env := &cenv{e: e}
	for _, p := range fc.fn.Params {
		env.params = append(env.params, p)
	}
	env.results = ret.Results
	do := func(kind, desc string, extra *factSet, goals []Ineq) {
		ok, why := true, ""
		for _, g := range goals {
			budget := 800
			if !fc.prove(g, ret.Block(), extra, nil, 7, &budget) {
				ok, why = false, "cannot prove "+e.show(g)
				break
			}
		}
		*obs = append(*obs, Oblig{Kind: kind, At: ret, Desc: desc, OK: ok, Why: why})
	}
	// type invariants of returned values
	for _, r := range ret.Results {
		if hasInv(r.Type()) {
			do("inv", fmt.Sprintf("type invariant of returned %s", r.Type()), nil, e.structInv(r))
		}
	}
	if con == nil || con.Axiom {
		return
	}
	if len(con.Post) > 0 {
		var goals []Ineq
		for _, p := range con.Post {
			goals = append(goals, p(env))
		}
		do("post", "postcondition (all returns)", nil, goals)
	}
	if len(con.PostOK) > 0 {
		rs := sig.Results()
		errv := ret.Results[rs.Len()-1]
		extra, feasible := okExtra(errv) // err == nil, or ok == true for helpers with a bool success flag
		if !feasible {
			return
		}
		var goals []Ineq
		for _, p := range con.PostOK {
			goals = append(goals, p(env))
		}
		do("post", "postcondition when err == nil", extra, goals)
	}
	// locality of returned views (ok returns)
	if len(con.Locality) > 0 {
		rs := sig.Results()
		errv := ret.Results[rs.Len()-1]
		if knownNonNil(errv) {
			return
		}
		extra := &factSet{}
		if !isNilConst(errv) {
			extra.atoms = append(extra.atoms, Atom{V: errv, IsNil: true})
		}
		for _, lc := range con.Locality {
			res := unspill(ret.Results[lc.Res])
			if isNilConst(res) {
				continue // no data returned
			}
			if c, ok := res.(*ssa.Const); ok && c.Value != nil {
				continue // constant (empty string)
			}
			off, base := e.offOf(res)
			ln := e.lenOf(res, 'l')
			bl := e.lenOf(fc.fn.Params[lc.Param], 'l')
			n := linConst(0)
			if lc.N >= 0 {
				n = e.expand(ret.Results[lc.N])
			}
			desc := fmt.Sprintf("locality: returned %s is a view into the last n bytes of %s", ret.Results[lc.Res].Type(), fc.fn.Params[lc.Param].Name())
			if base != ssa.Value(fc.fn.Params[lc.Param]) {
				// a phi of views / of nil: decide by the linear facts only if every incoming value derives from the parameter
				if !e.derivesFrom(res, fc.fn.Params[lc.Param], 0) {
					// zero-length results carry no data
					budget := 300
					if fc.prove(leq(ln, linConst(0)), ret.Block(), extra, nil, 5, &budget) {
						continue
					}
					*obs = append(*obs, Oblig{Kind: "local", At: ret, Desc: desc, OK: false, Why: "the returned bytes are not a slice of the input parameter"})
					continue
				}
			}
			goals := []Ineq{geq(off, bl.sub(n)), leq(off.add(ln), bl)}
			if lc.N < 0 {
				goals = []Ineq{leq(off.add(ln), bl), geq(off.add(ln), bl)}
				desc = fmt.Sprintf("locality: the returned data is a suffix of %s", fc.fn.Params[lc.Param].Name())
			}
			if lc.Exact {
				goals = append(goals, leq(off, bl.sub(n)), leq(ln, n), geq(ln, n))
				desc = fmt.Sprintf("locality: the returned value is exactly the last n bytes of %s", fc.fn.Params[lc.Param].Name())
			}
			do("local", desc, extra, goals)
		}
	}
}

// derivesFrom: v is obtained from parameter p by slicing only (through phis, casts and module calls on slices of p).
func (e *BE) derivesFrom(v ssa.Value, p *ssa.Parameter, depth int) bool {
	if depth > 8 {
		return false
	}
	switch x := v.(type) {
	case *ssa.Parameter:
		return x == p
	case *ssa.Slice:
		return e.derivesFrom(x.X, p, depth+1)
	case *ssa.ChangeType:
		return e.derivesFrom(x.X, p, depth+1)
	case *ssa.Phi:
		for _, ed := range x.Edges {
			if isNilConst(ed) {
				continue
			}
			if !e.derivesFrom(ed, p, depth+1) {
				return false
			}
		}
		return true
	case *ssa.UnOp:
		if x.Op == token.MUL && stringHeaderCast(x) {
			al := x.X.(*ssa.Convert).X.(*ssa.Convert).X.(*ssa.Alloc)
			if val, rest, ok := e.storedValue(al, nil, x); ok && len(rest) == 0 {
				return e.derivesFrom(val, p, depth+1)
			}
		}
	case *ssa.Extract:
		if call, ok := x.Tuple.(*ssa.Call); ok && len(call.Call.Args) > 0 && e.c.calleeOf(&call.Call) != nil {
			if con := e.contractFor(e.c.calleeOf(&call.Call)); con != nil {
				for _, lc := range con.Locality {
					if lc.Res == x.Index {
						return e.derivesFrom(call.Call.Args[lc.Param], p, depth+1)
					}
				}
				// explicit data helpers (decodeBytesData etc.) return a slice of their first argument
				if bytesLike(call.Call.Args[0].Type()) && x.Index == 0 {
					return e.derivesFrom(call.Call.Args[0], p, depth+1)
				}
			}
		}
	}
	return false
}
