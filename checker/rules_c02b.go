package main

import (
	"fmt"
	"go/token"
	"go/types"
	"sort"
	"strings"

	"golang.org/x/tools/go/ssa"
)

// R02.2: the recursive parser descends. ParseValue -> ParseList / ParseMessage -> ParseValue recurses on nested
// values. "Never panics" includes the one crash recover() cannot stop: a stack overflow. The recursion is bounded by
// the input only if every cycle of calls hands a STRICTLY shorter buffer down at least once and never a longer one:
// a hostile offset table whose entry points at the enclosing value itself must not make the parser re-enter on the
// same bytes. For every strongly connected component of the read cone's static call graph the bounds engine proves,
// per call edge inside it, len(argument buffer) <= len(caller's buffer) and, where it can, <= len - 1; the component
// minus its strictly decreasing edges must be acyclic.

func init() {
	register(&Rule{ID: "R02.2", Props: []string{"C02", "C13", "C11"}, Floor: 1,
		Doc: "recursion descends: in every recursive cycle of the read cone each call passes a buffer no longer than the caller's, and every cycle contains a call that passes a strictly shorter one (bounds engine)",
		Run: runR02_2})
}

func bufferParam(fn *ssa.Function) int {
	for i, p := range fn.Params {
		if bytesLike(p.Type()) {
			return i
		}
	}
	return -1
}

func runR02_2(c *Ctx, r *R) {
	// the depth obligation is C02's and C11's (the descent obligation also serves C13)
	rDepth := &R{c: c, rule: &Rule{ID: r.rule.ID, Props: []string{"C02", "C11"}}}
	defer func() { r.n += rDepth.n }()
	e := newBE(c)
	cone := readCone(c)
	var module []*ssa.Function
	for _, rel := range analysedPkgs {
		module = append(module, c.SrcFuncs(rel)...)
	}
	e.inferPost(cone)
	e.inferPre(cone, module)
	e.inferPreGuarded(cone, module)
	e.inferPost(cone)
	inCone := map[*ssa.Function]bool{}
	for _, f := range cone {
		inCone[f] = true
	}
	// static call graph of the cone
	succ := map[*ssa.Function][]*ssa.Call{}
	for _, f := range cone {
		for _, call := range callsIn(f, true) {
			cv, ok := call.(*ssa.Call)
			if !ok {
				continue
			}
			if g := c.calleeOf(call.Common()); g != nil && inCone[g] {
				succ[f] = append(succ[f], cv)
			}
		}
	}
	// Tarjan
	index, low := map[*ssa.Function]int{}, map[*ssa.Function]int{}
	onStack := map[*ssa.Function]bool{}
	var stack []*ssa.Function
	var sccs [][]*ssa.Function
	next := 0
	var strong func(v *ssa.Function)
	strong = func(v *ssa.Function) {
		index[v], low[v] = next, next
		next++
		stack = append(stack, v)
		onStack[v] = true
		for _, cv := range succ[v] {
			w := c.calleeOf(&cv.Call)
			if _, seen := index[w]; !seen {
				strong(w)
				if low[w] < low[v] {
					low[v] = low[w]
				}
			} else if onStack[w] && index[w] < low[v] {
				low[v] = index[w]
			}
		}
		if low[v] == index[v] {
			var comp []*ssa.Function
			for {
				w := stack[len(stack)-1]
				stack = stack[:len(stack)-1]
				onStack[w] = false
				comp = append(comp, w)
				if w == v {
					break
				}
			}
			sccs = append(sccs, comp)
		}
	}
	for _, f := range cone {
		if _, seen := index[f]; !seen {
			strong(f)
		}
	}
	nCyc := 0
	for _, comp := range sccs {
		in := map[*ssa.Function]bool{}
		for _, f := range comp {
			in[f] = true
		}
		cyclic := len(comp) > 1
		if !cyclic {
			for _, cv := range succ[comp[0]] {
				if c.calleeOf(&cv.Call) == comp[0] {
					cyclic = true
				}
			}
		}
		if !cyclic {
			continue
		}
		nCyc++
		sort.Slice(comp, func(i, j int) bool { return fnKey(comp[i]) < fnKey(comp[j]) })
		var names []string
		for _, f := range comp {
			names = append(names, fnKey(f))
		}
		key := "recursion{" + strings.Join(names, ",") + "}"
		// judge the edges
		type edge struct {
			from, to *ssa.Function
			strict   bool
		}
		var weak []edge
		bad := ""
		var pos = comp[0].Pos()
		for _, f := range comp {
			fb := bufferParam(f)
			fc := e.newFnCtx(f)
			for _, cv := range succ[f] {
				g := c.calleeOf(&cv.Call)
				if !in[g] {
					continue
				}
				gb := bufferParam(g)
				if fb < 0 || gb < 0 || gb >= len(cv.Call.Args) {
					bad = fmt.Sprintf("%s calls %s inside a recursive cycle but one of them has no buffer parameter to measure", fnKey(f), fnKey(g))
					pos = cv.Pos()
					continue
				}
				la := e.lenOf(cv.Call.Args[gb], 'l')
				lf := e.lenOf(f.Params[fb], 'l')
				b1, b2 := 600, 600
				strict := fc.prove(leq(la, lf.addK(-1)), cv.Block(), nil, nil, 6, &b1)
				if !strict && !fc.prove(leq(la, lf), cv.Block(), nil, nil, 6, &b2) {
					if bad != "" {
						bad += "; "
					}
					bad += fmt.Sprintf("%s hands %s a buffer that is not provably within its own (%s)", fnKey(f), fnKey(g), c.pos(cv.Pos()))
					pos = cv.Pos()
					continue
				}
				if !strict {
					weak = append(weak, edge{f, g, false})
				}
			}
		}
		if bad != "" {
			r.Bad(key, pos, "%s: the recursion is not bounded by the input", bad)
			continue
		}
		// the non-strict edges alone must not form a cycle
		adj := map[*ssa.Function][]*ssa.Function{}
		for _, ed := range weak {
			adj[ed.from] = append(adj[ed.from], ed.to)
		}
		state := map[*ssa.Function]int{}
		var cyc []string
		var dfs func(v *ssa.Function, path []string) bool
		dfs = func(v *ssa.Function, path []string) bool {
			state[v] = 1
			for _, w := range adj[v] {
				if state[w] == 1 {
					cyc = append(append([]string{}, path...), fnKey(v), fnKey(w))
					return true
				}
				if state[w] == 0 && dfs(w, append(path, fnKey(v))) {
					return true
				}
			}
			state[v] = 2
			return false
		}
		found := false
		for _, f := range comp {
			if state[f] == 0 && dfs(f, nil) {
				found = true
				break
			}
		}
		// depth: "bounded by the input" is not "bounded". One level of nesting costs a few bytes of input and a few
		// hundred bytes of goroutine stack; the stack limit (1 GB) is a fatal error no recover() stops. Unless some
		// function of the cycle carries a depth counter that it tests against a constant and hands on changed, a
		// well-formed value of a few tens of megabytes kills the process.
		{
			counted := false
			for _, f := range comp {
				for pi, p := range f.Params {
					b, ok := p.Type().Underlying().(*types.Basic)
					if !ok || b.Info()&types.IsInteger == 0 {
						continue
					}
					tested, handedOn := false, false
					for _, u := range users(p) {
						if cmp, ok := u.(*ssa.BinOp); ok {
							switch cmp.Op {
							case token.LSS, token.GTR, token.LEQ, token.GEQ:
								if _, isK := constInt(cmp.Y); isK {
									tested = true
								}
								if _, isK := constInt(cmp.X); isK {
									tested = true
								}
							case token.ADD, token.SUB:
								for _, cv := range succ[f] {
									if !in[c.calleeOf(&cv.Call)] {
										continue
									}
									for _, a := range cv.Call.Args {
										if a == ssa.Value(cmp) {
											handedOn = true
										}
									}
								}
							}
						}
					}
					_ = pi
					if tested && handedOn {
						counted = true
					}
				}
			}
			// keyed by the exported functions of the cycle: stable when a helper joins the cycle (parseElement)
			var exported []string
			for _, f := range comp {
				if token.IsExported(f.Name()) {
					exported = append(exported, fnKey(f))
				}
			}
			if len(exported) == 0 {
				exported = names
			}
			dkey := "recursion-depth{" + strings.Join(exported, ",") + "}"
			if counted {
				rDepth.OK(dkey, pos, "the cycle carries a depth counter tested against a constant")
			} else {
				rDepth.Bad(dkey, pos, "the nesting depth of the recursive parser is limited only by the size of the input: no function of the cycle carries a depth counter. A well-formed value nested a few million levels deep (about 44 MB: lists of one element) makes ParseValue exceed the 1 GB goroutine stack limit - a fatal error that no recover() stops, the process dies (findings/repro/nested_value_stack_overflow_test.go). mpx reads a frame of whatever size its 4-byte prefix announces and parses it before looking at its code, so a peer can do this to a server")
			}
		}
		if found {
			r.Bad(key, pos, "the cycle %s passes its buffer on without ever provably shortening it: an offset table entry that points at the enclosing value makes the parser re-enter on the same bytes until the stack overflows (a crash no recover() stops)", strings.Join(cyc, " -> "))
		} else {
			r.OK(key, pos, "every cycle hands a strictly shorter buffer down at least once (%d non-strict edges, acyclic)", len(weak))
		}
	}
	if nCyc == 0 {
		r.Unk("read-cone/recursion", 0, "anchor lost: no recursive cycle found in the read cone (ParseValue <-> ParseList/ParseMessage expected)")
	}
}
