package main

import (
	"fmt"

	"golang.org/x/tools/go/ssa"
)

// R04.9: what comes off the wire is validated before it is believed. Every frame an rpc client or server takes from
// its mpx channel (Channel.Receive / ReceiveAsync) becomes a prpc.Message only through prpc.ParseMessage, which parses
// the whole tree recursively. The Open* functions read the outer table only: a reply whose status says OK but whose
// result bytes are damaged would be handed to the caller as a successful call ("a malformed reply surfaces as a
// non-OK status, never as OK").

func init() {
	register(&Rule{ID: "R04.9", Props: []string{"C04", "C09"}, Floor: 3,
		Doc: "received frames are validated: bytes obtained from mpx Channel.Receive/ReceiveAsync in package rpc flow only into prpc.ParseMessage",
		Run: runR04_9})
}

func runR04_9(c *Ctx, r *R) {
	n := 0
	for _, fn := range c.SrcFuncs("rpc") {
		k := 0
		for _, call := range callsIn(fn, false) {
			cc := call.Common()
			if !cc.IsInvoke() || (cc.Method.Name() != "Receive" && cc.Method.Name() != "ReceiveAsync") || !typeIs(cc.Value.Type(), pkgPath("mpx"), "Channel") {
				continue
			}
			cv, ok := call.(*ssa.Call)
			if !ok {
				continue
			}
			b := extractOf(cv, 0)
			if b == nil || !bytesLike(b.Type()) {
				continue
			}
			k++
			n++
			key := fmt.Sprintf("%s/%s#%d", fnKey(fn), cc.Method.Name(), k)
			bad := ""
			parsed := false
			var walk func(v ssa.Value, depth int)
			walk = func(v ssa.Value, depth int) {
				for _, u := range users(v) {
					switch x := u.(type) {
					case *ssa.DebugRef:
					case *ssa.Phi:
						if depth < 3 {
							walk(x, depth+1)
						}
					case *ssa.Call:
						if o := calleeObj(x); o != nil && o.Pkg() != nil && relPkg(o.Pkg().Path()) == "proto/prpc" {
							if o.Name() == "ParseMessage" {
								parsed = true
							} else {
								bad = fmt.Sprintf("the received bytes are handed to prpc.%s at %s", o.Name(), c.pos(x.Pos()))
							}
							continue
						}
						if b2, isB := x.Call.Value.(*ssa.Builtin); isB && (b2.Name() == "len" || b2.Name() == "cap") {
							continue
						}
						// a helper of the package: it must parse its parameter the same way
						if h := x.Call.StaticCallee(); h != nil && h.Blocks != nil && h.Pkg == fn.Pkg && depth < 2 {
							for i, a := range x.Call.Args {
								if a == v && i < len(h.Params) {
									walk(h.Params[i], depth+1)
								}
							}
							continue
						}
						bad = fmt.Sprintf("the received bytes are passed on unvalidated at %s", c.pos(x.Pos()))
					case *ssa.Return:
						// handed to the caller as raw bytes: the callers are rpc functions judged at their own use
					case *ssa.BinOp, *ssa.If:
					default:
						if bad == "" {
							bad = fmt.Sprintf("the received bytes are used at %s without having been parsed", c.pos(instrPos(u)))
						}
					}
				}
			}
			walk(b, 0)
			switch {
			case bad != "":
				r.Bad(key, cv.Pos(), "%s: only prpc.ParseMessage validates the nested request/response tree - with anything less a malformed reply reaches the caller with status OK", bad)
			case parsed:
				r.OK(key, cv.Pos(), "the frame is parsed recursively (prpc.ParseMessage) before use")
			default:
				r.OK(key, cv.Pos(), "the received bytes are not interpreted here")
			}
		}
	}
	if n == 0 {
		r.Unk("rpc/received-frames", 0, "anchor lost: no Channel.Receive / ReceiveAsync call found in package rpc")
	}
}
