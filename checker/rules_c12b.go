package main

import (
	"fmt"

	"golang.org/x/tools/go/ssa"
)

// R12.7: index and slice safety of the writer. "No call panics" includes the run-time panics of slice and index
// expressions in internal/writer (the entry stack, the element and field table stacks, the data buffer views).
// Every such instruction is an obligation for the bounds engine; what it cannot prove from the function alone is
// in a reviewed table with the invariant that makes it safe - so that a NEW unproved indexing site (D20: the
// element table sliced at the data offset) is reported.

func init() {
	register(&Rule{ID: "R12.7", Props: []string{"C12"}, Floor: 16,
		Doc: "index/slice safety of internal/writer: every indexing instruction is proved in range by the bounds engine or is a reviewed site whose safety follows from a stated stack invariant",
		Run: runR12_7})
}

// reviewed sites: function/kind#ordinal -> invariant
// I1: a table offset handed to listStack/messageStack is the tableStart of an open stack entry (R16.4 proves every
//
//	caller passes exactly that field); it was recorded as len(stack) when the object was opened, the table stacks
//	are truncated only by pop(tableStart) of the innermost open object (LIFO, R12.4/R12.5), so
//	0 <= tableStart <= len(stack) while the object is open.
//
// I2: entry.start is buf.Len() at the time the object was opened and the output buffer only grows until the object
//
//	ends, so 0 <= start <= buf.Len().
var r12Reviewed = map[string]string{
	"internal/writer.listStack.len/slice#1":           "I1",
	"internal/writer.listStack.pop/slice#1":           "I1",
	"internal/writer.listStack.pop/slice#2":           "I1",
	"internal/writer.messageStack.hasField/slice#1":   "I1",
	"internal/writer.messageStack.insert/slice#1":     "I1",
	"internal/writer.messageStack.pop/slice#1":        "I1",
	"internal/writer.messageStack.pop/slice#2":        "I1",
	"internal/writer.messageStack.hasField$1/index#1": "sort.Search calls its predicate only with 0 <= i < n, n = len(table) (standard library contract)",
	"internal/writer.messageStack.hasField/index#1":   "dominated by the return under n >= len(table); `table` is captured by the search predicate, which only reads it, so the two loads of the variable are the same slice (R16.4 checks the shape of this function)",
	"internal/writer.writer.endElement/slice#1":       "I2",
	"internal/writer.writer.endField/slice#1":         "I2",
	"internal/writer.writer.endList/slice#1":          "I2",
	"internal/writer.writer.endMessage/slice#1":       "I2",
	"internal/writer.writer.endValue/slice#1":         "I2",
}

func runR12_7(c *Ctx, r *R) {
	e := newBE(c)
	e.stablePtrFields = true
	n := 0
	for _, fn := range c.SrcFuncs("internal/writer") {
		cnt := map[string]int{}
		for _, o := range e.verifyFunc(fn) {
			switch o.Kind {
			case "slice", "index", "div", "makeslice":
			default:
				continue
			}
			if o.OK && constArrayOp(o.At) {
				continue
			}
			n++
			cnt[o.Kind]++
			key := fmt.Sprintf("%s/%s#%d", fnKey(fn), o.Kind, cnt[o.Kind])
			switch {
			case o.OK:
				r.OK(key, instrPos(o.At), "%s", o.Desc)
			case r12Reviewed[key] != "":
				r.OK(key, instrPos(o.At), "reviewed: %s (%s)", r12Reviewed[key], o.Desc)
			case isSliceInstr(o.At) && isEntryStartSlice(o.At.(*ssa.Slice)):
				r.OK(key, instrPos(o.At), "reviewed: I2 - a view of the buffer from the start of a stack entry (%s)", o.Desc)
			default:
				r.Bad(key, instrPos(o.At), "%s: %s - a call sequence for which the bound fails makes the writer panic", o.Desc, o.Why)
			}
		}
	}
	r.Note("%d indexing obligations in internal/writer", n)
}

func isSliceInstr(i ssa.Instruction) bool {
	_, ok := i.(*ssa.Slice)
	return ok
}
