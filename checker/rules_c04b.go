package main

import (
	"go/constant"
	"go/token"

	"golang.org/x/tools/go/ssa"
)

type tableEntry struct{ key, val string }

// identityTableLookup: ret returns the value found in a package-level map under the key that is the function's
// (converted) first parameter, on a path where the lookup's ok result is true. The map must be a variable of the
// package that is built once by the package initialiser from constant pairs and never updated or replaced anywhere
// else. Returns its entries.
func identityTableLookup(c *Ctx, f *ssa.Function, ret *ssa.Return) ([]tableEntry, bool) {
	v := ret.Results[0]
	for {
		switch x := v.(type) {
		case *ssa.Convert:
			v = x.X
			continue
		case *ssa.ChangeType:
			v = x.X
			continue
		}
		break
	}
	ex, ok := v.(*ssa.Extract)
	if !ok || ex.Index != 0 {
		return nil, false
	}
	lk, ok := ex.Tuple.(*ssa.Lookup)
	if !ok || !lk.CommaOk {
		return nil, false
	}
	// key derives from the parameter by conversions only
	kv := lk.Index
	for {
		switch x := kv.(type) {
		case *ssa.Convert:
			kv = x.X
			continue
		case *ssa.ChangeType:
			kv = x.X
			continue
		}
		break
	}
	if len(f.Params) == 0 || kv != ssa.Value(f.Params[0]) {
		return nil, false
	}
	// returned only under ok == true
	okv := extractOf(lk, 1)
	under := false
	for _, cd := range pathConds(ret.Block()) {
		cv, truth := cd.V, cd.Truth
		if un, isNot := cv.(*ssa.UnOp); isNot && un.Op == token.NOT {
			cv, truth = un.X, !truth
		}
		if okv != nil && cv == ssa.Value(okv) && truth {
			under = true
		}
	}
	if !under {
		return nil, false
	}
	ld, ok := lk.X.(*ssa.UnOp)
	if !ok || ld.Op != token.MUL {
		return nil, false
	}
	g, ok := ld.X.(*ssa.Global)
	if !ok || g.Pkg != f.Pkg {
		return nil, false
	}
	// the only store to g is in the package initialiser, of a MakeMap filled with constant pairs; no function of
	// the package updates a map loaded from g or takes g's address for anything but loading
	var mk *ssa.MakeMap
	stores := 0
	clean := true
	for _, m := range f.Pkg.Members {
		fn, isFn := m.(*ssa.Function)
		if !isFn {
			continue
		}
		withAnon(fn, func(h *ssa.Function) {
			allInstrs(h, func(i ssa.Instruction) {
				switch x := i.(type) {
				case *ssa.Store:
					if x.Addr == ssa.Value(g) {
						stores++
						if h.Name() == "init" && h.Synthetic != "" {
							mk, _ = x.Val.(*ssa.MakeMap)
						}
					} else if x.Val == ssa.Value(g) {
						clean = false
					}
				case *ssa.MapUpdate:
					if l2, isLd := x.Map.(*ssa.UnOp); isLd && l2.X == ssa.Value(g) {
						clean = false
					}
				case *ssa.UnOp:
				default:
					for _, op := range i.Operands(nil) {
						if *op == ssa.Value(g) {
							clean = false
						}
					}
				}
			})
		})
	}
	for _, t := range c.SrcFuncs(relPkg(f.Pkg.Pkg.Path())) {
		// methods are not package members: scan them too
		allInstrs(t, func(i ssa.Instruction) {
			switch x := i.(type) {
			case *ssa.Store:
				if x.Addr == ssa.Value(g) && !(t.Name() == "init" && t.Synthetic != "") {
					clean = false
				}
			case *ssa.MapUpdate:
				if l2, isLd := x.Map.(*ssa.UnOp); isLd && l2.X == ssa.Value(g) {
					clean = false
				}
			}
		})
	}
	if mk == nil || stores != 1 || !clean {
		return nil, false
	}
	var out []tableEntry
	for _, u := range users(mk) {
		switch x := u.(type) {
		case *ssa.MapUpdate:
			kk, ok1 := x.Key.(*ssa.Const)
			vv, ok2 := x.Value.(*ssa.Const)
			if !ok1 || !ok2 || kk.Value == nil || vv.Value == nil || kk.Value.Kind() != constant.String || vv.Value.Kind() != constant.String {
				return nil, false
			}
			out = append(out, tableEntry{constant.StringVal(kk.Value), constant.StringVal(vv.Value)})
		case *ssa.Store, *ssa.DebugRef:
		default:
			return nil, false
		}
	}
	return out, len(out) > 0
}
