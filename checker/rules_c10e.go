package main

import (
	"go/token"
	"strings"

	"golang.org/x/tools/go/ssa"
)

// smallFormNarrowing (R10.1): the narrowing of a table entry's field (tag -> byte, offset -> uint16) in the table
// writers of internal/encode is value preserving because it executes only in the small table form, and the small
// form is chosen exactly when format.IsBigMessage / format.IsBigList of that table is false - i.e. when every tag
// is <= 255 and every offset <= 65535 (that is R08.2's obligation on those two functions). Decided structurally:
//   - the narrowed value is a field of an element of a table slice T;
//   - the conversion lies behind  B == false  for a boolean B, in its own function or - when that function is an
//     unexported helper handed the table - at every one of its call sites;
//   - B is the result of format.IsBigMessage(T) / format.IsBigList(T) on that same table, followed through the
//     parameters of unexported functions to all of their call sites.
func smallFormNarrowing(c *Ctx, cv *ssa.Convert) (string, bool) {
	tbl := tableOfField(cv.X, 0)
	if tbl == nil {
		return "", false
	}
	if why, ok := smallFormAt(c, cv, tbl, 0); ok {
		return why, true
	}
	return "", false
}

// tableOfField: v is (a field of) an element of a slice: returns the slice value.
func tableOfField(v ssa.Value, depth int) ssa.Value {
	if depth > 8 {
		return nil
	}
	switch x := v.(type) {
	case *ssa.Field:
		return tableOfField(x.X, depth+1)
	case *ssa.FieldAddr:
		return tableOfField(x.X, depth+1)
	case *ssa.IndexAddr:
		return x.X
	case *ssa.Index:
		return x.X
	case *ssa.UnOp:
		if x.Op == token.MUL {
			return tableOfField(x.X, depth+1)
		}
	case *ssa.Alloc:
		var val ssa.Value
		n := 0
		for _, u := range users(x) {
			if st, ok := u.(*ssa.Store); ok && st.Addr == ssa.Value(x) {
				n++
				val = st.Val
			}
		}
		if n == 1 {
			return tableOfField(val, depth+1)
		}
	case *ssa.Extract:
		// range over a slice through Next is not used for slices; nothing to do
	}
	return nil
}

func smallFormAt(c *Ctx, at ssa.Instruction, tbl ssa.Value, depth int) (string, bool) {
	fn := at.Parent()
	for _, cd := range pathConds(at.Block()) {
		v, truth := cd.V, cd.Truth
		for {
			un, isNot := v.(*ssa.UnOp)
			if !isNot || un.Op != token.NOT {
				break
			}
			v, truth = un.X, !truth
		}
		if truth || !isBoolType(v.Type()) {
			continue
		}
		if why, ok := isBigOf(v, tbl, 0); ok {
			return "small table form: executes only where " + why + " is false, i.e. every tag <= 255 and every offset <= 65535 (R08.2)", true
		}
	}
	// an unexported table writer that is handed the table: every call site lies in the small form
	p, isParam := tbl.(*ssa.Parameter)
	if !isParam || depth >= 2 || fn.Parent() != nil || token.IsExported(fn.Name()) {
		return "", false
	}
	sites, escapes := sitesOf(fn)
	if escapes || len(sites) == 0 {
		return "", false
	}
	pi := paramIndex(fn, p)
	why := ""
	for _, s := range sites {
		if _, isCall := s.(*ssa.Call); !isCall || pi >= len(s.Common().Args) {
			return "", false
		}
		w, ok := smallFormAt(c, s.(ssa.Instruction), s.Common().Args[pi], depth+1)
		if !ok {
			return "", false
		}
		why = w
	}
	return why + " at every call of " + fn.Name(), true
}

// isBigOf: boolean b is format.IsBigMessage(tbl) / format.IsBigList(tbl), possibly received through parameters of
// unexported functions (then at every call site, with the table argument that is handed along).
func isBigOf(b, tbl ssa.Value, depth int) (string, bool) {
	if depth > 3 {
		return "", false
	}
	switch x := b.(type) {
	case *ssa.Call:
		o := calleeObj(x)
		if o != nil && o.Pkg() != nil && strings.HasSuffix(o.Pkg().Path(), "internal/format") && (o.Name() == "IsBigMessage" || o.Name() == "IsBigList") && len(x.Call.Args) == 1 && x.Call.Args[0] == tbl {
			return "format." + o.Name() + "(table)", true
		}
	case *ssa.Parameter:
		fn := x.Parent()
		tp, ok := tbl.(*ssa.Parameter)
		if !ok || fn == nil || fn.Parent() != nil || token.IsExported(fn.Name()) {
			return "", false
		}
		sites, escapes := sitesOf(fn)
		if escapes || len(sites) == 0 {
			return "", false
		}
		bi, ti := paramIndex(fn, x), paramIndex(fn, tp)
		why := ""
		for _, s := range sites {
			args := s.Common().Args
			if _, isCall := s.(*ssa.Call); !isCall || bi >= len(args) || ti >= len(args) {
				return "", false
			}
			w, ok := isBigOf(args[bi], args[ti], depth+1)
			if !ok {
				return "", false
			}
			why = w
		}
		return why, true
	}
	return "", false
}
