package main

import (
	"go/types"
)

// intFieldPaths: integer-typed field paths of a struct type (depth <= 2), e.g. ".table.data".
func intFieldPaths(t types.Type, prefix string, depth int) []string {
	st, ok := t.Underlying().(*types.Struct)
	if !ok || depth > 2 {
		return nil
	}
	var out []string
	for i := 0; i < st.NumFields(); i++ {
		f := st.Field(i)
		if isIntegerType(f.Type()) {
			out = append(out, prefix+"."+f.Name())
		} else if _, isSt := f.Type().Underlying().(*types.Struct); isSt {
			out = append(out, intFieldPaths(f.Type(), prefix+"."+f.Name(), depth+1)...)
		}
	}
	return out
}
