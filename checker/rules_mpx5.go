package main

import (
	"fmt"
	"go/token"

	"golang.org/x/tools/go/ssa"
)

// R09.11: a channel the peer opens is re-checked against the sweep, like one we open ourselves. conn.close() fails
// every channel of the connection by sweeping the channel map once (closeChannels, after channelsClosed is set).
// The receive loop can still be working through frames it has already buffered when that happens - the send loop
// failed first on a write error. A ChannelOpen handled then inserts its channel BEHIND the sweep: nobody will ever
// free it or cancel its context, and its handler waits on a dead connection for ever. createChannel closes this
// window by re-checking channelsClosed after the insert (R09.6); receiveOpen must do the same before it hands the
// channel to a handler, and on a positive re-check remove what it inserted.

func init() {
	register(&Rule{ID: "R09.11", Props: []string{"C09", "C20"}, Floor: 1,
		Doc: "conn.receiveOpen starts the channel handler only after channelsClosed was re-checked behind the insert into the channel map",
		Run: runR09_11})
}

func runR09_11(c *Ctx, r *R) {
	f := r.Need("mpx", "conn.receiveOpen")
	if f == nil {
		return
	}
	sa := newStatusAn(c)
	insertIn := func(g *ssa.Function) ssa.Instruction {
		var insert ssa.Instruction
		for _, call := range callsIn(g, false) {
			if l := calleeLabel(call); l == "channels.GetOrSet" || l == "channels.Set" {
				insert = call.(ssa.Instruction)
			}
		}
		return insert
	}
	// the insert: in receiveOpen or in an unexported helper it calls (conn.addOpened)
	inserts := insertIn(f) != nil
	for _, call := range callsIn(f, false) {
		if h := call.Common().StaticCallee(); h != nil && h.Blocks != nil && h.Pkg == f.Pkg && insertIn(h) != nil {
			inserts = true
		}
	}
	if !inserts {
		r.Unk(fnKey(f)+"/insert", f.Pos(), "anchor lost: receiveOpen does not insert into the channel map")
		return
	}
	// rechecked(b): every path to b passes a channelsClosed.Load() == false evaluated behind the insert
	rechecked := func(b *ssa.BasicBlock) bool {
		insert := insertIn(b.Parent())
		if insert == nil {
			return false
		}
		for _, alt := range backPaths(b, nil, 64) {
			ok := false
			for _, cd := range alt {
				v, truth := cd.V, cd.Truth
				if un, isNot := v.(*ssa.UnOp); isNot && un.Op == token.NOT {
					v, truth = un.X, !truth
				}
				if lc, isCall := v.(*ssa.Call); isCall && !truth && calleeLabel(lc) == "channelsClosed.Load" && dominatesInstr(insert, lc) {
					ok = true
				}
			}
			if !ok {
				return false
			}
		}
		return true
	}
	n := 0
	for _, call := range callsIn(f, false) {
		o := calleeObj(call)
		starts := false
		if o != nil && (o.Name() == "newChannelHandler" || calleeLabel(call) == "workerPool.Run") {
			starts = true
		}
		if _, isGo := call.(*ssa.Go); isGo {
			starts = true
		}
		if !starts {
			continue
		}
		n++
		key := fmt.Sprintf("%s/recheck-before-handler#%d", fnKey(f), n)
		if establishedVia(sa, call.Block(), rechecked, 0) {
			r.OK(key, call.Pos(), "the handler is started only after channelsClosed was re-checked behind the insert")
		} else {
			r.Bad(key, call.Pos(), "the channel opened by the peer is handed to a handler without re-checking channelsClosed after it was inserted: when the send loop fails first, closeChannels sweeps the map while the receive loop still handles buffered frames - a channel inserted behind the sweep is never freed, its context is never cancelled and its handler waits for ever on a closed connection")
		}
	}
	if n == 0 {
		r.Unk(fnKey(f)+"/handler-start", f.Pos(), "anchor lost: receiveOpen does not start a handler")
	}
}
