package main

import (
	"fmt"
	"go/token"
	"strings"

	"golang.org/x/tools/go/ssa"
)

// R12.8: the sticky error is what Err reports. "The first error is sticky and is reported by all later calls"
// includes the one call whose whole job is to report it. Every Err() method of internal/writer returns the writer's
// err field itself (directly, through another Err method, or the nil constant only where the field was just tested
// nil): a filter that turns some stored error into nil makes Err disagree with every other call on the same writer.
//
// R12.9: an object's bytes start where the object started. The end* functions (endValue/endList/endMessage/endField/
// endElement) hand back the encoded bytes of the object that was just closed as a slice of the output buffer; its
// lower bound must be the start offset recorded in the stack entry of that very object. A slice from 0 is only right
// while the buffer was empty when the writer was created.

func init() {
	register(&Rule{ID: "R12.8", Props: []string{"C12"}, Floor: 2,
		Doc: "Err() of the writer and of its handles returns the sticky err field unfiltered",
		Run: runR12_8})
	register(&Rule{ID: "R12.9", Props: []string{"C12", "C01", "C08"}, Floor: 5,
		Doc: "the bytes returned by the writer's end* functions are buf[entry.start:...] of the stack entry just popped",
		Run: runR12_9})
}

func runR12_8(c *Ctx, r *R) {
	n := 0
	for _, fn := range c.SrcFuncs(writerPkg) {
		if fn.Parent() != nil || fn.Name() != "Err" || fn.Signature.Recv() == nil || fn.Signature.Results().Len() != 1 || !isErrorType(fn.Signature.Results().At(0).Type()) {
			continue
		}
		n++
		key := fnKey(fn) + "/unfiltered"
		bad := ""
		isErrLoad := func(v ssa.Value) bool {
			ld, ok := unspill(v).(*ssa.UnOp)
			if !ok || ld.Op != token.MUL {
				return false
			}
			fa, ok := ld.X.(*ssa.FieldAddr)
			return ok && fieldOf(fa).Name() == "err"
		}
		for _, ret := range returnsOf(fn) {
			v := unspill(ret.Results[0])
			switch {
			case isErrLoad(v):
			case isNilConst(v):
				// only where the field was tested nil on the way
				tested := false
				for _, alt := range backPaths(ret.Block(), nil, 16) {
					ok := false
					for _, cd := range alt {
						for _, rel := range relsOf(cd) {
							if rel.Op == token.EQL && ((isErrLoad(rel.X) && isNilConst(rel.Y)) || (isErrLoad(rel.Y) && isNilConst(rel.X))) {
								ok = true
							}
						}
					}
					tested = ok
					if !ok {
						break
					}
				}
				if !tested {
					bad = fmt.Sprintf("returns nil at %s although the stored error was not tested nil on that path", c.pos(ret.Pos()))
				}
			default:
				if call, ok := v.(*ssa.Call); ok {
					if o := calleeObj(call); o != nil && o.Name() == "Err" && o.Pkg() != nil && strings.HasSuffix(o.Pkg().Path(), writerPkg) {
						continue
					}
				}
				bad = fmt.Sprintf("returns something other than the err field at %s", c.pos(ret.Pos()))
			}
		}
		if bad == "" {
			r.OK(key, fn.Pos(), "reports the stored error as it is")
		} else {
			r.Bad(key, fn.Pos(), "%s: Err() no longer reports the sticky error that every other call on the same writer returns (a closed or failed writer looks healthy)", bad)
		}
	}
	if n == 0 {
		r.Unk(writerPkg+"/Err", 0, "anchor lost: no Err() method found in internal/writer")
	}
}

func runR12_9(c *Ctx, r *R) {
	n := 0
	for _, fn := range c.SrcFuncs(writerPkg) {
		if fn.Parent() != nil || !strings.HasPrefix(fn.Name(), "end") || fn.Signature.Recv() == nil {
			continue
		}
		rs := fn.Signature.Results()
		if rs.Len() != 2 || !bytesLike(rs.At(0).Type()) || !isErrorType(rs.At(1).Type()) {
			continue
		}
		// the entry popped by this function
		var popped ssa.Value
		for _, call := range callsIn(fn, false) {
			if o := calleeObj(call); o != nil && objName(o) == "stack.pop" {
				if cv, ok := call.(*ssa.Call); ok {
					if ex := extractOf(cv, 0); ex != nil {
						popped = ex
					}
				}
			}
		}
		if popped == nil {
			continue // a dispatcher (end) that forwards to the others
		}
		k := 0
		for _, ret := range returnsOf(fn) {
			if !isNilConst(ret.Results[1]) {
				// `return w.endTable(list.start)`: the helper's tuple is forwarded, its bytes are judged
				if tc := tailCallOf(ret); tc == nil || tc.Call.StaticCallee() == nil || tc.Call.StaticCallee().Pkg != fn.Pkg || !bytesLike(ret.Results[0].Type()) {
					continue
				} else if o := calleeObj(tc); o != nil && (o.Name() == "fail" || o.Name() == "failf") {
					continue
				}
			}
			k++
			n++
			key := fmt.Sprintf("%s/bytes-from-start#%d", fnKey(fn), k)
			good, why := sliceFromEntryStart(unspill(ret.Results[0]), popped, 0)
			if good {
				r.OK(key, ret.Pos(), "returns buf[entry.start:...] of the popped entry")
			} else {
				r.Bad(key, ret.Pos(), "the bytes returned for the object just ended do not start at that object's recorded start offset (%s): with a non-empty output buffer the caller gets foreign bytes in front of the value, and the result does not parse as the value that was written", why)
			}
		}
	}
	if n == 0 {
		r.Unk(writerPkg+"/end*", 0, "anchor lost: no end* function returning bytes found")
	}
}

// sliceFromEntryStart: v is (a phi of / a value forwarded from a helper returning) buf[lo:hi] with lo the `start`
// field of the entry value `entry`.
func sliceFromEntryStart(v ssa.Value, entry ssa.Value, depth int) (bool, string) {
	if depth > 4 {
		return false, "too deep"
	}
	switch x := v.(type) {
	case *ssa.Phi:
		for _, e := range x.Edges {
			if ok, why := sliceFromEntryStart(unspill(e), entry, depth+1); !ok {
				return false, why
			}
		}
		return true, ""
	case *ssa.Slice:
		if x.Low == nil {
			// re-slicing of an already correct slice (b = b[:n]) is fine if the operand is
			if _, isSl := x.X.(*ssa.Slice); isSl {
				return sliceFromEntryStart(x.X, entry, depth+1)
			}
			return false, "the slice starts at offset 0"
		}
		reads, _ := structFieldReads(entry)
		for _, rd := range reads {
			if rd.Name == "start" && rd.Val == x.Low {
				return true, ""
			}
		}
		return false, "the lower bound is not entry.start"
	case *ssa.Extract:
		// result of a helper that is handed the entry / the start
		if call, ok := x.Tuple.(*ssa.Call); ok {
			if h := call.Call.StaticCallee(); h != nil && h.Blocks != nil {
				for i, a := range call.Call.Args {
					if i >= len(h.Params) {
						break
					}
					// the helper is handed entry.start itself (endTable(list.start)): its successful returns must be
					// slices of the buffer whose lower bound is that parameter
					isStart := false
					if reads, _ := structFieldReads(entry); true {
						for _, rd := range reads {
							if rd.Name == "start" && rd.Val == a {
								isStart = true
							}
						}
					}
					if isStart {
						allOK, nOK := true, 0
						for _, hr := range returnsOf(h) {
							if x.Index >= len(hr.Results) || isNilConst(hr.Results[x.Index]) {
								continue
							}
							nOK++
							sl, isSl := unspill(hr.Results[x.Index]).(*ssa.Slice)
							for isSl && sl.Low == nil {
								sl, isSl = sl.X.(*ssa.Slice)
							}
							if !isSl || sl.Low != ssa.Value(h.Params[i]) {
								allOK = false
							}
						}
						if allOK && nOK > 0 {
							return true, ""
						}
					}
					if a == entry {
						allOK := true
						for _, hr := range returnsOf(h) {
							if x.Index < len(hr.Results) && !isNilConst(hr.Results[x.Index]) {
								if ok, _ := sliceFromEntryStart(unspill(hr.Results[x.Index]), h.Params[i], depth+1); !ok {
									allOK = false
								}
							}
						}
						if allOK {
							return true, ""
						}
					}
				}
			}
		}
	}
	return false, "the returned value is not a slice of the buffer from entry.start"
}
