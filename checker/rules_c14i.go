package main

import (
	"fmt"
	"go/ast"
	"go/constant"
	"go/token"
	"go/types"
	"strconv"
	"strings"

	"golang.org/x/tools/go/ssa"
)

// R14.14: every type position of a method is kind-checked. A service method has four positions that hold a single
// type: the single input, the single output, the channel's in and out types. The generator builds request, response
// and channel frames as messages in all four (`<T>{...}` literals, New<T>, Parse<T>), so each must be rejected unless
// its resolved Kind is a message (or, for the output, a service). Sibling cross-check (Engler et al.): the positions
// are handled by one compile step each; a position whose Kind is never compared lets `(<-int32)` through and the
// generated file does not build.
//
// R14.15: structs are embedded by value - a struct that (transitively) contains itself has no Go representation
// ("invalid recursive type"). Somewhere in the model's struct validation there must be a containment walk: a
// function that visits the struct-typed fields of a struct, follows them (recursively or with a work list) and
// returns an error when it meets a struct again (pointer identity or a visited-set lookup).
//
// R14.16: every import the generator emits is used. Go rejects an unused import. The fixed imports are each
// referenced by a blank declaration (`_ alloc.Buffer`); an import line emitted for a schema import has no such
// reference, so it must be emitted only for imports the file's definitions use (a filtered range, or a guard that
// consults the file) - or the model must reject unused imports.

func init() {
	register(&Rule{ID: "R14.14", Props: []string{"C14"}, Floor: 4,
		Doc: "every single-type position of a service method (input, output, channel in/out) has its resolved Kind compared with KindMessage in the model, with an error on the other branch",
		Run: runR14_14})
	register(&Rule{ID: "R14.15", Props: []string{"C14"}, Floor: 1,
		Doc: "struct containment is checked to be acyclic somewhere in the model's validation (structs are generated as Go value types)",
		Run: runR14_15})
	register(&Rule{ID: "R14.16", Props: []string{"C14", "C05"}, Floor: 2,
		Doc: "every import line the generator emits has a guaranteed use: a blank reference for the fixed imports, a use filter for schema imports",
		Run: runR14_16})
}

func runR14_14(c *Ctx, r *R) {
	mp := c.Pkg("internal/lang/model")
	if mp == nil {
		r.Unk("internal/lang/model", 0, "package not loaded")
		return
	}
	var kindMessage int64 = -1
	if k, ok := mp.Types.Scope().Lookup("KindMessage").(*types.Const); ok {
		if v, ok := constIntVal(k); ok {
			kindMessage = v
		} else if k.Val().Kind() == constant.String {
			kindMessage = -2
		}
	}
	positions := []struct{ owner, field string }{{"Method", "_Input"}, {"Method", "_Output"}, {"MethodChannel", "In"}, {"MethodChannel", "Out"}}
	checked := map[string]token.Pos{}
	// T "is position p": a load of field p of a *Method / *MethodChannel (through phis)
	var positionOf func(v ssa.Value, depth int) string
	positionOf = func(v ssa.Value, depth int) string {
		if depth > 4 {
			return ""
		}
		switch x := v.(type) {
		case *ssa.UnOp:
			if x.Op == token.MUL {
				if fa, ok := x.X.(*ssa.FieldAddr); ok {
					for _, p := range positions {
						if fieldOf(fa).Name() == p.field && typeIs(fa.X.Type(), pkgPath("internal/lang/model"), p.owner) {
							return p.owner + "." + p.field
						}
					}
				}
			}
		case *ssa.Phi:
			for _, e := range x.Edges {
				if s := positionOf(e, depth+1); s != "" {
					return s
				}
			}
		case *ssa.Parameter:
			// a helper that is handed the type: look at its call sites in the package
			fn := x.Parent()
			if fn == nil || depth > 2 {
				return ""
			}
			pi := paramIndex(fn, x)
			for _, g := range c.SrcFuncs("internal/lang/model") {
				for _, call := range callsIn(g, false) {
					if call.Common().StaticCallee() == fn && pi < len(call.Common().Args) {
						if s := positionOf(call.Common().Args[pi], depth+1); s != "" {
							return s
						}
					}
				}
			}
		}
		return ""
	}
	for _, fn := range c.SrcFuncs("internal/lang/model") {
		allInstrs(fn, func(i ssa.Instruction) {
			b, ok := i.(*ssa.BinOp)
			if !ok || (b.Op != token.EQL && b.Op != token.NEQ) {
				return
			}
			for _, side := range []ssa.Value{b.X, b.Y} {
				other := b.Y
				if side == b.Y {
					other = b.X
				}
				k, isK := other.(*ssa.Const)
				if !isK || k.Value == nil {
					continue
				}
				isMsg := false
				if kindMessage >= 0 {
					if v, ok := constInt(k); ok && v == kindMessage {
						isMsg = true
					}
				} else if k.Value.Kind() == constant.String {
					if mk, ok := mp.Types.Scope().Lookup("KindMessage").(*types.Const); ok && constant.StringVal(k.Value) == constant.StringVal(mk.Val()) {
						isMsg = true
					}
				}
				if !isMsg {
					continue
				}
				ld, ok := side.(*ssa.UnOp)
				if !ok || ld.Op != token.MUL {
					continue
				}
				fa, ok := ld.X.(*ssa.FieldAddr)
				if !ok || fieldOf(fa).Name() != "Kind" {
					continue
				}
				if p := positionOf(fa.X, 0); p != "" {
					// the function must be able to fail
					rs := fn.Signature.Results()
					if rs.Len() > 0 && isErrorType(rs.At(rs.Len()-1).Type()) {
						checked[p] = b.Pos()
					}
				}
			}
		})
	}
	for _, p := range positions {
		key := "internal/lang/model." + p.owner + "." + p.field + "/kind-checked"
		if pos, ok := checked[p.owner+"."+p.field]; ok {
			r.OK(key, pos, "compared with KindMessage in a function that returns an error")
		} else {
			r.Bad(key, 0, "the resolved Kind of %s.%s is never compared with KindMessage: any type is accepted in this position (its siblings are checked), the generator emits message code for it and the output does not compile - e.g. `service S { m(a int32 1) (<-int32); }`", p.owner, p.field)
		}
	}
}

func runR14_15(c *Ctx, r *R) {
	key := "internal/lang/model/struct-containment-acyclic"
	isStructish := func(t types.Type) bool {
		return typeIs(t, pkgPath("internal/lang/model"), "Struct") || typeIs(t, pkgPath("internal/lang/model"), "Definition")
	}
	var found token.Pos
	for _, fn := range c.SrcFuncs("internal/lang/model") {
		if fn.Parent() != nil {
			continue
		}
		rs := fn.Signature.Results()
		// walks struct fields?
		walksFields := false
		for _, call := range callsIn(fn, false) {
			if o := calleeObj(call); o != nil && (o.Name() == "Values" || o.Name() == "Range") {
				cc := call.Common()
				var recv ssa.Value
				if cc.IsInvoke() {
					recv = cc.Value
				} else if len(cc.Args) > 0 {
					recv = cc.Args[0]
				}
				if recv != nil && strings.Contains(valueSource(recv), ".Fields") {
					walksFields = true
				}
			}
		}
		if !walksFields {
			continue
		}
		// follows struct-typed fields: recursion, or a loop with a work list
		follows := false
		for _, call := range callsIn(fn, false) {
			if g := call.Common().StaticCallee(); g == fn {
				follows = true
			}
		}
		// meets a struct again: pointer identity between two Struct/Definition values, or a map lookup keyed by one
		meets := false
		allInstrs(fn, func(i ssa.Instruction) {
			switch x := i.(type) {
			case *ssa.BinOp:
				if (x.Op == token.EQL || x.Op == token.NEQ) && isStructish(x.X.Type()) && isStructish(x.Y.Type()) && !isNilConst(x.X) && !isNilConst(x.Y) {
					meets = true
				}
			case *ssa.Lookup:
				if isStructish(x.Index.Type()) {
					meets = true
				}
			}
		})
		reports := rs.Len() > 0 && (isErrorType(rs.At(rs.Len()-1).Type()) || isBoolType(rs.At(rs.Len()-1).Type()))
		if follows && meets && reports {
			found = fn.Pos()
		}
	}
	if found != 0 {
		r.OK(key, found, "a containment walk over struct-typed fields exists and reports when a struct is met again")
	} else {
		r.Bad(key, 0, "no function of the model walks the struct-typed fields of a struct and reports meeting a struct again: `struct S { a int32; s S; }` (or a longer cycle) is accepted and generated as a Go struct that contains itself by value - 'invalid recursive type', the output does not compile")
	}
}

func runR14_16(c *Ctx, r *R) {
	gp := c.Pkg("internal/lang/generator")
	if gp == nil {
		r.Unk("internal/lang/generator", 0, "package not loaded")
		return
	}
	fd := findFuncDecl(gp, "fileWriter.file")
	if fd == nil || fd.Body == nil {
		r.Unk("internal/lang/generator.fileWriter.file", 0, "anchor lost: function not found")
		return
	}
	// fixed imports: literal `"path"` lines, blank references `_ pkg.Ident`
	imports := map[string]token.Pos{} // package name (last path element) -> pos
	blanks := map[string]bool{}
	ast.Inspect(fd.Body, func(n ast.Node) bool {
		call, ok := n.(*ast.CallExpr)
		if !ok || len(call.Args) != 1 {
			return true
		}
		se, ok := call.Fun.(*ast.SelectorExpr)
		if !ok || se.Sel.Name != "line" {
			return true
		}
		bl, ok := call.Args[0].(*ast.BasicLit)
		if !ok || bl.Kind != token.STRING {
			return true
		}
		s, err := strconv.Unquote(bl.Value)
		if err != nil {
			return true
		}
		s = strings.TrimSpace(s)
		if strings.HasPrefix(s, `"`) && strings.HasSuffix(s, `"`) && strings.Contains(s, "/") {
			path := strings.Trim(s, `"`)
			imports[path[strings.LastIndex(path, "/")+1:]] = bl.Pos()
		}
		if strings.HasPrefix(s, "_ ") && strings.Contains(s, ".") {
			rest := strings.TrimSpace(strings.TrimPrefix(s, "_ "))
			blanks[rest[:strings.Index(rest, ".")]] = true
		}
		return true
	})
	for _, pkg := range sortedKeys(imports) {
		key := "generator.fileWriter.file/import-used:" + pkg
		if blanks[pkg] {
			r.OK(key, imports[pkg], "referenced by a blank declaration")
		} else {
			r.Bad(key, imports[pkg], "the generated file imports %q unconditionally but emits no blank reference `_ %s.X`: a schema that does not happen to use the package generates a file with an unused import, which does not compile", pkg, pkg)
		}
	}
	// schema imports: the range over the file's imports
	n := 0
	ast.Inspect(fd.Body, func(nd ast.Node) bool {
		rs, ok := nd.(*ast.RangeStmt)
		if !ok {
			return true
		}
		tv, ok := gp.TypesInfo.Types[rs.X]
		if !ok {
			return true
		}
		sl, ok := tv.Type.Underlying().(*types.Slice)
		if !ok || !typeIs(sl.Elem(), pkgPath("internal/lang/model"), "Import") {
			return true
		}
		n++
		key := fmt.Sprintf("generator.fileWriter.file/schema-imports-used#%d", n)
		// filtered: the range expression is not the plain Imports field
		filtered := false
		if se, isSel := ast.Unparen(rs.X).(*ast.SelectorExpr); !isSel || se.Sel.Name != "Imports" {
			filtered = true
		}
		// or guarded: an if whose condition calls something with the loop variable and the branch skips the emission
		if v, ok := rs.Value.(*ast.Ident); ok && !filtered {
			ast.Inspect(rs.Body, func(m ast.Node) bool {
				ifs, ok := m.(*ast.IfStmt)
				if !ok {
					return true
				}
				usesImp := false
				ast.Inspect(ifs.Cond, func(q ast.Node) bool {
					if call, ok := q.(*ast.CallExpr); ok {
						for _, a := range call.Args {
							if id, ok := ast.Unparen(a).(*ast.Ident); ok && id.Name == v.Name {
								usesImp = true
							}
						}
						if se, ok := call.Fun.(*ast.SelectorExpr); ok {
							if id, ok := ast.Unparen(se.X).(*ast.Ident); ok && id.Name == v.Name {
								usesImp = true
							}
						}
					}
					if se, ok := q.(*ast.SelectorExpr); ok && (strings.Contains(strings.ToLower(se.Sel.Name), "used")) {
						usesImp = true
					}
					return true
				})
				skips := false
				ast.Inspect(ifs.Body, func(q ast.Node) bool {
					if br, ok := q.(*ast.BranchStmt); ok && br.Tok == token.CONTINUE {
						skips = true
					}
					return true
				})
				if usesImp && skips {
					filtered = true
				}
				return true
			})
		}
		if filtered {
			r.OK(key, rs.Pos(), "import lines are emitted only for imports selected by a use filter")
		} else if modelRejectsUnusedImports(c) {
			r.OK(key, rs.Pos(), "the model rejects files with unused imports")
		} else {
			r.Bad(key, rs.Pos(), "an import line is emitted for every schema import of the file, used or not, and nothing rejects an unused one: `import ( \"pkg\" )` without a reference to pkg compiles without error into a Go file with an unused import ('imported and not used')")
		}
		return true
	})
	if n == 0 {
		r.Unk("generator.fileWriter.file/schema-imports", fd.Pos(), "anchor lost: no loop over the file's imports")
	}
}

// modelRejectsUnusedImports: the model marks an import as used where a type is resolved through it (a bool field of
// model.Import stored in a function that handles a *model.Type) and some error-returning function branches on that
// mark.
func modelRejectsUnusedImports(c *Ctx) bool {
	marks := map[string]bool{}
	for _, fn := range c.SrcFuncs("internal/lang/model") {
		handlesType := false
		for _, p := range fn.Params {
			if typeIs(p.Type(), pkgPath("internal/lang/model"), "Type") {
				handlesType = true
			}
		}
		if !handlesType {
			continue
		}
		allInstrs(fn, func(i ssa.Instruction) {
			st, ok := i.(*ssa.Store)
			if !ok {
				return
			}
			fa, ok := st.Addr.(*ssa.FieldAddr)
			if !ok || !typeIs(fa.X.Type(), pkgPath("internal/lang/model"), "Import") || !isBoolType(st.Val.Type()) {
				return
			}
			marks[fieldOf(fa).Name()] = true
		})
	}
	if len(marks) == 0 {
		return false
	}
	found := false
	for _, fn := range c.SrcFuncs("internal/lang/model") {
		rs := fn.Signature.Results()
		if rs.Len() == 0 || !isErrorType(rs.At(rs.Len()-1).Type()) {
			continue
		}
		allInstrs(fn, func(i ssa.Instruction) {
			ld, ok := i.(*ssa.UnOp)
			if !ok || ld.Op != token.MUL {
				return
			}
			fa, ok := ld.X.(*ssa.FieldAddr)
			if !ok || !typeIs(fa.X.Type(), pkgPath("internal/lang/model"), "Import") || !marks[fieldOf(fa).Name()] {
				return
			}
			for _, u := range users(ld) {
				if _, isIf := u.(*ssa.If); isIf {
					found = true
				}
				if un, ok := u.(*ssa.UnOp); ok && un.Op == token.NOT {
					for _, u2 := range users(un) {
						if _, isIf := u2.(*ssa.If); isIf {
							found = true
						}
					}
				}
			}
		})
	}
	return found
}
