package main

import (
	"fmt"
	"strings"

	"golang.org/x/tools/go/ssa"
)

// R08.7: one varint encoder. Sizes and integers are written as reverse compact varints by compactint.PutReverse*;
// the readers decode them with compactint.Reverse*. An encoder that produces the varint bytes by hand on some path
// (a "fast path" storing byte(size) for small sizes) has to re-implement the marker boundaries (0xfc / 0xfd / 0xfe /
// 0xff) and is wrong at exactly one value the tests do not use. Rule: in internal/encode, a function that encodes
// through compactint.PutReverse* on some path does so on EVERY path that ends in a successful return after the buffer
// was grown.

func init() {
	register(&Rule{ID: "R08.7", Props: []string{"C08", "C01", "C10"}, Floor: 3,
		Doc: "one varint encoder: an internal/encode function that calls compactint.PutReverse* on some path calls it on every path that grows the buffer and returns successfully",
		Run: runR08_7})
}

func runR08_7(c *Ctx, r *R) {
	n := 0
	for _, fn := range c.SrcFuncs("internal/encode") {
		if fn.Parent() != nil {
			continue
		}
		var puts []ssa.Instruction
		var grows []ssa.Instruction
		for _, call := range callsIn(fn, false) {
			if o := calleeObj(call); o != nil && o.Pkg() != nil && o.Pkg().Path() == compactintPath && strings.HasPrefix(o.Name(), "PutReverse") {
				puts = append(puts, call.(ssa.Instruction))
			}
			if isGrowCall(call) {
				grows = append(grows, call.(ssa.Instruction))
			}
		}
		if len(puts) == 0 {
			continue
		}
		n++
		key := fnKey(fn) + "/varint-on-every-path"
		isPut := map[ssa.Instruction]bool{}
		for _, p := range puts {
			isPut[p] = true
		}
		isGrow := map[ssa.Instruction]bool{}
		for _, g := range grows {
			isGrow[g] = true
		}
		fl := &Flow{Must: true, Entry: Facts{}}
		fl.Transfer = func(i ssa.Instruction, f Facts) {
			if isPut[i] {
				f["put"] = true
			}
		}
		res := fl.Run(fn)
		// may-analysis: was the buffer grown on some path to this return?
		mfl := &Flow{Must: false, Entry: Facts{}}
		mfl.Transfer = func(i ssa.Instruction, f Facts) {
			if isGrow[i] {
				f["grown"] = true
			}
		}
		mres := mfl.Run(fn)
		bad := ""
		for _, ret := range returnsOf(fn) {
			if k := len(ret.Results); k > 0 {
				if last := ret.Results[k-1]; isErrorType(last.Type()) && !isNilConst(last) {
					continue
				}
			}
			f, mf := res.At(ret), mres.At(ret)
			if f == nil || mf == nil || !mf["grown"] {
				continue
			}
			if !f["put"] {
				bad = fmt.Sprintf("the return at %s is reached with bytes appended but without compactint.PutReverse* on that path", c.pos(ret.Pos()))
			}
		}
		if bad == "" {
			r.OK(key, fn.Pos(), "every appending path encodes through compactint.PutReverse*")
		} else {
			r.Bad(key, fn.Pos(), "%s: a hand-written varint on one path must reproduce the marker boundaries (0xfc/0xfd) of the compact encoding exactly - at the boundary value the bytes are not what the decoders (compactint.Reverse*) read", bad)
		}
	}
	if n == 0 {
		r.Unk("internal/encode/varint-encoders", 0, "anchor lost: no function of internal/encode calls compactint.PutReverse*")
	}
}
