package main

import (
	"fmt"
	"go/types"

	"golang.org/x/tools/go/ssa"
)

// R10.3: the size an encoder reports equals the bytes it appended. Every function of internal/encode that receives
// the output buffer and returns an int appends bytes only through buffer.Grow(n) and through other encoders given
// the same buffer. On every successful return the reported size must equal the sum of the Grow arguments and of the
// sizes reported by those callees (which satisfy the same rule) - as linear forms over the function's SSA values,
// compared by normal form, with the bounds engine as fallback. The writer records value boundaries from these
// sizes, so a size that is off by the type byte shifts every later offset.

func init() {
	register(&Rule{ID: "R10.3", Props: []string{"C10", "C08"}, Floor: 16,
		Doc: "encoder size accounting: on every successful return of an internal/encode function the reported size equals the sum of its buffer.Grow arguments and of the sizes reported by the encoders it called on the same buffer",
		Run: runR10_3})
}

func runR10_3(c *Ctx, r *R) {
	e := newBE(c)
	isBuffer := func(t types.Type) bool {
		return typeIs(t, "github.com/basecomplextech/baselibrary/buffer", "Buffer")
	}
	firstInt := func(sig *types.Signature) int {
		for i := 0; i < sig.Results().Len(); i++ {
			if b, ok := sig.Results().At(i).Type().Underlying().(*types.Basic); ok && b.Kind() == types.Int {
				return i
			}
		}
		return -1
	}
	n := 0
	for _, fn := range c.SrcFuncs("internal/encode") {
		if fn.Parent() != nil || len(fn.Params) == 0 || !isBuffer(fn.Params[0].Type()) {
			continue
		}
		si := firstInt(fn.Signature)
		if si < 0 {
			continue
		}
		buf := ssa.Value(fn.Params[0])
		fc := e.newFnCtx(fn)
		// appending calls
		type app struct {
			call ssa.CallInstruction
			size Lin
			what string
		}
		var apps []app
		bad := ""
		for _, call := range callsIn(fn, false) {
			cc := call.Common()
			if cc.IsInvoke() {
				if cc.Value == buf {
					switch cc.Method.Name() {
					case "Grow":
						apps = append(apps, app{call, e.expand(cc.Args[0]), "Grow"})
					case "Len", "Bytes":
					default:
						bad = "the buffer is modified through " + cc.Method.Name()
					}
				}
				continue
			}
			cal := cc.StaticCallee()
			if cal == nil || len(cc.Args) == 0 || cc.Args[0] != buf {
				continue
			}
			ci := firstInt(cal.Signature)
			cv, isCall := call.(*ssa.Call)
			if ci < 0 || !isCall {
				// a helper that reports nothing: what it appends is the sum of its own Grow arguments, if those are
				// executed on every path and are expressions of its parameters
				if sz, ok := appendedByHelper(e, fc, cal, cc.Args); ok && isCall {
					apps = append(apps, app{call, sz, cal.Name()})
					continue
				}
				bad = "the buffer is passed to " + cal.Name() + " which reports no size"
				continue
			}
			var res ssa.Value = cv
			if _, isTuple := cv.Type().(*types.Tuple); isTuple {
				ex := extractOf(cv, ci)
				if ex == nil {
					bad = "the size reported by " + cal.Name() + " is discarded"
					continue
				}
				res = ex
			}
			apps = append(apps, app{call, e.expand(res), cal.Name()})
		}
		k := 0
		for _, ret := range returnsOf(fn) {
			last := ret.Results[len(ret.Results)-1]
			if isErrorType(last.Type()) && !isNilConst(last) {
				continue // error return: the caller discards the output
			}
			k++
			n++
			key := fmt.Sprintf("%s/size#%d", fnKey(fn), k)
			if bad != "" {
				r.Unk(key, ret.Pos(), "%s", bad)
				continue
			}
			sum := linConst(0)
			var parts []string
			undom := ""
			for _, a := range apps {
				ai := a.call.(ssa.Instruction)
				switch {
				case dominatesInstr(ai, ret):
					sum = sum.add(a.size)
					parts = append(parts, a.what+"("+a.size.String(e.name)+")")
				case reachableFrom(ai.Block())[ret.Block()] || ai.Block() == ret.Block():
					undom = a.what
				}
			}
			if undom != "" {
				r.Unk(key, ret.Pos(), "an appending call (%s) lies on some but not all paths to this return: the size cannot be summed by dominance", undom)
				continue
			}
			got := e.expand(ret.Results[si])
			if got.equal(sum) {
				r.OK(key, ret.Pos(), "reported size %s = %v", got.String(e.name), parts)
				continue
			}
			budget1, budget2 := 600, 600
			if fc.prove(geq(got, sum), ret.Block(), nil, nil, 6, &budget1) && fc.prove(leq(got, sum), ret.Block(), nil, nil, 6, &budget2) {
				r.OK(key, ret.Pos(), "reported size %s proved equal to the appended bytes %v", got.String(e.name), parts)
				continue
			}
			r.Bad(key, ret.Pos(), "the encoder reports size {%s} but appends {%s} bytes (%v): generated struct encoders and the table encoders add these sizes up, so the data size written into the trailer no longer matches the bytes", got.String(e.name), sum.String(e.name), parts)
		}
	}
	r.Note("%d successful returns of buffer-writing encoders", n)
}
