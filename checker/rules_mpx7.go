package main

import (
	"fmt"
	"go/token"
	"strings"

	"golang.org/x/tools/go/ssa"
)

// R20.3 when the registration is written out inside conn.OnClosed instead of in a helper (conn.addClosed): the same
// check-insert-recheck discipline, decided path by path. Every feasible path of OnClosed to a return is replayed
// (pathwalk.go; the listener id is a captured variable, its value on the path decides the `id == 0` branch; an id
// taken from an atomic counter's Add(positive constant) is non-zero - trusted: the counter does not wrap):
//   - a path that reports true either stored the listener, then saw closed.IsSet() == false, and did not delete it
//     again - or lost the once-flag (the listener has already run: reported as added);
//   - a path that reports false either never stored the listener or deleted it again, and won the once-flag (so the
//     listener can never run).
func runR20_3Inline(c *Ctx, r *R, f *ssa.Function) {
	isCAS := func(v ssa.Value) bool {
		call, ok := v.(*ssa.Call)
		if !ok {
			return false
		}
		o := calleeObj(call)
		return o != nil && o.Name() == "CompareAndSwap"
	}
	nonZero := func(v ssa.Value) bool {
		for {
			cv, ok := v.(*ssa.Convert)
			if !ok {
				break
			}
			v = cv.X
		}
		call, ok := v.(*ssa.Call)
		if !ok {
			return false
		}
		o := calleeObj(call)
		if o == nil || o.Name() != "Add" || o.Pkg() == nil || o.Pkg().Path() != "sync/atomic" {
			return false
		}
		k, isK := constInt(call.Call.Args[len(call.Call.Args)-1])
		return isK && k > 0
	}
	// once-wrapper: the closure stored by closedListeners.Set
	var wrapper *ssa.Function
	for _, call := range callsIn(f, false) {
		if calleeLabel(call) != "closedListeners.Set" {
			continue
		}
		args := call.Common().Args
		if len(args) == 0 {
			continue
		}
		v := args[len(args)-1]
		if mi, ok := v.(*ssa.MakeInterface); ok {
			v = mi.X
		}
		if mc, ok := v.(*ssa.MakeClosure); ok {
			wrapper, _ = mc.Fn.(*ssa.Function)
		}
	}
	key := fnKey(f) + "/once-wrapper"
	if wrapper == nil {
		r.Bad(key, f.Pos(), "the listener stored by closedListeners.Set is not a once-wrapper closure")
	} else {
		good := false
		for _, call := range callsIn(wrapper, false) {
			if call.Common().StaticCallee() != nil || call.Common().IsInvoke() {
				continue
			}
			for _, cd := range pathConds(call.Block()) {
				if isCAS(cd.V) && cd.Truth {
					good = true
				}
			}
		}
		r.Check(good, key, wrapper.Pos(), "user callback runs only behind a successful CompareAndSwap of the per-registration flag", "the wrapper invokes the user callback without winning a CompareAndSwap: the listener can run twice (close racing with registration)")
	}
	nT, nF := 0, 0
	for _, ret := range returnsOf(f) {
		if len(ret.Results) != 2 || ret.Block() == f.Recover {
			continue
		}
		k, ok := unspill(ret.Results[1]).(*ssa.Const)
		if !ok || k.Value == nil {
			r.Unk(fnKey(f)+"/return", ret.Pos(), "the reported flag is not a constant")
			continue
		}
		reportsTrue := k.Value.String() == "true"
		paths, exact := enumBlockPaths(f, ret.Block(), 256)
		if !exact {
			r.Unk(fnKey(f)+"/return", ret.Pos(), "too many paths to this return")
			continue
		}
		var key string
		if reportsTrue {
			nT++
			key = fmt.Sprintf("%s/return-true#%d", fnKey(f), nT)
		} else {
			nF++
			key = fmt.Sprintf("%s/return-false#%d", fnKey(f), nF)
		}
		bad := ""
		feasible := 0
		for _, p := range paths {
			stored, rechecked, deleted, casWon, casLost := false, false, false, false, false
			ok := walkPath(p, nonZero, func(ins ssa.Instruction, st *pwState) {
				call, isCall := ins.(ssa.CallInstruction)
				if !isCall {
					return
				}
				switch calleeLabel(call) {
				case "closedListeners.Set":
					stored, rechecked, deleted = true, false, false
				case "closedListeners.Delete":
					if stored {
						deleted = true
					}
				}
			}, func(cond ssa.Value, truth bool, st *pwState) {
				if call, isCall := cond.(*ssa.Call); isCall && calleeLabel(call) == "closed.IsSet" && !truth && stored && !deleted {
					rechecked = true
				}
				if isCAS(cond) {
					if truth {
						casWon = true
					} else {
						casLost = true
					}
				}
			})
			if !ok {
				continue
			}
			feasible++
			registered := stored && !deleted
			switch {
			case reportsTrue && casLost:
				// the listener has already run
			case reportsTrue && !registered:
				bad = "OnClosed reports success on a path on which the listener is not registered"
			case reportsTrue && !rechecked:
				bad = "registration reports success without re-checking closed after the insert: a close that already iterated the listeners leaves this one registered and never invoked"
			case !reportsTrue && registered:
				bad = "OnClosed reports 'already closed' on a path where the listener may be registered"
			case !reportsTrue && !casWon:
				bad = "OnClosed reports false although the listener may already have been stored and invoked (the insert/re-check window): the registrant must disarm the once-flag before reporting false"
			}
		}
		switch {
		case feasible == 0:
			r.OK(key, ret.Pos(), "unreachable")
		case bad != "":
			r.Bad(key, ret.Pos(), "%s", bad)
		case reportsTrue:
			r.OK(key, ret.Pos(), "success only with the listener stored and closed re-checked behind the insert, or after the listener has run (%d feasible paths)", feasible)
		default:
			r.OK(key, ret.Pos(), "false only with the listener absent and the once-flag won: it can never run (%d feasible paths)", feasible)
		}
	}
	if nF == 0 {
		r.Unk(fnKey(f)+"/return-false", f.Pos(), "no 'already closed' return found")
	}
	if nT == 0 {
		r.Unk(fnKey(f)+"/return-true", f.Pos(), "no success return found")
	}
}

// listenerHost: the method of conn that stores close listeners (conn.addClosed, or conn.OnClosed when the
// registration is written out there).
func listenerHost(c *Ctx) *ssa.Function {
	for _, f := range c.SrcFuncs("mpx") {
		if f.Parent() != nil || !typeIsRecv(f, "conn") || strings.HasPrefix(baseName(c.Fset.Position(f.Pos()).Filename), "test_") {
			continue
		}
		for _, call := range callsIn(f, false) {
			if calleeLabel(call) == "closedListeners.Set" {
				return f
			}
		}
	}
	return nil
}

var _ = token.NOT
