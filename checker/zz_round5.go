package main

// Additions of the fifth round to the per-property explanations (this file is initialised after zz_round4.go).
func init() {
	add := map[string]string{
		"C01": " (R01.5) Clone* methods return a value built from the copied bytes only - no slice or table view of the source reaches the result (taint analysis); (R13.9) the recursive parser reports the size result of its decoder; (R13.3, R10.4) probe/decoder size agreement also counts here: field access and raw copies cut values with the probe; (R12.10) no stale buffer view in the writer. (R13.10) a container opened from b keeps exactly b[len(b)-size:].",
		"C05": " (R15.7) builtin type names: syntax.GetKind and Kind.String agree on exactly the non element-based kinds, the name is compared unchanged; (R08.2) the big-table predicate looks at every entry.",
		"C08": " (R18.3) a pooled writer is not touched after it was released: bytes never depend on another owner's writes.",
		"C09": " (R09.5) the probing loops of clientConns.roundRobin visit len(conns) indices in total (linear trip-count sum). (R19.8) a failed connect attempt ends without a retry only behind a test of the context of the routine, the closed flag or the connect mode; (R19.9) the connecting slot is cleared or replaced on every return of connect1.",
		"C12": " (R12.10) a view obtained from buf.Bytes() is not used after a later call that may grow the same buffer.",
		"C13": " (R13.9) types.ParseValue reports, on every successful path, the size result (the int before the error) of the decoder applied to its whole input. (R13.10) OpenMessageErr / decodeList keep exactly the bytes of the value.",
		"C14": " (R14.19) recursive boolean searches of the model leave their loop only with `return true`; (R14.20) a model.Context does not outlive one compilation unless failed registrations are undone; (R15.7) builtin type names.",
		"C15": " (R15.7) builtin type names are recognised exactly: GetKind <-> Kind.String over KindAny..KindAnyMessage, everything else is a reference.",
		"C17": " Boxing of an argument written at a call site is judged at the call site even when the callee was inlined there.",
		"C03": " (R07.9) no mutex held by a blocked Send is taken on the window-update path; (R03.8) every field of the shared channel state is immutable after construction or of a synchronised type.",
		"C04": " (R09.1) blocking waits of the send path have a teardown case: a Send blocked on flow control returns when the handler has answered and closed the channel.",
		"C06": " (R06.8) channel.release() runs only behind acquire() or a successful tryAcquire().",
		"C07": " (R07.9) the window update never waits for the lock of the sender.",
		"C11": " (R02.2) parsing recursion descends on every frame (a frame cannot make the parser loop on the same bytes); (R10.1) the integer decoders used for protocol versions and frame codes reject out-of-range values instead of wrapping.",
		"C16": " (R01.4) an early `absent` answer of the tag lookup implies an empty table; (R13.10) nested containers are opened on their own bytes.",
		"C18": " (R18.6) a handle is detached from its pooled state (Swap(nil) or field = nil) where the state is released; (R03.8).",
		"C19": " (R19.8, R19.9) retry and slot discipline of connect1; (R19.2d) the connection set is re-read under client.mu before Connected is cleared and before a dial starts.",
	}
	for k, v := range add {
		if p := props[k]; p != nil {
			p.Explanation += " Round 5:" + v
		}
	}
}
