package main

// Additions of the fifth round to the per-property explanations (this file is initialised after zz_round4.go).
func init() {
	add := map[string]string{
		"C01": " (R01.5) Clone* methods return a value built from the copied bytes only - no slice or table view of the source reaches the result (taint analysis); (R13.9) the recursive parser reports the size result of its decoder; (R13.3, R10.4) probe/decoder size agreement also counts here: field access and raw copies cut values with the probe; (R12.10) no stale buffer view in the writer.",
		"C05": " (R15.7) builtin type names: syntax.GetKind and Kind.String agree on exactly the non element-based kinds, the name is compared unchanged; (R08.2) the big-table predicate looks at every entry.",
		"C08": " (R18.3) a pooled writer is not touched after it was released: bytes never depend on another owner's writes.",
		"C09": " (R09.5) the probing loops of clientConns.roundRobin visit len(conns) indices in total (linear trip-count sum).",
		"C12": " (R12.10) a view obtained from buf.Bytes() is not used after a later call that may grow the same buffer.",
		"C13": " (R13.9) types.ParseValue reports, on every successful path, the size result (the int before the error) of the decoder applied to its whole input.",
		"C14": " (R14.19) recursive boolean searches of the model leave their loop only with `return true`; (R14.20) a model.Context does not outlive one compilation unless failed registrations are undone; (R15.7) builtin type names.",
		"C15": " (R15.7) builtin type names are recognised exactly: GetKind <-> Kind.String over KindAny..KindAnyMessage, everything else is a reference.",
		"C17": " Boxing of an argument written at a call site is judged at the call site even when the callee was inlined there.",
	}
	for k, v := range add {
		if p := props[k]; p != nil {
			p.Explanation += " Round 5:" + v
		}
	}
}
