package main

import (
	"fmt"

	"golang.org/x/tools/go/ssa"
)

// R12.10: no stale view of the writer's buffer. buffer.Buffer.Bytes() returns a view of the buffer's current
// backing array; any later call that hands the same buffer to something that can append to it (Grow, Write, the
// encoders of internal/encode) may reallocate the array. A view taken BEFORE such a call and used AFTER it still
// has the old array's capacity: re-slicing it up to the new end panics ('slice bounds out of range [:135] with
// capacity 128') exactly when the append had to grow the buffer, and reads stale bytes otherwise. In every
// function of internal/writer: no use of a Bytes() result (or of a slice cut from it) is reachable from a call that
// may grow the same buffer and is itself reachable from the Bytes() call.
func init() {
	register(&Rule{ID: "R12.10", Props: []string{"C12", "C01"}, Floor: 3,
		Doc: "internal/writer: a view obtained from buf.Bytes() is not used after a later call that may grow the same buffer",
		Run: runR12_10})
}

func runR12_10(c *Ctx, r *R) {
	readOnly := map[string]bool{"Len": true, "Bytes": true, "Cap": true}
	for _, f := range c.SrcFuncs(writerPkg) {
		n := 0
		for _, call := range callsIn(f, false) {
			cv, ok := call.(*ssa.Call)
			if !ok || !cv.Call.IsInvoke() || cv.Call.Method.Name() != "Bytes" || !isBufferType(cv.Call.Value.Type()) {
				continue
			}
			src := valueSource(cv.Call.Value)
			n++
			key := fmt.Sprintf("%s/Bytes#%d", fnKey(f), n)
			// values derived from the view
			derived := map[ssa.Value]bool{cv: true}
			for changed := true; changed; {
				changed = false
				for v := range derived {
					for _, u := range users(v) {
						switch x := u.(type) {
						case *ssa.Slice:
							if x.X == v && !derived[x] {
								derived[x] = true
								changed = true
							}
						case *ssa.Phi:
							if !derived[x] {
								derived[x] = true
								changed = true
							}
						}
					}
				}
			}
			// calls that may grow the same buffer after the view was taken
			var growers []ssa.CallInstruction
			for _, c2 := range callsIn(f, false) {
				if c2 == ssa.CallInstruction(cv) || !reachesInstr(cv, c2.(ssa.Instruction)) {
					continue
				}
				cc := c2.Common()
				touches := false
				if cc.IsInvoke() {
					if isBufferType(cc.Value.Type()) && valueSource(cc.Value) == src && !readOnly[cc.Method.Name()] {
						touches = true
					}
				}
				for _, a := range cc.Args {
					if isBufferType(a.Type()) && valueSource(a) == src {
						touches = true
					}
				}
				if touches {
					growers = append(growers, c2)
				}
			}
			bad := ""
			for v := range derived {
				for _, u := range users(v) {
					if _, isDbg := u.(*ssa.DebugRef); isDbg {
						continue
					}
					for _, g := range growers {
						if reachesInstr(g.(ssa.Instruction), u) {
							bad = fmt.Sprintf("the view taken at %s is used at %s after %s (%s) may have grown the buffer", c.pos(cv.Pos()), c.pos(instrPos(u)), calleeLabelOrName(g), c.pos(g.Pos()))
						}
					}
				}
			}
			if bad == "" {
				r.OK(key, cv.Pos(), "view not used after a later growth of the buffer")
			} else {
				r.Bad(key, cv.Pos(), "%s: when that call reallocates the backing array the stale view has the old capacity - re-slicing it to the new end panics, otherwise it reads the abandoned array", bad)
			}
		}
	}
}

func isBufferType(t interface{ String() string }) bool {
	s := t.String()
	return len(s) >= len("buffer.Buffer") && s[len(s)-len("buffer.Buffer"):] == "buffer.Buffer"
}
