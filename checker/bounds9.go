package main

import (
	"go/token"

	"golang.org/x/tools/go/ssa"
)

// Variables captured by a closure.
//
// go/ssa keeps a local that a function literal refers to in memory (an Alloc, captured by reference): the enclosing
// function stores to it and loads from it, the literal loads through its free variable. For a variable that is
// assigned exactly once (typ, n := decodeType(b); v := b[:end]) and only read afterwards - by the function and by
// the literals that capture it - every load denotes the stored value. capturedLoad resolves such a load, in the
// enclosing function (the store dominates the load) and inside the literal (the store dominates the creation of
// the closure), so that `sized := func(...) { ... len(b) < size ... }` talks about the same b, n and v as its
// parent.

var capturedMemo = map[*ssa.UnOp]ssa.Value{}

func (e *BE) capturedLoad(v ssa.Value) ssa.Value { return capturedLoadOf(v) }

func capturedLoadOf(v ssa.Value) ssa.Value {
	ld, ok := v.(*ssa.UnOp)
	if !ok || ld.Op != token.MUL {
		return nil
	}
	if r, ok := capturedMemo[ld]; ok {
		return r
	}
	capturedMemo[ld] = nil
	var al *ssa.Alloc
	var mk *ssa.MakeClosure
	switch x := ld.X.(type) {
	case *ssa.Alloc:
		al = x
	case *ssa.FreeVar:
		al, mk = bindingOf(x)
	}
	if al == nil {
		return nil
	}
	var st *ssa.Store
	captured := false
	for _, u := range users(al) {
		switch y := u.(type) {
		case *ssa.Store:
			if y.Addr != ssa.Value(al) || st != nil {
				return nil // stored elsewhere (as a value) or assigned twice
			}
			st = y
		case *ssa.UnOp, *ssa.DebugRef:
		case *ssa.MakeClosure:
			captured = true
			fn, ok := y.Fn.(*ssa.Function)
			if !ok {
				return nil
			}
			for i, b := range y.Bindings {
				if b != ssa.Value(al) || i >= len(fn.FreeVars) {
					continue
				}
				for _, fu := range users(fn.FreeVars[i]) {
					switch z := fu.(type) {
					case *ssa.UnOp:
						if z.Op != token.MUL {
							return nil
						}
					case *ssa.DebugRef:
					default:
						return nil // stored through, or handed on to a nested literal
					}
				}
			}
		default:
			return nil
		}
	}
	if st == nil || !captured {
		return nil
	}
	if mk != nil {
		if !dominatesInstr(st, mk) {
			return nil
		}
	} else if !dominatesInstr(st, ld) {
		return nil
	}
	capturedMemo[ld] = st.Val
	return st.Val
}

// bindingOf: the variable of the enclosing function bound to free variable fv, and the instruction that creates
// the closure (nil when the literal is instantiated more than once or the binding is not a local).
func bindingOf(fv *ssa.FreeVar) (*ssa.Alloc, *ssa.MakeClosure) {
	fn := fv.Parent()
	parent := fn.Parent()
	if parent == nil {
		return nil, nil
	}
	idx := -1
	for i, f := range fn.FreeVars {
		if f == fv {
			idx = i
		}
	}
	var mk *ssa.MakeClosure
	n := 0
	for _, b := range parent.Blocks {
		for _, ins := range b.Instrs {
			if m, ok := ins.(*ssa.MakeClosure); ok && m.Fn == ssa.Value(fn) {
				mk = m
				n++
			}
		}
	}
	if n != 1 || idx < 0 || idx >= len(mk.Bindings) {
		return nil, nil
	}
	al, ok := mk.Bindings[idx].(*ssa.Alloc)
	if !ok {
		return nil, nil
	}
	return al, mk
}
