package main

import (
	"fmt"
	"os"
	"sort"
	"strings"

	"golang.org/x/tools/go/ssa"
)

// R17.4: calls that leave the module. The escape diagnostics and the allocating SSA operators of R17.1/R17.2 see
// the allocations of the module's own code; what a function of another package allocates inside itself
// (sort.SliceStable builds a reflect swapper, fmt formats into a fresh buffer, strings.Split makes a slice) is
// invisible to them. Every call from the read cone and from the steady-state write cone to a function outside the
// module must therefore be on the allow-list of callees known not to allocate (read from their sources: byte-order
// codecs, compact ints, math, atomics, the buffer's amortised Grow, pool Get/Put), unless the call sits on a path
// that only leads to error returns.

func init() {
	register(&Rule{ID: "R17.4", Props: []string{"C17"}, Floor: 90,
		Doc: "external calls in the zero-allocation cones: every call from the read cone / steady-state write cone to a function outside the module is on the allow-list of non-allocating callees or lies on an error-only path",
		Run: runR17_4})
}

// callee (package path suffix "." name, or "iface:" + interface method) -> why it does not allocate
var r17NoAlloc = func() map[string]string {
	m := map[string]string{
		"buffer.New":                "default buffer when the caller passes none: construction path, not steady state (on R17.2's allow-list)",
		"errors.New":                "error construction: allocates, on failure paths only (judged by R17.1/R17.2)",
		"fmt.Errorf":                "error construction: allocates, on failure paths only (judged by R17.1/R17.2)",
		"sort.Search":               "a plain binary-search loop calling the predicate; the predicate closure does not escape (escape diagnostics)",
		"iface:buffer.Buffer.Bytes": "returns the buffer's current slice",
		"iface:buffer.Buffer.Len":   "returns a length",
		"iface:buffer.Buffer.Grow":  "amortised growth of the caller's reused buffer: no allocation once the buffer has reached its steady-state capacity",
		"iface:buffer.Buffer.Write": "copy into the reused buffer (amortised growth, as Grow)",
		"math.IsInf":                "pure arithmetic",
	}
	for _, n := range []string{"Float32bits", "Float32frombits", "Float64bits", "Float64frombits"} {
		m["math."+n] = "bit reinterpretation"
	}
	for _, n := range []string{"PutUint16", "PutUint32", "PutUint64", "Uint16", "Uint32", "Uint64"} {
		m["binary.bigEndian."+n] = "fixed-width load/store on the given slice"
	}
	for _, n := range []string{"PutReverseInt32", "PutReverseInt64", "PutReverseUint32", "PutReverseUint64", "ReverseInt32", "ReverseInt64", "ReverseSize", "ReverseUint32", "ReverseUint64"} {
		m["compactint."+n] = "reads/writes the given slice in place (dependency source)"
	}
	for _, n := range []string{"Bin64", "Bin128", "Bin256"} {
		m["bin."+n+".MarshalTo"] = "writes the fixed-size value into the given slice (dependency source)"
	}
	for _, n := range []string{"Parse64", "Parse128", "Parse256"} {
		m["bin."+n] = "reads a fixed-size value from the slice into a value type (dependency source)"
	}
	return m
}()

func externalCalleeName(call ssa.CallInstruction) string {
	cc := call.Common()
	if cc.IsInvoke() {
		recv := cc.Value.Type().String()
		if i := strings.LastIndex(recv, "/"); i >= 0 {
			recv = recv[i+1:]
		}
		return "iface:" + recv + "." + cc.Method.Name()
	}
	if b, ok := cc.Value.(*ssa.Builtin); ok {
		return "builtin:" + b.Name()
	}
	o := calleeObj(call)
	if o == nil || o.Pkg() == nil {
		return ""
	}
	p := o.Pkg().Path()
	if i := strings.LastIndex(p, "/"); i >= 0 {
		p = p[i+1:]
	}
	return p + "." + objName(o)
}

func runR17_4(c *Ctx, r *R) {
	dbg := os.Getenv("DBG174") != ""
	var write []*ssa.Function
	for _, rel := range []string{"internal/writer", "internal/encode"} {
		write = append(write, c.SrcFuncs(rel)...)
	}
	seenFn := map[*ssa.Function]bool{}
	count := map[string]int{}
	n := 0
	for _, cone := range [][]*ssa.Function{readCone(c), write} {
		for _, fn := range cone {
			if seenFn[fn] || fn.Syntax() == nil {
				continue
			}
			seenFn[fn] = true
			ln := strings.ToLower(fn.Name())
			if strings.Contains(ln, "clone") || ln == "string" || ln == "debug" {
				continue // materialising accessors: documented to allocate their result
			}
			cnt := map[string]int{}
			for _, call := range callsIn(fn, false) {
				cc := call.Common()
				inModule := false
				if cal := cc.StaticCallee(); cal != nil {
					g := cal
					if g.Origin() != nil {
						g = g.Origin()
					}
					if g.Pkg != nil && strings.HasPrefix(g.Pkg.Pkg.Path(), Mod) {
						inModule = true
					}
					if g.Pkg == nil && g.Parent() != nil {
						inModule = true // closure
					}
				} else if !cc.IsInvoke() {
					if _, isB := cc.Value.(*ssa.Builtin); !isB {
						continue // call of a function value (user callbacks): outside the claim
					}
				}
				if inModule {
					continue
				}
				name := externalCalleeName(call)
				if name == "" || strings.HasPrefix(name, "builtin:") {
					continue // builtins are SSA operators, R17.1/R17.2 judge them
				}
				if cc.IsInvoke() && strings.Contains(cc.Value.Type().String(), Mod) {
					continue // interface of the module itself (Writer): resolved within the cone
				}
				if blockOnlyReachesErrors(call.Block(), map[*ssa.BasicBlock]bool{}) {
					continue
				}
				n++
				count[name]++
				cnt[name]++
				key := fmt.Sprintf("%s/%s#%d", fnKey(fn), name, cnt[name])
				if why := r17NoAlloc[name]; why != "" {
					r.OK(key, call.Pos(), "%s: %s", name, why)
				} else {
					r.Unk(key, call.Pos(), "call to %s, which is not on the list of callees known not to allocate: what it allocates internally is invisible to the escape analysis of this module (sort.SliceStable, fmt.*, strings.* allocate on every call); if it does not allocate, add it to the list with the reason", name)
				}
			}
		}
	}
	if dbg {
		var names []string
		for k := range count {
			names = append(names, k)
		}
		sort.Strings(names)
		for _, k := range names {
			fmt.Fprintf(os.Stderr, "EXT %4d %s\n", count[k], k)
		}
	}
	r.Note("%d external call sites", n)
}
