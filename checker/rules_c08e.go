package main

import (
	"fmt"
	"go/ast"
	"go/token"

	"golang.org/x/tools/go/ssa"
)

// tableHelperCoverage (R08.4 coverage, third shape): the region obtained from Grow is not written by the function
// itself but handed, whole, to unexported table writers of the package - one per entry format:
//
//	p := b.Grow(len(table) * fieldSize)
//	if big { putMessageFields_big(p, table) } else { putMessageFields_small(p, table) }
//
// For every entry size S the region can have (the constants fieldSize is selected from by the big flag) the checks
// are: on every path from the Grow to a return that is consistent with that selection a table writer is called with
// (p, table); inside it the entry slice is param[off:off+S] with that same constant S, off runs from 0 in steps of S
// in a loop that visits every entry of the table parameter, and every entry slice is written from byte 0 to byte S.
func tableHelperCoverage(c *Ctx, e *BE, fn *ssa.Function, g *ssa.Call, N Lin) (string, bool) {
	var calls []*ssa.Call
	for _, call := range callsIn(fn, false) {
		cv, ok := call.(*ssa.Call)
		if !ok {
			continue
		}
		h := cv.Call.StaticCallee()
		if h == nil || h.Blocks == nil || h.Pkg != fn.Pkg || ast.IsExported(h.Name()) {
			continue
		}
		for _, a := range cv.Call.Args {
			if a == ssa.Value(g) {
				calls = append(calls, cv)
				break
			}
		}
	}
	if len(calls) == 0 || len(e.writesInto(fn, g)) > 0 {
		return "", false
	}
	nb, ok := g.Call.Args[0].(*ssa.BinOp)
	if !ok || nb.Op != token.MUL {
		return "the grown size is not len(table) * entry size", true
	}
	var sizedTable, sizeA ssa.Value
	for _, pair := range [][2]ssa.Value{{nb.X, nb.Y}, {nb.Y, nb.X}} {
		if lc, ok := pair[0].(*ssa.Call); ok {
			if b, ok := lc.Call.Value.(*ssa.Builtin); ok && b.Name() == "len" && len(lc.Call.Args) == 1 {
				sizedTable, sizeA = lc.Call.Args[0], pair[1]
			}
		}
	}
	if sizedTable == nil {
		return "the grown size is not len(table) * entry size", true
	}
	type cs struct {
		val  int64
		cond ssa.Value
		tru  bool
	}
	var cases []cs
	if sphi, isPhi := sizeA.(*ssa.Phi); isPhi {
		idom := sphi.Block().Idom()
		cond := ifCond(idom)
		for k, ed := range sphi.Edges {
			v, ok := constInt(ed)
			if !ok || cond == nil {
				return "entry size is not selected from constants by the big flag", true
			}
			pred := sphi.Block().Preds[k]
			tru := pred == idom.Succs[0]
			if pred == idom {
				tru = idom.Succs[0] == sphi.Block()
			}
			cases = append(cases, cs{v, cond, tru})
		}
	} else if v, ok := constInt(sizeA); ok {
		cases = append(cases, cs{v, nil, true})
	} else {
		return "entry size of unrecognised form", true
	}
	for _, k := range cases {
		// the table writer(s) reached in this case: walk forward from the Grow, taking only the consistent edge at
		// a branch on the selecting condition; every return must lie behind a call
		var reached []*ssa.Call
		missing := false
		seen := map[*ssa.BasicBlock]bool{}
		var walk func(b *ssa.BasicBlock, from int)
		walk = func(b *ssa.BasicBlock, from int) {
			for i := from; i < len(b.Instrs); i++ {
				for _, cv := range calls {
					if b.Instrs[i] == ssa.Instruction(cv) {
						reached = append(reached, cv)
						return
					}
				}
				if _, isRet := b.Instrs[i].(*ssa.Return); isRet {
					missing = true
					return
				}
			}
			if iff, ok := b.Instrs[len(b.Instrs)-1].(*ssa.If); ok && k.cond != nil {
				cv, truth := iff.Cond, true
				for {
					un, isNot := cv.(*ssa.UnOp)
					if !isNot || un.Op != token.NOT {
						break
					}
					cv, truth = un.X, !truth
				}
				if cv == k.cond {
					s := b.Succs[1]
					if truth == k.tru {
						s = b.Succs[0]
					}
					if !seen[s] {
						seen[s] = true
						walk(s, 0)
					}
					return
				}
			}
			for _, s := range b.Succs {
				if !seen[s] {
					seen[s] = true
					walk(s, 0)
				}
			}
		}
		walk(g.Block(), instrIndex(g)+1)
		if missing || len(reached) == 0 {
			return fmt.Sprintf("with entries of %d bytes a return is reached without a table writer having been handed the grown region", k.val), true
		}
		for _, cv := range reached {
			if why := helperWritesTable(e, cv, g, sizedTable, k.val); why != "" {
				return why + " (call at " + c.pos(cv.Pos()) + ")", true
			}
		}
	}
	return "", true
}

// helperWritesTable: the callee of cv writes every S-byte entry of the region it receives, one per element of the
// table it receives.
func helperWritesTable(e *BE, cv *ssa.Call, region, table ssa.Value, S int64) string {
	h := cv.Call.StaticCallee()
	pi, ti := -1, -1
	for i, a := range cv.Call.Args {
		if a == region {
			pi = i
		}
		if a == table {
			ti = i
		}
	}
	if pi < 0 || ti < 0 || pi >= len(h.Params) || ti >= len(h.Params) {
		return h.Name() + " is not handed the table whose length sized the region"
	}
	rp, tp := ssa.Value(h.Params[pi]), ssa.Value(h.Params[ti])
	var q *ssa.Slice
	allInstrs(h, func(i ssa.Instruction) {
		if sl, ok := i.(*ssa.Slice); ok && sl.X == rp && sl.Low != nil && sl.High != nil {
			q = sl
		}
	})
	if q == nil {
		return h.Name() + " does not cut entry slices out of the region"
	}
	hb, ok := q.High.(*ssa.BinOp)
	if !ok || hb.Op != token.ADD || (hb.X != q.Low && hb.Y != q.Low) {
		return "entry slice in " + h.Name() + " is not p[off:off+S]"
	}
	size := hb.Y
	if hb.Y == q.Low {
		size = hb.X
	}
	if v, ok := constInt(size); !ok || v != S {
		return fmt.Sprintf("%s writes entries of another size than the %d bytes the region was sized for", h.Name(), S)
	}
	switch off := q.Low.(type) {
	case *ssa.Phi:
		okInit, okStep := false, false
		for _, ed := range off.Edges {
			if isConstInt(ed, 0) {
				okInit = true
			}
			if sb, ok := ed.(*ssa.BinOp); ok && sb.Op == token.ADD && ((sb.X == ssa.Value(off) && isConstInt(sb.Y, S)) || (sb.Y == ssa.Value(off) && isConstInt(sb.X, S))) {
				okStep = true
			}
		}
		if !okInit || !okStep {
			return "the entry offset in " + h.Name() + " does not advance from 0 by the entry size"
		}
		// the loop that carries the offset visits every entry of the table parameter
		visits := false
		for _, ins := range off.Block().Instrs {
			p2, ok := ins.(*ssa.Phi)
			if !ok {
				break
			}
			if p2 == off {
				continue
			}
			if ok, _ := loopPhiCoversAll(p2, tp); ok {
				visits = true
			}
			for _, u := range users(p2) {
				if b, ok := u.(*ssa.BinOp); ok && b.Op == token.ADD && isConstInt(b.Y, 1) {
					if ok, _ := loopPhiCoversAll(b, tp); ok {
						visits = true
					}
				}
			}
		}
		if !visits {
			return "the loop of " + h.Name() + " that advances the entry offset does not visit every entry of the table"
		}
	case *ssa.BinOp:
		idx := off.X
		if isConstInt(off.X, S) {
			idx = off.Y
		} else if !isConstInt(off.Y, S) {
			return "the entry offset in " + h.Name() + " is not index * entry size"
		}
		if ok, why := loopPhiCoversAll(idx, tp); !ok {
			return "the entry index in " + h.Name() + " does not visit every table entry: " + why
		}
	default:
		return "entry offset of unrecognised form in " + h.Name()
	}
	if ok, reachedTo := chainCovers(e.writesInto(h, q), linConst(S)); !ok {
		return fmt.Sprintf("table entries of %d bytes are only written up to byte %s in %s: the rest of each entry keeps stale buffer content", S, reachedTo.String(e.name), h.Name())
	}
	return ""
}
