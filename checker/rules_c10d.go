package main

import (
	"fmt"
	"go/ast"
	"go/token"
	"go/types"
	"strings"

	"golang.org/x/tools/go/ssa"
)

// R10.4: decoder size accounting. A typed decoder reports how many bytes the value occupies; the writer's layout and
// every reader that steps backwards through a struct or a table rely on "decoder size = bytes the encoder appended"
// (R10.3 is the encoder half). The decoders consume the value from its end in pieces, each piece reported by a
// count-producing call: decodeType (the type byte), decodeSize / compactint.Reverse* (a varint and its byte count).
// Rule: on every successful return of an exported internal/decode Decode* function, every such count obtained on
// the way to that return flows into the size it returns (through additions, conversions, phis). A fast path that
// returns before `size += n` under-reports the value by the varint it has already consumed.

func init() {
	register(&Rule{ID: "R10.4", Props: []string{"C10", "C08", "C13", "C01"}, Floor: 20,
		Doc: "decoder size accounting: every byte count obtained from decodeType / decodeSize / compactint.Reverse* on the way to a successful return is part of the returned size",
		Run: runR10_4})
}

func runR10_4(c *Ctx, r *R) {
	n := 0
	for _, fn := range c.SrcFuncs("internal/decode") {
		if fn.Parent() != nil || !ast.IsExported(fn.Name()) || !strings.HasPrefix(fn.Name(), "Decode") || fn.Signature.Recv() != nil {
			continue
		}
		rs := fn.Signature.Results()
		if rs.Len() < 2 || !isErrorType(rs.At(rs.Len()-1).Type()) {
			continue
		}
		si := -1
		for i := 0; i < rs.Len(); i++ {
			if b, ok := rs.At(i).Type().Underlying().(*types.Basic); ok && b.Kind() == types.Int {
				si = i // the last int result is the size
			}
		}
		if si < 0 {
			continue
		}
		// count-producing calls of this function: value -> description
		type cnt struct {
			v    ssa.Value
			at   ssa.Instruction
			what string
		}
		var counts []cnt
		for _, call := range callsIn(fn, false) {
			cv, ok := call.(*ssa.Call)
			if !ok {
				continue
			}
			o := calleeObj(call)
			if o == nil {
				continue
			}
			idx := -1
			switch {
			case o.Name() == "decodeType" || o.Name() == "decodeSize":
				idx = 1
			default:
				if ci, isVar := isVarintDecoder(o); isVar {
					idx = ci
				}
			}
			if idx < 0 {
				if o.Pkg() != nil && o.Pkg().Path() == compactintPath && o.Name() == "ReverseSize" {
					if _, isTup := cv.Type().(*types.Tuple); !isTup {
						counts = append(counts, cnt{cv, cv, o.Name()})
					}
				}
				continue
			}
			if ex := extractOf(cv, idx); ex != nil {
				counts = append(counts, cnt{ex, cv, o.Name()})
			}
		}
		k := 0
		for _, ret := range returnsOf(fn) {
			last := ret.Results[len(ret.Results)-1]
			if !isNilConst(last) {
				if knownNonNil(last) {
					continue
				}
				// a forwarded error value: judged only on the path where it is nil - approximated by skipping
				// returns whose error is the direct result of a failed call tested just before
				if _, isPhi := unspill(last).(*ssa.Phi); !isPhi {
					continue
				}
			}
			k++
			n++
			key := fmt.Sprintf("%s/size-accounts#%d", fnKey(fn), k)
			size := unspill(ret.Results[si])
			if kk, ok := size.(*ssa.Const); ok && kk.Value != nil {
				// constant 0 on the empty-input exit: nothing was consumed
				dominated := false
				for _, ct := range counts {
					if dominatesInstr(ct.at, ret) {
						dominated = true
					}
				}
				if !dominated {
					r.OK(key, ret.Pos(), "constant size before any piece is consumed")
					continue
				}
				// a fixed-width value (type byte + data bytes) reported as a constant: only fixed one-byte counts
				// (decodeType) may have been consumed, and the constant covers them
				fixed, others := int64(0), 0
				for _, ct := range counts {
					if dominatesInstr(ct.at, ret) {
						if ct.what == "decodeType" {
							fixed++
						} else {
							others++
						}
					}
				}
				if kv, isInt := constInt(kk); isInt && others == 0 && kv >= fixed {
					r.OK(key, ret.Pos(), "fixed-width value: constant size %d covers the type byte", kv)
					continue
				}
			}
			slice := sizeSlice(size)
			var missing []string
			for _, ct := range counts {
				if !dominatesInstr(ct.at, ret) {
					continue
				}
				if !slice[ct.v] {
					missing = append(missing, fmt.Sprintf("%s at %s", ct.what, c.pos(ct.at.Pos())))
				}
			}
			if len(missing) == 0 {
				r.OK(key, ret.Pos(), "every consumed piece is part of the reported size")
			} else {
				r.Bad(key, ret.Pos(), "the size reported on this successful return does not include the byte count of %s: the decoder reports fewer bytes than the encoder appended, so a reader stepping backwards by decoder sizes lands inside this value", strings.Join(missing, ", "))
			}
		}
	}
	r.Note("%d successful returns of typed decoders", n)
}

// sizeSlice: the values the size expression is computed from, through additions, subtractions, conversions and phis.
func sizeSlice(v ssa.Value) map[ssa.Value]bool {
	seen := map[ssa.Value]bool{}
	var walk func(v ssa.Value)
	walk = func(v ssa.Value) {
		v = unspill(v)
		if c := capturedLoadOf(v); c != nil {
			v = c
		}
		if v == nil || seen[v] {
			return
		}
		seen[v] = true
		switch x := v.(type) {
		case *ssa.BinOp:
			if x.Op == token.ADD || x.Op == token.SUB {
				walk(x.X)
				walk(x.Y)
			}
		case *ssa.Convert:
			walk(x.X)
		case *ssa.ChangeType:
			walk(x.X)
		case *ssa.Phi:
			for _, e := range x.Edges {
				walk(e)
			}
		case *ssa.Extract:
			// the size computed by a helper of the package: an argument is part of it if the corresponding
			// parameter is part of the size the helper returns on every successful return
			if call, ok := x.Tuple.(*ssa.Call); ok {
				helperArgs(call, x.Index, walk)
			}
		case *ssa.Call:
			helperArgs(x, 0, walk)
		}
	}
	walk(v)
	return seen
}

func helperArgs(call *ssa.Call, idx int, walk func(ssa.Value)) {
	h := call.Call.StaticCallee()
	if h == nil || h.Blocks == nil || h.Pkg == nil || relPkg(h.Pkg.Pkg.Path()) != "internal/decode" {
		return
	}
	// a function literal of the caller: the captured variables that are part of the size it returns on every
	// successful return (sized := func(trailer int, ...) { ... size := n + m + int(dataSize) + trailer ... })
	if h.Parent() != nil && h.Parent() == call.Parent() {
		var common map[ssa.Value]bool
		for _, ret := range returnsOf(h) {
			if idx >= len(ret.Results) {
				continue
			}
			if last := ret.Results[len(ret.Results)-1]; isErrorType(last.Type()) && knownNonNil(last) {
				continue
			}
			if k, isK := unspill(ret.Results[idx]).(*ssa.Const); isK && k.Value != nil && len(ret.Results) > 1 && !isNilConst(ret.Results[len(ret.Results)-1]) {
				continue
			}
			set := map[ssa.Value]bool{}
			for v := range sizeSliceNoHelpers(unspill(ret.Results[idx])) {
				if in, ok := v.(interface{ Parent() *ssa.Function }); ok && in.Parent() == call.Parent() {
					set[v] = true
				}
			}
			if common == nil {
				common = set
			} else {
				for v := range common {
					if !set[v] {
						delete(common, v)
					}
				}
			}
		}
		for v := range common {
			walk(v)
		}
	}
	for i, a := range call.Call.Args {
		if i >= len(h.Params) || !isIntegerType(a.Type()) {
			continue
		}
		inAll, any := true, false
		for _, ret := range returnsOf(h) {
			if idx >= len(ret.Results) {
				inAll = false
				continue
			}
			if last := ret.Results[len(ret.Results)-1]; isErrorType(last.Type()) && knownNonNil(last) {
				continue
			}
			if k, isK := unspill(ret.Results[idx]).(*ssa.Const); isK && k.Value != nil && len(ret.Results) > 1 && !isNilConst(ret.Results[len(ret.Results)-1]) {
				continue
			}
			any = true
			if !sizeSliceNoHelpers(unspill(ret.Results[idx]))[h.Params[i]] {
				inAll = false
			}
		}
		if inAll && any {
			walk(a)
		}
	}
}

// sizeSliceNoHelpers: like sizeSlice, without following helper calls (bounds the recursion).
func sizeSliceNoHelpers(v ssa.Value) map[ssa.Value]bool {
	seen := map[ssa.Value]bool{}
	var walk func(v ssa.Value)
	walk = func(v ssa.Value) {
		v = unspill(v)
		if c := capturedLoadOf(v); c != nil {
			v = c
		}
		if v == nil || seen[v] {
			return
		}
		seen[v] = true
		switch x := v.(type) {
		case *ssa.BinOp:
			if x.Op == token.ADD || x.Op == token.SUB {
				walk(x.X)
				walk(x.Y)
			}
		case *ssa.Convert:
			walk(x.X)
		case *ssa.ChangeType:
			walk(x.X)
		case *ssa.Phi:
			for _, e := range x.Edges {
				walk(e)
			}
		}
	}
	walk(v)
	return seen
}
