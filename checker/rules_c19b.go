package main

import (
	"fmt"
	"go/constant"
	"go/token"
	"go/types"
	"math/big"

	"golang.org/x/tools/go/ssa"
)

// R19.5: the back-off function. "An auto-connect client reconnects with a back-off between 25 ms and 1 s that never
// decreases within a run of failures": mpx.reconnectTimeout is a pure, branch-free integer function of the attempt
// number. It is decided by constant propagation over its SSA form with Go's exact integer semantics (wrap-around
// per type width, shift counts >= width give 0), for every attempt number: the values 2..W-1 one by one and the
// class attempt >= W as one value - sound because the parameter is only ever used as a shift count, and every shift
// by >= W (W = widest integer width in the function) yields the same result. The lower end of the domain comes from
// the caller: the only call site is dominated by attempt > 1.

func init() {
	register(&Rule{ID: "R19.5", Props: []string{"C19"}, Floor: 4,
		Doc: "back-off function: constant propagation of mpx.reconnectTimeout over every attempt number (2..63 and the class >= 64) gives a value within [minConnectRetryTimeout, maxConnectRetryTimeout] that never decreases",
		Run: runR19_5})
}

// foldPure evaluates a single-block function of integer parameters with exact Go integer semantics.
func foldPure(fn *ssa.Function, args map[*ssa.Parameter]*big.Int) (*big.Int, string) {
	if !loopFree(fn) {
		return nil, "the function has a loop"
	}
	val := map[ssa.Value]*big.Int{}
	get := func(v ssa.Value) (*big.Int, bool) {
		if p, ok := v.(*ssa.Parameter); ok {
			x, ok := args[p]
			return x, ok
		}
		if c, ok := v.(*ssa.Const); ok && c.Value != nil && c.Value.Kind() == constant.Int {
			b, ok := new(big.Int).SetString(c.Value.ExactString(), 10)
			return b, ok
		}
		x, ok := val[v]
		return x, ok
	}
	wrap := func(x *big.Int, t types.Type) (*big.Int, bool) {
		lo, hi, ok := typeRange(t)
		if !ok {
			return nil, false
		}
		width := new(big.Int).Sub(hi, lo)
		width.Add(width, bigOne) // 2^n
		r := new(big.Int).Sub(x, lo)
		r.Mod(r, width) // Euclidean: non-negative
		r.Add(r, lo)
		return r, true
	}
	bits := func(t types.Type) int {
		lo, hi, ok := typeRange(t)
		if !ok {
			return 64
		}
		return new(big.Int).Sub(hi, lo).BitLen()
	}
	// loop-free control flow is followed branch by branch (`if timeout > max { return max }`): comparisons fold to
	// 0/1, a phi takes the value of the edge the evaluation arrived through
	blk := fn.Blocks[0]
	var prevBlk *ssa.BasicBlock
	for steps := 0; steps < 64; steps++ {
		var next *ssa.BasicBlock
		for _, ins := range blk.Instrs {
			switch x := ins.(type) {
			case *ssa.Phi:
				for k, pb := range blk.Preds {
					if pb == prevBlk {
						if v, ok := get(x.Edges[k]); ok {
							val[x] = v
						}
					}
				}
			case *ssa.If:
				cv, ok := get(x.Cond)
				if !ok {
					return nil, "branch condition is not a constant"
				}
				if cv.Sign() != 0 {
					next = blk.Succs[0]
				} else {
					next = blk.Succs[1]
				}
			case *ssa.Jump:
				next = blk.Succs[0]
			case *ssa.UnOp:
				a, ok := get(x.X)
				if !ok {
					return nil, "operand of " + x.String() + " is not a constant"
				}
				switch x.Op {
				case token.NOT:
					if a.Sign() == 0 {
						val[x] = big.NewInt(1)
					} else {
						val[x] = big.NewInt(0)
					}
				case token.SUB:
					w, ok := wrap(new(big.Int).Neg(a), x.Type())
					if !ok {
						return nil, "non-integer result type"
					}
					val[x] = w
				default:
					return nil, "unsupported operator " + x.Op.String()
				}
			case *ssa.BinOp:
				a, ok1 := get(x.X)
				b, ok2 := get(x.Y)
				if !ok1 || !ok2 {
					return nil, "operand of " + x.String() + " is not a constant"
				}
				switch x.Op {
				case token.LSS, token.LEQ, token.GTR, token.GEQ, token.EQL, token.NEQ:
					c := a.Cmp(b)
					t := false
					switch x.Op {
					case token.LSS:
						t = c < 0
					case token.LEQ:
						t = c <= 0
					case token.GTR:
						t = c > 0
					case token.GEQ:
						t = c >= 0
					case token.EQL:
						t = c == 0
					case token.NEQ:
						t = c != 0
					}
					if t {
						val[x] = big.NewInt(1)
					} else {
						val[x] = big.NewInt(0)
					}
					continue
				}
				var r *big.Int
				switch x.Op {
				case token.ADD:
					r = new(big.Int).Add(a, b)
				case token.SUB:
					r = new(big.Int).Sub(a, b)
				case token.MUL:
					r = new(big.Int).Mul(a, b)
				case token.SHL:
					if b.Sign() < 0 {
						return nil, "negative shift count (run-time panic)"
					}
					if b.Cmp(big.NewInt(int64(bits(x.Type())))) >= 0 {
						r = big.NewInt(0)
					} else {
						r = new(big.Int).Lsh(a, uint(b.Int64()))
					}
				case token.SHR:
					if b.Sign() < 0 {
						return nil, "negative shift count (run-time panic)"
					}
					if b.Cmp(big.NewInt(int64(bits(x.Type())))) >= 0 {
						if a.Sign() < 0 {
							r = big.NewInt(-1)
						} else {
							r = big.NewInt(0)
						}
					} else {
						r = new(big.Int).Rsh(a, uint(b.Int64()))
					}
				case token.QUO:
					if b.Sign() == 0 {
						return nil, "division by zero"
					}
					r = new(big.Int).Quo(a, b)
				case token.REM:
					if b.Sign() == 0 {
						return nil, "division by zero"
					}
					r = new(big.Int).Rem(a, b)
				default:
					return nil, "unsupported operator " + x.Op.String()
				}
				w, ok := wrap(r, x.Type())
				if !ok {
					return nil, "non-integer result type"
				}
				val[x] = w
			case *ssa.Convert:
				a, ok := get(x.X)
				if !ok {
					return nil, "operand of conversion is not a constant"
				}
				w, ok := wrap(a, x.Type())
				if !ok {
					return nil, "conversion to a non-integer type"
				}
				val[x] = w
			case *ssa.ChangeType:
				a, ok := get(x.X)
				if !ok {
					return nil, "operand is not a constant"
				}
				val[x] = a
			case *ssa.Call:
				bi, ok := x.Call.Value.(*ssa.Builtin)
				if !ok || (bi.Name() != "min" && bi.Name() != "max") {
					return nil, "call to " + x.Call.Value.Name() + " (not a pure builtin)"
				}
				var r *big.Int
				for _, a := range x.Call.Args {
					v, ok := get(a)
					if !ok {
						return nil, "argument of " + bi.Name() + " is not a constant"
					}
					if r == nil || (bi.Name() == "min" && v.Cmp(r) < 0) || (bi.Name() == "max" && v.Cmp(r) > 0) {
						r = v
					}
				}
				val[x] = r
			case *ssa.Return:
				if len(x.Results) != 1 {
					return nil, "not a single result"
				}
				v, ok := get(x.Results[0])
				if !ok {
					return nil, "result is not a constant"
				}
				return v, ""
			case *ssa.DebugRef:
			default:
				return nil, fmt.Sprintf("unsupported instruction %T", ins)
			}
		}
		if next == nil {
			return nil, "no return"
		}
		prevBlk, blk = blk, next
	}
	return nil, "no return"
}

func runR19_5(c *Ctx, r *R) {
	f := r.Need("mpx", "reconnectTimeout")
	if f == nil {
		return
	}
	key := fnKey(f)
	if len(f.Params) != 1 || !isIntegerType(f.Params[0].Type()) {
		r.Unk(key+"/shape", f.Pos(), "reconnectTimeout is not a function of one integer")
		return
	}
	p := f.Params[0]
	// the class attempt >= W is uniform only if the parameter is used as a shift count and nowhere else
	onlyShift := true
	for _, u := range users(p) {
		if b, ok := u.(*ssa.BinOp); ok && (b.Op == token.SHL || b.Op == token.SHR) && b.Y == ssa.Value(p) && b.X != ssa.Value(p) {
			continue
		}
		if _, ok := u.(*ssa.DebugRef); ok {
			continue
		}
		onlyShift = false
	}
	// domain: the call sites
	lo := int64(-1)
	nCalls := 0
	for _, fn := range c.SrcFuncs("mpx") {
		for _, call := range callsIn(fn, true) {
			if call.Common().StaticCallee() != f {
				continue
			}
			nCalls++
			l, ok := lowerBoundAt(call.Block(), call.Common().Args[0])
			if !ok {
				r.Bad(key+"/domain", call.Pos(), "reconnectTimeout is called with an attempt number that no dominating test bounds from below")
				return
			}
			if lo < 0 || l < lo {
				lo = l
			}
		}
	}
	if nCalls == 0 {
		r.Unk(key+"/domain", f.Pos(), "no call site of reconnectTimeout found")
		return
	}
	r.OK(key+"/domain", f.Pos(), "%d call site(s), attempt >= %d at each", nCalls, lo)
	look := func(name string) (*big.Int, bool) {
		k, ok := c.Pkg("mpx").Types.Scope().Lookup(name).(*types.Const)
		if !ok {
			return nil, false
		}
		return new(big.Int).SetString(constant.ToInt(k.Val()).ExactString(), 10)
	}
	minT, ok1 := look("minConnectRetryTimeout")
	maxT, ok2 := look("maxConnectRetryTimeout")
	if !ok1 || !ok2 {
		r.Unk(key+"/range", f.Pos(), "constants minConnectRetryTimeout / maxConnectRetryTimeout not found")
		return
	}
	const W = 64
	hiK := int64(W)
	if !onlyShift {
		// the parameter takes part in arithmetic: no finite class argument; explore a long prefix and say so
		r.Unk(key+"/shape", f.Pos(), "the attempt number is used outside a shift count: the value for attempt >= %d is not a single class", W)
		return
	}
	r.OK(key+"/shape", f.Pos(), "the attempt number is only a shift count: every attempt >= %d evaluates like %d", W, W)
	var prev *big.Int
	var rangeBad, monoBad string
	for k := lo; k <= hiK; k++ {
		v, why := foldPure(f, map[*ssa.Parameter]*big.Int{p: big.NewInt(k)})
		if v == nil {
			r.Unk(key+"/range", f.Pos(), "cannot evaluate reconnectTimeout(%d): %s", k, why)
			return
		}
		if (v.Cmp(minT) < 0 || v.Cmp(maxT) > 0) && rangeBad == "" {
			rangeBad = fmt.Sprintf("reconnectTimeout(%d) = %s ns", k, v)
		}
		if prev != nil && v.Cmp(prev) < 0 && monoBad == "" {
			monoBad = fmt.Sprintf("reconnectTimeout(%d) = %s ns < reconnectTimeout(%d) = %s ns", k, v, k-1, prev)
		}
		prev = v
	}
	if rangeBad == "" {
		r.OK(key+"/range", f.Pos(), "for every attempt >= %d the back-off lies within [%s ns, %s ns]", lo, minT, maxT)
	} else {
		r.Bad(key+"/range", f.Pos(), "the back-off leaves [%s ns, %s ns]: %s (integer wrap-around after a long outage turns the back-off into a hot reconnect loop)", minT, maxT, rangeBad)
	}
	if monoBad == "" {
		r.OK(key+"/monotone", f.Pos(), "the back-off never decreases from one attempt to the next")
	} else {
		r.Bad(key+"/monotone", f.Pos(), "the back-off decreases within a run of failures: %s", monoBad)
	}
}
