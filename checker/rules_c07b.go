package main

import (
	"fmt"
	"strings"

	"golang.org/x/tools/go/ssa"
)

// R07.6: one window, both ends. The threshold lemma of R07.2 is about ONE number W: the sender admits against it,
// the receiver acknowledges against it. The two ends hold separate copies: the opener takes W from its options and
// advertises it in the open frame, the acceptor takes it from that frame. The copies agree only if
//   (a) every open frame advertises the channel's initWindow (not the window left after the first payload),
//   (b) wherever a channel state is set up, the value stored as initWindow is the value the send window starts at,
//   (c) that value originates from the configured ChannelWindowSize (opener) or from the frame's Window() (acceptor).
// With different numbers on the two ends the acceptor's Send blocks forever although the opener keeps consuming.

func init() {
	register(&Rule{ID: "R07.6", Props: []string{"C07", "C03"}, Floor: 2,
		Doc: "one window on both ends: open frames advertise initWindow; initWindow and the initial send window are the same value; it originates from options.ChannelWindowSize or from the received open frame's Window()",
		Run: runR07_6})
}

func runR07_6(c *Ctx, r *R) {
	n := 0
	// (a) advertised window
	for _, fn := range c.SrcFuncs("mpx") {
		k := 0
		for _, call := range callsIn(fn, false) {
			o := calleeObj(call)
			if o == nil || !strings.HasPrefix(o.Name(), "BuildChannelOpen") {
				continue
			}
			args := call.Common().Args
			if len(args) == 0 {
				continue
			}
			k++
			n++
			key := fmt.Sprintf("%s/%s#%d/advertised-window", fnKey(fn), o.Name(), k)
			src := valueSource(args[len(args)-1])
			if strings.HasSuffix(src, ".initWindow") {
				r.OK(key, call.Pos(), "the open frame advertises the channel's initWindow")
			} else {
				r.Bad(key, call.Pos(), "the window advertised in the open frame is not the channel's initWindow (source %q): the accepting side negotiates a different window than the opener uses, and its Send can block forever although the opener keeps consuming", src)
			}
		}
	}
	// (b), (c) set-up of channel states
	var origin func(v ssa.Value, depth int, seen map[ssa.Value]bool) []string
	origin = func(v ssa.Value, depth int, seen map[ssa.Value]bool) []string {
		if depth > 6 || seen[v] {
			return nil
		}
		seen[v] = true
		switch x := v.(type) {
		case *ssa.Convert:
			return origin(x.X, depth+1, seen)
		case *ssa.ChangeType:
			return origin(x.X, depth+1, seen)
		case *ssa.Phi:
			var out []string
			for _, e := range x.Edges {
				out = append(out, origin(e, depth+1, seen)...)
			}
			return out
		case *ssa.Call:
			if o := calleeObj(x); o != nil && o.Name() == "Window" {
				return []string{"frame.Window()"}
			}
		case *ssa.Parameter:
			fn := x.Parent()
			var out []string
			found := false
			for _, g := range c.SrcFuncs("mpx") {
				for _, call := range callsIn(g, true) {
					if call.Common().StaticCallee() != fn {
						continue
					}
					for i, p := range fn.Params {
						if p == x && i < len(call.Common().Args) {
							found = true
							out = append(out, origin(call.Common().Args[i], depth+1, seen)...)
						}
					}
				}
			}
			if found {
				return out
			}
		}
		if s := valueSource(v); strings.Contains(s, "ChannelWindowSize") {
			return []string{"options.ChannelWindowSize"}
		}
		return []string{"other:" + v.String()}
	}
	for _, fn := range c.SrcFuncs("mpx") {
		k := 0
		allInstrs(fn, func(i ssa.Instruction) {
			st, ok := i.(*ssa.Store)
			if !ok {
				return
			}
			fa, ok := st.Addr.(*ssa.FieldAddr)
			if !ok || fieldOf(fa).Name() != "initWindow" || !typeIs(fa.X.Type(), pkgPath("mpx"), "channelState") {
				return
			}
			if isConstInt(st.Val, 0) {
				return // reset
			}
			k++
			n++
			key := fmt.Sprintf("%s/initWindow=#%d", fnKey(fn), k)
			same := false
			for _, call := range fieldMethodCalls(fn, "sendWindow", "Store") {
				if a := call.Call.Args; len(a) > 0 && a[len(a)-1] == st.Val {
					same = true
				}
			}
			if !same {
				r.Bad(key, st.Pos(), "the value stored as initWindow is not the value the send window is initialised with in the same set-up: admission (against sendWindow) and the half-window thresholds (against initWindow) refer to different windows")
				return
			}
			var bad []string
			for _, o := range uniq(origin(st.Val, 0, map[ssa.Value]bool{})) {
				if strings.HasPrefix(o, "other:") {
					bad = append(bad, o)
				}
			}
			if len(bad) == 0 {
				r.OK(key, st.Pos(), "initWindow = initial sendWindow, originating from the configured window size / the received open frame")
			} else {
				r.Bad(key, st.Pos(), "the window of a channel state originates from %v, neither options.ChannelWindowSize nor the open frame's Window()", bad)
			}
		})
	}
	if n < 2 {
		r.Unk("mpx/window-setup", 0, "anchor lost: %d window set-up sites found", n)
	}
}
