package main

import (
	"fmt"
	"go/token"
	"strings"

	"golang.org/x/tools/go/ssa"
)

// R14.19: a search over all children does not stop at the first child. Struct.contains looks for a struct that
// contains itself by walking the struct-typed fields recursively; validate() rejects the schema when it answers
// true. Inside the loop over the fields only a positive answer may end the search: a return of anything but the
// constant true from inside the loop (`return next.contains(target, visited)`) makes the first struct-typed field
// decide for all of them, a cycle through a later field is accepted and the generator emits a Go struct that
// contains itself by value ('invalid recursive type'). Applied to every function of the model with a boolean
// result that calls itself (directly or through one other function) from inside a loop.
//
// R14.20: a package served from the context's cache was compiled successfully. model.Context registers a package
// under its id BEFORE resolve/compile/validate and Context.compile returns a registered package with a nil error.
// That is sound only while a context does not outlive a failed compilation: either every Context is created for
// one Compile call and dropped with it (the result of model.NewContext is never stored in a struct field or a
// package-level variable), or the registration is undone on every failing path. Otherwise the second Compile of an
// invalid schema succeeds with a half-resolved package.
func init() {
	register(&Rule{ID: "R14.19", Props: []string{"C14"}, Floor: 1,
		Doc: "recursive boolean searches of the model (Struct.contains) return from inside their loop only with the constant true: a negative answer for one child does not end the search over the others",
		Run: runR14_19})
	register(&Rule{ID: "R14.20", Props: []string{"C14"}, Floor: 1,
		Doc: "a model.Context does not outlive one compilation (NewContext results are not kept in fields or globals), or the registration of a package is undone when its compilation fails",
		Run: runR14_20})
}

func runR14_19(c *Ctx, r *R) {
	n := 0
	for _, f := range c.SrcFuncs("internal/lang/model") {
		if f.Parent() != nil || f.Signature.Results().Len() != 1 || !isBoolType(f.Signature.Results().At(0).Type()) {
			continue
		}
		// recursive calls inside a loop
		var rec []*ssa.Call
		for _, call := range callsIn(f, false) {
			cv, ok := call.(*ssa.Call)
			if !ok || !inLoopBody(cv.Block()) {
				continue
			}
			h := cv.Call.StaticCallee()
			if h == nil {
				continue
			}
			if h == f {
				rec = append(rec, cv)
				continue
			}
			if h.Pkg == f.Pkg && h.Blocks != nil {
				for _, c2 := range callsIn(h, false) {
					if c2.Common().StaticCallee() == f {
						rec = append(rec, cv)
					}
				}
			}
		}
		if len(rec) == 0 {
			continue
		}
		n++
		key := fnKey(f) + "/search-continues"
		bad := ""
		for _, ret := range returnsOf(f) {
			// only the loop(s) that contain a recursive call: the guard loop over `visited` may answer false
			same := false
			for _, cv := range rec {
				for _, s := range loopBodiesOf(cv.Block()) {
					if s == ret.Block() || s.Dominates(ret.Block()) {
						same = true
					}
				}
			}
			if !same || len(ret.Results) != 1 {
				continue
			}
			if k, ok := unspill(ret.Results[0]).(*ssa.Const); ok && k.Value != nil && k.Value.String() == "true" {
				continue
			}
			// `return false` inside the loop ends the search as well, unless it is a pruning of this function's own
			// argument (not the case in the model)
			bad = fmt.Sprintf("the return at %s sits inside the loop over the children and returns something other than the constant true: the first child that is descended into decides for all the following ones, a match reachable through a later child is missed", c.pos(ret.Pos()))
		}
		if bad == "" {
			r.OK(key, f.Pos(), "inside the loop only `return true` ends the search (%d recursive call(s))", len(rec))
		} else {
			r.Bad(key, f.Pos(), "%s", bad)
		}
	}
	if n == 0 {
		r.Unk("internal/lang/model/recursive-search", 0, "anchor lost: no recursive boolean search over a loop found in the model")
	}
}

func runR14_20(c *Ctx, r *R) {
	// where do NewContext results go?
	var kept []string
	nNew := 0
	for _, rel := range []string{"internal/lang/compiler", "internal/lang/model", "internal/lang/generator", "internal/lang", "cmd/spec", "."} {
		for _, f := range c.SrcFuncs(rel) {
			if strings.HasSuffix(c.Fset.Position(f.Pos()).Filename, "_test.go") {
				continue
			}
			for _, call := range callsIn(f, true) {
				o := calleeObj(call)
				cv, isCall := call.(*ssa.Call)
				if o == nil || !isCall || o.Name() != "NewContext" || o.Pkg() == nil || o.Pkg().Path() != pkgPath("internal/lang/model") {
					continue
				}
				nNew++
				for _, u := range users(cv) {
					st, ok := u.(*ssa.Store)
					if !ok || st.Val != ssa.Value(cv) {
						continue
					}
					switch st.Addr.(type) {
					case *ssa.FieldAddr, *ssa.Global, *ssa.IndexAddr:
						kept = append(kept, c.pos(st.Pos()))
					}
				}
			}
		}
	}
	key := "internal/lang/model.Context/lifetime"
	if nNew == 0 {
		r.Unk(key, 0, "anchor lost: model.NewContext is not called")
		return
	}
	if len(kept) == 0 {
		r.OK(key, 0, "every Context is created for one compilation (%d NewContext call(s), none kept in a field or global)", nNew)
		return
	}
	// a context is kept: the registration must be undone on failure
	f := c.Func("internal/lang/model", "Context.compileFiles")
	undone := false
	if f != nil {
		var reg ssa.Instruction
		allInstrs(f, func(i ssa.Instruction) {
			if mu, ok := i.(*ssa.MapUpdate); ok && valueSource(mu.Map) == ".Packages" {
				reg = i
			}
		})
		if reg != nil {
			undone = true
			sa := newStatusAn(c)
			_ = sa
			for _, ret := range returnsOf(f) {
				if !reachesInstr(reg, ret) || len(ret.Results) == 0 {
					continue
				}
				if isNilConst(unspill(ret.Results[len(ret.Results)-1])) {
					continue
				}
				del := false
				for _, call := range callsIn(f, false) {
					if b, ok := call.Common().Value.(*ssa.Builtin); ok && b.Name() == "delete" && dominatesInstr(call.(ssa.Instruction), ret) {
						del = true
					}
				}
				if !del {
					undone = false
				}
			}
		}
	}
	if undone {
		r.OK(key, 0, "a Context is kept across compilations (%v) and the registration of a package is deleted on every failing path of compileFiles", kept)
	} else {
		r.Bad(key, 0, "a Context is kept across compilations (stored at %v) while compileFiles leaves a package registered when resolve/compile/validate fails and Context.compile answers a registered id with a nil error: the second Compile of an invalid schema returns the half-resolved package as a success", kept)
	}
}

var _ = token.NOT

// inLoopBody: block b belongs to the body of a loop or is an exit taken from inside the body (a return in the
// loop): it is dominated by a successor of a loop header that leads back to the header.
func inLoopBody(b *ssa.BasicBlock) bool {
	for _, h := range b.Parent().Blocks {
		if !reachableFrom(h)[h] {
			continue
		}
		for _, s := range h.Succs {
			if (s == h || reachableFrom(s)[h]) && h.Dominates(s) && (s == b || s.Dominates(b)) && s != h {
				return true
			}
		}
	}
	return false
}

// loopBodiesOf: the body entry blocks (successor of a loop header that leads back to it) of the loops b belongs to.
func loopBodiesOf(b *ssa.BasicBlock) []*ssa.BasicBlock {
	var out []*ssa.BasicBlock
	for _, h := range b.Parent().Blocks {
		if !reachableFrom(h)[h] {
			continue
		}
		for _, s := range h.Succs {
			if s != h && reachableFrom(s)[h] && h.Dominates(s) && (s == b || s.Dominates(b)) {
				out = append(out, s)
			}
		}
	}
	return out
}
