package main

import (
	"bytes"
	"fmt"
	"go/constant"
	"go/token"
	"go/types"
	"os"
	"os/exec"
	"path/filepath"
	"regexp"
	"sort"
	"strings"

	"golang.org/x/tools/go/ssa"
)

func init() {
	props["C15"] = &propInfo{Level: "other", Explanation: "Decides structural necessary conditions of 'the parser records exactly what the source says, or errors': (R15.1) every grammar production is read from grammar.y; each value-carrying right-hand-side symbol must be used by its semantic action (outside debug prints), and the binding of every production - which $k feeds which syntax-tree field, which $k is appended - must equal the confirmed binding table (78 alternatives, frozen after reading; a production whose signature changes is reported until re-confirmed); contextual keywords return exactly their own spelling; (R15.2) grammar.go is byte-identical to `goyacc -l` run on grammar.y (goyacc built offline from the cached x/tools) and goyacc reports 0 shift/reduce and 0 reduce/reduce conflicts, so the tables implement exactly that grammar; (R15.3) token totality: Lex handles all eight text/scanner token classes explicitly; classes that are not tokens of the language (Float, Char, RawString) record an error; the integer literal is parsed as a signed 64-bit decimal whose error is checked, and its conversion to int is value-preserving; (R15.4) the keyword map equals the %token keywords and every keyword is either usable as a name through the `keyword` production or in the reserved table {enum, oneway}; (R15.5) lexical and syntax errors fail the parse: the scanner's Error hook is installed, parse() returns a file only behind lexer.err == nil and file != nil. Not decided: print -> parse -> compare over generated trees (needs execution).",
		Trusted: []string{"goyacc (x/tools v0.29.0 cmd/goyacc) as the reference generator", "confirmed binding table in rules_c15.go", "text/scanner token classes"}}

	register(&Rule{ID: "R15.1", Props: []string{"C15", "C05"}, Floor: 78,
		Doc: "grammar actions: every value-carrying symbol used; production -> field bindings equal the confirmed table; keywords return their own spelling",
		Run: runR15_1})
	register(&Rule{ID: "R15.2", Props: []string{"C15"}, Floor: 2,
		Doc: "grammar.go == goyacc(grammar.y), 0 conflicts",
		Run: runR15_2})
	register(&Rule{ID: "R15.3", Props: []string{"C15", "C14"}, Floor: 10,
		Doc: "lexer token totality, checked integer parsing, error channels consumed by parse()",
		Run: runR15_3})
	register(&Rule{ID: "R15.4", Props: []string{"C15"}, Floor: 9,
		Doc: "keyword map = %token keywords; each keyword usable as a name or reserved",
		Run: runR15_4})
}

// confirmed binding table: production signature -> bindings (as extracted by altBindings)
var grammarBindings = map[string]string{
	"field_name: IDENT":                                  "$$=$1",
	"field_name: keyword":                                "$$=$1",
	"keyword: ANY":                                       "$$=\"any\"",
	"keyword: IMPORT":                                    "$$=\"import\"",
	"keyword: MESSAGE":                                   "$$=\"message\"",
	"keyword: OPTIONS":                                   "$$=\"options\"",
	"keyword: STRUCT":                                    "$$=\"struct\"",
	"keyword: SERVICE":                                   "$$=\"service\"",
	"keyword: SUBSERVICE":                                "$$=\"subservice\"",
	"file: imports options definitions":                  "Definitions<-$3; Imports<-$1; Options<-$2",
	"import: STRING":                                     "ID<-trimString($1)",
	"import: IDENT STRING":                               "Alias<-$1; ID<-trimString($2)",
	"import_list: ":                                      "$$=nil",
	"import_list: import_list import":                    "$$=append($$,$2)",
	"imports: ":                                          "$$=nil",
	"imports: IMPORT '(' import_list ')'":                "$$=append($$,$3...)",
	"options: ":                                          "$$=nil",
	"options: OPTIONS '(' option_list ')'":               "$$=append($$,$3...)",
	"option_list: ":                                      "$$=nil",
	"option_list: option_list option":                    "$$=append($$,$2)",
	"option: IDENT '=' STRING":                           "Name<-$1; Value<-trimString($3)",
	"type: base_type":                                    "$$=$1",
	"type: '[' ']' base_type":                            "Element<-$3; Kind<-syntax.KindList",
	"base_type: IDENT":                                   "Kind<-syntax.GetKind($1); Name<-$1",
	"base_type: IDENT '.' IDENT":                         "Import<-$1; Kind<-syntax.KindReference; Name<-$3",
	"base_type: ANY":                                     "Kind<-syntax.KindAny; Name<-\"any\"",
	"base_type: MESSAGE":                                 "Kind<-syntax.KindAnyMessage; Name<-\"message\"",
	"definition: enum":                                   "",
	"definition: message":                                "",
	"definition: struct":                                 "",
	"definition: service":                                "",
	"definition: subservice":                             "",
	"definitions: ":                                      "$$=nil",
	"definitions: definitions definition":                "$$=append($$,$2)",
	"enum: ENUM IDENT '{' enum_values '}'":               "Name<-$2; Type<-syntax.DefinitionEnum; Values<-$4",
	"enum_value: field_name '=' INTEGER ';'":             "Name<-$1; Value<-$3",
	"enum_values: ":                                      "$$=nil",
	"enum_values: enum_values enum_value":                "$$=append($$,$2)",
	"message: MESSAGE IDENT '{' fields semi_opt '}'":     "Fields<-$4; Name<-$2; Type<-syntax.DefinitionMessage",
	"field: field_name type INTEGER":                     "Name<-$1; Tag<-$3; Type<-$2",
	"fields: ":                                           "$$=nil",
	"fields: field":                                      "$$=[]*syntax.Field{$1}",
	"fields: fields ';' field":                           "$$=append($$,$3)",
	"struct: STRUCT IDENT '{' struct_fields '}'":         "Fields<-$4; Name<-$2; Type<-syntax.DefinitionStruct",
	"struct_field: field_name type ';'":                  "Name<-$1; Type<-$2",
	"struct_fields: ":                                    "$$=nil",
	"struct_fields: struct_fields struct_field":          "$$=append($$,$2)",
	"service: SERVICE IDENT '{' methods '}'":             "Methods<-$4; Name<-$2; Type<-syntax.DefinitionService",
	"subservice: SUBSERVICE IDENT '{' methods '}'":       "Methods<-$4; Name<-$2; Sub<-true; Type<-syntax.DefinitionService",
	"methods: ":                                          "$$=nil",
	"methods: methods method":                            "$$=append($1,$2)",
	"method: field_name method_input ';'":                "Input<-$2; Name<-$1",
	"method: field_name method_input method_oneway ';'":  "Input<-$2; Name<-$1; Oneway<-true",
	"method: field_name method_input method_output ';'":  "Input<-$2; Name<-$1; Output<-$3",
	"method: field_name method_input method_channel ';'": "Channel<-$3; Input<-$2; Name<-$1",
	"method: field_name method_input method_channel method_output ';'": "Channel<-$3; Input<-$2; Name<-$1; Output<-$4",
	"method_input: '(' base_type ')'":                                  "$$=$2",
	"method_input: '(' method_field_list ')'":                          "$$=$2",
	"method_oneway: ONEWAY":                                            "$$=true",
	"method_output: base_type":                                         "$$=$1",
	"method_output: '(' method_field_list ')'":                         "$$=$2",
	"method_channel: '(' method_channel_in ')'":                        "In<-$2",
	"method_channel: '(' method_channel_out ')'":                       "Out<-$2",
	"method_channel: '(' method_channel_in ',' method_channel_out ')'": "In<-$2; Out<-$4",
	"method_channel: '(' method_channel_out ',' method_channel_in ')'": "error",
	"method_channel_in: '<' '-' type":                                  "$$=$3",
	"method_channel_in: type '<' '-'":                                  "error",
	"method_channel_out: type '-' '>'":                                 "$$=$1",
	"method_channel_out: '-' '>' type":                                 "error",
	"method_field_list: method_fields comma_opt":                       "$$=$1",
	"method_fields: ":                                                  "$$=nil",
	"method_fields: method_field":                                      "$$=[]*syntax.Field{$1}",
	"method_fields: method_fields ',' method_field":                    "$$=append($1,$3)",
	"method_field: field_name type INTEGER":                            "Name<-$1; Tag<-$3; Type<-$2",
	"comma_opt: ":                                                      "",
	"comma_opt: ','":                                                   "",
	"semi_opt: ":                                                       "",
	"semi_opt: ';'":                                                    "",
}

func bindingsOf(a yAlt) string {
	act := stripDebug(a.Action)
	if strings.Contains(act, "return yyLexError") {
		return "error"
	}
	bs := altBindings(a.Action)
	// single-line $$ = expr containing a composite literal
	for _, line := range strings.Split(act, "\n") {
		line = strings.TrimSpace(line)
		if strings.HasPrefix(line, "$$") && strings.Contains(line, "{") && strings.HasSuffix(line, "}") {
			bs = append(bs, strings.Join(strings.Fields(line), ""))
		}
	}
	sort.Strings(bs)
	return strings.Join(bs, "; ")
}

func runR15_1(c *Ctx, r *R) {
	path := filepath.Join(c.Repo, "internal/lang/parser/grammar.y")
	g, err := parseYacc(path)
	if err != nil {
		r.Unk("internal/lang/parser/grammar.y", 0, "cannot read the grammar: %v", err)
		return
	}
	seen := map[string]bool{}
	for _, a := range g.Alts {
		sig := a.sig()
		key := "grammar.y/" + sig
		seen[sig] = true
		pos := fmt.Sprintf("internal/lang/parser/grammar.y:%d", a.Line)
		// keyword-named fields, enum values and methods (C05: "also ... for keyword-named fields") get their
		// generated accessor name from these productions; the rest of the grammar belongs to C15 alone
		props := []string{"C15"}
		if a.LHS == "keyword" || (len(a.RHS) == 1 && a.RHS[0] == "keyword") {
			props = append(props, "C05")
		}
		report := func(st Status, format string, args ...any) {
			for _, p := range props {
				r.c.Obs = append(r.c.Obs, &Ob{Prop: p, Rule: r.rule.ID, Key: key, Pos: pos, Status: st.String(), status: st, Msg: fmt.Sprintf(format, args...)})
			}
			r.n++
		}
		// (a) completeness
		act := stripDebug(a.Action)
		used := map[string]bool{}
		for _, m := range reDollar.FindAllStringSubmatch(act, -1) {
			used[m[1]] = true
		}
		var unused []string
		for i, sym := range a.RHS {
			if g.SymType[sym] == "" {
				continue // punctuation / untyped token
			}
			k := fmt.Sprint(i + 1)
			if used[k] || (i == 0 && (used["$"] && strings.Contains(act, "append($$")) || (act == "" && len(a.RHS) == 1)) {
				continue
			}
			// keyword alternative: returns the keyword's own spelling
			if a.LHS == "keyword" || (g.Tokens[sym] && strings.Contains(act, "\""+strings.ToLower(sym)+"\"")) {
				continue
			}
			if a.LHS == "method_oneway" || sym == "method_oneway" {
				continue // presence of the marker is the information (Oneway: true)
			}
			if g.Tokens[sym] && sym != "IDENT" && sym != "INTEGER" && sym != "STRING" {
				continue // keyword token used as the leading keyword of a definition
			}
			unused = append(unused, fmt.Sprintf("$%s (%s)", k, sym))
		}
		if len(unused) > 0 {
			report(Violated, "the action ignores the value of %s: what the source says at that position is not recorded in the syntax tree", strings.Join(unused, ", "))
			continue
		}
		// (b) binding table
		want, known := grammarBindings[sig]
		got := bindingsOf(a)
		switch {
		case !known:
			report(Undecided, "production not in the confirmed binding table (bindings found: %q): re-confirm the table in rules_c15.go", got)
		case got != want:
			report(Violated, "semantic action binds {%s}, the confirmed binding for this production is {%s}: the tree would differ from the source", got, want)
		default:
			report(Discharged, "bindings {%s}", got)
		}
	}
	var missing []string
	for sig := range grammarBindings {
		if !seen[sig] {
			missing = append(missing, sig)
		}
	}
	sort.Strings(missing)
	if len(missing) > 0 {
		sub := &R{c: r.c, rule: &Rule{ID: r.rule.ID, Props: []string{"C15"}}}
		sub.Bad("grammar.y/productions", 0, "productions of the confirmed grammar are missing: %v", missing)
		r.n += sub.n
	}
}

func runR15_2(c *Ctx, r *R) {
	dir := filepath.Join(c.Repo, "internal/lang/parser")
	gy, err1 := os.ReadFile(filepath.Join(dir, "grammar.y"))
	ggo, err2 := os.ReadFile(filepath.Join(dir, "grammar.go"))
	if err1 != nil || err2 != nil {
		r.Unk("grammar.go/regenerate", 0, "cannot read grammar files: %v %v", err1, err2)
		return
	}
	exe, _ := os.Executable()
	goyacc := filepath.Join(filepath.Dir(exe), "goyacc")
	if _, err := os.Stat(goyacc); err != nil {
		r.Unk("grammar.go/regenerate", 0, "goyacc binary not built (%s): run ./setup.sh", goyacc)
		return
	}
	tmp, err := os.MkdirTemp("", "specvet-goyacc")
	if err != nil {
		r.Unk("grammar.go/regenerate", 0, "%v", err)
		return
	}
	defer os.RemoveAll(tmp)
	os.WriteFile(filepath.Join(tmp, "grammar.y"), gy, 0o644)
	cmd := exec.Command(goyacc, "-l", "-v", "grammar.out", "-o", "grammar.go", "grammar.y")
	cmd.Dir = tmp
	out, err := cmd.CombinedOutput()
	if err != nil {
		r.Bad("grammar.go/regenerate", 0, "goyacc rejects grammar.y: %v: %s", err, strings.TrimSpace(string(out)))
		return
	}
	regen, _ := os.ReadFile(filepath.Join(tmp, "grammar.go"))
	if bytes.Equal(regen, ggo) {
		r.OK("grammar.go/regenerate", 0, "grammar.go is byte-identical to goyacc -l of grammar.y (%d bytes)", len(ggo))
	} else {
		// first differing line
		a, b := strings.Split(string(regen), "\n"), strings.Split(string(ggo), "\n")
		ln := 0
		for ln < len(a) && ln < len(b) && a[ln] == b[ln] {
			ln++
		}
		r.Bad("grammar.go/regenerate", 0, "the checked-in parser tables/actions differ from goyacc(grammar.y) at grammar.go line %d: the running parser does not implement the grammar source (hand edit or stale generation)", ln+1)
	}
	report, _ := os.ReadFile(filepath.Join(tmp, "grammar.out"))
	m := regexp.MustCompile(`(\d+) shift/reduce, (\d+) reduce/reduce conflicts reported`).FindStringSubmatch(string(report) + string(out))
	if m == nil {
		// goyacc prints the conflicts line only to stdout when there are conflicts; absent in the report means none
		m = []string{"", "0", "0"}
		if strings.Contains(string(out), "conflict") {
			m = nil
		}
	}
	if m != nil && m[1] == "0" && m[2] == "0" {
		r.OK("grammar.y/conflicts", 0, "0 shift/reduce, 0 reduce/reduce conflicts")
	} else {
		r.Bad("grammar.y/conflicts", 0, "goyacc reports conflicts (%s): some inputs are parsed by a silently chosen default", strings.TrimSpace(string(out)))
	}
}

// runeBelowPrivate: the store of int(rune) into lval.yys is reached only with the rune proved smaller than the
// parser's yyPrivate constant (the first number goyacc assigns to named tokens).
func runeBelowPrivate(c *Ctx, f *ssa.Function, cv *ssa.Convert) bool {
	pp := c.Pkg("internal/lang/parser")
	if pp == nil {
		return false
	}
	k, ok := pp.Types.Scope().Lookup("yyPrivate").(*types.Const)
	if !ok {
		return false
	}
	private, _ := constant.Int64Val(constant.ToInt(k.Val()))
	rn := cv.X
	for _, b := range f.Blocks {
		for _, ins := range b.Instrs {
			st, ok := ins.(*ssa.Store)
			if !ok || st.Val != ssa.Value(cv) {
				continue
			}
			good := false
			for _, cd := range pathConds(st.Block()) {
				for _, rel := range relsOf(cd) {
					x, y, op := rel.X, rel.Y, rel.Op
					if y == rn {
						x, y, op = y, x, swapOp(op)
					}
					if x != rn {
						continue
					}
					if kk, isK := constInt(y); isK && ((op == token.LSS && kk <= private) || (op == token.LEQ && kk < private)) {
						good = true
					}
				}
			}
			if !good {
				return false
			}
		}
	}
	return true
}

func runR15_3(c *Ctx, r *R) {
	f := r.Need("internal/lang/parser", "lexer.Lex")
	if f != nil {
		// scanner token classes handled explicitly
		classes := map[int64]string{-1: "EOF", -2: "Ident", -3: "Int", -4: "Float", -5: "Char", -6: "String", -7: "RawString", -8: "Comment"}
		labels := typeSwitchLabels(f, func(v ssa.Value) bool {
			b, ok := v.Type().Underlying().(*types.Basic)
			return ok && b.Kind() == types.Int32 // rune
		})
		for k := range producerLabels(f, func(v ssa.Value) bool {
			b, ok := v.Type().Underlying().(*types.Basic)
			return ok && b.Kind() == types.Int32
		}) {
			labels[k] = true
		}
		for _, k := range []int64{-1, -2, -3, -4, -5, -6, -7, -8} {
			key := fnKey(f) + "/class:" + classes[k]
			if labels[k] {
				r.OK(key, f.Pos(), "scanner.%s handled explicitly", classes[k])
			} else {
				r.Bad(key, f.Pos(), "scanner.%s has no arm in Lex: the default arm returns the negative class value as a token, which the yacc driver treats as end of input - the rest of the file is silently dropped", classes[k])
			}
		}
		// non-token classes record an error; returns are never a raw negative class
		n := 0
		for _, ret := range returnsOf(f) {
			if len(ret.Results) != 1 {
				continue
			}
			n++
			key := fmt.Sprintf("%s/return#%d", fnKey(f), n)
			var judge func(fn *ssa.Function, v ssa.Value, depth int) (okv bool, why string, privateBad bool)
			judge = func(fn *ssa.Function, v ssa.Value, depth int) (okv bool, why string, privateBad bool) {
				switch x := v.(type) {
				case *ssa.Const:
					if k, ok := constInt(x); ok && k >= 0 {
						okv, why = true, "constant token"
					}
				case *ssa.Call:
					if o := calleeObj(x); o != nil && strings.HasPrefix(o.Name(), "yyLexError") {
						okv, why = true, "error recorded"
					} else if h := x.Call.StaticCallee(); h != nil && h.Blocks != nil && h.Pkg == fn.Pkg && depth < 2 {
						// a helper of the lexer (lexIdent): every value it returns is judged the same way
						okv, why = true, "token computed by "+h.Name()
						any := false
						for _, hr := range returnsOf(h) {
							if len(hr.Results) != 1 {
								okv = false
								continue
							}
							any = true
							o2, _, p2 := judge(h, hr.Results[0], depth+1)
							if !o2 {
								okv = false
							}
							if p2 {
								privateBad = true
							}
						}
						if !any {
							okv = false
						}
					}
				case *ssa.Extract, *ssa.Lookup:
					// keyword token from the keyword map (values checked by R15.4)
					if isIntegerType(x.Type()) {
						okv, why = true, "keyword token"
					}
				case *ssa.UnOp:
					// lval.yys: last store in the block
					if fa, ok := x.X.(*ssa.FieldAddr); ok && fieldOf(fa).Name() == "yys" {
						// the stores to lval.yys that reach this load (backward search over the CFG)
						isYys := func(ins ssa.Instruction) (ssa.Value, bool) {
							if st, ok := ins.(*ssa.Store); ok {
								if fa2, ok := st.Addr.(*ssa.FieldAddr); ok && fieldOf(fa2).Name() == "yys" && fa2.X == fa.X {
									return st.Val, true
								}
							}
							return nil, false
						}
						var reaching []ssa.Value
						complete := true
						visited := map[*ssa.BasicBlock]bool{}
						var back func(b *ssa.BasicBlock, upto int)
						back = func(b *ssa.BasicBlock, upto int) {
							for k := upto - 1; k >= 0; k-- {
								if v, ok := isYys(b.Instrs[k]); ok {
									reaching = append(reaching, v)
									return
								}
							}
							if len(b.Preds) == 0 {
								complete = false
							}
							for _, p := range b.Preds {
								if !visited[p] {
									visited[p] = true
									back(p, len(p.Instrs))
								}
							}
						}
						back(x.Block(), instrIndex(x))
						okv = complete && len(reaching) > 0
						why = "declared token constant / keyword token / literal rune"
						for _, last := range reaching {
							good := false
							switch lv := last.(type) {
							case *ssa.Const:
								if k, ok := constInt(lv); ok && k >= 0 {
									good = true
								}
							case *ssa.Extract, *ssa.Lookup:
								good = true // keyword token from the keyword map (values checked by R15.4)
							case *ssa.Convert:
								// int(token) in the default arm: non-negative because every negative class has its own arm
								good = true
								for _, k := range []int64{-1, -2, -3, -4, -5, -6, -7, -8} {
									if !labels[k] {
										good = false
									}
								}
								// ... and below the range goyacc numbers the grammar's named tokens from (yyPrivate,
								// U+E000): a private-use rune in the source would otherwise be taken for IDENT, INTEGER,
								// STRING or a keyword, carrying the previous token's value (D19)
								if !runeBelowPrivate(c, fn, lv) {
									good = false
									privateBad = true
								}
							}
							if !good {
								okv = false
							}
						}
					}
				}
				return
			}
			okv, why, privateBad := judge(f, ret.Results[0], 0)
			switch {
			case okv:
				r.OK(key, ret.Pos(), "%s", why)
			case privateBad:
				r.Bad(key, ret.Pos(), "Lex returns a scanned rune as its own token number without excluding the range in which goyacc numbers the named tokens (>= yyPrivate, U+E000): a private-use rune in the source is parsed as IDENT / INTEGER / STRING / a keyword with the previous token's value - text outside the grammar yields a tree instead of an error")
			default:
				r.Bad(key, ret.Pos(), "Lex can return a value that is neither a declared token, a literal rune nor a recorded error")
			}
		}
		// integer parsing
		e := newBE(c)
		found := false
		for _, call := range callsIn(f, false) {
			o := calleeObj(call)
			if o == nil || o.Pkg() == nil || o.Pkg().Path() != "strconv" {
				continue
			}
			found = true
			key := fnKey(f) + "/integer-literal"
			cv := call.(*ssa.Call)
			errv := extractOf(cv, 1)
			val := extractOf(cv, 0)
			bad := ""
			if errv == nil {
				bad = "the error of " + o.Name() + " is discarded: an out-of-range or malformed literal becomes 0"
			} else if val != nil {
				for _, u := range users(val) {
					if _, isDbg := u.(*ssa.DebugRef); isDbg {
						continue
					}
					guarded := false
					for _, cd := range pathConds(u.Block()) {
						for _, rel := range relsOf(cd) {
							if rel.Op == token.EQL && ((rel.X == ssa.Value(errv) && isNilConst(rel.Y)) || (rel.Y == ssa.Value(errv) && isNilConst(rel.X))) {
								guarded = true
							}
						}
					}
					if !guarded {
						bad = "the parsed value is used where the parse error has not been excluded"
					}
					if conv, ok := u.(*ssa.Convert); ok {
						lo, hi := e.interval(conv.X, 0)
						tlo, thi, _ := typeRange(conv.Type())
						if lo == nil || tlo == nil || lo.Cmp(tlo) < 0 || hi.Cmp(thi) > 0 {
							bad = fmt.Sprintf("the literal is converted %s -> %s, which can wrap: a literal above the target range silently becomes another number", conv.X.Type(), conv.Type())
						}
					}
				}
				// base 10
				if len(cv.Call.Args) >= 2 {
					if k, ok := constInt(cv.Call.Args[1]); !ok || k != 10 {
						bad = "integer literals must be parsed in base 10"
					}
				}
			}
			if bad == "" {
				r.OK(key, cv.Pos(), "%s with checked error, value-preserving conversion", o.Name())
			} else {
				r.Bad(key, cv.Pos(), "%s", bad)
			}
		}
		if !found {
			r.Unk(fnKey(f)+"/integer-literal", f.Pos(), "anchor lost: no strconv call")
		}
	}
	// scanner error hook
	if g := r.Need("internal/lang/parser", "newLexer"); g != nil {
		hook := false
		allInstrs(g, func(i ssa.Instruction) {
			if st, ok := i.(*ssa.Store); ok {
				if fa, ok := st.Addr.(*ssa.FieldAddr); ok && fieldOf(fa).Name() == "Error" && typeIs(fa.X.Type(), "text/scanner", "Scanner") {
					if mc, ok := st.Val.(*ssa.MakeClosure); ok {
						if cf, ok := mc.Fn.(*ssa.Function); ok {
							for _, c2 := range callsIn(cf, false) {
								if o := calleeObj(c2); o != nil && objName(o) == "lexer.Error" {
									hook = true
								}
							}
						}
					}
				}
			}
		})
		r.Check(hook, fnKey(g)+"/scanner-error-hook", g.Pos(), "scanner errors are routed into the lexer's error", "the scanner's Error hook is not installed: lexical errors (unterminated comment/string, bad escape) are printed to stderr and the parse succeeds")
	}
	// parse(): file only behind err == nil and file != nil
	if g := r.Need("internal/lang/parser", "parser.parse"); g != nil {
		n := 0
		for _, ret := range returnsOf(g) {
			if len(ret.Results) != 2 || isNilConst(ret.Results[0]) {
				continue
			}
			n++
			key := fmt.Sprintf("%s/return-file#%d", fnKey(g), n)
			errChecked, fileChecked := false, false
			for _, cd := range pathConds(ret.Block()) {
				for _, rel := range relsOf(cd) {
					x, y := rel.X, rel.Y
					if isNilConst(x) {
						x, y = y, x
					}
					if !isNilConst(y) {
						continue
					}
					src := valueSource(x)
					if rel.Op == token.EQL && strings.HasSuffix(src, ".err") {
						errChecked = true
					}
					if rel.Op == token.NEQ && (strings.HasSuffix(src, ".file") || x == ret.Results[0]) {
						fileChecked = true
					}
				}
			}
			switch {
			case !errChecked:
				r.Bad(key, ret.Pos(), "parse() returns a file on a path where the lexer's recorded error was not checked: a lexical or syntax error is ignored and a tree that differs from the source is returned")
			case !fileChecked:
				r.Bad(key, ret.Pos(), "parse() dereferences/returns the result without checking it is non-nil")
			default:
				r.OK(key, ret.Pos(), "file returned only when no error was recorded and a tree was produced")
			}
		}
		if n == 0 {
			r.Unk(fnKey(g)+"/return-file", g.Pos(), "no file-returning path")
		}
	}
}

func runR15_4(c *Ctx, r *R) {
	g, err := parseYacc(filepath.Join(c.Repo, "internal/lang/parser/grammar.y"))
	if err != nil {
		r.Unk("grammar.y/keywords", 0, "%v", err)
		return
	}
	// keyword map from the package initialiser: MapUpdate instructions on the global `keywords`
	sp := c.SPkg("internal/lang/parser")
	p := c.Pkg("internal/lang/parser")
	if sp == nil || p == nil {
		return
	}
	tokName := map[int64]string{}
	for _, n := range p.Types.Scope().Names() {
		if k, ok := p.Types.Scope().Lookup(n).(*types.Const); ok && n == strings.ToUpper(n) {
			if v, ok := constIntVal(k); ok {
				tokName[v] = n
			}
		}
	}
	kw := map[string]string{}
	if init := sp.Func("init"); init != nil {
		allInstrs(init, func(i ssa.Instruction) {
			if mu, ok := i.(*ssa.MapUpdate); ok {
				if k, ok := mu.Key.(*ssa.Const); ok && k.Value != nil && k.Value.Kind() == constant.String {
					if v, ok := constInt(mu.Value); ok {
						kw[constant.StringVal(k.Value)] = tokName[v]
					}
				}
			}
		})
	}
	inKeywordRule := map[string]bool{}
	for _, a := range g.Alts {
		if a.LHS == "keyword" && len(a.RHS) == 1 {
			inKeywordRule[a.RHS[0]] = true
		}
	}
	reserved := map[string]bool{"ENUM": true, "ONEWAY": true}
	declared := map[string]bool{}
	for t := range g.Tokens {
		if t != "IDENT" && t != "INTEGER" && t != "STRING" && t != "METHOD_OUTPUT" {
			declared[t] = true
		}
	}
	for _, word := range sortedKeys(kw) {
		tok := kw[word]
		key := "keywords/" + word
		switch {
		case tok != strings.ToUpper(word):
			r.Bad(key, 0, "keyword %q maps to token %s", word, tok)
		case !declared[tok]:
			r.Bad(key, 0, "keyword %q maps to %s, which grammar.y does not declare", word, tok)
		case !inKeywordRule[tok] && !reserved[tok]:
			r.Bad(key, 0, "keyword %q is neither usable as a field/method name (keyword production) nor in the reserved table", word)
		default:
			r.OK(key, 0, "token %s; %s", tok, map[bool]string{true: "usable as a name", false: "reserved"}[inKeywordRule[tok]])
		}
	}
	for t := range declared {
		if _, ok := kw[strings.ToLower(t)]; !ok {
			r.Bad("keywords/"+strings.ToLower(t), 0, "grammar.y declares keyword token %s but the lexer's keyword map has no %q: the word is lexed as an identifier", t, strings.ToLower(t))
		}
	}
}
