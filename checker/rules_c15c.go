package main

import (
	"fmt"
	"go/constant"
	"go/token"
	"go/types"
	"sort"

	"golang.org/x/tools/go/ssa"
)

// R15.7: the builtin type names. The grammar turns an unqualified type identifier into a kind with syntax.GetKind:
// a builtin name gives that builtin's kind, everything else is a reference to a declared type. GetKind and
// Kind.String are siblings - one maps names to kinds, the other kinds to names - and must agree on the builtin
// (non element-based) kinds KindAny .. KindAnyMessage:
//
//	GetKind(name) == K        iff   K in [KindAny, KindAnyMessage] and K.String() == name
//	GetKind(anything else) == KindReference
//
// Both functions are read as finite tables from their code: GetKind as a chain of comparisons of ITS PARAMETER with
// string constants, each leading to a constant return (switch), or as a lookup with its parameter in a package-level
// map whose only writer is a literal of constants in the package initialiser; Kind.String as a switch over the
// receiver. A name transformed before the lookup (lower-casing), a missing or additional entry (an element-based
// kind such as "list" reachable by name) or a different fallback are reported. A table built at run time from
// something else is not readable this way and is reported as undecided.
func init() {
	register(&Rule{ID: "R15.7", Props: []string{"C15", "C05", "C14"}, Floor: 18,
		Doc: "syntax.GetKind maps exactly the builtin type names - the names Kind.String gives the non element-based kinds - to their kinds, compares its parameter unchanged, and returns KindReference for every other name",
		Run: runR15_7})
}

func runR15_7(c *Ctx, r *R) {
	get := r.Need("internal/lang/syntax", "GetKind")
	str := r.Need("internal/lang/syntax", "Kind.String")
	if get == nil || str == nil {
		return
	}
	pkg := c.Pkg("internal/lang/syntax")
	kconst := func(name string) (int64, bool) {
		k, ok := pkg.Types.Scope().Lookup(name).(*types.Const)
		if !ok {
			return 0, false
		}
		return constant.Int64Val(constant.ToInt(k.Val()))
	}
	kname := map[int64]string{}
	for _, n := range pkg.Types.Scope().Names() {
		if k, ok := pkg.Types.Scope().Lookup(n).(*types.Const); ok && typeIs(k.Type(), pkgPath("internal/lang/syntax"), "Kind") {
			v, _ := constant.Int64Val(constant.ToInt(k.Val()))
			kname[v] = n
		}
	}
	lo, ok1 := kconst("KindAny")
	hi, ok2 := kconst("KindAnyMessage")
	ref, ok3 := kconst("KindReference")
	if !ok1 || !ok2 || !ok3 {
		r.Unk(fnKey(get)+"/kinds", get.Pos(), "anchor lost: KindAny / KindAnyMessage / KindReference not found")
		return
	}
	// Kind.String as a table kind -> name
	names := map[int64]string{}
	{
		recv := ssa.Value(str.Params[0])
		for _, b := range str.Blocks {
			iff, ok := b.Instrs[len(b.Instrs)-1].(*ssa.If)
			if !ok {
				continue
			}
			cmp, ok := iff.Cond.(*ssa.BinOp)
			if !ok || cmp.Op != token.EQL || cmp.X != recv {
				continue
			}
			k, isK := constInt(cmp.Y)
			if !isK {
				continue
			}
			if s, ok := constStringReturn(b.Succs[0]); ok {
				names[k] = s
			}
		}
	}
	want := map[string]int64{}
	for k := lo; k <= hi; k++ {
		if s, ok := names[k]; ok {
			want[s] = k
		}
	}
	if int64(len(want)) != hi-lo+1 {
		r.Unk(fnKey(str)+"/table", str.Pos(), "Kind.String could not be read as a table for the %d builtin kinds (found %d)", hi-lo+1, len(want))
		return
	}
	// GetKind as a table name -> kind
	got := map[string]int64{}
	fallback, haveFallback := int64(0), false
	shape := ""
	param := ssa.Value(get.Params[0])
	b := get.Blocks[0]
	for steps := 0; steps < 200; steps++ {
		last := b.Instrs[len(b.Instrs)-1]
		if iff, ok := last.(*ssa.If); ok {
			cmp, ok := iff.Cond.(*ssa.BinOp)
			if ok && cmp.Op == token.EQL {
				x, y := cmp.X, cmp.Y
				if _, isK := x.(*ssa.Const); isK {
					x, y = y, x
				}
				if ks, isK := y.(*ssa.Const); isK && ks.Value != nil && ks.Value.Kind() == constant.String {
					if x != param {
						shape = "the name is transformed before it is compared (" + x.String() + "): a declared type whose name differs from a builtin name only by that transformation is taken for the builtin"
						break
					}
					if k, ok := constKindReturn(b.Succs[0]); ok {
						got[constant.StringVal(ks.Value)] = k
						b = b.Succs[1]
						continue
					}
				}
			}
			// a map lookup: v, ok := table[param]
			if ex, ok := iff.Cond.(*ssa.Extract); ok && ex.Index == 1 {
				if lk, ok := ex.Tuple.(*ssa.Lookup); ok && lk.CommaOk {
					if lk.Index != param {
						shape = "the name is transformed before the lookup (" + lk.Index.String() + ")"
						break
					}
					tbl, why := constMapOf(c, lk.X)
					if why != "" {
						shape = why
						break
					}
					for k, v := range tbl {
						got[k] = v
					}
					// the true branch returns the looked-up value
					b = b.Succs[1]
					continue
				}
			}
			shape = "a branch of GetKind is neither a comparison of the parameter with a string constant nor a lookup in a constant table: " + iff.Cond.String()
			break
		}
		if _, ok := last.(*ssa.Jump); ok {
			b = b.Succs[0]
			continue
		}
		if ret, ok := last.(*ssa.Return); ok && len(ret.Results) == 1 {
			if k, isK := constInt(ret.Results[0]); isK {
				fallback, haveFallback = k, true
			} else {
				shape = "the fallback of GetKind is not a constant kind"
			}
		}
		break
	}
	if shape != "" {
		if len(got) == 0 && !haveFallback && !contains(shape, "transformed") {
			r.Unk(fnKey(get)+"/table", get.Pos(), "GetKind could not be read as a table: %s", shape)
		} else {
			r.Bad(fnKey(get)+"/table", get.Pos(), "%s", shape)
		}
		return
	}
	var keys []string
	for s := range want {
		keys = append(keys, s)
	}
	for s := range got {
		if _, ok := want[s]; !ok {
			keys = append(keys, s)
		}
	}
	sort.Strings(keys)
	for _, s := range keys {
		key := fmt.Sprintf("%s/name:%s", fnKey(get), s)
		w, inW := want[s]
		g, inG := got[s]
		switch {
		case inW && !inG:
			r.Bad(key, get.Pos(), "the builtin type name %q is not recognised: `f %s 1` is recorded as a reference to a declared type %s instead of the builtin", s, s, s)
		case !inW && inG:
			r.Bad(key, get.Pos(), "%q is not a builtin type name but GetKind maps it to %s: a reference to a declared type of that name is recorded as that kind (for an element-based kind: without an element)", s, kname[g])
		case w != g:
			r.Bad(key, get.Pos(), "the builtin type name %q is recorded as %s, Kind.String names %s so", s, kname[g], kname[w])
		default:
			r.OK(key, get.Pos(), "%q <-> %s in both directions", s, kname[w])
		}
	}
	key := fnKey(get) + "/fallback"
	if haveFallback && fallback == ref {
		r.OK(key, get.Pos(), "every other name is a reference")
	} else {
		r.Bad(key, get.Pos(), "a name that is not a builtin is not recorded as KindReference")
	}
}

func contains(s, sub string) bool {
	for i := 0; i+len(sub) <= len(s); i++ {
		if s[i:i+len(sub)] == sub {
			return true
		}
	}
	return false
}

// constStringReturn / constKindReturn: block b (through jumps) returns a single constant.
func constStringReturn(b *ssa.BasicBlock) (string, bool) {
	for i := 0; i < 5; i++ {
		switch x := b.Instrs[len(b.Instrs)-1].(type) {
		case *ssa.Jump:
			b = b.Succs[0]
		case *ssa.Return:
			if len(x.Results) == 1 {
				if k, ok := x.Results[0].(*ssa.Const); ok && k.Value != nil && k.Value.Kind() == constant.String {
					return constant.StringVal(k.Value), true
				}
			}
			return "", false
		default:
			return "", false
		}
	}
	return "", false
}

func constKindReturn(b *ssa.BasicBlock) (int64, bool) {
	for i := 0; i < 5; i++ {
		switch x := b.Instrs[len(b.Instrs)-1].(type) {
		case *ssa.Jump:
			b = b.Succs[0]
		case *ssa.Return:
			if len(x.Results) == 1 {
				return constInt(x.Results[0])
			}
			return 0, false
		default:
			return 0, false
		}
	}
	return 0, false
}

// constMapOf: m is a load of a package-level map variable whose only writes are, in the package initialiser, the
// store of one map built there and updates of that map with constant keys and values.
func constMapOf(c *Ctx, m ssa.Value) (map[string]int64, string) {
	ld, ok := m.(*ssa.UnOp)
	if !ok || ld.Op != token.MUL {
		return nil, "the looked-up table is not a package-level variable"
	}
	g, ok := ld.X.(*ssa.Global)
	if !ok || g.Pkg == nil {
		return nil, "the looked-up table is not a package-level variable"
	}
	out := map[string]int64{}
	var mk ssa.Value
	why := ""
	for _, mem := range g.Pkg.Members {
		fn, ok := mem.(*ssa.Function)
		if !ok {
			continue
		}
		withAnon(fn, func(h *ssa.Function) {
			allInstrs(h, func(i ssa.Instruction) {
				if st, ok := i.(*ssa.Store); ok && st.Addr == ssa.Value(g) {
					if h.Name() != "init" || mk != nil {
						why = "the table variable is assigned outside the package initialiser"
						return
					}
					mk = st.Val
				}
			})
		})
	}
	if why != "" {
		return nil, why
	}
	if _, ok := mk.(*ssa.MakeMap); !ok {
		return nil, "the table is not a map literal of constants (it is built at run time): its content cannot be read from the source"
	}
	for _, u := range users(mk) {
		switch x := u.(type) {
		case *ssa.MapUpdate:
			ks, ok1 := x.Key.(*ssa.Const)
			kv, ok2 := constInt(x.Value)
			if !ok1 || !ok2 || ks.Value == nil || ks.Value.Kind() != constant.String {
				return nil, "the table is filled with non-constant entries"
			}
			out[constant.StringVal(ks.Value)] = kv
		case *ssa.Store, *ssa.DebugRef:
		default:
			return nil, "the table escapes in the package initialiser"
		}
	}
	// updates through the variable elsewhere
	bad := false
	for _, mem := range g.Pkg.Members {
		fn, ok := mem.(*ssa.Function)
		if !ok {
			continue
		}
		withAnon(fn, func(h *ssa.Function) {
			allInstrs(h, func(i ssa.Instruction) {
				if mu, ok := i.(*ssa.MapUpdate); ok {
					if l, ok := mu.Map.(*ssa.UnOp); ok && l.X == ssa.Value(g) {
						bad = true
					}
				}
			})
		})
	}
	if bad {
		return nil, "the table is updated after initialisation"
	}
	return out, ""
}
