package main

import (
	"fmt"

	"golang.org/x/tools/go/ssa"
)

// R14.12: no error of the compiler pipeline is dropped. "Invalid schemas are rejected cleanly" and "the output always
// compiles" both rest on every stage reporting its failure: the parser's error, a model validation error, the failure
// of go/format to parse the text the generator produced (the last line of defence against non-Go output), the failure
// to write the file. Every call in internal/lang/{parser,model,compiler,generator} and cmd/spec whose result carries an
// error must use it (test, return, store, pass on) or be in the reviewed table.

func init() {
	register(&Rule{ID: "R14.12", Props: []string{"C14"}, Floor: 100,
		Doc: "error discipline of the compiler pipeline: every error returned by a call in internal/lang/* and cmd/spec is used or reviewed",
		Run: runR14_12})
}

var r14Dropped = map[string]string{}

func runR14_12(c *Ctx, r *R) {
	n := 0
	for _, rel := range []string{"internal/lang", "internal/lang/parser", "internal/lang/model", "internal/lang/compiler", "internal/lang/generator", "internal/lang/syntax", "cmd/spec"} {
		for _, fn := range c.SrcFuncs(rel) {
			if c.Fset.Position(fn.Pos()).Filename != "" && baseName(c.Fset.Position(fn.Pos()).Filename) == "grammar.go" {
				continue // goyacc output (R15.2)
			}
			cnt := map[string]int{}
			for _, call := range callsIn(fn, false) {
				cc := call.Common()
				sig := cc.Signature()
				if sig == nil || sig.Results().Len() == 0 {
					continue
				}
				idx := -1
				for i := 0; i < sig.Results().Len(); i++ {
					if isErrorType(sig.Results().At(i).Type()) {
						idx = i
					}
				}
				if idx < 0 {
					continue
				}
				lbl := calleeLabel(call)
				if lbl == "" {
					lbl = "dynamic"
				}
				cnt[lbl]++
				key := fmt.Sprintf("%s/%s#%d", fnKey(fn), lbl, cnt[lbl])
				used := false
				if x, ok := call.(*ssa.Call); ok {
					var v ssa.Value = x
					if sig.Results().Len() > 1 {
						if ex := extractOf(x, idx); ex != nil {
							v = ex
						} else {
							v = nil
						}
					}
					if v != nil {
						for _, u := range users(v) {
							if _, isDbg := u.(*ssa.DebugRef); !isDbg {
								used = true
							}
						}
					}
				}
				n++
				// an error that is looked at must also be acted on: no successful return on a path where it is non-nil
				if x, ok := call.(*ssa.Call); ok && used {
					var ev ssa.Value = x
					if sig.Results().Len() > 1 {
						ev = extractOf(x, idx)
					}
					if ev != nil && onlyTested(ev) {
						if pos, sw := errorSwallowed(fn, x, ev); sw {
							if why := r14Dropped[key]; why != "" {
								r.OK(key, call.Pos(), "reviewed: %s", why)
							} else {
								r.Bad(key, call.Pos(), "the error returned by %s is tested but not acted on: %s returns a nil error at %s on a path where that error is non-nil - the failing stage goes unnoticed and the run reports success (for format.Source: output that is not Go is written out)", lbl, fn.Name(), c.pos(pos))
							}
							continue
						}
					}
				}
				switch {
				case used:
					r.OK(key, call.Pos(), "error of %s is used", lbl)
				case r14Dropped[key] != "":
					r.OK(key, call.Pos(), "reviewed: %s", r14Dropped[key])
				case isFmtPrint(call):
					r.OK(key, call.Pos(), "console output")
				case alwaysNilError(cc.StaticCallee(), idx):
					r.OK(key, call.Pos(), "%s returns a nil error on every path: nothing to drop", lbl)
				case isDeferredFileClose(call):
					r.OK(key, call.Pos(), "deferred Close of an *os.File: the data was read, or written and Sync'ed with the error returned, before it runs")
				default:
					r.Bad(key, call.Pos(), "the error returned by %s is dropped: a failing stage of the compiler pipeline goes unnoticed and the run reports success", lbl)
				}
			}
		}
	}
	r.Note("%d error-returning call sites in the compiler pipeline", n)
}

// isFmtPrint: fmt.Print*/Fprint* to the console / a strings.Builder, whose error is conventionally ignored.
func isFmtPrint(call ssa.CallInstruction) bool {
	o := calleeObj(call)
	if o == nil || o.Pkg() == nil {
		return false
	}
	if o.Pkg().Path() == "fmt" {
		switch o.Name() {
		case "Print", "Printf", "Println", "Fprint", "Fprintf", "Fprintln":
			return true
		}
	}
	// (*strings.Builder) / (*bytes.Buffer) writes never fail
	if o.Pkg().Path() == "strings" || o.Pkg().Path() == "bytes" {
		switch o.Name() {
		case "WriteString", "WriteByte", "WriteRune", "Write":
			return true
		}
	}
	return false
}

// alwaysNilError: every return of fn yields the nil constant as result idx.
func alwaysNilError(fn *ssa.Function, idx int) bool {
	if fn == nil || fn.Blocks == nil {
		return false
	}
	rets := returnsOf(fn)
	if len(rets) == 0 {
		return false
	}
	for _, ret := range rets {
		if idx >= len(ret.Results) || !isNilConst(unspill(ret.Results[idx])) {
			return false
		}
	}
	return true
}

// isDeferredFileClose: `defer f.Close()` on an *os.File; in a function that also writes the file, only if the
// function's successful return goes through f.Sync() (whose error is returned).
func isDeferredFileClose(call ssa.CallInstruction) bool {
	d, ok := call.(*ssa.Defer)
	if !ok {
		return false
	}
	o := calleeObj(d)
	if o == nil || o.Name() != "Close" || o.Pkg() == nil || o.Pkg().Path() != "os" {
		return false
	}
	fn := d.Parent()
	writes, syncs := false, false
	for _, c2 := range callsIn(fn, false) {
		if o2 := calleeObj(c2); o2 != nil && o2.Pkg() != nil && o2.Pkg().Path() == "os" {
			switch o2.Name() {
			case "Write", "WriteString", "WriteAt":
				writes = true
			case "Sync":
				syncs = true
			}
		}
	}
	return !writes || syncs
}

// onlyTested: every use of the error value is a comparison with nil (it is never returned, wrapped, stored or passed on).
func onlyTested(e ssa.Value) bool {
	for _, u := range users(e) {
		switch x := u.(type) {
		case *ssa.DebugRef:
		case *ssa.BinOp:
			if !(isNilConst(x.X) || isNilConst(x.Y)) {
				return false
			}
		default:
			return false
		}
	}
	return true
}
