package main

import (
	"go/token"

	"golang.org/x/tools/go/ssa"
)

// funcTableTargets: the functions a dynamic call can reach when the called value is read from a package-level
// array / slice / map of functions that only the package initialiser fills, with function values (method
// expressions included): `endTop = endFuncs[entry.type_]; ...; endTop(w)`. nil entries and a nil initial value
// merged in by a phi are skipped (calling nil panics before anything else happens; the nil test is the caller's).
func funcTableTargets(v ssa.Value) []*ssa.Function {
	seen := map[ssa.Value]bool{}
	var out []*ssa.Function
	bad := false
	var walk func(v ssa.Value)
	walk = func(v ssa.Value) {
		if seen[v] || bad {
			return
		}
		seen[v] = true
		switch x := v.(type) {
		case *ssa.Phi:
			for _, e := range x.Edges {
				walk(e)
			}
		case *ssa.Const:
			if !x.IsNil() {
				bad = true
			}
		case *ssa.UnOp:
			if x.Op != token.MUL {
				bad = true
				return
			}
			if al, ok := x.X.(*ssa.Alloc); ok {
				// a local variable holding the looked-up function
				for _, u := range users(al) {
					if st, ok := u.(*ssa.Store); ok && st.Addr == ssa.Value(al) {
						walk(st.Val)
					}
				}
				return
			}
			ia, ok := x.X.(*ssa.IndexAddr)
			if !ok {
				bad = true
				return
			}
			g, ok := ia.X.(*ssa.Global)
			if !ok || g.Pkg == nil {
				bad = true
				return
			}
			fs, ok := globalFuncTable(g)
			if !ok {
				bad = true
				return
			}
			out = append(out, fs...)
		case *ssa.Lookup:
			ld, ok := x.X.(*ssa.UnOp)
			if !ok {
				bad = true
				return
			}
			g, ok := ld.X.(*ssa.Global)
			if !ok {
				bad = true
				return
			}
			fs, ok := globalFuncTable(g)
			if !ok {
				bad = true
				return
			}
			out = append(out, fs...)
		case *ssa.Extract:
			walk(x.Tuple)
		default:
			bad = true
		}
	}
	walk(v)
	if bad || len(out) == 0 {
		return nil
	}
	return out
}

var funcTableMemo = map[*ssa.Global][]*ssa.Function{}
var funcTableBad = map[*ssa.Global]bool{}

// globalFuncTable: the function values stored into the elements of package-level table g; ok is false when g is
// written outside the package initialiser or with something that is not a function value.
func globalFuncTable(g *ssa.Global) ([]*ssa.Function, bool) {
	if fs, ok := funcTableMemo[g]; ok {
		return fs, true
	}
	if funcTableBad[g] {
		return nil, false
	}
	var fs []*ssa.Function
	ok := true
	resolve := func(v ssa.Value) *ssa.Function {
		switch x := v.(type) {
		case *ssa.Function:
			return x
		case *ssa.MakeClosure:
			f, _ := x.Fn.(*ssa.Function)
			return f
		case *ssa.ChangeType:
			if f, isF := x.X.(*ssa.Function); isF {
				return f
			}
		}
		return nil
	}
	for _, mem := range g.Pkg.Members {
		fn, isFn := mem.(*ssa.Function)
		if !isFn {
			continue
		}
		withAnon(fn, func(h *ssa.Function) {
			allInstrs(h, func(i ssa.Instruction) {
				switch x := i.(type) {
				case *ssa.Store:
					base := x.Addr
					if ia, isIA := base.(*ssa.IndexAddr); isIA {
						base = ia.X
					}
					if base != ssa.Value(g) {
						return
					}
					if h.Name() != "init" {
						ok = false
						return
					}
					if f := resolve(x.Val); f != nil {
						fs = append(fs, f)
					} else if ld, isLd := x.Val.(*ssa.UnOp); isLd && ld.Op == token.MUL {
						// the literal is built in a temporary and stored whole: its element stores
						tmp, isAl := ld.X.(*ssa.Alloc)
						if !isAl {
							ok = false
							return
						}
						for _, u := range users(tmp) {
							ia, isIA := u.(*ssa.IndexAddr)
							if !isIA {
								continue
							}
							for _, u2 := range users(ia) {
								if st2, isSt := u2.(*ssa.Store); isSt && st2.Addr == ssa.Value(ia) {
									if f := resolve(st2.Val); f != nil {
										fs = append(fs, f)
									} else if c, isC := st2.Val.(*ssa.Const); !isC || !c.IsNil() {
										ok = false
									}
								}
							}
						}
					} else if c, isC := x.Val.(*ssa.Const); !isC || !c.IsNil() {
						ok = false
					}
				case *ssa.MapUpdate:
					if ld, isLd := x.Map.(*ssa.UnOp); isLd && ld.X == ssa.Value(g) {
						ok = false
					}
				}
			})
		})
	}
	// thunks of method expressions: the method behind
	for i, f := range fs {
		if f.Synthetic != "" {
			for _, c2 := range callsIn(f, false) {
				if m := c2.Common().StaticCallee(); m != nil && m.Blocks != nil {
					fs[i] = m
				}
			}
		}
	}
	if !ok || len(fs) == 0 {
		funcTableBad[g] = true
		return nil, false
	}
	funcTableMemo[g] = fs
	return fs, true
}
