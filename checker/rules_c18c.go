package main

import (
	"fmt"

	"golang.org/x/tools/go/ssa"
)

// R18.5: ownership flags change hands only at the ends of a lifetime. writerState.releaseState / releaseWriter say
// whether close() gives the state / the writer back to its pool. They describe who owns the object for its whole use:
// set by the constructor that took the object from the pool (or allocated it), cleared by the function that puts it
// back. A store anywhere in between - an init/reset that "tidies" them - either leaks the object (cleared: a pooled
// writer that was Reset never returns to the pool and every message allocates a new one) or makes close() put a
// user-owned object into the pool (set).

func init() {
	register(&Rule{ID: "R18.5", Props: []string{"C18", "C17"}, Floor: 4,
		Doc: "the pool-ownership flags of the writer state are set only in constructors (pool New / allocation) and cleared only in the function that Puts the state into its pool",
		Run: runR18_5})
}

func runR18_5(c *Ctx, r *R) {
	n := 0
	for _, fn := range c.SrcFuncs(writerPkg) {
		k := 0
		allInstrs(fn, func(i ssa.Instruction) {
			st, ok := i.(*ssa.Store)
			if !ok {
				return
			}
			fa, ok := st.Addr.(*ssa.FieldAddr)
			if !ok {
				return
			}
			name := fieldOf(fa).Name()
			if name != "releaseState" && name != "releaseWriter" {
				return
			}
			k++
			n++
			key := fmt.Sprintf("%s/%s=#%d", fnKey(fn), name, k)
			isFalse := false
			if kc, ok := st.Val.(*ssa.Const); ok && kc.Value != nil && kc.Value.String() == "false" {
				isFalse = true
			}
			hasPut, hasNew := false, false
			for _, call := range callsIn(fn, false) {
				cc := call.Common()
				if isPoolPut(cc) && reachesInstr(st, call.(ssa.Instruction)) {
					hasPut = true
				}
				if cc.IsInvoke() && cc.Method.Name() == "New" && typeIs(cc.Value.Type(), poolsPath, "Pool") && reachesInstr(call.(ssa.Instruction), st) {
					hasNew = true
				}
			}
			allInstrs(fn, func(j ssa.Instruction) {
				if al, ok := j.(*ssa.Alloc); ok && al.Heap && reachesInstr(al, st) {
					if typeIs(al.Type(), pkgPath(writerPkg), "writer") || typeIs(al.Type(), pkgPath(writerPkg), "writerState") {
						hasNew = true
					}
				}
			})
			switch {
			case isFalse && hasPut:
				r.OK(key, st.Pos(), "cleared where the object is put back into its pool")
			case isFalse:
				r.Bad(key, st.Pos(), "%s is cleared in %s, which does not put the object into its pool: an acquired (pooled) writer that passes through here is never released by close() - every further message allocates a new writer and state, and the pool drains", name, fn.Name())
			case hasNew:
				r.OK(key, st.Pos(), "set by the constructor that obtained the object")
			default:
				r.Bad(key, st.Pos(), "%s is set in %s, which did not take the object from the pool or allocate it: close() would put an object the user still owns into the pool", name, fn.Name())
			}
		})
	}
	if n == 0 {
		r.Unk(writerPkg+"/release-flags", 0, "anchor lost: no store to releaseState / releaseWriter found")
	}
}
