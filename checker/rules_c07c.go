package main

import (
	"fmt"
	"sort"
	"strings"

	"golang.org/x/tools/go/ssa"
)

// R07.7: consumed bytes are counted where they are consumed, once. The receiver's counter recvBytes is what it
// acknowledges to the sender as window credit. It may be advanced only by the function that hands a message to the
// user (channel.ReceiveAsync: +size when the message leaves the queue, -recv when the credit is sent) or by helpers
// called from nowhere else. A second place that credits it - when a frame arrives, when the channel is opened with a
// payload - acknowledges the same bytes twice: the sender's window grows beyond what was negotiated and the bound on
// unacknowledged data no longer holds.

func init() {
	register(&Rule{ID: "R07.7", Props: []string{"C07"}, Floor: 2,
		Doc: "recvBytes (the consumed-bytes counter acknowledged as window credit) is modified only in channel.ReceiveAsync or in helpers reachable from nowhere else",
		Run: runR07_7})
}

func runR07_7(c *Ctx, r *R) {
	home := c.Func("mpx", "channel.ReceiveAsync")
	if home == nil {
		r.Unk("mpx.channel.ReceiveAsync", 0, "anchor lost: function not found")
		return
	}
	// callers (static) inside the package
	callers := map[*ssa.Function]map[*ssa.Function]bool{}
	escapes := map[*ssa.Function]bool{}
	fns := c.SrcFuncs("mpx")
	for _, f := range fns {
		allInstrs(f, func(i ssa.Instruction) {
			var callee *ssa.Function
			if ci, ok := i.(ssa.CallInstruction); ok {
				callee = ci.Common().StaticCallee()
				if callee != nil {
					if callers[callee] == nil {
						callers[callee] = map[*ssa.Function]bool{}
					}
					callers[callee][f] = true
					if _, isCall := i.(*ssa.Call); !isCall {
						escapes[callee] = true
					}
				}
			}
			for _, op := range i.Operands(nil) {
				if fv, ok := (*op).(*ssa.Function); ok && fv != callee {
					escapes[fv] = true
				}
			}
		})
	}
	var onlyFromHome func(f *ssa.Function, seen map[*ssa.Function]bool) bool
	onlyFromHome = func(f *ssa.Function, seen map[*ssa.Function]bool) bool {
		if f == home {
			return true
		}
		if seen[f] || escapes[f] || len(callers[f]) == 0 || (f.Object() != nil && f.Object().Exported()) {
			return false
		}
		seen[f] = true
		for g := range callers[f] {
			if !onlyFromHome(g, seen) {
				return false
			}
		}
		return true
	}
	n := 0
	for _, f := range fns {
		pos := c.Fset.Position(f.Pos())
		if strings.HasPrefix(baseName(pos.Filename), "test_") {
			continue
		}
		k := 0
		for _, call := range callsIn(f, false) {
			lbl := calleeLabel(call)
			if !strings.HasPrefix(lbl, "recvBytes.") {
				continue
			}
			m := strings.TrimPrefix(lbl, "recvBytes.")
			if m == "Load" {
				continue
			}
			k++
			n++
			key := fmt.Sprintf("%s/recvBytes.%s#%d", fnKey(f), m, k)
			if onlyFromHome(f, map[*ssa.Function]bool{}) {
				r.OK(key, call.Pos(), "the consumed-bytes counter is modified where messages are handed to the user")
			} else {
				var cs []string
				for g := range callers[f] {
					cs = append(cs, fnKey(g))
				}
				sort.Strings(cs)
				r.Bad(key, call.Pos(), "recvBytes is modified in %s, outside the consumption path channel.ReceiveAsync (callers: %v): bytes credited here are credited again when the user receives them - the window update acknowledges more than was consumed and the sender may exceed the negotiated window", fnKey(f), cs)
			}
		}
	}
	if n == 0 {
		r.Unk("mpx/recvBytes-writers", 0, "anchor lost: no modification of recvBytes found")
	}
}
