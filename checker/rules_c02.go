package main

import (
	"fmt"
	"go/token"
	"go/types"
	"os"
	"regexp"
	"sort"
	"strings"

	"golang.org/x/tools/go/ssa"
)

func init() {
	props["C02"] = &propInfo{Level: "other", Explanation: "Obligation system for the read cone (every function reachable inside the module from the public read API: spec.Parse*/Open*/Decode*, all methods of types.Value/List/Message, format.MessageTable/ListTable, spec.MessageList/ValueList, and the read side of the checked-in generated packages proto/pmpx and proto/prpc; Clone*/String excluded): (a) every panic-capable SSA instruction - slice, index, load through unsafe pointer arithmetic, make, non-constant division, unchecked type assertion, explicit panic - is proved safe for every input; (b) every Decode*/Parse*/Open* satisfies err == nil => 0 <= n <= len(input) (signature convention) plus the explicit contracts (table decoders: data size + table size <= n; decodeXData: len(result) == size <= len(b)); (c) the type invariant int(table.data) <= len(bytes) of types.List/Message is proved at every construction and assumed at every use; (d) byte-slice/string results are no longer than the input. Discharged by a modular verifier: linear-integer facts from dominating branch conditions, callee postconditions (activated by err == nil on the path), case splitting over non-loop phis, Houdini loop invariants, Fourier-Motzkin entailment with integer tightening. R13.1 (varint count >= 1) is part of the same claim. Not covered: struct decoders emitted by the generator for arbitrary schemas (their postcondition DecodeStruct: dataSize <= n <= len(b) is proved), user callbacks of the typed lists, 32-bit targets.",
		Trusted: []string{"go/ssa faithfully represents the compiled program", "lin.go Fourier-Motzkin entailment", "64-bit int; int/int64 arithmetic on sizes does not overflow (operands are lengths < 2^62, 32-bit wire quantities and small constants)", "dependency axioms printed in evidence: compactint.Reverse* n <= len(b), -1 <= n <= 9; binary.BigEndian.UintN needs N/8 bytes", "explicit contracts table in bounds2.go (each is verified against the function body, not assumed)"}}

	register(&Rule{ID: "R02.1", Props: []string{"C02", "C13", "C16"}, Floor: 150,
		Doc: "bounds engine: every panic-capable instruction of the read cone is proved safe and every size postcondition / type invariant is proved, for all inputs",
		Run: runR02_1})
}

var readRootRe = regexp.MustCompile(`^(Parse|Open|Decode|New(Message|Value)List)`)

func readCone(c *Ctx) []*ssa.Function {
	var roots []*ssa.Function
	// proto/pmpx and proto/prpc are checked-in output of the generator: their read side (Open*/Parse*/Decode* and the
	// accessors of the generated message types) is verified as an instance of what the generator emits
	for _, rel := range []string{"internal/decode", "internal/types", "internal/format", ".", "proto/pmpx", "proto/prpc"} {
		for _, f := range c.SrcFuncs(rel) {
			if f.Parent() != nil {
				continue
			}
			name := f.Name()
			if strings.HasPrefix(rel, "proto/") {
				isRead := f.Signature.Recv() == nil && readRootRe.MatchString(name) && !strings.HasPrefix(name, "New")
				if recv := f.Signature.Recv(); recv != nil {
					// accessors of generated readers: value receivers wrapping a spec.Message (not the writers)
					if st, ok := recv.Type().Underlying().(*types.Struct); ok && st.NumFields() == 1 && typeIs(st.Field(0).Type(), pkgPath("internal/types"), "Message") {
						isRead = true
					}
				}
				if !isRead {
					continue
				}
			}
			if rel == "." {
				isRead := readRootRe.MatchString(name)
				if recv := f.Signature.Recv(); recv != nil {
					if n := namedOf(recv.Type()); n != nil && (n.Obj().Name() == "MessageList" || n.Obj().Name() == "ValueList") {
						isRead = true
					}
				}
				if !isRead {
					continue
				}
			}
			if rel == "internal/format" {
				pos := c.Fset.Position(f.Pos())
				if strings.HasPrefix(baseName(pos.Filename), "test_") || strings.HasPrefix(name, "IsBig") {
					continue
				}
			}
			roots = append(roots, f)
		}
	}
	seen := map[*ssa.Function]bool{}
	var out []*ssa.Function
	var visit func(f *ssa.Function)
	visit = func(f *ssa.Function) {
		if f == nil || seen[f] || f.Blocks == nil {
			return
		}
		g := f
		if g.Origin() != nil {
			g = g.Origin()
		}
		pk := ""
		if g.Pkg != nil {
			pk = g.Pkg.Pkg.Path()
		}
		if !strings.HasPrefix(pk, Mod) {
			return
		}
		n := f.Name()
		if strings.HasPrefix(n, "Clone") || n == "String" || strings.HasPrefix(n, "CloneTo") {
			return
		}
		seen[f] = true
		out = append(out, f)
		for _, call := range callsIn(f, true) {
			if cal := c.calleeOf(call.Common()); cal != nil && !seen[cal] && os.Getenv("DBGCONE") != "" {
				fmt.Fprintf(os.Stderr, "cone: %s -> %s\n", fnKey(f), fnKey(cal))
			}
			visit(c.calleeOf(call.Common()))
		}
		for _, a := range f.AnonFuncs {
			visit(a)
		}
	}
	for _, r := range roots {
		visit(r)
	}
	sort.Slice(out, func(i, j int) bool { return fnKey(out[i]) < fnKey(out[j]) })
	return out
}

func baseName(p string) string {
	if i := strings.LastIndex(p, "/"); i >= 0 {
		return p[i+1:]
	}
	return p
}

func runR02_1(c *Ctx, outer *R) {
	// the rule is registered for C02 and C13; only the locality obligations belong to both
	r := outer // notes and the floor count go to the registered rule handle
	c02R := &R{c: c, rule: &Rule{ID: outer.rule.ID, Props: []string{"C02"}}}
	localR := &R{c: c, rule: &Rule{ID: outer.rule.ID, Props: []string{"C02", "C13"}}}
	lookupR := &R{c: c, rule: &Rule{ID: outer.rule.ID, Props: []string{"C02", "C16"}}}
	lookupFns := map[string]bool{"internal/format.messageTable.offset_small": true, "internal/format.messageTable.offset_big": true,
		"internal/format.MessageTable.Offset": true, "internal/format.MessageTable.OffsetByIndex": true,
		"internal/format.messageTable.offsetByIndex_small": true, "internal/format.messageTable.offsetByIndex_big": true}
	defer func() { r.n += localR.n + c02R.n + lookupR.n }()
	outer = c02R
	e := newBE(c)
	e.dbg = os.Getenv("DBGBE") != ""
	cone := readCone(c)
	r.Note("read cone: %d functions", len(cone))
	var module []*ssa.Function
	for _, rel := range analysedPkgs {
		module = append(module, c.SrcFuncs(rel)...)
	}
	e.inferPost(cone)
	if pre := e.inferPre(cone, module); len(pre) > 0 {
		r.Note("inferred preconditions of private helpers (proved at every call site, assumed in the body): %s", strings.Join(pre, "; "))
	}
	if pre := e.inferPreGuarded(cone, module); len(pre) > 0 {
		r.Note("inferred guarded preconditions of private helpers (proved at every call site under err == nil, assumed in the body where err == nil is established): %s", strings.Join(pre, "; "))
	}
	if post := e.inferPost(cone); len(post) > 0 {
		r.Note("inferred size postconditions of private helpers (proved at every return, assumed at the calls): %s", strings.Join(post, "; "))
	}
	kinds := map[string]int{}
	for _, fn := range cone {
		obs := e.verifyFunc(fn)
		cnt := map[string]int{}
		for _, o := range obs {
			cnt[o.Kind]++
			kinds[o.Kind]++
			key := fmt.Sprintf("%s/%s#%d", fnKey(fn), o.Kind, cnt[o.Kind])
			r := outer
			if o.Kind == "local" {
				// "the result depends only on the value's own n bytes" is also C13's locality clause
				r = localR
			}
			if lookupFns[fnKey(fn)] {
				// the tag / index lookups of the serialized tables: "a tag that is not there reads as absent, it does
				// not panic" is also what keeps old data readable under a newer schema (C16) and what every typed
				// accessor of generated code goes through (C05)
				r = lookupR
			}
			switch {
			case o.OK:
				r.OK(key, instrPos(o.At), "%s", o.Desc)
			case o.Kind == "panic" && documentedIndexPanic(o.At):
				r.OK(key, instrPos(o.At), "documented 'index out of range' panic of List.Get/GetBytes for an index outside [0,Len): guarded by start < 0 from the table lookup, unreachable for indices the caller obtained from Len()")
			default:
				r.Bad(key, instrPos(o.At), "%s: %s", o.Desc, o.Why)
			}
		}
	}
	var ks []string
	for k, n := range kinds {
		ks = append(ks, fmt.Sprintf("%s=%d", k, n))
	}
	sort.Strings(ks)
	r.Note("obligations by kind: %s; Fourier-Motzkin runs: %d", strings.Join(ks, " "), e.nFM)
}

// documentedIndexPanic: the panic is dominated by  start < 0  where start is the first result of
// format.ListTable.Offset (the "-1" sentinel for an index outside the table).
func documentedIndexPanic(at ssa.Instruction) bool {
	for _, cd := range pathConds(at.Block()) {
		for _, rel := range relsOf(cd) {
			if rel.Op != token.LSS || !isConstInt(rel.Y, 0) {
				continue
			}
			ex, ok := rel.X.(*ssa.Extract)
			if !ok || ex.Index != 0 {
				continue
			}
			if call, ok := ex.Tuple.(*ssa.Call); ok {
				if o := calleeObj(call); o != nil && objName(o) == "ListTable.Offset" {
					return true
				}
			}
		}
	}
	return false
}
