package main

import (
	"fmt"
	"go/ast"
	"go/token"
	"go/types"

	"golang.org/x/tools/go/ssa"
)

// Guarded preconditions of private helpers.
//
// A helper that receives a byte count together with the error of the decode that produced it
//
//	func parsedValue(b []byte, n int, err error) (Value, int, error) { if err != nil { return nil, n, err }; return b[len(b)-n:], n, nil }
//
// needs  0 <= n <= len(b)  only when err == nil - which is all its callers can promise (the count of a failed decode
// is unconstrained). inferPre's unconditional candidates fail at those call sites. The guarded candidates
//
//	g == nil  =>  p >= 0          g == nil  =>  p <= len(q)
//
// (g an error parameter, p an int parameter, q a bytes-like parameter) are kept by the same greatest-fixpoint scheme:
// each is proved at every call site under the extra assumption that the argument bound to g is nil (a call that
// passes a value known to be non-nil has nothing to prove), assumed in the helper's body at the points where the
// path conditions establish g == nil, and reported as an obligation of kind "pre" at each call site.

type guardedPre struct {
	guard int // index of the error parameter
	ineq  CIneq
	desc  string
}

var guardedPres = map[*BE]map[*ssa.Function][]guardedPre{}

func (e *BE) guardedFor(fn *ssa.Function) []guardedPre {
	if fn == nil {
		return nil
	}
	g := fn
	if g.Origin() != nil {
		g = g.Origin()
	}
	return guardedPres[e][g]
}

// guardedGoal: the instance of gp at a call (nil, false when the argument bound to the guard is known non-nil).
func (e *BE) guardedGoal(gp guardedPre, call *ssa.Call) (goal Ineq, extra *factSet, needed, good bool) {
	if gp.guard >= len(call.Call.Args) {
		return Ineq{}, nil, true, false
	}
	arg := call.Call.Args[gp.guard]
	if knownNonNil(arg) {
		return Ineq{}, nil, false, true
	}
	env := &cenv{e: e, params: call.Call.Args}
	defer func() {
		if recover() != nil {
			good = false
		}
	}()
	goal = gp.ineq(env)
	extra = &factSet{}
	if !isNilConst(arg) {
		extra.atoms = append(extra.atoms, Atom{V: arg, IsNil: true})
	}
	return goal, extra, true, true
}

func (e *BE) inferPreGuarded(cone []*ssa.Function, module []*ssa.Function) []string {
	sites := map[*ssa.Function][]*ssa.Call{}
	callerOf := map[*ssa.Call]*ssa.Function{}
	escapes := map[*ssa.Function]bool{}
	for _, f := range module {
		withAnon(f, func(g *ssa.Function) {
			allInstrs(g, func(i ssa.Instruction) {
				var callee *ssa.Function
				if c, ok := i.(ssa.CallInstruction); ok {
					callee = e.c.calleeOf(c.Common())
					if cv, ok := i.(*ssa.Call); ok && callee != nil {
						sites[callee] = append(sites[callee], cv)
						callerOf[cv] = g
					} else if callee != nil {
						escapes[callee] = true
					}
				}
				for _, op := range i.Operands(nil) {
					if op == nil || *op == nil {
						continue
					}
					if fv, ok := (*op).(*ssa.Function); ok && fv != callee {
						escapes[fv] = true
					}
				}
			})
		})
	}
	inferred := map[*ssa.Function][]guardedPre{}
	guardedPres[e] = inferred
	for _, f := range cone {
		if f.Parent() != nil || f.Origin() != nil || escapes[f] || len(sites[f]) == 0 || !token.IsIdentifier(f.Name()) || ast.IsExported(f.Name()) {
			continue
		}
		if c := e.contractBase(f); c != nil && len(c.Pre) > 0 {
			continue
		}
		var cands []guardedPre
		for gi, g := range f.Params {
			if !isErrorType(g.Type()) {
				continue
			}
			for i, p := range f.Params {
				b, ok := p.Type().Underlying().(*types.Basic)
				if !ok || b.Kind() != types.Int {
					continue
				}
				cands = append(cands, guardedPre{gi, cGE(cP(i), cK(0)), fmt.Sprintf("%s == nil => %s >= 0", g.Name(), p.Name())})
				for j, q := range f.Params {
					if bytesLike(q.Type()) {
						cands = append(cands, guardedPre{gi, cLE(cP(i), cLenP(j)), fmt.Sprintf("%s == nil => %s <= len(%s)", g.Name(), p.Name(), q.Name())})
					}
				}
			}
		}
		if len(cands) > 0 {
			inferred[f] = cands
		}
	}
	for round := 0; round < 6; round++ {
		changed := false
		ctxs := map[*ssa.Function]*fnCtx{}
		var fs []*ssa.Function
		for f := range inferred {
			fs = append(fs, f)
		}
		sortFuncs(fs)
		for _, f := range fs {
			var keep []guardedPre
			for _, cand := range inferred[f] {
				ok := true
				for _, call := range sites[f] {
					caller := callerOf[call]
					fc := ctxs[caller]
					if fc == nil {
						fc = e.newFnCtx(caller)
						ctxs[caller] = fc
					}
					goal, extra, needed, good := e.guardedGoal(cand, call)
					if !needed {
						continue
					}
					budget := 300
					if !good || !fc.prove(goal, call.Block(), extra, nil, 5, &budget) {
						ok = false
						break
					}
				}
				if ok {
					keep = append(keep, cand)
				} else {
					changed = true
				}
			}
			if len(keep) == 0 {
				delete(inferred, f)
			} else {
				inferred[f] = keep
			}
		}
		if !changed {
			break
		}
	}
	var out []string
	var fs []*ssa.Function
	for f := range inferred {
		fs = append(fs, f)
	}
	sortFuncs(fs)
	for _, f := range fs {
		for _, p := range inferred[f] {
			out = append(out, fnKey(f)+": "+p.desc)
		}
	}
	return out
}

func sortFuncs(fs []*ssa.Function) {
	for i := 1; i < len(fs); i++ {
		for j := i; j > 0 && fnKey(fs[j]) < fnKey(fs[j-1]); j-- {
			fs[j], fs[j-1] = fs[j-1], fs[j]
		}
	}
}

// guardedFacts adds, for the function being verified, the guarded preconditions whose guard is established by the
// atoms of the current proof state.
func (st *solveState) guardedFacts() {
	e := st.fc.e
	gps := e.guardedFor(st.fc.fn)
	if len(gps) == 0 {
		return
	}
	env := &cenv{e: e}
	for _, p := range st.fc.fn.Params {
		env.params = append(env.params, p)
	}
	for _, gp := range gps {
		if gp.guard < len(st.fc.fn.Params) && st.nilKnown(st.fc.fn.Params[gp.guard]) {
			st.addIneq(gp.ineq(env))
		}
	}
}
