package main

import (
	"fmt"
	"go/ast"
	"go/constant"
	"go/token"
	"go/types"
	"math/big"
	"sort"
	"strings"

	"golang.org/x/tools/go/ssa"
)

// R13.3: probe / parser agreement. types.ParseValue dispatches on the type code to one typed decoder per wire type;
// decode.DecodeTypeSize (the probe behind OpenValue, Message.Field, FieldAt, Copy/Merge) re-implements the
// delimiting of each wire type in its own switch. C13 requires: whenever the parser accepts with size n, the probe
// accepts with the same type and the same n.
//
// Both sides are loop-free guard-style code: a sequence of reads at positions counted from the end of the buffer,
// each followed by "if <bad> { return error }". For every wire type K the rule computes, for the decoder's
// success exit and for every exit of the probe's arm, the dominating branch conditions as linear constraints over
// CANONICAL symbols - len(b), the results of helper calls named by the canonical slice they read
// (ReverseUint32(b[0:len(b)-1]).cnt ...), bytes named by their canonical position - so that the same read at the
// same position is the same symbol in both functions. Helpers with bodies (decodeType, decodeSize, decodeStringData,
// decodeListTable ...) are summarised exit by exit (conditions => result equations) and instantiated at the
// canonical arguments. Obligations per wire type:
//   accept:  decoder-success facts refute the guard of every error exit of the probe's arm
//            (a guard on something the decoder never tests - a terminator byte, a read at another position -
//            cannot be refuted and is reported);
//   size:    under both success conditions the two size expressions are equal; the probe returns the type K.
// Entailment is the Fourier-Motzkin check of lin.go. Integer conversions are treated as value preserving (wrap-around
// is C02's obligation); helper functions are deterministic in their argument bytes.

func init() {
	register(&Rule{ID: "R13.3", Props: []string{"C13", "C16", "C01", "C05", "C17"}, Floor: 42,
		Doc: "probe/parser agreement per wire type: the success condition of the typed decoder ParseValue dispatches to refutes every rejection guard of the DecodeTypeSize arm, and both report the same size (canonical read positions, linear entailment)",
		Run: runR13_3})
}

// ---- canonical symbols ----

type gsyms struct {
	ids   map[string]int
	names []string
}

func (g *gsyms) v(name string) Lin {
	if i, ok := g.ids[name]; ok {
		return linVar(i)
	}
	i := len(g.names)
	g.ids[name] = i
	g.names = append(g.names, name)
	return linVar(i)
}

func (g *gsyms) name(i int) string { return g.names[i] }

// cT: canonical term. kind 'i' integer (l), 's' view of the root buffer b[lo:hi], 'o' opaque (s).
type cT struct {
	kind   byte
	l      Lin
	lo, hi Lin
	s      string
	root   string // buffer the view is taken from ("" = the input parameter b)
}

func (t cT) rootName() string {
	if t.root == "" {
		return "b"
	}
	return t.root
}

func (an *agreeAn) str(t cT) string {
	switch t.kind {
	case 'i':
		return t.l.String(an.g.name)
	case 's':
		return t.rootName() + "[" + t.lo.String(an.g.name) + ":" + t.hi.String(an.g.name) + "]"
	}
	return t.s
}

// gAtom: one constraint. lin: L >= 0; neq: L != 0; opaque: text (never provable, never refutable).
type gAtom struct {
	kind byte // 'g' L>=0, 'n' L!=0, 'o' opaque
	l    Lin
	s    string
}

func (an *agreeAn) atomStr(a gAtom) string {
	switch a.kind {
	case 'g':
		return a.l.String(an.g.name) + " >= 0"
	case 'n':
		return a.l.String(an.g.name) + " != 0"
	}
	return a.s
}

func negAtom(a gAtom) (gAtom, bool) {
	switch a.kind {
	case 'g':
		return gAtom{kind: 'g', l: a.l.neg().addK(-1)}, true
	}
	return gAtom{}, false
}

// gRule: exit summary of a helper, instantiated at a call: all Conds hold => all Then hold.
type gRule struct {
	call  string
	Conds []gAtom
	Then  []gAtom
}

type agreeAn struct {
	c        *Ctx
	g        *gsyms
	axioms   []gAtom          // range facts of symbols, added when the symbol is created
	rules    []gRule          // helper exit summaries instantiated so far
	seenC    map[string]bool  // instantiated calls
	cnts     map[string][]int // canonical slice -> count symbols of compactint.Reverse* calls on it
	rsOf     map[string]int   // canonical slice -> count symbol of ReverseSize on it
	noInline bool             // treat every module call as an uninterpreted function of its canonical arguments
}

type gEnv struct {
	an    *agreeAn
	fn    *ssa.Function
	par   map[*ssa.Parameter]cT
	memo  map[ssa.Value]cT
	ctx   string // canonical argument list (names local opaque values apart per instantiation)
	depth int
	// R13.4: every value of the container type is the symbol containerSym, the loop index is indexSym
	containerSym, indexSym string
	// phiBind: along the acyclic path under evaluation, the incoming value of every phi the path passes
	// (size := 5 / 9 selected in a switch, returned later): terms are computed per path (withBind)
	phiBind map[*ssa.Phi]ssa.Value
	// parent: the environment of the enclosing function when fn is a function literal called from it: the values
	// of captured variables are terms of the parent
	parent *gEnv
}

// withBind evaluates f with the phis bound as on one path; terms computed meanwhile are not kept.
func (ev *gEnv) withBind(bind map[*ssa.Phi]ssa.Value, f func()) {
	if len(bind) == 0 {
		f()
		return
	}
	memo, old := ev.memo, ev.phiBind
	ev.memo, ev.phiBind = map[ssa.Value]cT{}, bind
	f()
	ev.memo, ev.phiBind = memo, old
}

func (an *agreeAn) loopHeader(p *ssa.Phi) bool {
	b := p.Block()
	for _, pr := range b.Preds {
		if b.Dominates(pr) {
			return true
		}
	}
	return false
}

// fieldTerm: field f of the struct term base.
func (ev *gEnv) fieldTerm(base cT, f *types.Var, v ssa.Value) cT {
	if base.kind != 'o' {
		return ev.an.opaque(ev.local(v))
	}
	name := base.s + "." + f.Name()
	switch {
	case bytesLike(f.Type()):
		return cT{kind: 's', root: name, lo: kLin(0), hi: ev.intSym("len("+name+")", types.Typ[types.Int]).l}
	case isIntegerType(f.Type()):
		return ev.intSym(name, f.Type())
	}
	return ev.an.opaque(name)
}

func (an *agreeAn) axiom(l Lin)           { an.axioms = append(an.axioms, gAtom{kind: 'g', l: l}) }
func kLin(k int64) Lin                    { return linConst(k) }
func (an *agreeAn) opaque(name string) cT { return cT{kind: 'o', s: name} }

func (ev *gEnv) intSym(name string, t types.Type) cT {
	an := ev.an
	_, existed := an.g.ids[name]
	l := an.g.v(name)
	if !existed {
		if lo, hi, ok := typeRange(t); ok && hi.BitLen() <= 40 {
			an.axiom(l.sub(linBig(lo)))
			an.axiom(linBig(hi).sub(l))
		}
	}
	return cT{kind: 'i', l: l}
}

func (ev *gEnv) term(v ssa.Value) cT {
	if c := capturedLoadOf(v); c != nil {
		v = c
	}
	if ev.parent != nil {
		if in, ok := v.(interface{ Parent() *ssa.Function }); ok && in.Parent() != nil && in.Parent() != ev.fn && in.Parent() == ev.parent.fn {
			return ev.parent.term(v)
		}
	}
	if t, ok := ev.memo[v]; ok {
		return t
	}
	if ev.containerSym != "" {
		if n := namedOf(v.Type()); n != nil && n.Obj().Pkg() != nil && relPkg(n.Obj().Pkg().Path()) == "internal/types" && (n.Obj().Name() == "List" || n.Obj().Name() == "Message") {
			if _, isStruct := v.Type().Underlying().(*types.Struct); isStruct {
				t := ev.an.opaque(ev.containerSym)
				ev.memo[v] = t
				return t
			}
		}
	}
	ev.memo[v] = ev.an.opaque("cycle:" + v.Name())
	t := ev.term1(v)
	ev.memo[v] = t
	return t
}

func (ev *gEnv) local(v ssa.Value) string {
	return "loc:" + fnKey(ev.fn) + ":" + v.Name() + "@" + ev.ctx
}

func (ev *gEnv) term1(v ssa.Value) cT {
	an := ev.an
	switch x := v.(type) {
	case *ssa.Parameter:
		if t, ok := ev.par[x]; ok {
			return t
		}
	case *ssa.Const:
		if x.Value == nil {
			if bytesLike(x.Type()) {
				return cT{kind: 's', lo: kLin(0), hi: kLin(0)}
			}
			return an.opaque("nil")
		}
		switch x.Value.Kind() {
		case constant.Int:
			if b, ok := new(big.Int).SetString(x.Value.ExactString(), 10); ok {
				return cT{kind: 'i', l: linBig(b)}
			}
		case constant.Bool:
			if constant.BoolVal(x.Value) {
				return cT{kind: 'i', l: kLin(1)}
			}
			return cT{kind: 'i', l: kLin(0)}
		}
		return an.opaque("const:" + x.Value.ExactString())
	case *ssa.Slice:
		base := ev.term(x.X)
		if base.kind != 's' {
			break
		}
		lo, hi := base.lo, base.hi
		if x.High != nil {
			h := ev.term(x.High)
			if h.kind != 'i' {
				break
			}
			hi = base.lo.add(h.l)
		}
		if x.Low != nil {
			l := ev.term(x.Low)
			if l.kind != 'i' {
				break
			}
			lo = base.lo.add(l.l)
		}
		return cT{kind: 's', lo: lo, hi: hi, root: base.root}
	case *ssa.BinOp:
		if !isIntegerType(x.Type()) {
			break
		}
		a, b := ev.term(x.X), ev.term(x.Y)
		if a.kind == 'i' && b.kind == 'i' {
			// arithmetic in a type narrower than 64 bits can wrap (uint32(tableSize) + uint32(dataSize)): it is not
			// the mathematical sum unless both operands are constants; name the result by its operands instead
			if lo, hi, ok := typeRange(x.Type()); ok && new(big.Int).Sub(hi, lo).BitLen() < 64 && !(a.l.isConst() && b.l.isConst()) {
				switch x.Op {
				case token.ADD, token.SUB, token.MUL:
					return ev.intSym(fmt.Sprintf("(%s %s %s)", an.str(a), x.Op, an.str(b)), x.Type())
				}
			}
			switch x.Op {
			case token.ADD:
				return cT{kind: 'i', l: a.l.add(b.l)}
			case token.SUB:
				return cT{kind: 'i', l: a.l.sub(b.l)}
			case token.MUL:
				if a.l.isConst() {
					return cT{kind: 'i', l: b.l.scale(a.l.K)}
				}
				if b.l.isConst() {
					return cT{kind: 'i', l: a.l.scale(b.l.K)}
				}
			}
			// non-linear: a symbol named by its canonical operands (the same expression is the same symbol)
			return ev.intSym(fmt.Sprintf("(%s %s %s)", an.str(a), x.Op, an.str(b)), x.Type())
		}
	case *ssa.Convert:
		t := ev.term(x.X)
		if t.kind == 'i' && isIntegerType(x.Type()) {
			return t // value preserving (see header)
		}
		if t.kind == 's' && bytesLike(x.Type()) {
			return t
		}
	case *ssa.ChangeType:
		return ev.term(x.X)
	case *ssa.UnOp:
		if x.Op == token.SUB {
			if t := ev.term(x.X); t.kind == 'i' {
				return cT{kind: 'i', l: t.l.neg()}
			}
		}
		if x.Op == token.MUL {
			// byte load b[pos]
			if ia, ok := x.X.(*ssa.IndexAddr); ok {
				base, idx := ev.term(ia.X), ev.term(ia.Index)
				if base.kind == 's' && idx.kind == 'i' {
					return ev.intSym("byte["+base.rootName()+"+"+base.lo.add(idx.l).String(an.g.name)+"]", x.Type())
				}
			}
			// field of a struct value spilled into a local (value receivers): *(&local.f) with a single store
			if fa, ok := x.X.(*ssa.FieldAddr); ok {
				if ev.containerSym != "" {
					if n := namedOf(fa.X.Type()); n != nil && n.Obj().Pkg() != nil && relPkg(n.Obj().Pkg().Path()) == "internal/types" && (n.Obj().Name() == "List" || n.Obj().Name() == "Message") {
						return ev.fieldTerm(ev.an.opaque(ev.containerSym), fieldOf(fa), x)
					}
				}
				if al, ok := fa.X.(*ssa.Alloc); ok {
					var stored ssa.Value
					n := 0
					for _, ref := range *al.Referrers() {
						if st, ok := ref.(*ssa.Store); ok && st.Addr == ssa.Value(al) {
							stored = st.Val
							n++
						}
					}
					if n == 1 {
						return ev.fieldTerm(ev.term(stored), fieldOf(fa), x)
					}
				}
			}
			// string header cast of a local slice: the same view
			if stringHeaderCastLite(x) {
				break
			}
		}
	case *ssa.Index:
		base, idx := ev.term(x.X), ev.term(x.Index)
		if base.kind == 's' && idx.kind == 'i' {
			return ev.intSym("byte["+base.rootName()+"+"+base.lo.add(idx.l).String(an.g.name)+"]", x.Type())
		}
	case *ssa.Field:
		st := x.X.Type().Underlying().(*types.Struct)
		return ev.fieldTerm(ev.term(x.X), st.Field(x.Field), x)
	case *ssa.Phi:
		if ev.indexSym != "" && isIntegerType(x.Type()) && ev.an.loopHeader(x) {
			return ev.intSym(ev.indexSym, x.Type())
		}
		if e, ok := ev.phiBind[x]; ok {
			return ev.term(e)
		}
		var first string
		same := true
		var ft cT
		for k, e := range x.Edges {
			t := ev.term(e)
			if k == 0 {
				first, ft = an.str(t), t
			} else if an.str(t) != first {
				same = false
			}
		}
		if same && len(x.Edges) > 0 {
			return ft
		}
	case *ssa.Call:
		if bi, ok := x.Call.Value.(*ssa.Builtin); ok {
			if bi.Name() == "len" && len(x.Call.Args) == 1 {
				if t := ev.term(x.Call.Args[0]); t.kind == 's' {
					return cT{kind: 'i', l: t.hi.sub(t.lo)}
				}
			}
			break
		}
		if _, isTuple := x.Type().(*types.Tuple); !isTuple {
			return ev.callResult(x, 0)
		}
	case *ssa.Extract:
		if call, ok := x.Tuple.(*ssa.Call); ok {
			return ev.callResult(call, x.Index)
		}
	}
	if isIntegerType(v.Type()) {
		return ev.intSym(ev.local(v), v.Type())
	}
	return ev.an.opaque(ev.local(v))
}

func stringHeaderCastLite(ld *ssa.UnOp) bool { return false }

// loopFree: no back edges.
func loopFree(fn *ssa.Function) bool {
	for _, b := range fn.Blocks {
		for _, s := range b.Succs {
			if s.Dominates(b) {
				return false
			}
		}
	}
	return true
}

func resultType(call *ssa.Call, idx int) types.Type {
	if tup, ok := call.Type().(*types.Tuple); ok {
		return tup.At(idx).Type()
	}
	return call.Type()
}

func isErrorType(t types.Type) bool {
	return types.Identical(t, types.Universe.Lookup("error").Type())
}

// callResult: canonical term of result idx of call, instantiating the callee's exit summaries on first use.
func (ev *gEnv) callResult(call *ssa.Call, idx int) cT {
	an := ev.an
	cc := call.Common()
	var args []cT
	var argStrs []string
	for _, a := range cc.Args {
		t := ev.term(a)
		args = append(args, t)
		argStrs = append(argStrs, an.str(t))
	}
	callee := cc.StaticCallee()
	if callee == nil {
		return an.opaque(ev.local(call) + fmt.Sprintf(".%d", idx))
	}
	fname := callee.String()
	if callee.Pkg != nil {
		fname = fnKey(callee)
	} else if o := callee.Object(); o != nil && o.Pkg() != nil {
		fname = o.Pkg().Name() + "." + o.Name()
	}
	name := fname + "(" + strings.Join(argStrs, ", ") + ")"
	rt := resultType(call, idx)
	resName := fmt.Sprintf("%s.%d", name, idx)
	// compactint.Reverse*: value and byte count
	if o := callee.Object(); o != nil {
		if cidx, ok := isVarintDecoder(o.(*types.Func)); ok && len(args) == 1 && args[0].kind == 's' {
			isCount := idx == cidx || cidx == -1
			if !isCount {
				return ev.intSym("val:"+name, rt)
			}
			cname := "cnt:" + name
			_, existed := an.g.ids[cname]
			l := an.g.v(cname)
			if !existed {
				an.axiom(l.addK(1))                         // >= -1
				an.axiom(kLin(9).sub(l))                    // <= 9
				an.axiom(args[0].hi.sub(args[0].lo).sub(l)) // <= len(arg)
				id := an.g.ids[cname]
				key := argStrs[0]
				if cidx == -1 {
					an.rsOf[key] = id
				} else {
					an.cnts[key] = append(an.cnts[key], id)
				}
			}
			return cT{kind: 'i', l: l}
		}
	}
	inModule := callee.Pkg != nil && strings.HasPrefix(callee.Pkg.Pkg.Path(), Mod) && callee.Blocks != nil
	if an.noInline || !inModule || !loopFree(callee) || ev.depth > 5 || len(callee.Blocks) > 60 {
		if isIntegerType(rt) {
			return ev.intSym(resName, rt)
		}
		if isErrorType(rt) {
			return ev.intSym("err:"+name, types.Typ[types.Uint8])
		}
		if isBoolType(rt) {
			return ev.boolSym(resName)
		}
		return an.opaque(resName)
	}
	// summarise the callee's exits at these arguments
	sub := &gEnv{an: an, fn: callee, par: map[*ssa.Parameter]cT{}, memo: map[ssa.Value]cT{}, ctx: strings.Join(argStrs, ", "), depth: ev.depth + 1}
	if callee.Parent() == ev.fn {
		sub.parent = ev
	}
	for i, p := range callee.Params {
		if i < len(args) {
			sub.par[p] = args[i]
		}
	}
	rets := returnsOf(callee)
	// a wrapper with a single unconditional exit: the result itself
	if len(rets) == 1 && len(pathConds(rets[0].Block())) == 0 && idx < len(rets[0].Results) {
		return sub.term(rets[0].Results[idx])
	}
	var res cT
	switch {
	case isErrorType(rt):
		_, existed := an.g.ids["err:"+name]
		res = cT{kind: 'i', l: an.g.v("err:" + name)}
		if !existed {
			an.axiom(res.l)
			an.axiom(kLin(1).sub(res.l))
		}
	case isIntegerType(rt):
		res = ev.intSym(resName, rt)
	case isBoolType(rt):
		res = ev.boolSym(resName)
	default:
		res = an.opaque(resName)
	}
	if !an.seenC[name] {
		an.seenC[name] = true
		nres := 1
		if tup, ok := call.Type().(*types.Tuple); ok {
			nres = tup.Len()
		}
		for _, ret := range rets {
			// a summary rule "conditions => results" needs conditions that are SUFFICIENT for taking this exit:
			// one rule per acyclic path; if the paths cannot be enumerated the exit contributes no rule (fewer facts)
			alts, exact := sub.exitAlts(ret.Block())
			if !exact {
				continue
			}
			for _, alt := range alts {
				alt := alt
				sub.withBind(alt.bind, func() {
					rule := gRule{call: name}
					for k := 0; k < nres && k < len(ret.Results); k++ {
						kt := resultType(call, k)
						rv := ret.Results[k]
						switch {
						case isErrorType(kt):
							e := an.g.v("err:" + name)
							an.axiom(e)
							an.axiom(kLin(1).sub(e))
							ev2 := rv
							if phi, isPhi := rv.(*ssa.Phi); isPhi {
								if b, bound := alt.bind[phi]; bound {
									ev2 = b
								}
							}
							if isNilConst(ev2) {
								rule.Then = append(rule.Then, gAtom{kind: 'g', l: e.neg()}) // err <= 0
							} else if knownNonNil(ev2) {
								rule.Then = append(rule.Then, gAtom{kind: 'g', l: e.addK(-1)}) // err >= 1
							}
						case isIntegerType(kt):
							t := sub.term(rv)
							if t.kind == 'i' {
								s := ev.intSym(fmt.Sprintf("%s.%d", name, k), kt)
								rule.Then = append(rule.Then, gAtom{kind: 'g', l: s.l.sub(t.l)}, gAtom{kind: 'g', l: t.l.sub(s.l)})
							}
						case isBoolType(kt):
							t := sub.term(rv)
							if t.kind == 'i' {
								s := ev.boolSym(fmt.Sprintf("%s.%d", name, k))
								rule.Then = append(rule.Then, gAtom{kind: 'g', l: s.l.sub(t.l)}, gAtom{kind: 'g', l: t.l.sub(s.l)})
							}
						}
					}
					an.rules = append(an.rules, gRule{call: name, Conds: alt.atoms, Then: rule.Then})
				})
			}
		}
	}
	return res
}

// gAlt: one way of reaching an exit: the branch conditions along one acyclic path (atoms), and those of the last
// branch on that path (final - the guard that sends control to this exit).
type gAlt struct {
	atoms []gAtom
	final []gAtom
	// bind: the incoming value of every phi on this path (see gEnv.phiBind)
	bind map[*ssa.Phi]ssa.Value
}

// exitAlts returns the exact reach condition of block b in a loop-free function as a list of alternatives, one per
// acyclic path (`a || b` guards and multi-label case clauses give several). exact is false when there are more than
// 24 paths; the caller then falls back to the dominating conditions, which are necessary but not sufficient.
func (ev *gEnv) exitAlts(b *ssa.BasicBlock) ([]gAlt, bool) {
	type pedge struct {
		b *ssa.BasicBlock
		k int // index of the predecessor taken
	}
	type path struct {
		conds []Cond // from the exit backwards
		edges []pedge
	}
	const maxPaths = 24
	over := false
	var walk func(b *ssa.BasicBlock, depth int) []path
	memo := map[*ssa.BasicBlock][]path{}
	walk = func(b *ssa.BasicBlock, depth int) []path {
		if p, ok := memo[b]; ok {
			return p
		}
		if len(b.Preds) == 0 || depth > 200 {
			return []path{{}}
		}
		var out []path
		for k, p := range b.Preds {
			var edge []Cond
			if ifi, ok := p.Instrs[len(p.Instrs)-1].(*ssa.If); ok && p.Succs[0] != p.Succs[1] {
				edge = []Cond{{ifi.Cond, p.Succs[0] == b}}
			}
			var pe []pedge
			if _, hasPhi := b.Instrs[0].(*ssa.Phi); hasPhi {
				pe = []pedge{{b, k}}
			}
			for _, pp := range walk(p, depth+1) {
				np := path{conds: append(append([]Cond{}, edge...), pp.conds...), edges: append(append([]pedge{}, pe...), pp.edges...)}
				out = append(out, np)
				if len(out) > maxPaths {
					over = true
					return out[:1]
				}
			}
		}
		memo[b] = out
		return out
	}
	paths := walk(b, 0)
	if over {
		return []gAlt{{atoms: ev.condsOf(b)}}, false
	}
	var alts []gAlt
	for _, p := range paths {
		var a gAlt
		if len(p.edges) > 0 {
			a.bind = map[*ssa.Phi]ssa.Value{}
			for _, e := range p.edges {
				for _, ins := range e.b.Instrs {
					phi, ok := ins.(*ssa.Phi)
					if !ok {
						break
					}
					if !ev.an.loopHeader(phi) {
						a.bind[phi] = phi.Edges[e.k]
					}
				}
			}
		}
		ev.withBind(a.bind, func() {
			for i, cd := range p.conds {
				as := ev.atoms(cd)
				if i == 0 {
					a.final = as
				}
				a.atoms = append(a.atoms, as...)
			}
		})
		alts = append(alts, a)
	}
	return alts, true
}

// condsOf: the dominating branch conditions of block b as atoms.
func (ev *gEnv) condsOf(b *ssa.BasicBlock) []gAtom {
	var out []gAtom
	for _, cd := range pathConds(b) {
		out = append(out, ev.atoms(cd)...)
	}
	return out
}

func (ev *gEnv) atoms(cd Cond) []gAtom {
	an := ev.an
	rels := relsOf(cd)
	if len(rels) == 0 {
		// a bare boolean value (the ok result of a helper): 0/1 symbol
		if isBoolType(cd.V.Type()) {
			if t := ev.term(cd.V); t.kind == 'i' {
				if cd.Truth {
					return []gAtom{{kind: 'g', l: t.l.addK(-1)}}
				}
				return []gAtom{{kind: 'g', l: t.l.neg()}}
			}
		}
		return []gAtom{{kind: 'o', s: fmt.Sprintf("%v(%s)", cd.Truth, ev.local(cd.V))}}
	}
	var out []gAtom
	for _, rel := range rels {
		x, y := ev.term(rel.X), ev.term(rel.Y)
		// comparison with nil: error results are 0/1 symbols
		if isNilConst(rel.Y) || isNilConst(rel.X) {
			t := x
			if isNilConst(rel.X) {
				t = y
			}
			if t.kind == 'i' {
				if rel.Op == token.EQL {
					out = append(out, gAtom{kind: 'g', l: t.l.neg()})
				} else {
					out = append(out, gAtom{kind: 'g', l: t.l.addK(-1)})
				}
				continue
			}
			out = append(out, gAtom{kind: 'o', s: an.str(t) + " " + rel.Op.String() + " nil"})
			continue
		}
		if x.kind != 'i' || y.kind != 'i' {
			out = append(out, gAtom{kind: 'o', s: an.str(x) + " " + rel.Op.String() + " " + an.str(y)})
			continue
		}
		d := x.l.sub(y.l) // x - y
		switch rel.Op {
		case token.LSS:
			out = append(out, gAtom{kind: 'g', l: d.neg().addK(-1)})
		case token.LEQ:
			out = append(out, gAtom{kind: 'g', l: d.neg()})
		case token.GTR:
			out = append(out, gAtom{kind: 'g', l: d.addK(-1)})
		case token.GEQ:
			out = append(out, gAtom{kind: 'g', l: d})
		case token.EQL:
			out = append(out, gAtom{kind: 'g', l: d}, gAtom{kind: 'g', l: d.neg()})
		case token.NEQ:
			out = append(out, gAtom{kind: 'n', l: d})
		}
	}
	return out
}

// ---- fact sets ----

type gFacts struct {
	an   *agreeAn
	ineq []Ineq
	neq  []Lin
	seen map[string]bool
}

func (an *agreeAn) newFacts() *gFacts {
	f := &gFacts{an: an, seen: map[string]bool{}}
	return f
}

func (f *gFacts) add(a gAtom) bool {
	k := f.an.atomStr(a)
	if f.seen[k] {
		return false
	}
	f.seen[k] = true
	switch a.kind {
	case 'g':
		f.ineq = append(f.ineq, Ineq{a.l})
	case 'n':
		f.neq = append(f.neq, a.l)
	}
	return true
}

func (f *gFacts) clone() *gFacts {
	g := &gFacts{an: f.an, seen: map[string]bool{}}
	g.ineq = append(g.ineq, f.ineq...)
	g.neq = append(g.neq, f.neq...)
	for k := range f.seen {
		g.seen[k] = true
	}
	return g
}

func (f *gFacts) holds(a gAtom) bool {
	switch a.kind {
	case 'g':
		if a.l.isConst() {
			return a.l.K.Sign() >= 0
		}
		return entails(f.ineq, Ineq{a.l})
	case 'n':
		if a.l.isConst() {
			return a.l.K.Sign() != 0
		}
		return entails(f.ineq, Ineq{a.l.addK(-1)}) || entails(f.ineq, Ineq{a.l.neg().addK(-1)})
	}
	return false
}

func (f *gFacts) refuted(a gAtom) bool {
	switch a.kind {
	case 'g':
		return f.holds(gAtom{kind: 'g', l: a.l.neg().addK(-1)})
	case 'n':
		return f.holds(gAtom{kind: 'g', l: a.l}) && f.holds(gAtom{kind: 'g', l: a.l.neg()})
	}
	return false
}

func (f *gFacts) unsat() bool {
	if fmUnsat(f.ineq) {
		return true
	}
	for _, n := range f.neq {
		if f.refuted(gAtom{kind: 'n', l: n}) {
			return true
		}
	}
	return false
}

// saturate closes the facts under: axioms of the symbols in use, disequality strengthening, helper exit
// summaries (forward when all conditions hold; unit propagation when a consequence is refuted), and the
// compactint axiom  Reverse{Int32,Int64,Uint32,Uint64}(x).count >= 1  =>  ReverseSize(x) == that count.
func (f *gFacts) saturate() {
	an := f.an
	for round := 0; round < 8; round++ {
		changed := false
		for _, a := range an.axioms {
			if f.add(a) {
				changed = true
			}
		}
		if f.unsat() {
			return
		}
		for _, n := range f.neq {
			if f.holds(gAtom{kind: 'g', l: n}) && f.add(gAtom{kind: 'g', l: n.addK(-1)}) {
				changed = true
			}
			if f.holds(gAtom{kind: 'g', l: n.neg()}) && f.add(gAtom{kind: 'g', l: n.neg().addK(-1)}) {
				changed = true
			}
		}
		for _, rl := range an.rules {
			var open []gAtom
			for _, cnd := range rl.Conds {
				if !f.holds(cnd) {
					open = append(open, cnd)
				}
			}
			if len(open) == 0 {
				for _, t := range rl.Then {
					if f.add(t) {
						changed = true
					}
				}
				continue
			}
			if len(open) == 1 {
				refutedThen := false
				for _, t := range rl.Then {
					if f.refuted(t) {
						refutedThen = true
					}
				}
				if refutedThen {
					if na, ok := negAtom(open[0]); ok && f.add(na) {
						changed = true
					} else if open[0].kind == 'n' {
						// not (L != 0): L == 0
						c1 := f.add(gAtom{kind: 'g', l: open[0].l})
						c2 := f.add(gAtom{kind: 'g', l: open[0].l.neg()})
						if c1 || c2 {
							changed = true
						}
					}
				}
			}
		}
		for key, ids := range an.cnts {
			for _, id := range ids {
				c := linVar(id)
				if f.holds(gAtom{kind: 'g', l: c.addK(-1)}) {
					rs, ok := an.rsOf[key]
					if !ok {
						continue // no ReverseSize call on this slice anywhere: nothing to relate
					}
					r := linVar(rs)
					c1 := f.add(gAtom{kind: 'g', l: r.sub(c)})
					c2 := f.add(gAtom{kind: 'g', l: c.sub(r)})
					if c1 || c2 {
						changed = true
					}
				}
			}
		}
		if !changed {
			return
		}
	}
}

// ---- type switch structure (AST) ----

// typeClause: the labels of the case clause of a switch over a format.Type value that encloses pos
// (nil, false when pos is in no such clause; def: the default clause, labels = all labels of that switch).
type typeSwitchInfo struct {
	clauses []typeClause
}
type typeClause struct {
	pos, end token.Pos
	labels   []int64
	def      bool
	all      []int64
}

func typeSwitches(c *Ctx, fn *ssa.Function) *typeSwitchInfo {
	fd := c.funcDecl(fn)
	info := &typeSwitchInfo{}
	if fd == nil || fd.Body == nil || fn.Pkg == nil {
		return info
	}
	var tinfo *types.Info
	for _, p := range c.Pkgs {
		if p.Types == fn.Pkg.Pkg {
			tinfo = p.TypesInfo
		}
	}
	if tinfo == nil {
		return info
	}
	// `if typ == K1 || typ == K2 { ... }`: a one-clause switch written as an if (an arm hoisted out of the switch)
	var eqLabels func(e ast.Expr) ([]int64, bool)
	eqLabels = func(e ast.Expr) ([]int64, bool) {
		e = ast.Unparen(e)
		be, ok := e.(*ast.BinaryExpr)
		if !ok {
			return nil, false
		}
		switch be.Op {
		case token.LOR:
			a, ok1 := eqLabels(be.X)
			b, ok2 := eqLabels(be.Y)
			return append(a, b...), ok1 && ok2
		case token.EQL:
			x, y := be.X, be.Y
			if v, ok := tinfo.Types[x]; ok && v.Value != nil {
				x, y = y, x
			}
			tx, ok1 := tinfo.Types[x]
			ty, ok2 := tinfo.Types[y]
			if !ok1 || !ok2 || ty.Value == nil || !typeIs(tx.Type, pkgPath("internal/format"), "Type") {
				return nil, false
			}
			k, exact := constant.Int64Val(constant.ToInt(ty.Value))
			return []int64{k}, exact
		}
		return nil, false
	}
	ast.Inspect(fd.Body, func(n ast.Node) bool {
		if ifs, ok := n.(*ast.IfStmt); ok && ifs.Init == nil {
			if ks, ok := eqLabels(ifs.Cond); ok && len(ks) > 0 {
				info.clauses = append(info.clauses, typeClause{pos: ifs.Body.Pos(), end: ifs.Body.End(), labels: ks, all: ks})
			}
			return true
		}
		sw, ok := n.(*ast.SwitchStmt)
		if !ok || sw.Tag == nil {
			return true
		}
		tv, ok := tinfo.Types[sw.Tag]
		if !ok || !typeIs(tv.Type, pkgPath("internal/format"), "Type") {
			return true
		}
		var all []int64
		var cls []typeClause
		for _, st := range sw.Body.List {
			cc := st.(*ast.CaseClause)
			tc := typeClause{pos: cc.Pos(), end: cc.End(), def: cc.List == nil}
			for _, e := range cc.List {
				if v, ok := tinfo.Types[e]; ok && v.Value != nil {
					if k, exact := constant.Int64Val(constant.ToInt(v.Value)); exact {
						tc.labels = append(tc.labels, k)
						all = append(all, k)
					}
				}
			}
			cls = append(cls, tc)
		}
		for i := range cls {
			cls[i].all = all
		}
		info.clauses = append(info.clauses, cls...)
		return true
	})
	return info
}

// applies: can an instruction at pos execute when the switched type equals k?
func (ti *typeSwitchInfo) applies(pos token.Pos, k int64) bool {
	for _, cl := range ti.clauses {
		if pos < cl.pos || pos >= cl.end {
			continue
		}
		in := false
		for _, l := range cl.labels {
			if l == k {
				in = true
			}
		}
		if cl.def {
			in = true
			for _, l := range cl.all {
				if l == k {
					in = false
				}
			}
		}
		if !in {
			return false
		}
	}
	return true
}

// ---- the rule ----

func runR13_3(c *Ctx, r *R) {
	probe := r.Need("internal/decode", "DecodeTypeSize")
	pv := r.Need("internal/types", "ParseValue")
	if probe == nil || pv == nil {
		return
	}
	if !loopFree(probe) {
		r.Unk(fnKey(probe)+"/shape", probe.Pos(), "DecodeTypeSize contains a loop: the guard-summary comparison does not apply")
		return
	}
	// K -> decoder, from ParseValue's switch (AST): the function called in the clause, followed into internal/decode
	decoders := map[int64]*ssa.Function{}
	var pre *ssa.Function
	// The dispatch may be spread over ParseValue and unexported helpers of its package that receive the buffer and
	// the decoded type and switch again: a call applies to the type codes of every enclosing clause, across helpers.
	allLabels := map[int64]bool{}
	var collect func(fn *ssa.Function, buf *ssa.Parameter, applies func(k int64) bool, depth int)
	collect = func(fn *ssa.Function, buf *ssa.Parameter, applies func(k int64) bool, depth int) {
		info := typeSwitches(c, fn)
		for _, cl := range info.clauses {
			for _, k := range cl.labels {
				if applies(k) {
					allLabels[k] = true
				}
			}
		}
		for _, call := range callsIn(fn, false) {
			callee := call.Common().StaticCallee()
			if callee == nil || callee.Pkg == nil || callee.Blocks == nil {
				continue
			}
			ai := -1
			for i, a := range call.Common().Args {
				if a == ssa.Value(buf) {
					ai = i
				}
			}
			if ai < 0 || ai >= len(callee.Params) {
				continue
			}
			pos := call.Pos()
			here := func(k int64) bool { return applies(k) && info.applies(pos, k) }
			// a helper of the same package that is handed the type code too and switches over it
			if callee.Pkg == fn.Pkg && !ast.IsExported(callee.Name()) && depth < 3 && len(typeSwitches(c, callee).clauses) > 0 {
				typed := false
				for _, a := range call.Common().Args {
					if typeIs(a.Type(), pkgPath("internal/format"), "Type") {
						typed = true
					}
				}
				if typed {
					collect(callee, callee.Params[ai], here, depth+1)
					continue
				}
			}
			d := callee
			dp := ai
			for hops := 0; hops < 4 && d != nil && relPkg(d.Pkg.Pkg.Path()) != "internal/decode"; hops++ {
				var next *ssa.Function
				np := -1
				for _, c2 := range callsIn(d, false) {
					g := c2.Common().StaticCallee()
					if g == nil || g.Pkg == nil || dp >= len(d.Params) {
						continue
					}
					gi := -1
					for i, a := range c2.Common().Args {
						if a == ssa.Value(d.Params[dp]) {
							gi = i
						}
					}
					if gi < 0 {
						continue
					}
					if rp := relPkg(g.Pkg.Pkg.Path()); rp == "internal/decode" || rp == "internal/types" {
						next, np = g, gi
						break
					}
				}
				d, dp = next, np
			}
			if d == nil || relPkg(d.Pkg.Pkg.Path()) != "internal/decode" {
				continue
			}
			inClause := false
			for _, cl := range info.clauses {
				if pos >= cl.pos && pos < cl.end {
					inClause = true
				}
			}
			if !inClause {
				if pre == nil && depth == 0 {
					pre = d // decoder applied to b before the switch (DecodeType): delimits the types whose clause calls nothing
				}
				continue
			}
			for _, k := range pinnedTypes {
				if here(k) && decoders[k] == nil {
					decoders[k] = d
				}
			}
		}
	}
	if len(pv.Params) > 0 {
		collect(pv, pv.Params[0], func(int64) bool { return true }, 0)
	}
	for k := range allLabels {
		if decoders[k] == nil && pre != nil {
			decoders[k] = pre
		}
	}
	typeName := map[int64]string{}
	for n, v := range pinnedTypes {
		typeName[v] = n
	}
	var ks []int64
	for k := range decoders {
		ks = append(ks, k)
	}
	sort.Slice(ks, func(i, j int) bool { return ks[i] < ks[j] })
	if len(ks) < 20 {
		r.Unk(fnKey(pv)+"/dispatch", pv.Pos(), "only %d wire types with a decoder found in ParseValue's switch (21 confirmed)", len(ks))
	}
	probeInfo := typeSwitches(c, probe)
	for _, k := range ks {
		d := decoders[k]
		tn := typeName[k]
		if tn == "" {
			tn = fmt.Sprint(k)
		}
		keyA := fmt.Sprintf("%s/%s vs %s/accept", fnKey(probe), tn, d.Name())
		keyS := fmt.Sprintf("%s/%s vs %s/size", fnKey(probe), tn, d.Name())
		if !loopFree(d) {
			r.Unk(keyA, d.Pos(), "decoder %s contains a loop: not a guard-style decoder", d.Name())
			continue
		}
		an := &agreeAn{c: c, g: &gsyms{ids: map[string]int{}}, seenC: map[string]bool{}, cnts: map[string][]int{}, rsOf: map[string]int{}}
		lenB := an.g.v("len(b)")
		an.axiom(lenB)
		root := cT{kind: 's', lo: kLin(0), hi: lenB}
		mkEnv := func(fn *ssa.Function) *gEnv {
			ev := &gEnv{an: an, fn: fn, par: map[*ssa.Parameter]cT{}, memo: map[ssa.Value]cT{}, ctx: "b"}
			if len(fn.Params) > 0 {
				ev.par[fn.Params[0]] = root
			}
			return ev
		}
		dEnv, pEnv := mkEnv(d), mkEnv(probe)
		dInfo := typeSwitches(c, d)
		// the type symbol: result 0 of decodeType(b) as seen from both functions
		var typSym *Lin
		findTyp := func(ev *gEnv) {
			for _, call := range callsIn(ev.fn, false) {
				if cal := call.Common().StaticCallee(); cal != nil && cal.Name() == "decodeType" && len(call.Common().Args) == 1 {
					if cv, ok := call.(*ssa.Call); ok {
						t := ev.callResult(cv, 0)
						if t.kind == 'i' && typSym == nil {
							l := t.l
							typSym = &l
						}
					}
				}
			}
		}
		findTyp(dEnv)
		findTyp(pEnv)
		if typSym == nil {
			r.Unk(keyA, d.Pos(), "no decodeType(b) call found: cannot name the type code")
			continue
		}
		sizeIdx := func(fn *ssa.Function) int {
			rs := fn.Signature.Results()
			idx := -1
			for i := 0; i < rs.Len(); i++ {
				if b, ok := rs.At(i).Type().Underlying().(*types.Basic); ok && b.Kind() == types.Int {
					idx = i
				}
			}
			return idx
		}
		dSize, pSize := sizeIdx(d), sizeIdx(probe)
		// evaluate all exits first so that every symbol, axiom and helper summary exists before saturation
		type exit struct {
			ret   *ssa.Return
			conds []gAtom
			final []gAtom
			ok    bool
			size  cT
			typ   cT
		}
		var exitsOf func(ev *gEnv, info *typeSwitchInfo, sz int) []exit
		exitsOf = func(ev *gEnv, info *typeSwitchInfo, sz int) []exit {
			var out []exit
			for _, ret := range returnsOf(ev.fn) {
				if !info.applies(ret.Pos(), k) {
					continue
				}
				// `return helper(...)`: the exits are the helper's, under the conditions of reaching the call
				if call := tailCallOf(ret); call != nil && ev.depth < 3 {
					if callee := call.Call.StaticCallee(); callee != nil && callee.Pkg != nil && strings.HasPrefix(callee.Pkg.Pkg.Path(), Mod) && callee.Blocks != nil && loopFree(callee) {
						var argStrs []string
						sub := &gEnv{an: an, fn: callee, par: map[*ssa.Parameter]cT{}, memo: map[ssa.Value]cT{}, depth: ev.depth + 1}
						if callee.Parent() == ev.fn {
							sub.parent = ev
						}
						typeBound := true
						for i, p := range callee.Params {
							t := ev.term(call.Call.Args[i])
							sub.par[p] = t
							argStrs = append(argStrs, an.str(t))
							if typeIs(p.Type(), pkgPath("internal/format"), "Type") && typSym != nil {
								// the helper's type switch is pruned by k only if it switches over the decoded type code
								if !(t.kind == 'i' && t.l.equal(*typSym)) {
									typeBound = false
								}
							}
						}
						sub.ctx = strings.Join(argStrs, ", ")
						subInfo := &typeSwitchInfo{}
						if typeBound {
							subInfo = typeSwitches(c, callee)
						}
						alts, _ := ev.exitAlts(ret.Block())
						for _, se := range exitsOf(sub, subInfo, sz) {
							for _, alt := range alts {
								ea := se
								ea.conds = append(append([]gAtom{}, alt.atoms...), se.conds...)
								if len(ea.final) == 0 {
									ea.final = alt.final
								}
								out = append(out, ea)
							}
						}
						continue
					}
				}
				// one entry per way of reaching the exit (exact), or one with the dominating conditions; values merged
				// at joins are read along that way
				alts, _ := ev.exitAlts(ret.Block())
				for _, alt := range alts {
					alt := alt
					ev.withBind(alt.bind, func() {
						ea := exit{ret: ret}
						last := ret.Results[len(ret.Results)-1]
						if phi, isPhi := last.(*ssa.Phi); isPhi {
							if b, bound := alt.bind[phi]; bound {
								last = b
							}
						}
						ea.ok = isNilConst(last)
						if sz >= 0 {
							ea.size = ev.term(ret.Results[sz])
						}
						ea.typ = ev.term(ret.Results[0])
						ea.conds, ea.final = alt.atoms, alt.final
						out = append(out, ea)
					})
				}
			}
			return out
		}
		dExits := exitsOf(dEnv, dInfo, dSize)
		pExits := exitsOf(pEnv, probeInfo, pSize)
		base := an.newFacts()
		base.add(gAtom{kind: 'g', l: typSym.addK(-k)})
		base.add(gAtom{kind: 'g', l: typSym.neg().addK(k)})
		base.add(gAtom{kind: 'g', l: lenB.addK(-1)}) // non-empty input (the empty input is R16.2's obligation)
		nD := 0
		var problemsA, problemsS []string
		var posA, posS token.Pos
		for _, de := range dExits {
			if !de.ok {
				continue
			}
			fd := base.clone()
			for _, a := range de.conds {
				fd.add(a)
			}
			fd.saturate()
			if fd.unsat() {
				continue // this exit is not taken for type k on a non-empty input
			}
			nD++
			okExit := false
			for _, pe := range pExits {
				g := fd.clone()
				final := pe.final
				for _, a := range pe.conds {
					g.add(a)
				}
				g.saturate()
				if g.unsat() {
					continue
				}
				if !pe.ok {
					var fs []string
					for _, a := range final {
						fs = append(fs, an.atomStr(a))
					}
					problemsA = append(problemsA, fmt.Sprintf("%s succeeds (exit at %s) but the probe can still take its error exit at %s, guarded by {%s}", d.Name(), c.pos(de.ret.Pos()), c.pos(pe.ret.Pos()), strings.Join(fs, "; ")))
					if posA == 0 {
						posA = pe.ret.Pos()
					}
					continue
				}
				okExit = true
				// same size, same type
				if de.size.kind != 'i' || pe.size.kind != 'i' {
					problemsS = append(problemsS, "size is not an integer expression")
					continue
				}
				diff := pe.size.l.sub(de.size.l)
				if !(g.holds(gAtom{kind: 'g', l: diff}) && g.holds(gAtom{kind: 'g', l: diff.neg()})) {
					problemsS = append(problemsS, fmt.Sprintf("probe size {%s} (exit at %s) is not provably equal to the size {%s} reported by %s (exit at %s)", an.str(pe.size), c.pos(pe.ret.Pos()), an.str(de.size), d.Name(), c.pos(de.ret.Pos())))
					if posS == 0 {
						posS = pe.ret.Pos()
					}
				}
				if pe.typ.kind == 'i' {
					td := pe.typ.l.addK(-k)
					if !(g.holds(gAtom{kind: 'g', l: td}) && g.holds(gAtom{kind: 'g', l: td.neg()})) {
						problemsS = append(problemsS, fmt.Sprintf("probe returns type {%s}, not %s", an.str(pe.typ), tn))
					}
				}
			}
			if !okExit {
				problemsA = append(problemsA, fmt.Sprintf("no success exit of the probe is reachable when %s succeeds (exit at %s)", d.Name(), c.pos(de.ret.Pos())))
			}
		}
		if nD == 0 {
			r.Unk(keyA, d.Pos(), "no success exit of %s is reachable for type %s on a non-empty input (decoder/dispatch mismatch or analysis imprecision)", d.Name(), tn)
			continue
		}
		// the converse, for the structural guards: where the probe accepts, the decoder does not reject on a guard
		// that only talks about lengths and byte counts (`end <= 0` instead of `end < 0` rejects the value that
		// exactly fills the input - the empty string as a list element or first field). Guards on the decoded value
		// (range checks of the narrower integer types, the string terminator) are the decoder's own and are skipped.
		structural := func(as []gAtom, probeSyms map[int]bool) bool {
			if len(as) == 0 {
				return false
			}
			for _, a := range as {
				hasLen := false
				for _, id := range a.l.vars() {
					n := an.g.name(id)
					switch {
					case n == "len(b)":
						hasLen = true
					case strings.Contains(n, "decodeType(") || probeSyms[id]:
						// the type byte's count, or a size / count the probe read itself from the same bytes
					default:
						return false
					}
				}
				if !hasLen {
					return false // a test of a byte count alone: different varint readers are related one way only
				}
			}
			return true
		}
		for _, pe := range pExits {
			if !pe.ok {
				continue
			}
			fp := base.clone()
			for _, a := range pe.conds {
				fp.add(a)
			}
			fp.saturate()
			if fp.unsat() {
				continue
			}
			probeSyms := map[int]bool{}
			for _, a := range pe.conds {
				for _, id := range a.l.vars() {
					probeSyms[id] = true
				}
			}
			for _, de := range dExits {
				if de.ok || !structural(de.final, probeSyms) {
					continue
				}
				g := fp.clone()
				for _, a := range de.conds {
					g.add(a)
				}
				g.saturate()
				if g.unsat() {
					continue
				}
				var fs []string
				for _, a := range de.final {
					fs = append(fs, an.atomStr(a))
				}
				problemsA = append(problemsA, fmt.Sprintf("the probe accepts (exit at %s) but %s can still take its error exit at %s, guarded by {%s}: a value that the size probe delimits is rejected by its decoder", c.pos(pe.ret.Pos()), d.Name(), c.pos(de.ret.Pos()), strings.Join(fs, "; ")))
				if posA == 0 {
					posA = de.ret.Pos()
				}
			}
		}
		if posA == 0 {
			posA = probe.Pos()
		}
		if posS == 0 {
			posS = probe.Pos()
		}
		if len(problemsA) == 0 {
			r.OK(keyA, posA, "every rejection guard of the probe's %s arm is refuted by the success condition of %s (%d success exits, %d probe exits)", tn, d.Name(), nD, len(pExits))
		} else {
			r.Bad(keyA, posA, "parser accepts, probe rejects: %s", strings.Join(problemsA, " | "))
		}
		if len(problemsS) == 0 {
			r.OK(keyS, posS, "probe and %s report the same size and the type %s", d.Name(), tn)
		} else {
			r.Bad(keyS, posS, "parser and probe delimit the value differently: %s", strings.Join(problemsS, " | "))
		}
	}
}

// tailCallOf: the call whose result tuple this return forwards unchanged (`return helper(...)`), or nil.
func tailCallOf(ret *ssa.Return) *ssa.Call {
	if len(ret.Results) == 0 {
		return nil
	}
	if len(ret.Results) == 1 {
		if c, ok := ret.Results[0].(*ssa.Call); ok && ret.Block() == c.Block() {
			return c
		}
		return nil
	}
	var call *ssa.Call
	for i, r := range ret.Results {
		ex, ok := r.(*ssa.Extract)
		if !ok || ex.Index != i {
			return nil
		}
		c, ok := ex.Tuple.(*ssa.Call)
		if !ok || (call != nil && c != call) {
			return nil
		}
		call = c
	}
	if call == nil || call.Block() != ret.Block() {
		return nil
	}
	if tup, ok := call.Type().(*types.Tuple); !ok || tup.Len() != len(ret.Results) {
		return nil
	}
	return call
}
