package main

import (
	"go/token"
	"go/types"

	"golang.org/x/tools/go/ssa"
)

// loopOrderOver: how function f walks the slice selected by isSlice: "asc" when a loop indexes it with an index that
// starts at 0, advances by one and runs while it is below len(slice); "desc" when the index starts at len(slice)-1,
// decreases by one and runs down to 0. Decided on the induction variable of the loop and linear terms, whatever the
// spelling: `for i := len(s)-1; i >= 0; i--  s[i]`,  `for i := len(s); i > 0; i--  s[i-1]`,  `for _, x := range s`.
func loopOrderOver(c *Ctx, f *ssa.Function, isSlice func(v ssa.Value) bool) string {
	if f == nil {
		return ""
	}
	e := newBE(c)
	order := ""
	allInstrs(f, func(i ssa.Instruction) {
		var sl, idx ssa.Value
		switch x := i.(type) {
		case *ssa.IndexAddr:
			sl, idx = x.X, x.Index
		case *ssa.Index:
			sl, idx = x.X, x.Index
		default:
			return
		}
		if !isSlice(sl) {
			return
		}
		// idx = phi + k
		k := int64(0)
		v := idx
		if b, ok := v.(*ssa.BinOp); ok && (b.Op == token.ADD || b.Op == token.SUB) {
			if kk, isK := constInt(b.Y); isK {
				if b.Op == token.SUB {
					kk = -kk
				}
				k, v = kk, b.X
			}
		}
		phi, ok := v.(*ssa.Phi)
		if !ok || !e.isLoopHeaderPhi(phi) || len(phi.Edges) != 2 {
			return
		}
		hdr := phi.Block()
		var init ssa.Value
		step := int64(0)
		for j, ed := range phi.Edges {
			if hdr.Dominates(hdr.Preds[j]) {
				if b, ok := ed.(*ssa.BinOp); ok && b.X == ssa.Value(phi) && (b.Op == token.ADD || b.Op == token.SUB) {
					if kk, isK := constInt(b.Y); isK {
						if b.Op == token.SUB {
							kk = -kk
						}
						step = kk
					}
				}
			} else {
				init = ed
			}
		}
		if init == nil || (step != 1 && step != -1) {
			return
		}
		ln := e.lenOf(sl, 'l')
		first := e.expand(init).addK(k)
		// a range loop advances before it uses the index: the first index used is init+step+k when the index is
		// the advanced value itself (idx == phi+1 with init == -1 gives 0 either way)
		switch {
		case step == 1 && first.equal(linConst(0)):
			order = "asc"
		case step == -1 && first.equal(ln.addK(-1)):
			// runs down to index 0: the guard keeps phi + k >= 0
			for _, blk := range f.Blocks {
				iff, ok := blk.Instrs[len(blk.Instrs)-1].(*ssa.If)
				if !ok {
					continue
				}
				cmp, ok := iff.Cond.(*ssa.BinOp)
				if !ok || cmp.X != ssa.Value(phi) {
					continue
				}
				c0, isK := constInt(cmp.Y)
				if !isK {
					continue
				}
				switch cmp.Op {
				case token.GEQ:
					if c0+k == 0 {
						order = "desc"
					}
				case token.GTR:
					if c0+1+k == 0 {
						order = "desc"
					}
				}
			}
		}
	})
	return order
}

func isNamedSliceParam(name string) func(v ssa.Value) bool {
	return func(v ssa.Value) bool {
		if _, ok := v.Type().Underlying().(*types.Slice); !ok {
			return false
		}
		for {
			switch x := v.(type) {
			case *ssa.Parameter:
				return x.Name() == name
			case *ssa.UnOp:
				if al, ok := x.X.(*ssa.Alloc); ok {
					return al.Comment == name
				}
				return false
			case *ssa.Call, *ssa.Extract:
				// fields := def.Struct.Fields.Values(): a local named so
				for _, u := range users(v) {
					if d, ok := u.(*ssa.DebugRef); ok {
						if id, ok := d.Expr.(interface{ String() string }); ok && id.String() == name {
							return true
						}
					}
				}
				return false
			default:
				return false
			}
		}
	}
}
