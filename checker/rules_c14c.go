package main

import (
	"fmt"
	"go/types"
	"strings"

	"golang.org/x/tools/go/ssa"
)

// R14.9 / R15.5: index and slice safety of the compiler front end. "The compiler never panics" and "any other text
// produces an error value, never a panic" include the run-time panics of slice expressions, index expressions,
// integer division and make() in the hand-written code of the parser (lexer), syntax tree, model, compiler and
// generator. Every such instruction is an obligation for the bounds engine (the same verifier as C02: dominating
// branch conditions, loop invariants for index variables, Fourier-Motzkin entailment). What the engine cannot
// prove from the code alone is listed in a table of reviewed sites, one reason each; an unproved site that is not
// in the table - strings.ToUpper(part[:1]) on a possibly empty part, s[1:len(s)-1] on a one-character token - is a
// violation naming the instruction.

func init() {
	register(&Rule{ID: "R14.9", Props: []string{"C14", "C15"}, Floor: 20,
		Doc: "index/slice/division safety of the hand-written compiler front end: every panic-capable indexing instruction is proved in range for all inputs, or is a reviewed site with a stated reason",
		Run: runR14_9})
}

// reviewed sites: key -> (properties, reason). Keys are function + kind + ordinal, not lines.
var r14Reviewed = map[string]string{
	"internal/lang/generator.toLowerCameCase/slice#1": "s is non-empty here: the function returns early for len(s)==0 and toUpperCamelCase maps a non-empty string to a non-empty one (each part keeps its length; a string made only of underscores keeps its leading underscore)",
	"internal/lang/generator.toLowerCameCase/slice#2": "same value as slice#1: s[1:] of a non-empty string",
}

// constArrayOp: index or slice of a fixed-size array with constant bounds (the packs go/ssa builds for variadic calls).
func constArrayOp(i ssa.Instruction) bool {
	isArr := func(v ssa.Value) bool {
		t := v.Type().Underlying()
		if p, ok := t.(*types.Pointer); ok {
			t = p.Elem().Underlying()
		}
		_, ok := t.(*types.Array)
		return ok
	}
	isK := func(v ssa.Value) bool {
		if v == nil {
			return true
		}
		_, ok := v.(*ssa.Const)
		return ok
	}
	switch x := i.(type) {
	case *ssa.IndexAddr:
		return isArr(x.X) && isK(x.Index)
	case *ssa.Index:
		return isArr(x.X) && isK(x.Index)
	case *ssa.Slice:
		return isArr(x.X) && isK(x.Low) && isK(x.High) && isK(x.Max)
	}
	return false
}

func runR14_9(c *Ctx, r *R) {
	e := newBE(c)
	e.stablePtrFields = true
	nFn, nOb := 0, 0
	for _, rel := range []string{"internal/lang/parser", "internal/lang/syntax", "internal/lang/model", "internal/lang/compiler", "internal/lang/generator", "internal/lang", "cmd/spec"} {
		props := []string{"C14"}
		if rel == "internal/lang/parser" {
			props = []string{"C15", "C14"}
		}
		sub := &R{c: c, rule: &Rule{ID: r.rule.ID, Props: props}}
		for _, fn := range c.SrcFuncs(rel) {
			pos := c.Fset.Position(fn.Pos())
			if strings.HasSuffix(pos.Filename, "grammar.go") {
				continue // goyacc output: its tables and driver are R15.2's obligation (byte-identical regeneration)
			}
			nFn++
			cnt := map[string]int{}
			for _, o := range e.verifyFunc(fn) {
				switch o.Kind {
				case "slice", "index", "div", "makeslice":
				default:
					continue
				}
				if o.OK && constArrayOp(o.At) {
					continue // constant index into a fixed-size array (variadic argument packs): no information
				}
				nOb++
				cnt[o.Kind]++
				key := fmt.Sprintf("%s/%s#%d", fnKey(fn), o.Kind, cnt[o.Kind])
				switch {
				case o.OK:
					sub.OK(key, instrPos(o.At), "%s", o.Desc)
				case r14Reviewed[key] != "":
					sub.OK(key, instrPos(o.At), "reviewed: %s (%s)", r14Reviewed[key], o.Desc)
				default:
					sub.Bad(key, instrPos(o.At), "%s: %s - a schema (or file name) for which the bound fails makes the compiler panic instead of reporting an error", o.Desc, o.Why)
				}
			}
		}
		r.n += sub.n
	}
	r.Note("%d functions, %d indexing obligations", nFn, nOb)
}
