package main

import (
	"fmt"
	"go/types"

	"golang.org/x/tools/go/ssa"
)

// R13.9: the recursive parser reports the size its decoder reported. types.ParseValue dispatches on the type code
// to a decoder of the whole input b and returns (b[len(b)-n:], n, nil) with n taken from that decoder. The module's
// decoders return (..., size int, err error): the size is the int result directly before the error - for
// DecodeStruct, which returns (dataSize, size, err), NOT the first int. On every feasible path to a successful
// return of ParseValue (pathwalk.go: the merged n is followed back along the path) n must be that result of a call
// whose first argument is ParseValue's own input. Taking another result (n, _, err = DecodeStruct(b)) makes the
// parser accept the value with a size the probe and OpenValue do not report, and return a slice that starts in the
// middle of the value.
func init() {
	register(&Rule{ID: "R13.9", Props: []string{"C13", "C01"}, Floor: 15,
		Doc: "types.ParseValue: on every successful path the reported size is the size result (the int before the error) of the decoder applied to the whole input",
		Run: runR13_9})
}

func runR13_9(c *Ctx, r *R) {
	f := r.Need("internal/types", "ParseValue")
	if f == nil {
		return
	}
	sizeIdx := func(sig *types.Signature) int {
		rs := sig.Results()
		for i := 1; i < rs.Len(); i++ {
			if isErrorType(rs.At(i).Type()) {
				if b, ok := rs.At(i-1).Type().Underlying().(*types.Basic); ok && b.Kind() == types.Int {
					return i - 1
				}
			}
		}
		// (type, n) helpers without an error: the last int
		for i := rs.Len() - 1; i >= 0; i-- {
			if b, ok := rs.At(i).Type().Underlying().(*types.Basic); ok && b.Kind() == types.Int {
				return i
			}
		}
		return -1
	}
	si := sizeIdx(f.Signature)
	if si < 0 || len(f.Params) == 0 {
		r.Unk(fnKey(f)+"/size", f.Pos(), "ParseValue has no size result")
		return
	}
	input := ssa.Value(f.Params[0])
	type site struct {
		callee string
		idx    int
	}
	seen := map[string]bool{}
	n := 0
	for _, ret := range returnsOf(f) {
		if len(ret.Results) <= si || ret.Block() == f.Recover {
			continue
		}
		paths, exact := enumBlockPaths(f, ret.Block(), 512)
		if !exact {
			r.Unk(fnKey(f)+"/size", ret.Pos(), "too many paths to this return")
			continue
		}
		for _, p := range paths {
			var sizeV, errV ssa.Value
			ok := walkPath(p, nil, func(ins ssa.Instruction, st *pwState) {
				if ins == ssa.Instruction(ret) {
					sizeV = st.resolve(ret.Results[si])
					errV = st.resolve(ret.Results[len(ret.Results)-1])
				}
			}, nil)
			if !ok || sizeV == nil {
				continue
			}
			// only successful returns
			if !isNilConst(errV) {
				if _, isTail := sizeV.(*ssa.Extract); !isTail || tailCallOf(ret) == nil {
					continue
				}
			}
			if call := tailCallOf(ret); call != nil {
				// `return helper(b, n, err)`: the size handed to the helper is judged (argument of int type)
				for i, a := range call.Call.Args {
					if b, ok := a.Type().Underlying().(*types.Basic); ok && b.Kind() == types.Int && i > 0 {
						st2 := a
						ok2 := walkPath(p, nil, func(ins ssa.Instruction, st *pwState) {
							if ins == ssa.Instruction(call) {
								st2 = st.resolve(a)
							}
						}, nil)
						if ok2 {
							sizeV = st2
						}
					}
				}
			}
			ex, isEx := sizeV.(*ssa.Extract)
			if !isEx {
				if k, isK := constInt(sizeV); isK && k == 0 {
					continue // the error exit `n, err = 0, fmt.Errorf(...)`
				}
				key := fmt.Sprintf("%s/size-of-decoder:%s", fnKey(f), sizeV.Name())
				if !seen[key] {
					seen[key] = true
					n++
					r.Bad(key, ret.Pos(), "on a successful path ParseValue reports a size (%s) that is not a result of a decoder call", sizeV.String())
				}
				continue
			}
			call, isCall := ex.Tuple.(*ssa.Call)
			if !isCall {
				continue
			}
			callee := c.calleeOf(&call.Call)
			name := "?"
			want := -1
			if callee != nil {
				name = fnKey(callee)
				want = sizeIdx(callee.Signature)
			}
			key := fmt.Sprintf("%s/size-of-decoder:%s", fnKey(f), name)
			if seen[key] {
				continue
			}
			seen[key] = true
			n++
			switch {
			case callee == nil:
				r.Unk(key, call.Pos(), "decoder call could not be resolved")
			case len(call.Call.Args) == 0 || call.Call.Args[0] != input:
				r.Bad(key, call.Pos(), "the size reported by ParseValue comes from %s applied to something other than ParseValue's whole input", callee.Name())
			case ex.Index != want:
				r.Bad(key, call.Pos(), "ParseValue reports result #%d of %s as the size of the value, its size is result #%d (the int before the error): the parser accepts the value with a size the probe does not report and returns a slice that does not start at the value's first byte", ex.Index, callee.Name(), want)
			default:
				r.OK(key, call.Pos(), "size = result #%d of %s(b)", want, callee.Name())
			}
		}
	}
	if n == 0 {
		r.Unk(fnKey(f)+"/size", f.Pos(), "no successful return found")
	}
}
