package main

import (
	"fmt"
	"go/token"
	"go/types"

	"golang.org/x/tools/go/ssa"
)

// R13.9: the recursive parser reports the size its decoder reported. types.ParseValue dispatches on the type code
// to a decoder of the whole input b and returns (b[len(b)-n:], n, nil) with n taken from that decoder. The module's
// decoders return (..., size int, err error): the size is the int result directly before the error - for
// DecodeStruct, which returns (dataSize, size, err), NOT the first int. On every feasible path to a successful
// return of ParseValue (pathwalk.go: the merged n is followed back along the path) n must be that result of a call
// whose first argument is ParseValue's own input. Taking another result (n, _, err = DecodeStruct(b)) makes the
// parser accept the value with a size the probe and OpenValue do not report, and return a slice that starts in the
// middle of the value.
func init() {
	register(&Rule{ID: "R13.9", Props: []string{"C13", "C01"}, Floor: 15,
		Doc: "types.ParseValue: on every successful path the reported size is the size result (the int before the error) of the decoder applied to the whole input",
		Run: runR13_9})
}

func runR13_9(c *Ctx, r *R) {
	f := r.Need("internal/types", "ParseValue")
	if f == nil {
		return
	}
	sizeIdx := func(sig *types.Signature) int {
		rs := sig.Results()
		for i := 1; i < rs.Len(); i++ {
			if isErrorType(rs.At(i).Type()) {
				if b, ok := rs.At(i - 1).Type().Underlying().(*types.Basic); ok && b.Kind() == types.Int {
					return i - 1
				}
			}
		}
		// (type, n) helpers without an error: the last int
		for i := rs.Len() - 1; i >= 0; i-- {
			if b, ok := rs.At(i).Type().Underlying().(*types.Basic); ok && b.Kind() == types.Int {
				return i
			}
		}
		return -1
	}
	si := sizeIdx(f.Signature)
	if si < 0 || len(f.Params) == 0 {
		r.Unk(fnKey(f)+"/size", f.Pos(), "ParseValue has no size result")
		return
	}
	seen := map[string]bool{}
	n := 0
	// judge: on every successful path of fn the int result #si is the size result of a decoder applied to `input`
	// (a parameter of fn). A dispatch helper of the package that is handed the input (parseLeaf(typ, n, b)) is
	// judged the same way on its own returns; a size that is a parameter of the helper is followed to the argument.
	var judge func(fn *ssa.Function, input ssa.Value, si int, bind map[*ssa.Parameter]ssa.Value, depth int)
	judgeValue := func(fn *ssa.Function, input ssa.Value, sizeV ssa.Value, at token.Pos, bind map[*ssa.Parameter]ssa.Value, depth int) {
		if p, isP := sizeV.(*ssa.Parameter); isP && bind != nil {
			if b, ok := bind[p]; ok {
				sizeV = b
				input = nil // judged in the caller's terms: the bound value is already resolved there
			}
		}
		ex, isEx := sizeV.(*ssa.Extract)
		if !isEx {
			if k, isK := constInt(sizeV); isK && k == 0 {
				return // the error exit `n, err = 0, fmt.Errorf(...)`
			}
			key := fmt.Sprintf("%s/size-of-decoder:%s", fnKey(f), sizeV.Name())
			if !seen[key] {
				seen[key] = true
				n++
				r.Bad(key, at, "on a successful path %s reports a size (%s) that is not a result of a decoder call", fn.Name(), sizeV.String())
			}
			return
		}
		call, isCall := ex.Tuple.(*ssa.Call)
		if !isCall {
			return
		}
		callee := c.calleeOf(&call.Call)
		if callee != nil && callee.Blocks != nil && callee.Pkg == fn.Pkg && !token.IsExported(callee.Name()) && depth < 3 && input != nil {
			// a dispatch helper that is handed the input
			for j, a := range call.Call.Args {
				if a == input && j < len(callee.Params) {
					b2 := map[*ssa.Parameter]ssa.Value{}
					for k2, a2 := range call.Call.Args {
						if k2 < len(callee.Params) && k2 != j {
							b2[callee.Params[k2]] = a2
						}
					}
					judge(callee, callee.Params[j], ex.Index, b2, depth+1)
					return
				}
			}
		}
		name := "?"
		want := -1
		if callee != nil {
			name = fnKey(callee)
			want = sizeIdx(callee.Signature)
		}
		key := fmt.Sprintf("%s/size-of-decoder:%s", fnKey(f), name)
		if seen[key] {
			return
		}
		seen[key] = true
		n++
		switch {
		case callee == nil:
			r.Unk(key, call.Pos(), "decoder call could not be resolved")
		case input != nil && (len(call.Call.Args) == 0 || call.Call.Args[0] != input):
			r.Bad(key, call.Pos(), "the size reported by %s comes from %s applied to something other than the parser's whole input", fn.Name(), callee.Name())
		case ex.Index != want:
			r.Bad(key, call.Pos(), "%s reports result #%d of %s as the size of the value, its size is result #%d (the int before the error): the parser accepts the value with a size the probe does not report and returns a slice that does not start at the value's first byte", fn.Name(), ex.Index, callee.Name(), want)
		default:
			r.OK(key, call.Pos(), "size = result #%d of %s(b)", want, callee.Name())
		}
	}
	judge = func(fn *ssa.Function, input ssa.Value, si int, bind map[*ssa.Parameter]ssa.Value, depth int) {
		for _, ret := range returnsOf(fn) {
			if len(ret.Results) <= si || ret.Block() == fn.Recover {
				continue
			}
			paths, exact := enumBlockPaths(fn, ret.Block(), 512)
			if !exact {
				r.Unk(fnKey(f)+"/size", ret.Pos(), "too many paths to a return of %s", fn.Name())
				continue
			}
			for _, p := range paths {
				var sizeV, errV ssa.Value
				tail := tailCallOf(ret)
				ok := walkPath(p, nil, func(ins ssa.Instruction, st *pwState) {
					if ins == ssa.Instruction(ret) {
						if tail == nil || sizeV == nil {
							sizeV = st.resolve(ret.Results[si])
						}
						errV = st.resolve(ret.Results[len(ret.Results)-1])
					}
					if tail != nil && ins == ssa.Instruction(tail) {
						// `return helper(b, n, err)`: the size handed to the helper is judged
						for i, a := range tail.Call.Args {
							if b, isB := a.Type().Underlying().(*types.Basic); isB && b.Kind() == types.Int && i > 0 {
								sizeV = st.resolve(a)
							}
						}
					}
				}, nil)
				if !ok || sizeV == nil {
					continue
				}
				if tail == nil && !isNilConst(errV) {
					// a return that forwards an error value: successful only where that value is nil; the size is
					// judged all the same when it is a call result (n, err := decoder(b); return n, err)
					if _, isEx := sizeV.(*ssa.Extract); !isEx {
						if _, isP := sizeV.(*ssa.Parameter); !isP {
							continue
						}
					}
					if knownNonNil(errV) {
						continue
					}
				}
				if tail != nil {
					if _, stillTuple := sizeV.(*ssa.Extract); stillTuple {
						if ex := sizeV.(*ssa.Extract); ex.Tuple == ssa.Value(tail) {
							continue // handled through the argument above only when one was found
						}
					}
				}
				judgeValue(fn, input, sizeV, ret.Pos(), bind, depth)
			}
		}
	}
	judge(f, ssa.Value(f.Params[0]), si, nil, 0)
	if n == 0 {
		r.Unk(fnKey(f)+"/size", f.Pos(), "no successful return found")
	}
}
