package main

import (
	"go/token"

	"golang.org/x/tools/go/ssa"
)

// roundRobinCoverage (R09.5): the probing loops of clientConns.roundRobin together visit as many indices as there
// are connections. Each counting loop contributes  bound - start  iterations (start/bound read off its induction
// variable); the sum over the loops that test Closed().IsSet() must be the linear expression len(c.conns) - the
// random start cancels:  (len - i) + (i - 0)  for the two-loop form,  len - 0  for a single wrapped loop. Dropping
// the wrap-around loop leaves len - i: a live connection before the random start is never found and the client
// redials (or fails) although a usable connection exists. Loops of a shape other than a counting loop are not
// decided (no report).
func roundRobinCoverage(c *Ctx, r *R, f *ssa.Function) {
	e := newBE(c)
	e.stablePtrFields = true
	key := fnKey(f) + "/probes-every-conn"
	var total *Lin
	nloops := 0
	for _, b := range f.Blocks {
		// header: a phi with a back edge
		for _, ins := range b.Instrs {
			phi, ok := ins.(*ssa.Phi)
			if !ok {
				break
			}
			if !isIntegerType(phi.Type()) || len(phi.Edges) != 2 || !e.isLoopHeaderPhi(phi) {
				continue
			}
			// which edge is the back edge
			back := -1
			for i, pr := range b.Preds {
				if b.Dominates(pr) {
					back = i
				}
			}
			if back < 0 {
				continue
			}
			init := phi.Edges[1-back]
			next, ok := phi.Edges[back].(*ssa.BinOp)
			if !ok || next.Op != token.ADD || next.X != ssa.Value(phi) {
				continue
			}
			if k, isK := constInt(next.Y); !isK || k != 1 {
				continue
			}
			// the loop body tests Closed().IsSet()?
			probes := false
			body := map[*ssa.BasicBlock]bool{}
			for blk := range reachableFrom(b) {
				if reachableFrom(blk)[b] {
					body[blk] = true
				}
			}
			body[b] = true
			for blk := range body {
				for _, j := range blk.Instrs {
					if call, ok := j.(*ssa.Call); ok && call.Call.IsInvoke() && call.Call.Method.Name() == "Closed" {
						probes = true
					}
				}
			}
			if !probes {
				continue
			}
			// the exit test: phi < bound (for ;;) or phi+1 < bound (range)
			var trips *Lin
			for blk := range body {
				iff, ok := blk.Instrs[len(blk.Instrs)-1].(*ssa.If)
				if !ok {
					continue
				}
				cmp, ok := iff.Cond.(*ssa.BinOp)
				if !ok || cmp.Op != token.LSS || !body[blk.Succs[0]] || body[blk.Succs[1]] {
					continue
				}
				switch {
				case cmp.X == ssa.Value(phi):
					t := e.expand(cmp.Y).sub(e.expand(init))
					trips = &t
				case cmp.X == ssa.Value(next) && blk.Succs[0] == b:
					// rotated loop (for j := range n): the test sits behind the body, the first iteration runs
					// with the start value under the guard start < bound
					t := e.expand(cmp.Y).sub(e.expand(init))
					trips = &t
				case cmp.X == ssa.Value(next):
					// range over a slice: the index is advanced, then tested, then used
					t := e.expand(cmp.Y).sub(e.expand(init).addK(1))
					trips = &t
				}
			}
			if trips == nil {
				r.OK(key, f.Pos(), "not decided: a probing loop is not a counting loop")
				return
			}
			nloops++
			if total == nil {
				total = trips
			} else {
				t := total.add(*trips)
				total = &t
			}
		}
	}
	if total == nil {
		r.OK(key, f.Pos(), "not decided: no counting loop probes the connections")
		return
	}
	// len(c.conns)
	var want *Lin
	for _, call := range callsIn(f, false) {
		cv, ok := call.(*ssa.Call)
		if !ok {
			continue
		}
		if bi, ok := cv.Call.Value.(*ssa.Builtin); ok && bi.Name() == "len" {
			l := e.expand(cv)
			want = &l
			if total.equal(l) {
				r.OK(key, f.Pos(), "%d probing loop(s) visit len(conns) indices in total", nloops)
				return
			}
		}
	}
	if want == nil {
		r.OK(key, f.Pos(), "not decided: no len(conns)")
		return
	}
	r.Bad(key, f.Pos(), "the probing loops visit %s indices, not all %s connections: a live connection outside the probed range is never found, the client dials again or fails although a usable connection exists", total.String(e.name), want.String(e.name))
}
