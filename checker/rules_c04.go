package main

import (
	"fmt"
	"go/constant"
	"go/token"
	"sort"
	"strings"

	"golang.org/x/tools/go/ssa"
)

func init() {
	props["C04"] = &propInfo{Level: "other", Explanation: "Decides structural necessary conditions of 'every RPC call gets its own handler run, result and status': (R04.1) one transport channel per call: client.channel obtains exactly one mpx channel and wraps it in a fresh call state, and Request/RequestOneway/Channel each go through it once; (R04.2) the user handler is invoked only from handleRequest, which HandleChannel calls exactly once outside any loop and which converts a handler panic into a status (deferred recover storing status.Recover into the named result); (R04.4) oneway: the response is skipped exactly on the CodeSkipResponse comparison and sent otherwise; (R04.5) status codes survive the wire: parseStatusCode is an identity switch (every case K returns K) and the default returns a clone of the input; the response builder writes st.Code and st.Message and the parser reads the same two accessors; (R04.7) an OK status leaves channel.Response only as the parsed response of this call: every possibly-OK status returned by Response originates from parseResult(msg.Resp()) directly or through the stash field resultSt, whose writers are parseResult and reset; failure fields (recvError) hold only non-OK values; (R04.8) a stashed response is retrievable: wherever resultSt is stashed, resultOK is set to the constant true in the same block, and Response clears it when it hands the result out; (R18.1) pooled call states are fully reset (no result, error or failure flag of a previous call survives); (R09.4) failing edges never return OK. Not decided: correlation under concurrency, stream ordering, exactly-once under failures (histories).",
		Trusted: []string{"status provenance lattice (see C11)", "one mpx channel carries one call (R04.1) and mpx delivers per-channel (C03)"}}

	register(&Rule{ID: "R04.1", Props: []string{"C04"}, Floor: 4,
		Doc: "one transport channel and one fresh call state per call",
		Run: runR04_1})
	register(&Rule{ID: "R04.2", Props: []string{"C04"}, Floor: 4,
		Doc: "handler invoked exactly once per request, under recover; oneway skips the response exactly on skip_response",
		Run: runR04_2})
	register(&Rule{ID: "R04.5", Props: []string{"C04"}, Floor: 19,
		Doc: "status codes survive the wire: identity switch in parseStatusCode, code/message pairing between builder and parser",
		Run: runR04_5})
	register(&Rule{ID: "R04.7", Props: []string{"C04"}, Floor: 6,
		Doc: "OK only from this call's response; stashed responses are retrievable",
		Run: runR04_7})
}

func callsTo(fn *ssa.Function, name string) []ssa.CallInstruction {
	var out []ssa.CallInstruction
	for _, call := range callsIn(fn, false) {
		if o := calleeObj(call); o != nil && (o.Name() == name || objName(o) == name) {
			out = append(out, call)
		}
	}
	return out
}

func inLoop(i ssa.Instruction) bool { return reachableFrom(i.Block())[i.Block()] }

func runR04_1(c *Ctx, r *R) {
	if f := r.Need("rpc", "client.channel"); f != nil {
		var chans []ssa.CallInstruction
		for _, call := range callsIn(f, false) {
			cc := call.Common()
			if cc.IsInvoke() && cc.Method.Name() == "Channel" && typeIs(cc.Value.Type(), pkgPath("mpx"), "Client") {
				chans = append(chans, call)
			}
		}
		news := callsTo(f, "newChannel")
		key := fnKey(f) + "/one-channel-per-call"
		switch {
		case len(chans) != 1 || inLoop(chans[0].(ssa.Instruction)):
			r.Bad(key, f.Pos(), "client.channel obtains %d transport channels (or does so in a loop); exactly one per call is required", len(chans))
		case len(news) != 1:
			r.Bad(key, f.Pos(), "client.channel wraps the transport channel in %d call states; exactly one fresh state per call is required", len(news))
		default:
			// the state wraps the channel just obtained
			arg := news[0].Common().Args[0]
			if ex, ok := arg.(*ssa.Extract); ok && ex.Tuple == ssa.Value(chans[0].(*ssa.Call)) {
				r.OK(key, f.Pos(), "one mpx channel, wrapped in one fresh call state")
			} else if singleStoreValue(arg) != arg || true {
				// captured by the deferred cleanup closure: accept a load of the variable assigned from the call
				v := singleStoreValue(arg)
				if ex, ok := v.(*ssa.Extract); ok && ex.Tuple == ssa.Value(chans[0].(*ssa.Call)) {
					r.OK(key, f.Pos(), "one mpx channel, wrapped in one fresh call state")
				} else {
					r.Bad(key, f.Pos(), "the call state does not wrap the transport channel obtained for this call")
				}
			}
		}
		// no caching: client.channel does not store the channel into the client
		stores := 0
		allInstrs(f, func(i ssa.Instruction) {
			if st, ok := i.(*ssa.Store); ok {
				if fa, ok := st.Addr.(*ssa.FieldAddr); ok && typeIs(fa.X.Type(), pkgPath("rpc"), "client") {
					stores++
				}
			}
		})
		r.Check(stores == 0, fnKey(f)+"/no-caching", f.Pos(), "no per-client caching of call channels", "client.channel stores into the client: calls could share a transport channel")
	}
	for _, m := range []string{"client.Request", "client.RequestOneway", "client.Channel"} {
		f := r.Need("rpc", m)
		if f == nil {
			continue
		}
		calls := callsTo(f, "client.channel")
		key := fnKey(f) + "/own-channel"
		if len(calls) == 1 && !inLoop(calls[0].(ssa.Instruction)) {
			r.OK(key, f.Pos(), "obtains its own call channel exactly once")
		} else {
			r.Bad(key, f.Pos(), "%s obtains %d call channels; every call must run on exactly one channel of its own", m, len(calls))
		}
	}
}

func runR04_2(c *Ctx, r *R) {
	// Handler.Handle only from handleRequest
	var callers []string
	for _, fn := range c.SrcFuncs("rpc") {
		pos := c.Fset.Position(fn.Pos())
		if strings.HasPrefix(baseName(pos.Filename), "test_") {
			continue
		}
		for _, call := range callsIn(fn, false) {
			cc := call.Common()
			if cc.IsInvoke() && cc.Method.Name() == "Handle" && typeIs(cc.Value.Type(), pkgPath("rpc"), "Handler") {
				callers = append(callers, fnKey(fn))
			}
		}
	}
	sort.Strings(callers)
	if len(callers) == 1 && callers[0] == "rpc.server.handleRequest" {
		r.OK("rpc.Handler.Handle/callers", 0, "invoked only from server.handleRequest")
	} else {
		r.Bad("rpc.Handler.Handle/callers", 0, "the user handler is invoked from %v; exactly one call site in server.handleRequest is required", callers)
	}
	if f := r.Need("rpc", "server.handleRequest"); f != nil {
		key := fnKey(f) + "/panic-to-status"
		good := false
		for _, call := range callsIn(f, false) {
			d, ok := call.(*ssa.Defer)
			if !ok {
				continue
			}
			cf := deferredFunc(d)
			if cf == nil {
				continue
			}
			hasRecover, storesStatus := false, false
			for _, c2 := range callsIn(cf, false) {
				if b, ok := c2.Common().Value.(*ssa.Builtin); ok && b.Name() == "recover" {
					hasRecover = true
				}
			}
			allInstrs(cf, func(i ssa.Instruction) {
				if st, ok := i.(*ssa.Store); ok && isStatusType(st.Val.Type()) {
					if call, ok := st.Val.(*ssa.Call); ok {
						if o := calleeObj(call); o != nil && o.Name() == "Recover" {
							storesStatus = true
						}
					}
				}
			})
			if hasRecover && storesStatus {
				good = true
			}
		}
		r.Check(good, key, f.Pos(), "a handler panic is recovered into the returned status", "a handler panic is not converted into the call's status: the client would see a lost connection or another call's data instead of an error for this call")
	}
	if f := r.Need("rpc", "server.HandleChannel"); f != nil {
		hr := callsTo(f, "server.handleRequest")
		key := fnKey(f) + "/handler-once"
		if len(hr) == 1 && !inLoop(hr[0].(ssa.Instruction)) {
			r.OK(key, hr[0].Pos(), "handleRequest called exactly once, outside any loop")
		} else {
			r.Bad(key, f.Pos(), "HandleChannel calls handleRequest %d times (or in a loop)", len(hr))
		}
		// oneway
		var skipConst string
		if p := c.Pkg("rpc"); p != nil {
			if k := p.Types.Scope().Lookup("CodeSkipResponse"); k != nil {
				if kc, ok := k.(interface{ Val() constant.Value }); ok {
					skipConst = constant.StringVal(kc.Val())
				}
			}
		}
		sends := callsTo(f, "serverChannel.SendResponse")
		key2 := fnKey(f) + "/oneway"
		if len(sends) != 1 {
			r.Bad(key2, f.Pos(), "expected exactly one SendResponse call, found %d", len(sends))
		} else {
			// SendResponse must be on the false edge of  st.Code == CodeSkipResponse
			guarded := false
			for _, cd := range pathConds(sends[0].Block()) {
				if b, ok := cd.V.(*ssa.BinOp); ok && b.Op == token.EQL && !cd.Truth {
					for _, side := range []ssa.Value{b.X, b.Y} {
						if k, ok := side.(*ssa.Const); ok && k.Value != nil && k.Value.Kind() == constant.String && constant.StringVal(k.Value) == skipConst && skipConst != "" {
							guarded = true
						}
					}
				}
			}
			// and the response carries the handler's status (the value returned by handleRequest)
			carries := false
			if len(hr) == 1 {
				args := sends[0].Common().Args
				last := args[len(args)-1]
				if ex, ok := singleStoreValue(unspill(last)).(*ssa.Extract); ok && ex.Tuple == ssa.Value(hr[0].(*ssa.Call)) {
					carries = true
				}
				if ld, ok := last.(*ssa.UnOp); ok && ld.Op == token.MUL {
					// named result variable st: stored from handleRequest's status
					if al, ok := ld.X.(*ssa.Alloc); ok {
						for _, u := range users(al) {
							if st, ok := u.(*ssa.Store); ok {
								if ex, ok := st.Val.(*ssa.Extract); ok && ex.Tuple == ssa.Value(hr[0].(*ssa.Call)) && dominatesInstr(st, sends[0].(ssa.Instruction)) {
									carries = true
								}
							}
						}
					}
				}
			}
			// "exactly": no other status code may suppress the response
			other := ""
			for _, cd := range pathConds(sends[0].Block()) {
				if b, ok := cd.V.(*ssa.BinOp); ok && (b.Op == token.EQL || b.Op == token.NEQ) {
					x, y := b.X, b.Y
					if _, isK := x.(*ssa.Const); isK {
						x, y = y, x
					}
					if k, ok := y.(*ssa.Const); ok && k.Value != nil && k.Value.Kind() == constant.String && typeIs(x.Type(), statusPath, "Code") {
						if v := constant.StringVal(k.Value); v != skipConst {
							other = v
						}
					}
				}
			}
			switch {
			case other != "":
				r.Bad(key2, sends[0].Pos(), "the response is also withheld when the handler's status code is %q: the caller of a normal request never receives the status its handler produced", other)
			case !guarded:
				r.Bad(key2, sends[0].Pos(), "the response is not conditioned on st.Code != CodeSkipResponse: a oneway request would receive a response (or a normal request none)")
			case !carries:
				r.Bad(key2, sends[0].Pos(), "the response does not carry the status returned by this call's handler invocation")
			default:
				r.OK(key2, sends[0].Pos(), "response sent with the handler's status unless the handler returned skip_response")
			}
		}
	}
}

func runR04_5(c *Ctx, r *R) {
	f := r.Need("rpc", "parseStatusCode")
	if f == nil {
		return
	}
	n := 0
	for _, ret := range returnsOf(f) {
		if len(ret.Results) != 1 {
			continue
		}
		k, ok := ret.Results[0].(*ssa.Const)
		if !ok || k.Value == nil || k.Value.Kind() != constant.String {
			// a lookup in an identity table keyed by the received text, returned only when the key was found
			if entries, isTable := identityTableLookup(c, f, ret); isTable {
				for _, e := range entries {
					n++
					key := fmt.Sprintf("%s/case:%q", fnKey(f), e.key)
					if e.key == e.val {
						r.OK(key, ret.Pos(), "table entry maps the code to itself")
					} else {
						r.Bad(key, ret.Pos(), "the code table of parseStatusCode maps %q to %q: the caller observes another status code than the server sent", e.key, e.val)
					}
				}
				continue
			}
			// default: a clone of the input
			key := fnKey(f) + "/default"
			isClone := false
			v := ret.Results[0]
			if cv, ok := v.(*ssa.Convert); ok {
				v = cv.X
			}
			if cv, ok := v.(*ssa.ChangeType); ok {
				v = cv.X
			}
			if call, ok := v.(*ssa.Call); ok {
				if o := calleeObj(call); o != nil && o.Name() == "Clone" && len(call.Call.Args) > 0 && call.Call.Args[0] == ssa.Value(f.Params[0]) {
					isClone = true
				}
			}
			r.Check(isClone, key, ret.Pos(), "unknown (application-defined) codes are returned as a clone of the received text", "the default arm does not return the received code text: application-defined status codes are altered on the wire")
			continue
		}
		n++
		val := constant.StringVal(k.Value)
		key := fmt.Sprintf("%s/case:%q", fnKey(f), val)
		match := false
		for _, cd := range pathConds(ret.Block()) {
			if b, ok := cd.V.(*ssa.BinOp); ok && b.Op == token.EQL && cd.Truth {
				for _, side := range []ssa.Value{b.X, b.Y} {
					if kk, ok := side.(*ssa.Const); ok && kk.Value != nil && kk.Value.Kind() == constant.String && constant.StringVal(kk.Value) == val {
						match = true
					}
				}
			}
		}
		if match {
			r.OK(key, ret.Pos(), "case label and returned code are the same constant")
		} else {
			r.Bad(key, ret.Pos(), "a case of parseStatusCode returns %q for a different received code: the caller observes another status code than the server sent", val)
		}
	}
	// pairing: buildResponse writes Code and Message from st; parseStatus reads Code() and Message()
	if g := r.Need("rpc", "builder.buildResponse"); g != nil {
		var st ssa.Value
		for _, p := range g.Params {
			if isStatusType(p.Type()) {
				st = p
			}
		}
		wrote := map[string]string{}
		for _, call := range callsIn(g, false) {
			o := calleeObj(call)
			if o == nil || !strings.HasSuffix(objName(o), "StatusWriter.Code") && !strings.HasSuffix(objName(o), "StatusWriter.Message") {
				continue
			}
			args := call.Common().Args
			src := ""
			v := args[len(args)-1]
			if cv, ok := v.(*ssa.Convert); ok {
				v = cv.X
			}
			if cv, ok := v.(*ssa.ChangeType); ok {
				v = cv.X
			}
			if fl, ok := v.(*ssa.Field); ok && fl.X == st {
				src = fieldOf(fl).Name()
			}
			if ld, ok := v.(*ssa.UnOp); ok {
				src = strings.TrimPrefix(valueSource(ld), ".")
			}
			wrote[o.Name()] = src
		}
		key := fnKey(g) + "/status-fields"
		if wrote["Code"] == "Code" && wrote["Message"] == "Message" {
			r.OK(key, g.Pos(), "response carries st.Code as code and st.Message as message")
		} else {
			r.Bad(key, g.Pos(), "the response status is not built from st.Code / st.Message (code<-%q, message<-%q)", wrote["Code"], wrote["Message"])
		}
	}
	if g := r.Need("rpc", "parseStatus"); g != nil {
		// the status returned is status.New(code, msg): code must derive (through helpers, clones, conversions,
		// phis) from the Code() accessor of the received status and from nothing else of it, msg from Message()
		var param ssa.Value
		if len(g.Params) > 0 {
			param = g.Params[0]
		}
		var accessors func(v ssa.Value, depth int, seen map[ssa.Value]bool, out map[string]bool)
		accessors = func(v ssa.Value, depth int, seen map[ssa.Value]bool, out map[string]bool) {
			if v == nil || depth > 10 || seen[v] {
				return
			}
			seen[v] = true
			switch x := v.(type) {
			case *ssa.Call:
				if o := calleeObj(x); o != nil && len(x.Call.Args) > 0 && x.Call.Args[0] == param && (o.Name() == "Code" || o.Name() == "Message") {
					out[o.Name()] = true
					return
				}
				if x.Call.IsInvoke() {
					accessors(x.Call.Value, depth+1, seen, out)
				}
				for _, a := range x.Call.Args {
					accessors(a, depth+1, seen, out)
				}
			case *ssa.Phi:
				for _, e := range x.Edges {
					accessors(e, depth+1, seen, out)
				}
			case *ssa.Extract:
				accessors(x.Tuple, depth+1, seen, out)
			case *ssa.Convert:
				accessors(x.X, depth+1, seen, out)
			case *ssa.ChangeType:
				accessors(x.X, depth+1, seen, out)
			case *ssa.UnOp:
				accessors(unspill(x), depth+1, seen, out)
				if al, ok := x.X.(*ssa.Alloc); ok {
					for _, u := range users(al) {
						if st, ok := u.(*ssa.Store); ok && st.Addr == ssa.Value(al) {
							accessors(st.Val, depth+1, seen, out)
						}
					}
				}
			}
		}
		key := fnKey(g) + "/status-fields"
		var ctor *ssa.Call
		for _, ret := range returnsOf(g) {
			if len(ret.Results) == 1 {
				if cv, ok := ret.Results[0].(*ssa.Call); ok {
					if o := calleeObj(cv); o != nil && o.Name() == "New" && len(cv.Call.Args) == 2 {
						ctor = cv
					}
				}
			}
		}
		if ctor == nil {
			r.Unk(key, g.Pos(), "parseStatus does not return status.New(code, message)")
		} else {
			cs, ms := map[string]bool{}, map[string]bool{}
			accessors(ctor.Call.Args[0], 0, map[ssa.Value]bool{}, cs)
			accessors(ctor.Call.Args[1], 0, map[ssa.Value]bool{}, ms)
			if len(cs) == 1 && cs["Code"] && len(ms) == 1 && ms["Message"] {
				r.OK(key, g.Pos(), "code derives from Code() only, message from Message() only")
			} else {
				r.Bad(key, g.Pos(), "parseStatus does not build the status from Code() as code and Message() as message (code <- %v, message <- %v): the caller sees another code or message than the handler produced", sortedKeys(cs), sortedKeys(ms))
			}
		}
	}
}

// okOrigins lists where a possibly-OK status value comes from.
// calleeOrigins: a status returned by a helper of package rpc has the origins of what the helper returns (moving the
// "take the stashed result" block into a method must not change the verdict). parseResult is the one designated
// origin and is not looked into.
func calleeOrigins(sa *statusAn, c *Ctx, call *ssa.Call, idx int, depth int, seen map[ssa.Value]bool) ([]string, bool) {
	cal := call.Call.StaticCallee()
	if cal == nil || cal.Blocks == nil || cal.Pkg == nil || relPkg(cal.Pkg.Pkg.Path()) != "rpc" || cal.Name() == "parseResult" || depth > 6 {
		return nil, false
	}
	var out []string
	for _, ret := range returnsOf(cal) {
		if ret.Block() == cal.Recover || idx >= len(ret.Results) {
			continue
		}
		out = append(out, okOrigins(sa, c, ret.Results[idx], ret.Block(), depth+1, seen)...)
	}
	return out, true
}

func okOrigins(sa *statusAn, c *Ctx, v ssa.Value, b *ssa.BasicBlock, depth int, seen map[ssa.Value]bool) []string {
	if depth > 8 || seen[v] {
		return nil
	}
	seen[v] = true
	v = unspill(v)
	if sa.classOf(v, b, false, 0) == SNonOK {
		return nil
	}
	switch x := v.(type) {
	case *ssa.Parameter:
		// values flowing in through a parameter of an unexported function: look at the call sites in the package
		fn := x.Parent()
		if fn != nil && !token.IsExported(fn.Name()) {
			var out []string
			found := false
			for _, g2 := range c.SrcFuncs("rpc") {
				for _, call := range callsIn(g2, false) {
					if call.Common().StaticCallee() == fn {
						for k, prm := range fn.Params {
							if prm == x && k < len(call.Common().Args) {
								found = true
								out = append(out, okOrigins(sa, c, call.Common().Args[k], call.Block(), depth+1, seen)...)
							}
						}
					}
				}
			}
			if found {
				return out
			}
		}
	case *ssa.Phi:
		var out []string
		for i, e := range x.Edges {
			if ec, ok := sa.edgeClass(e, x.Block().Preds[i], x.Block()); ok && ec == SNonOK {
				continue
			}
			out = append(out, okOrigins(sa, c, e, x.Block().Preds[i], depth+1, seen)...)
		}
		return out
	case *ssa.Extract:
		if call, ok := x.Tuple.(*ssa.Call); ok {
			if out, ok := calleeOrigins(sa, c, call, x.Index, depth, seen); ok {
				return out
			}
			if o := calleeObj(call); o != nil {
				return []string{"call:" + o.Name()}
			}
		}
	case *ssa.Call:
		if out, ok := calleeOrigins(sa, c, x, 0, depth, seen); ok {
			return out
		}
		if o := calleeObj(x); o != nil {
			return []string{"call:" + o.Name()}
		}
	case *ssa.UnOp:
		if x.Op == token.MUL {
			if g, ok := x.X.(*ssa.Global); ok {
				return []string{"const:" + g.Name()}
			}
			if fa, ok := x.X.(*ssa.FieldAddr); ok {
				// field of a pooled state: origins of everything stored into that field in the package
				fld := fieldOf(fa)
				var out []string
				for _, fn := range c.SrcFuncs("rpc") {
					allInstrs(fn, func(i ssa.Instruction) {
						st, ok := i.(*ssa.Store)
						if !ok {
							return
						}
						if fa2, ok := st.Addr.(*ssa.FieldAddr); ok && fieldOf(fa2) == fld {
							val := st.Val
							if p, ok := val.(*ssa.Parameter); ok {
								// values flowing in through a parameter: look at the call sites
								for _, g2 := range c.SrcFuncs("rpc") {
									for _, call := range callsIn(g2, false) {
										if call.Common().StaticCallee() == fn {
											for k, prm := range fn.Params {
												if prm == p && k < len(call.Common().Args) {
													out = append(out, okOrigins(sa, c, call.Common().Args[k], call.Block(), depth+1, seen)...)
												}
											}
										}
									}
								}
								return
							}
							out = append(out, okOrigins(sa, c, val, st.Block(), depth+1, seen)...)
						}
					})
				}
				return out
			}
			if al, ok := x.X.(*ssa.Alloc); ok {
				var out []string
				for _, u := range users(al) {
					if st, ok := u.(*ssa.Store); ok && st.Addr == ssa.Value(al) {
						out = append(out, okOrigins(sa, c, st.Val, st.Block(), depth+1, seen)...)
					}
				}
				return out
			}
		}
	}
	return []string{"unknown:" + v.Name()}
}

func runR04_7(c *Ctx, r *R) {
	sa := newStatusAn(c)
	if f := r.Need("rpc", "channel.Response"); f != nil {
		n := 0
		for _, ret := range returnsOf(f) {
			if ret.Block() == f.Recover || len(ret.Results) != 2 {
				continue
			}
			n++
			key := fmt.Sprintf("%s/return#%d", fnKey(f), n)
			orig := uniq(okOrigins(sa, c, ret.Results[1], ret.Block(), 0, map[ssa.Value]bool{}))
			var bad []string
			for _, o := range orig {
				if o != "call:parseResult" {
					bad = append(bad, o)
				}
			}
			switch {
			case len(orig) == 0:
				r.OK(key, ret.Pos(), "non-OK status")
			case len(bad) == 0:
				r.OK(key, ret.Pos(), "a possibly-OK status originates only from parseResult(msg.Resp()) of this call")
			default:
				r.Bad(key, ret.Pos(), "Response can return a possibly-OK status that does not come from this call's parsed response (origins: %v): the caller observes success although the server did not send it for this call", bad)
			}
		}
		if n < 4 {
			r.Unk(fnKey(f)+"/returns", f.Pos(), "expected at least 4 returns, found %d", n)
		}
	}
	// failure field holds only non-OK values
	for _, fn := range c.SrcFuncs("rpc") {
		k := 0
		allInstrs(fn, func(i ssa.Instruction) {
			st, ok := i.(*ssa.Store)
			if !ok {
				return
			}
			fa, ok := st.Addr.(*ssa.FieldAddr)
			if !ok || fieldOf(fa).Name() != "recvError" {
				return
			}
			k++
			key := fmt.Sprintf("%s/recvError=#%d", fnKey(fn), k)
			orig := uniq(okOrigins(sa, c, st.Val, st.Block(), 0, map[ssa.Value]bool{}))
			if len(orig) == 0 {
				r.OK(key, st.Pos(), "only non-OK values are recorded as the call's failure")
			} else {
				r.Bad(key, st.Pos(), "a possibly-OK status (%v) is recorded as the sticky failure of a call", orig)
			}
		})
	}
	// stash consistency
	for _, fn := range c.SrcFuncs("rpc") {
		k := 0
		allInstrs(fn, func(i ssa.Instruction) {
			st, ok := i.(*ssa.Store)
			if !ok {
				return
			}
			fa, ok := st.Addr.(*ssa.FieldAddr)
			if !ok || fieldOf(fa).Name() != "resultSt" || !typeIs(fa.X.Type(), pkgPath("rpc"), "channelState") {
				return
			}
			if fn.Name() == "reset" {
				return
			}
			k++
			key := fmt.Sprintf("%s/stash#%d", fnKey(fn), k)
			good := false
			for _, j := range st.Block().Instrs {
				if s2, ok := j.(*ssa.Store); ok {
					if fa2, ok := s2.Addr.(*ssa.FieldAddr); ok && fieldOf(fa2).Name() == "resultOK" {
						if kk, ok := s2.Val.(*ssa.Const); ok && kk.Value != nil && kk.Value.String() == "true" {
							good = true
						}
					}
				}
			}
			if good {
				r.OK(key, st.Pos(), "stashed response marked retrievable (resultOK = true) together with its status")
			} else {
				r.Bad(key, st.Pos(), "a response is stashed without marking it retrievable with the constant true: a later Response() reports 'response already received' and the handler's status and result are lost")
			}
		})
	}
}
