package main

import (
	"golang.org/x/tools/go/ssa"
)

// appendedByHelper: the number of bytes a helper that returns no size appends to the buffer it is handed as its
// first parameter, as an expression of the call's arguments. Decided only for helpers whose every modification of
// the buffer is a Grow that executes on every path to every return and whose argument is an expression of the
// helper's parameters; anything else (nested encoders, conditional growth) is not summarised.
func appendedByHelper(e *BE, fc *fnCtx, cal *ssa.Function, args []ssa.Value) (Lin, bool) {
	if cal == nil || cal.Blocks == nil || len(cal.Params) == 0 || len(args) != len(cal.Params) {
		return Lin{}, false
	}
	buf := ssa.Value(cal.Params[0])
	sum := linConst(0)
	tmp := &solveState{fc: fc, sigma: map[ssa.Value]ssa.Value{}}
	for i, p := range cal.Params {
		tmp.sigma[p] = args[i]
	}
	rets := returnsOf(cal)
	for _, call := range callsIn(cal, true) {
		cc := call.Common()
		uses := cc.Value == buf
		for _, a := range cc.Args {
			if a == buf {
				uses = true
			}
		}
		if !uses {
			continue
		}
		if !cc.IsInvoke() || cc.Value != buf {
			return Lin{}, false // the buffer travels on
		}
		switch cc.Method.Name() {
		case "Len", "Bytes":
			continue
		case "Grow":
		default:
			return Lin{}, false
		}
		ci, ok := call.(*ssa.Call)
		if !ok {
			return Lin{}, false
		}
		for _, ret := range rets {
			if !dominatesInstr(ci, ret) {
				return Lin{}, false
			}
		}
		l := tmp.substLin(e.expand(cc.Args[0]))
		for _, id := range l.vars() {
			if v := e.keys[id].root; v != nil {
				if in, ok := v.(interface{ Parent() *ssa.Function }); ok && in.Parent() == cal {
					return Lin{}, false
				}
			}
		}
		sum = sum.add(l)
	}
	// the buffer must not escape through a closure or a store either
	for _, u := range users(buf) {
		switch u.(type) {
		case ssa.CallInstruction, *ssa.DebugRef:
		default:
			return Lin{}, false
		}
	}
	return sum, true
}
