package main

import (
	"fmt"
	"go/ast"
	"go/token"
	"go/types"
	"sort"
	"strings"

	"golang.org/x/tools/go/ssa"
)

// R18.3: no use after release. Once a function has (possibly) handed an object back to its pool - directly
// through pools.Pool.Put(x) or through a helper that may do so with that argument - the object belongs to
// whoever acquires it next, possibly on another goroutine. Any later access of its memory by the releasing
// function is an unsynchronised access to a recycled object.
//
// Release summaries are path-sensitive in a small fragment: every release entry carries a necessary condition
// (DNF over nil tests and boolean loads of access paths rooted at parameters: "p1 == nil",
// "p0.writerState.releaseWriter"); a call site whose dominating conditions refute every disjunct does not release.

func init() {
	register(&Rule{ID: "R18.3", Props: []string{"C18", "C08"}, Floor: 15,
		Doc: "no use after release: after a call that may return an object to its pool (pools.Pool.Put, transitively through helpers that pass the same argument on, under the helper's own nil/flag guards), the function does not touch that object again (field address, load, store, call argument, pending defer) on any path",
		Run: runR18_3})
}

// relAtom: access path Path (rooted at "p<i>" in a summary, at an SSA value name in a caller) is nil / true (Val)
// or non-nil / false (!Val).
type relAtom struct {
	Path  string
	IsNil bool // nil test (else boolean load)
	Val   bool
	fld   *types.Var // last field of the path (nil for a bare root)
	// pre: fields that may be stored between the entry of the summarised function and the evaluation of this
	// test (a caller-side fact about the same path is only usable if its field is not in here)
	pre map[*types.Var]bool
}

func (a relAtom) String() string {
	op := "=="
	if !a.Val {
		op = "!="
	}
	if a.IsNil {
		return a.Path + op + "nil"
	}
	if a.Val {
		return a.Path
	}
	return "!" + a.Path
}

type relDNF [][]relAtom // nil or empty outer slice = false; one empty conjunct = true

func dnfTrue() relDNF { return relDNF{{}} }

func (d relDNF) isTrue() bool {
	for _, c := range d {
		if len(c) == 0 {
			return true
		}
	}
	return false
}

func (d relDNF) String() string {
	var ds []string
	for _, c := range d {
		var as []string
		for _, a := range c {
			as = append(as, a.String())
		}
		sort.Strings(as)
		ds = append(ds, strings.Join(as, " && "))
	}
	sort.Strings(ds)
	return strings.Join(ds, " || ")
}

const dnfCap = 24

func dnfOr(a, b relDNF) relDNF {
	if a.isTrue() || b.isTrue() {
		return dnfTrue()
	}
	seen := map[string]bool{}
	var out relDNF
	for _, c := range append(append(relDNF{}, a...), b...) {
		k := relDNF{c}.String()
		if !seen[k] {
			seen[k] = true
			out = append(out, c)
		}
	}
	if len(out) > dnfCap {
		return dnfTrue()
	}
	return out
}

func dnfAnd(a, b relDNF) relDNF {
	var out relDNF
	for _, x := range a {
	next:
		for _, y := range b {
			c := append([]relAtom{}, x...)
			for _, a := range y {
				dup := false
				for _, o := range c {
					if o.String() == a.String() {
						dup = true // the earlier evaluation of the same test is the stronger fact (smaller pre-region)
					}
				}
				if !dup {
					c = append(c, a)
				}
			}
			// contradictory conjunct: drop
			for i := range c {
				for j := i + 1; j < len(c); j++ {
					if c[i].Path == c[j].Path && c[i].IsNil == c[j].IsNil && c[i].Val != c[j].Val {
						continue next
					}
				}
			}
			out = append(out, c)
		}
	}
	if len(out) > dnfCap {
		return dnfTrue()
	}
	return out
}

// accessPath names v as a path of field loads rooted at a parameter of fn ("p0.writerState.releaseState") when
// params is true, else rooted at the SSA value name.
func accessPath(fn *ssa.Function, v ssa.Value, params bool) (string, *types.Var) {
	switch x := v.(type) {
	case *ssa.Parameter:
		if params {
			if i := paramIndex(fn, x); i >= 0 {
				return fmt.Sprintf("p%d", i), nil
			}
			return "", nil
		}
		return "v:" + x.Name(), nil
	case *ssa.UnOp:
		if x.Op != token.MUL {
			break
		}
		if fa, ok := x.X.(*ssa.FieldAddr); ok {
			if base, _ := accessPath(fn, fa.X, params); base != "" {
				return base + "." + fieldOf(fa).Name(), fieldOf(fa)
			}
			return "", nil
		}
	}
	if !params && v != nil {
		if _, isConst := v.(*ssa.Const); !isConst {
			return "v:" + v.Name(), nil
		}
	}
	return "", nil
}

// atomsOf turns a branch condition with a truth value into atoms (unknown conditions give no atom = true).
func atomsOf(fn *ssa.Function, cd Cond, params bool) []relAtom {
	if u, ok := cd.V.(*ssa.UnOp); ok && u.Op == token.NOT {
		return atomsOf(fn, Cond{u.X, !cd.Truth}, params)
	}
	if p, f := accessPath(fn, cd.V, params); p != "" && f != nil {
		if b, ok := cd.V.Type().Underlying().(*types.Basic); ok && b.Info()&types.IsBoolean != 0 {
			return []relAtom{{Path: p, Val: cd.Truth, fld: f}}
		}
	}
	var out []relAtom
	for _, rel := range relsOf(cd) {
		x, y := rel.X, rel.Y
		if isNilConst(x) {
			x, y = y, x
		}
		if !isNilConst(y) || (rel.Op != token.EQL && rel.Op != token.NEQ) {
			continue
		}
		if p, f := accessPath(fn, x, params); p != "" {
			out = append(out, relAtom{Path: p, IsNil: true, Val: rel.Op == token.EQL, fld: f})
		}
	}
	return out
}

// predSum: conditions (DNF over parameter-rooted atoms) under which a pure boolean helper returns true / false
// (func (w *writer) autoRelease() bool { return w.releaseState || w.releaseWriter }).
type predSum struct {
	t, f relDNF
	ok   bool
}

func (ra *relAn) predOf(g *ssa.Function) *predSum {
	if ps, ok := ra.preds[g]; ok {
		return ps
	}
	ps := &predSum{}
	ra.preds[g] = ps
	if g == nil || g.Blocks == nil || g.Signature.Results().Len() != 1 {
		return ps
	}
	if b, isB := g.Signature.Results().At(0).Type().Underlying().(*types.Basic); !isB || b.Kind() != types.Bool {
		return ps
	}
	pure := true
	allInstrs(g, func(i ssa.Instruction) {
		switch i.(type) {
		case *ssa.Store, ssa.CallInstruction, *ssa.MapUpdate, *ssa.Send:
			pure = false
		}
	})
	if !pure {
		return ps
	}
	good := true
	nPaths := 0
	var walk func(b, from *ssa.BasicBlock, conj []relAtom, depth int)
	walk = func(b, from *ssa.BasicBlock, conj []relAtom, depth int) {
		if depth > 32 || nPaths > 32 {
			good = false
			return
		}
		switch x := b.Instrs[len(b.Instrs)-1].(type) {
		case *ssa.Return:
			nPaths++
			v := x.Results[0]
			if phi, ok := v.(*ssa.Phi); ok && phi.Block() == b && from != nil {
				for j, p := range b.Preds {
					if p == from {
						v = phi.Edges[j]
					}
				}
			}
			if k, ok := v.(*ssa.Const); ok && k.Value != nil {
				if k.Value.String() == "true" {
					ps.t = append(ps.t, append([]relAtom{}, conj...))
				} else {
					ps.f = append(ps.f, append([]relAtom{}, conj...))
				}
				return
			}
			at := atomsOf(g, Cond{v, true}, true)
			af := atomsOf(g, Cond{v, false}, true)
			if len(at) == 0 || len(af) == 0 {
				good = false
				return
			}
			ps.t = append(ps.t, append(append([]relAtom{}, conj...), at...))
			ps.f = append(ps.f, append(append([]relAtom{}, conj...), af...))
		case *ssa.If:
			for k, s := range b.Succs {
				as := atomsOf(g, Cond{x.Cond, k == 0}, true)
				if len(as) == 0 {
					good = false
					return
				}
				walk(s, b, append(append([]relAtom{}, conj...), as...), depth+1)
			}
		case *ssa.Jump:
			walk(b.Succs[0], b, conj, depth+1)
		default:
			good = false
		}
	}
	walk(g.Blocks[0], nil, nil, 0)
	ps.ok = good && (len(ps.t) > 0 || len(ps.f) > 0)
	return ps
}

// condDNF turns a branch condition into a DNF of atoms and names the instruction at which the condition was
// evaluated (a predicate call may lie well before the branch that tests its result). pb is the block whose
// terminator tests the condition.
func (ra *relAn) condDNF(fn *ssa.Function, cd Cond, params bool, pb *ssa.BasicBlock) (relDNF, ssa.Instruction) {
	v, truth := cd.V, cd.Truth
	for {
		u, ok := v.(*ssa.UnOp)
		if !ok || u.Op != token.NOT {
			break
		}
		v, truth = u.X, !truth
	}
	if call, ok := v.(*ssa.Call); ok {
		if g := call.Call.StaticCallee(); g != nil {
			if ps := ra.predOf(g); ps.ok {
				src := ps.f
				if truth {
					src = ps.t
				}
				pre := ra.storesBefore(fn, call.Block(), instrIndex(call))
				var out relDNF
				for _, conj := range src {
					var nc []relAtom
					for _, a := range conj {
						root, rest, _ := strings.Cut(a.Path, ".")
						var idx int
						if _, err := fmt.Sscanf(root, "p%d", &idx); err != nil || idx >= len(call.Call.Args) {
							continue
						}
						base, _ := accessPath(fn, call.Call.Args[idx], params)
						if base == "" {
							continue
						}
						p := base
						if rest != "" {
							p += "." + rest
						}
						nc = append(nc, relAtom{Path: p, IsNil: a.IsNil, Val: a.Val, fld: a.fld, pre: pre})
					}
					out = append(out, nc)
				}
				if len(src) == 0 {
					return nil, call // the predicate never has this value: the edge is infeasible (false)
				}
				if out.isTrue() {
					return dnfTrue(), call
				}
				return out, call
			}
		}
	}
	as := atomsOf(fn, Cond{v, truth}, params)
	if len(as) == 0 {
		return dnfTrue(), nil
	}
	var at ssa.Instruction
	if pb != nil {
		pre := ra.storesBefore(fn, pb, len(pb.Instrs))
		for k := range as {
			as[k].pre = pre
		}
		at = pb.Instrs[len(pb.Instrs)-1]
	}
	return relDNF{as}, at
}

// reachCond computes a necessary condition for control to reach block b (back edges contribute "true").
func (ra *relAn) reachCond(fn *ssa.Function, b *ssa.BasicBlock, params bool) relDNF {
	memo := map[*ssa.BasicBlock]relDNF{}
	onStack := map[*ssa.BasicBlock]bool{}
	var rec func(b *ssa.BasicBlock) relDNF
	rec = func(b *ssa.BasicBlock) relDNF {
		if d, ok := memo[b]; ok {
			return d
		}
		if b == fn.Blocks[0] || onStack[b] || len(b.Preds) == 0 {
			return dnfTrue()
		}
		onStack[b] = true
		var acc relDNF
		for _, p := range b.Preds {
			d := rec(p)
			if ifi, ok := p.Instrs[len(p.Instrs)-1].(*ssa.If); ok && p.Succs[0] != p.Succs[1] {
				truth := p.Succs[0] == b
				if dn, _ := ra.condDNF(fn, Cond{ifi.Cond, truth}, params, p); !dn.isTrue() {
					d = dnfAnd(d, dn)
				}
			}
			acc = dnfOr(acc, d)
		}
		onStack[b] = false
		memo[b] = acc
		return acc
	}
	return rec(b)
}

// relEntry: parameter Param may be returned to a pool; Cond is a necessary condition over the parameters.
type relEntry struct {
	Param int
	Cond  relDNF
}

func (e relEntry) key() string { return fmt.Sprintf("%d|%s", e.Param, e.Cond) }

type relAn struct {
	c      *Ctx
	funcs  []*ssa.Function
	mayRel map[*ssa.Function]map[string]relEntry
	stores map[*ssa.Function]map[*types.Var]bool // fields stored by fn or its static callees (transitively)
	preds  map[*ssa.Function]*predSum
}

func isPoolPut(cc *ssa.CallCommon) bool {
	return cc.IsInvoke() && cc.Method.Name() == "Put" && typeIs(cc.Value.Type(), poolsPath, "Pool") && len(cc.Args) == 1
}

func paramIndex(fn *ssa.Function, v ssa.Value) int {
	for i, p := range fn.Params {
		if p == v {
			return i
		}
	}
	return -1
}

// provablyNonNil: v cannot be nil at block b (constructor results, non-nil tests on the path, phis of those).
func provablyNonNil(v ssa.Value, b *ssa.BasicBlock, depth int) bool {
	if depth > 6 {
		return false
	}
	for _, cd := range pathConds(b) {
		for _, rel := range relsOf(cd) {
			if rel.Op == token.NEQ && (rel.X == v && isNilConst(rel.Y) || rel.Y == v && isNilConst(rel.X)) {
				return true
			}
		}
	}
	switch x := v.(type) {
	case *ssa.Call:
		if o := calleeObj(x); o != nil && (objIs(o, "errors", "New") || objIs(o, "fmt", "Errorf")) {
			return true
		}
	case *ssa.MakeInterface, *ssa.Alloc, *ssa.MakeClosure, *ssa.Function:
		return true
	case *ssa.ChangeInterface:
		return provablyNonNil(x.X, b, depth+1)
	case *ssa.Phi:
		for k, e := range x.Edges {
			if !provablyNonNil(e, x.Block().Preds[k], depth+1) {
				return false
			}
		}
		return true
	}
	return false
}

// fieldStores: the struct fields fn may store to, including through its static callees.
func (ra *relAn) fieldStores(fn *ssa.Function) map[*types.Var]bool {
	if m, ok := ra.stores[fn]; ok {
		return m
	}
	m := map[*types.Var]bool{}
	ra.stores[fn] = m
	allInstrs(fn, func(i ssa.Instruction) {
		switch x := i.(type) {
		case *ssa.Store:
			if fa, ok := x.Addr.(*ssa.FieldAddr); ok {
				m[fieldOf(fa)] = true
			}
		case ssa.CallInstruction:
			if cal := x.Common().StaticCallee(); cal != nil && cal.Blocks != nil {
				for f := range ra.fieldStores(cal) {
					m[f] = true
				}
			} else if x.Common().StaticCallee() == nil {
				m[nil] = true // unknown callee: anything may be stored
			}
		}
	})
	return m
}

// storesBefore: the fields that may be stored by instructions of fn that can execute before instruction idx of
// block b (instructions of blocks that reach b, and the earlier instructions of b), callees included.
func (ra *relAn) storesBefore(fn *ssa.Function, b *ssa.BasicBlock, idx int) map[*types.Var]bool {
	out := map[*types.Var]bool{}
	for _, blk := range fn.Blocks {
		reaches := blk != b && reachableFrom(blk)[b]
		inLoop := blk == b && reachableFrom(b)[b]
		for k, i := range blk.Instrs {
			if !(reaches || inLoop || blk == b && k < idx) {
				continue
			}
			switch x := i.(type) {
			case *ssa.Store:
				if fa, ok := x.Addr.(*ssa.FieldAddr); ok {
					out[fieldOf(fa)] = true
				}
			case ssa.CallInstruction:
				if g := x.Common().StaticCallee(); g != nil && g.Blocks != nil {
					for f := range ra.fieldStores(g) {
						out[f] = true
					}
				} else if g == nil {
					out[nil] = true
				}
			}
		}
	}
	return out
}

// factsAt: the conditions dominating block b as a conjunction of caller-rooted atoms (conditions that are proper
// disjunctions contribute nothing). With before != nil only conditions evaluated at an instruction that dominates
// `before` are kept (facts about the state before a release call, used for a use that comes after it).
func (ra *relAn) factsAt(fn *ssa.Function, b *ssa.BasicBlock, before ssa.Instruction) []relAtom {
	var out []relAtom
	for c := b; c != nil; c = c.Idom() {
		d := c.Idom()
		if d == nil {
			break
		}
		ifi, ok := d.Instrs[len(d.Instrs)-1].(*ssa.If)
		if !ok || d.Succs[0] == d.Succs[1] {
			continue
		}
		for k, s := range d.Succs {
			if len(s.Preds) != 1 || !s.Dominates(c) {
				continue
			}
			dn, at := ra.condDNF(fn, Cond{ifi.Cond, k == 0}, false, d)
			if len(dn) != 1 || len(dn[0]) == 0 {
				continue
			}
			if before != nil && (at == nil || !dominatesInstr(at, before)) {
				continue
			}
			out = append(out, dn[0]...)
		}
	}
	return out
}

// refuted: the facts dominating the call site contradict every disjunct of the callee condition.
func (ra *relAn) refuted(fn *ssa.Function, call ssa.CallInstruction, cond relDNF, extra ...relAtom) bool {
	if cond.isTrue() {
		return false
	}
	cc := call.Common()
	cal := cc.StaticCallee()
	// caller facts, rooted at SSA value names: conditions dominating the call (plus, for a particular later use,
	// conditions dominating that use which were evaluated before the call)
	facts := append([]relAtom{}, extra...)
	facts = append(facts, ra.factsAt(fn, call.Block(), nil)...)
	// a boolean/nil fact about a field load stays valid up to the call only if nothing in between may store the
	// field; the caller-side loads dominate the call, so "nothing in between" is over-approximated by: the caller
	// itself never stores the field before the call, and the callee does not store it either.
	callerStores := ra.storesBefore(fn, call.Block(), instrIndex(call.(ssa.Instruction)))
	_ = cal
	stable := func(a relAtom) bool {
		f := a.fld
		if f == nil {
			return true
		}
		return !callerStores[f] && !callerStores[nil] && !a.pre[f] && !a.pre[nil]
	}
	refutesAtom := func(a relAtom) bool {
		// translate the root "p<i>" into the caller's argument path
		root, rest, _ := strings.Cut(a.Path, ".")
		var idx int
		if _, err := fmt.Sscanf(root, "p%d", &idx); err != nil || idx >= len(cc.Args) {
			return false
		}
		arg := cc.Args[idx]
		if rest == "" && a.IsNil {
			if a.Val {
				return provablyNonNil(arg, call.Block(), 0)
			}
			return isNilConst(arg)
		}
		base, _ := accessPath(fn, arg, false)
		if base == "" {
			return false
		}
		path := base
		if rest != "" {
			path += "." + rest
		}
		if !stable(a) {
			return false
		}
		for _, f := range facts {
			if f.Path == path && f.IsNil == a.IsNil && f.Val != a.Val {
				return true
			}
		}
		return false
	}
	for _, conj := range cond {
		ok := false
		for _, a := range conj {
			if refutesAtom(a) {
				ok = true
				break
			}
		}
		if !ok {
			return false
		}
	}
	return true
}

// feasibleEntries: release entries of the static callee that the call site does not refute.
func (ra *relAn) feasibleEntries(fn *ssa.Function, call ssa.CallInstruction) []relEntry {
	cc := call.Common()
	cal := cc.StaticCallee()
	if cal == nil {
		return nil
	}
	var out []relEntry
	for _, k := range sortedKeys(ra.mayRel[cal]) {
		e := ra.mayRel[cal][k]
		if e.Param < len(cc.Args) && !ra.refuted(fn, call, e.Cond) {
			out = append(out, e)
		}
	}
	return out
}

// releasedArgs lists the argument values that the call may return to a pool.
func (ra *relAn) releasedArgs(fn *ssa.Function, call ssa.CallInstruction) []ssa.Value {
	cc := call.Common()
	if isPoolPut(cc) {
		return []ssa.Value{cc.Args[0]}
	}
	seen := map[ssa.Value]bool{}
	var out []ssa.Value
	for _, e := range ra.feasibleEntries(fn, call) {
		if v := cc.Args[e.Param]; !seen[v] {
			seen[v] = true
			out = append(out, v)
		}
	}
	sort.Slice(out, func(a, b int) bool { return out[a].Name() < out[b].Name() })
	return out
}

// translate rewrites a callee condition into the caller's parameter space; atoms that cannot be expressed are dropped
// (which weakens the conjunct: sound for a necessary condition).
func (ra *relAn) translateCond(fn *ssa.Function, call ssa.CallInstruction, cond relDNF) relDNF {
	cc := call.Common()
	before := ra.storesBefore(fn, call.Block(), instrIndex(call.(ssa.Instruction)))
	var out relDNF
	for _, conj := range cond {
		var nc []relAtom
		for _, a := range conj {
			root, rest, _ := strings.Cut(a.Path, ".")
			var idx int
			if _, err := fmt.Sscanf(root, "p%d", &idx); err != nil || idx >= len(cc.Args) {
				continue
			}
			base, _ := accessPath(fn, cc.Args[idx], true)
			if base == "" {
				continue
			}
			p := base
			if rest != "" {
				p += "." + rest
			}
			pre := map[*types.Var]bool{}
			for f := range a.pre {
				pre[f] = true
			}
			for f := range before {
				pre[f] = true
			}
			dup := false
			na := relAtom{Path: p, IsNil: a.IsNil, Val: a.Val, fld: a.fld, pre: pre}
			for _, o := range nc {
				if o.String() == na.String() {
					dup = true
				}
			}
			if !dup {
				nc = append(nc, na)
			}
		}
		out = append(out, nc)
	}
	if out.isTrue() {
		return dnfTrue()
	}
	return out
}

func (ra *relAn) summarise() {
	ra.mayRel = map[*ssa.Function]map[string]relEntry{}
	add := func(fn *ssa.Function, e relEntry) bool {
		if ra.mayRel[fn] == nil {
			ra.mayRel[fn] = map[string]relEntry{}
		}
		if _, ok := ra.mayRel[fn][e.key()]; ok {
			return false
		}
		if len(ra.mayRel[fn]) > 8 {
			e.Cond = dnfTrue()
			if _, ok := ra.mayRel[fn][e.key()]; ok {
				return false
			}
		}
		ra.mayRel[fn][e.key()] = e
		return true
	}
	for changed := true; changed; {
		changed = false
		for _, fn := range ra.funcs {
			for _, call := range callsIn(fn, false) {
				if _, ok := call.(*ssa.Go); ok {
					continue
				}
				cc := call.Common()
				if isPoolPut(cc) {
					if i := paramIndex(fn, cc.Args[0]); i >= 0 && add(fn, relEntry{Param: i, Cond: ra.reachCond(fn, call.Block(), true)}) {
						changed = true
					}
					continue
				}
				for _, e := range ra.feasibleEntries(fn, call) {
					i := paramIndex(fn, cc.Args[e.Param])
					if i < 0 {
						continue
					}
					cond := dnfAnd(ra.reachCond(fn, call.Block(), true), ra.translateCond(fn, call, e.Cond))
					if len(cond) == 0 {
						continue // contradictory: this path cannot release
					}
					if add(fn, relEntry{Param: i, Cond: cond}) {
						changed = true
					}
				}
			}
		}
	}
}

// touches reports whether instruction i accesses the memory of object v (a pointer).
func touches(i ssa.Instruction, v ssa.Value) (string, bool) {
	switch x := i.(type) {
	case *ssa.FieldAddr:
		if x.X == v {
			return "field " + fieldOf(x).Name(), true
		}
	case *ssa.UnOp:
		if x.Op == token.MUL && x.X == v {
			return "load", true
		}
	case *ssa.Store:
		if x.Addr == v {
			return "store", true
		}
	case ssa.CallInstruction:
		cc := x.Common()
		if cc.IsInvoke() && cc.Value == v {
			return "method call " + cc.Method.Name(), true
		}
		for _, a := range cc.Args {
			if a == v {
				return "call " + calleeLabel(x), true
			}
		}
	case *ssa.MakeClosure:
		for _, b := range x.Bindings {
			if b == v {
				return "closure capture", true
			}
		}
	}
	return "", false
}

// aliasesOf: further loads of the field the released value was loaded from (the same object, the same field).
func aliasesOf(fn *ssa.Function, v ssa.Value) []ssa.Value {
	u, ok := v.(*ssa.UnOp)
	if !ok || u.Op != token.MUL {
		return nil
	}
	fa, ok := u.X.(*ssa.FieldAddr)
	if !ok {
		return nil
	}
	var out []ssa.Value
	allInstrs(fn, func(i ssa.Instruction) {
		u2, ok := i.(*ssa.UnOp)
		if !ok || u2 == u || u2.Op != token.MUL {
			return
		}
		if fa2, ok := u2.X.(*ssa.FieldAddr); ok && fa2.X == fa.X && fa2.Field == fa.Field {
			out = append(out, u2)
		}
	})
	return out
}

func runR18_3(c *Ctx, r *R) {
	ra := &relAn{c: c, stores: map[*ssa.Function]map[*types.Var]bool{}, preds: map[*ssa.Function]*predSum{}}
	for _, rel := range analysedPkgs {
		ra.funcs = append(ra.funcs, c.SrcFuncs(rel)...)
	}
	ra.summarise()
	nRel := 0
	for _, fn := range ra.funcs {
		type site struct {
			call ssa.CallInstruction
			v    ssa.Value
		}
		var sites []site
		for _, call := range callsIn(fn, false) {
			if _, ok := call.(*ssa.Go); ok {
				continue
			}
			if _, ok := call.(*ssa.Defer); ok {
				continue // a deferred release runs last
			}
			for _, v := range ra.releasedArgs(fn, call) {
				sites = append(sites, site{call, v})
			}
		}
		if len(sites) == 0 {
			continue
		}
		cnt := map[string]int{}
		for _, s := range sites {
			nRel++
			lbl := calleeLabel(s.call)
			cnt[lbl]++
			key := fmt.Sprintf("%s/release(%s)#%d", fnKey(fn), lbl, cnt[lbl])
			after := func(i ssa.Instruction) bool {
				if i.Block() == s.call.Block() {
					if instrIndex(s.call.(ssa.Instruction)) < instrIndex(i) {
						return true
					}
				}
				return reachableFrom(s.call.Block())[i.Block()]
			}
			vals := append([]ssa.Value{s.v}, aliasesOf(fn, s.v)...)
			var uses []string
			for _, b := range fn.Blocks {
				for _, i := range b.Instrs {
					if i == ssa.Instruction(s.call) {
						continue
					}
					for vi, v := range vals {
						what, ok := touches(i, v)
						if !ok {
							continue
						}
						if vi > 0 {
							// a re-load of the field: stale only if the load itself happens after the release
							// and the field was not overwritten in between
							ld := v.(ssa.Instruction)
							if !after(ld) || overwrittenBetween(fn, s.call, ld) {
								continue
							}
							what += " via re-loaded " + v.Name()
						}
						if d, isDefer := i.(*ssa.Defer); isDefer {
							if d.Block() == s.call.Block() && instrIndex(d) < instrIndex(s.call.(ssa.Instruction)) || reachableFrom(d.Block())[s.call.Block()] {
								uses = append(uses, fmt.Sprintf("deferred %s (%s)", what, c.pos(d.Pos())))
							}
							continue
						}
						if after(i) && !ra.useExcluded(fn, s.call, s.v, i) {
							uses = append(uses, fmt.Sprintf("%s (%s)", what, c.pos(instrPos(i))))
						}
					}
				}
			}
			if len(uses) == 0 {
				r.OK(key, s.call.Pos(), "%s is not touched after the call that may return it to its pool", s.v.Name())
				continue
			}
			if len(uses) > 4 {
				uses = append(uses[:4], fmt.Sprintf("... %d more", len(uses)-4))
			}
			r.Bad(key, s.call.Pos(), "%s may already be back in its pool (and owned by another goroutine) after %s, but is touched again: %v", s.v.Name(), lbl, uses)
		}
	}
	var sums []string
	for _, fn := range ra.funcs {
		for _, k := range sortedKeys(ra.mayRel[fn]) {
			e := ra.mayRel[fn][k]
			sums = append(sums, fmt.Sprintf("%s releases p%d if %s", fnKey(fn), e.Param, e.Cond))
		}
	}
	r.Note("%d release sites; release summaries: %s", nRel, strings.Join(sums, "; "))
}

// useExcluded: the use at instruction `use` (after the may-release call) happens only under conditions that were
// evaluated before the call and that refute every way the call could have released v
// (auto := w.autoRelease(); w.close(); if auto { return }; w.free()).
func (ra *relAn) useExcluded(fn *ssa.Function, call ssa.CallInstruction, v ssa.Value, use ssa.Instruction) bool {
	cc := call.Common()
	if isPoolPut(cc) {
		return false
	}
	cal := cc.StaticCallee()
	if cal == nil {
		return false
	}
	extra := ra.factsAt(fn, use.Block(), call.(ssa.Instruction))
	if len(extra) == 0 {
		return false
	}
	n := 0
	for _, k := range sortedKeys(ra.mayRel[cal]) {
		e := ra.mayRel[cal][k]
		if e.Param >= len(cc.Args) || cc.Args[e.Param] != v {
			continue
		}
		n++
		if !ra.refuted(fn, call, e.Cond, extra...) {
			return false
		}
	}
	return n > 0
}

// R18.4: recycle gates. A channel / call object of mpx and rpc shares its pooled state between the user's goroutine,
// the connection loops and helper goroutines by a reference count (field refs). The state may go back to its pool
// only at the moment the count is observed to reach zero: every call that releases a state held by such an object
// must be dominated by that observation - refs.Release() == true, or refs.Add(-1) <= 0 - in the function itself
// or, for an unexported helper (free()), at every one of its call sites. A direct call of the helper (defer
// ch1.free() instead of ch1.Free()) resets and recycles a state that other holders are still using.
func init() {
	register(&Rule{ID: "R18.4", Props: []string{"C18", "C04", "C06"}, Floor: 3,
		Doc: "recycle gates: in objects that carry a reference count, the pooled state is released only behind the observation that the count reached zero (in the releasing function or at all call sites of an unexported releasing helper)",
		Run: runR18_4})
}

func runR18_4(c *Ctx, r *R) {
	ra := &relAn{c: c, stores: map[*ssa.Function]map[*types.Var]bool{}, preds: map[*ssa.Function]*predSum{}}
	for _, rel := range analysedPkgs {
		ra.funcs = append(ra.funcs, c.SrcFuncs(rel)...)
	}
	ra.summarise()
	hasRefs := func(fn *ssa.Function) bool {
		if fn.Signature.Recv() == nil {
			return false
		}
		st, _ := structOf(fn.Signature.Recv().Type())
		if st == nil {
			return false
		}
		for i := 0; i < st.NumFields(); i++ {
			if st.Field(i).Name() == "refs" {
				return true
			}
		}
		return false
	}
	// gateAt: the count was observed to reach zero on every path to instruction at
	gateAt := func(at ssa.Instruction) bool {
		for _, cd := range pathConds(at.Block()) {
			if call, ok := cd.V.(*ssa.Call); ok && cd.Truth && calleeLabel(call) == "refs.Release" {
				return true
			}
			for _, rel := range relsOf(cd) {
				x, y, op := rel.X, rel.Y, rel.Op
				if _, isK := x.(*ssa.Const); isK {
					x, y, op = y, x, swapOp(op)
				}
				if call, ok := x.(*ssa.Call); ok && calleeLabel(call) == "refs.Add" {
					if k, isK := constInt(y); isK && ((op == token.LEQ && k <= 0) || (op == token.LSS && k <= 1) || (op == token.EQL && k == 0)) {
						return true
					}
				}
			}
		}
		return false
	}
	var gated func(fn *ssa.Function, at ssa.Instruction, depth int) (bool, string)
	gated = func(fn *ssa.Function, at ssa.Instruction, depth int) (bool, string) {
		if gateAt(at) {
			return true, ""
		}
		if depth >= 3 || ast.IsExported(fn.Name()) {
			return false, fnKey(fn)
		}
		n := 0
		for _, g := range c.SrcFuncs(relPkg(fn.Pkg.Pkg.Path())) {
			bad := ""
			withAnon(g, func(h *ssa.Function) {
				for _, call := range callsIn(h, false) {
					if call.Common().StaticCallee() != fn {
						continue
					}
					n++
					if ok, where := gated(h, call.(ssa.Instruction), depth+1); !ok {
						bad = where + " (" + c.pos(call.Pos()) + ")"
					}
				}
			})
			if bad != "" {
				return false, bad
			}
		}
		return n > 0, fnKey(fn)
	}
	n := 0
	for _, rel := range []string{"mpx", "rpc"} {
		for _, fn := range c.SrcFuncs(rel) {
			if fn.Parent() != nil || !hasRefs(fn) {
				continue
			}
			k := 0
			for _, call := range callsIn(fn, false) {
				cal := call.Common().StaticCallee()
				if cal == nil || len(ra.mayRel[cal]) == 0 || isPoolPut(call.Common()) {
					continue
				}
				// a releaser of a STATE (not of the receiver object itself)
				if len(call.Common().Args) > 0 && call.Common().Args[0] == ssa.Value(fn.Params[0]) {
					continue
				}
				k++
				n++
				key := fmt.Sprintf("%s/%s#%d/gate", fnKey(fn), cal.Name(), k)
				if ok, where := gated(fn, call.(ssa.Instruction), 0); ok {
					r.OK(key, call.Pos(), "the state is recycled only where the reference count was observed to reach zero")
				} else {
					r.Bad(key, call.Pos(), "the pooled state is released through %s without the reference count having been observed at zero on that path: other holders (helper goroutines of the handler, the connection loops) still use a state that is reset and handed to the next call", where)
				}
			}
		}
	}
	if n == 0 {
		r.Unk("mpx+rpc/recycle-gates", 0, "anchor lost: no state release in a reference-counted object found")
	}
}

// overwrittenBetween: a store to the field that ld loads lies on every path from the release call to ld
// (approximated by: some such store dominates ld and is itself after the call).
func overwrittenBetween(fn *ssa.Function, call ssa.CallInstruction, ld ssa.Instruction) bool {
	fa := ld.(*ssa.UnOp).X.(*ssa.FieldAddr)
	found := false
	allInstrs(fn, func(i ssa.Instruction) {
		st, ok := i.(*ssa.Store)
		if !ok {
			return
		}
		fa2, ok := st.Addr.(*ssa.FieldAddr)
		if !ok || fa2.X != fa.X || fa2.Field != fa.Field {
			return
		}
		if dominatesInstr(st, ld) && dominatesInstr(call.(ssa.Instruction), st) {
			found = true
		}
	})
	return found
}
