package main

import (
	"fmt"
	"go/ast"
	"go/parser"
	"go/token"
	"go/types"
	"os"
	"path/filepath"
	"regexp"
	"sort"
	"strconv"
	"strings"

	"golang.org/x/tools/go/packages"
	"golang.org/x/tools/go/ssa"
)

func init() {
	props["C05"] = &propInfo{Level: "other", Explanation: "Decides structural necessary conditions of 'generated Go is a faithful translation' for all schemas at once, because the generator is table-driven: (R05.1) kind-table closure: for each of the 15 scalar kinds K with canonical name N, the reader template calls m.msg.N(%d), the writer template w.w.Field(%d).N(v), typeDecodeFunc names spec.DecodeN and typeWriteFunc spec.EncodeN, and - resolved with go/types against the real packages - the result type of types.Message.N equals the Go type typeRefName(K) names, the parameter type of FieldWriter.N equals inTypeName(K), spec.DecodeN is func([]byte)(T,int,error) and spec.EncodeN func(buffer.Buffer,T)(int,error) with those same T; (R05.3) tag binding: every %d of a field template receives the Tag of the field being emitted; (R05.4) checked-in translations: every field of proto/pmpx/mpx.spec and proto/prpc/rpc.spec (read by an independent schema reader) has, in the checked-in generated file, an accessor, a Has method and a writer method carrying exactly that tag, and every enum value its constant; (R05.5) regeneration is deterministic: the generator never ranges over a Go map, and the output file is created truncating (os.Create / O_TRUNC); (R05.6) struct templates: the emitted EncodeTo/Decode bodies, synthesised from the template literals, parse as Go, every size returned by an encode/decode call is consumed (added to the running size / subtracted from the offset) before it is overwritten or the function returns, fields are encoded in declaration order and decoded in reverse; (R14.1) template identifiers resolve. Not decided: round trip of values through generated code for arbitrary schemas; import/alias handling; services (needs running the generator).",
		Trusted: []string{"go/types", "the independent schema reader in rules_c05.go (messages, enums, structs of the two checked-in schemas)"}}
	props["C16"] = &propInfo{Level: "other", Explanation: "Decides structural necessary conditions of 'messages stay readable across schema evolution': (R16.1) tag-only addressing: generator templates reach message data only through the tag-addressed API of spec.Message (scalar accessors, Field, FieldRaw, HasField, List, Message) - never FieldAt/TagAt/positions - and with R05.3 every accessor depends on its own tag alone; the table lookup compares the full 16-bit tag (no narrowing of the searched tag in format.MessageTable.Offset and its callees); (R16.2) absent means zero: every typed field decoder returns the zero value, size 0 and nil error for empty input on the first branch, and Message.field/FieldRaw/HasField map a negative table lookup to nil/false; (R16.3) MessageWriter.Copy visits every field of the source by index and skips a field only when the destination already has that tag, so unknown fields are preserved; (R08.2) the big-table predicate examines every field (a writer that knows only some fields still chooses the right table form). Not decided: behaviour across actual schema pairs (needs execution).",
		Trusted: []string{"go/ssa", "R05.3 tag binding"}}

	register(&Rule{ID: "R05.1", Props: []string{"C05"}, Floor: 60,
		Doc: "kind-table closure of the generator against the real reader/writer/codec APIs (go/types)",
		Run: runR05_1})
	register(&Rule{ID: "R05.3", Props: []string{"C05", "C16"}, Floor: 30,
		Doc: "tag binding: every %d of a field template is the field's own Tag",
		Run: runR05_3})
	register(&Rule{ID: "R05.4", Props: []string{"C05"}, Floor: 40,
		Doc: "checked-in generated files agree with their .spec sources (independent schema reader)",
		Run: runR05_4})
	register(&Rule{ID: "R05.5", Props: []string{"C05"}, Floor: 2,
		Doc: "deterministic regeneration: no map iteration in the generator, truncating output file",
		Run: runR05_5})
	register(&Rule{ID: "R05.6", Props: []string{"C05", "C10"}, Floor: 4,
		Doc: "struct templates: synthesised bodies parse, every size result is consumed, encode order vs reverse decode order",
		Run: runR05_6})
	register(&Rule{ID: "R16.1", Props: []string{"C16", "C05", "C01", "C08"}, Floor: 10,
		Doc: "tag-only addressing in generated accessors; full-width tag comparison in the table lookup",
		Run: runR16_1})
	register(&Rule{ID: "R16.2", Props: []string{"C16", "C17"}, Floor: 19,
		Doc: "absent field reads as zero: empty-input prologue of every typed decoder; negative lookup -> nil/false",
		Run: runR16_2})
	register(&Rule{ID: "R16.3", Props: []string{"C16"}, Floor: 2,
		Doc: "MessageWriter.Copy preserves unknown fields: iterates all source fields, skips only on HasField",
		Run: runR16_3})
}

var scalarKinds = []string{"Bool", "Byte", "Int16", "Int32", "Int64", "Uint16", "Uint32", "Uint64", "Bin64", "Bin128", "Bin256", "Float32", "Float64", "Bytes", "String"}

// caseLiterals maps "KindX" -> string literals found in that case clause of fn (nested switches included).
func caseLiterals(gp *packages.Package, fd *ast.FuncDecl) map[string][]string {
	out := map[string][]string{}
	var walk func(n ast.Node, kinds []string)
	walk = func(n ast.Node, kinds []string) {
		ast.Inspect(n, func(m ast.Node) bool {
			cc, ok := m.(*ast.CaseClause)
			if !ok {
				// a table-driven arm: w.writef(table[kind], ...) - each entry is the literal of its own kind
				if ix, ok := m.(*ast.IndexExpr); ok {
					if tbl := kindTable(gp, fd, ix); tbl != nil {
						for _, k := range sortedKeys(tbl) {
							if len(kinds) == 0 || in(kinds, k) {
								out[k] = append(out[k], tbl[k])
							}
						}
					}
				}
				if bl, ok := m.(*ast.BasicLit); ok && bl.Kind == token.STRING && len(kinds) > 0 {
					if s, err := strconv.Unquote(bl.Value); err == nil {
						for _, k := range kinds {
							out[k] = append(out[k], s)
						}
					}
				}
				return true
			}
			var ks []string
			for _, e := range cc.List {
				if se, ok := e.(*ast.SelectorExpr); ok && strings.HasPrefix(se.Sel.Name, "Kind") {
					ks = append(ks, se.Sel.Name)
				}
			}
			if len(ks) == 0 {
				ks = kinds // default / non-kind case: inherit
			}
			for _, st := range cc.Body {
				walk(st, ks)
			}
			return false
		})
	}
	if fd.Body != nil {
		walk(fd.Body, nil)
	}
	return out
}

func findFuncDecl(p *packages.Package, name string) *ast.FuncDecl {
	for _, f := range p.Syntax {
		for _, d := range f.Decls {
			fd, ok := d.(*ast.FuncDecl)
			if !ok {
				continue
			}
			n := fd.Name.Name
			if fd.Recv != nil && len(fd.Recv.List) == 1 {
				t := fd.Recv.List[0].Type
				if st, ok := t.(*ast.StarExpr); ok {
					t = st.X
				}
				if id, ok := t.(*ast.Ident); ok {
					n = id.Name + "." + n
				}
			}
			if n == name {
				return fd
			}
		}
	}
	return nil
}

// resolveTypeName turns a type name emitted by the generator ("int16", "[]byte", "bin.Bin64", "spec.String") into a types.Type.
func resolveTypeName(c *Ctx, s string) types.Type {
	switch {
	case s == "[]byte":
		return types.NewSlice(types.Typ[types.Uint8])
	case s == "byte":
		return types.Universe.Lookup("byte").Type()
	}
	if o := types.Universe.Lookup(s); o != nil {
		return o.Type()
	}
	if i := strings.Index(s, "."); i > 0 {
		pk, name := s[:i], s[i+1:]
		path := map[string]string{"spec": Mod, "bin": "github.com/basecomplextech/baselibrary/bin"}[pk]
		if p := c.Pkgs[path]; p != nil && p.Types != nil {
			if o := p.Types.Scope().Lookup(name); o != nil {
				return o.Type()
			}
		}
	}
	return nil
}

func methodOf(t types.Type, name string) *types.Func {
	ms := types.NewMethodSet(t)
	for i := 0; i < ms.Len(); i++ {
		if ms.At(i).Obj().Name() == name {
			return ms.At(i).Obj().(*types.Func)
		}
	}
	return nil
}

func runR05_1(c *Ctx, r *R) {
	gp := c.Pkg("internal/lang/generator")
	if gp == nil {
		r.Unk("internal/lang/generator", 0, "package not loaded")
		return
	}
	get := func(fn string) map[string][]string {
		fd := findFuncDecl(gp, fn)
		if fd == nil {
			r.Unk("internal/lang/generator."+fn, 0, "anchor lost: function %s not found", fn)
			return nil
		}
		return caseLiterals(gp, fd)
	}
	reader := get("messageWriter.field")
	writer := get("messageWriter.writer_field")
	tName := get("typeName")
	tRef := get("typeRefName")
	tIn := get("inTypeName")
	dec := get("typeDecodeFunc")
	enc := get("typeWriteFunc")
	if reader == nil || writer == nil || tName == nil || dec == nil || enc == nil {
		return
	}
	one := func(m map[string][]string, k string) string {
		if l := m[k]; len(l) >= 1 {
			return l[0]
		}
		return ""
	}
	var msgT, fwT types.Type
	if p := c.Pkg("internal/types"); p != nil {
		if o := p.Types.Scope().Lookup("Message"); o != nil {
			msgT = o.Type()
		}
	}
	if p := c.Pkg("internal/writer"); p != nil {
		if o := p.Types.Scope().Lookup("FieldWriter"); o != nil {
			fwT = o.Type()
		}
	}
	root := c.Pkg(".")
	if msgT == nil || fwT == nil || root == nil {
		r.Unk("api-types", 0, "types.Message / writer.FieldWriter / root package not found")
		return
	}
	// non-scalar kinds: which reader of the dynamic API the accessor goes through. A value handed to the user as
	// it is (any) must be the field's own bytes - Field(tag) = OpenValue - not FieldRaw(tag), which is the whole data
	// prefix up to the field's end and is only meant to be fed to a decoder that reads from the end.
	for _, nk := range []struct{ kind, must, why string }{
		{"KindAny", "return m.msg.Field(%d)", "an any field is returned as spec.Value: it must be exactly the field's bytes, as the dynamic Field(tag) returns them"},
		{"KindAnyMessage", "return m.msg.Field(%d).Message()", "an any-message field is opened from the field's own bytes"},
		{"KindList", "m.msg.List(%d)", "a list field is read through Message.List(tag)"},
		{"KindMessage", "m.msg.Message(%d)", "a message field is read through Message.Message(tag)"},
	} {
		key := "generator/reader:" + nk.kind
		found := false
		for _, lit := range reader[nk.kind] {
			if lit == nk.must || (strings.Contains(nk.must, "m.msg.") && !strings.HasPrefix(nk.must, "return") && strings.Contains(lit, nk.must)) {
				found = true
			}
		}
		if found {
			r.OK(key, 0, "%s", nk.why)
		} else {
			r.Bad(key, 0, "the accessor template for %s is %q, expected %q: %s - generated code and the dynamic tag-based API are no longer interchangeable on the same bytes", nk.kind, reader[nk.kind], nk.must, nk.why)
		}
	}
	for _, N := range scalarKinds {
		K := "Kind" + N
		refName := one(tRef, K)
		if refName == "" {
			refName = one(tName, K)
		}
		inName := one(tIn, K)
		if inName == "" {
			inName = one(tName, K)
		}
		refT, inT := resolveTypeName(c, refName), resolveTypeName(c, inName)
		// reader
		{
			key := "generator/reader:" + K
			lit := one(reader, K)
			want := "return m.msg." + N + "(%d)"
			m := methodOf(msgT, N)
			switch {
			case lit != want:
				r.Bad(key, 0, "the accessor template for %s is %q, expected %q: the generated getter reads another wire type than the schema declares", K, lit, want)
			case m == nil:
				r.Bad(key, 0, "types.Message has no method %s", N)
			case refT == nil:
				r.Unk(key, 0, "cannot resolve the Go type %q named by typeRefName(%s)", refName, K)
			case !types.Identical(m.Type().(*types.Signature).Results().At(0).Type(), refT):
				r.Bad(key, 0, "types.Message.%s returns %s but the generated getter is declared to return %s", N, m.Type().(*types.Signature).Results().At(0).Type(), refName)
			default:
				r.OK(key, 0, "m.msg.%s(%%d) : %s", N, refName)
			}
		}
		// writer
		{
			key := "generator/writer:" + K
			lit := one(writer, K)
			want := "w.w.Field(%d)." + N + "(v)"
			m := methodOf(fwT, N)
			switch {
			case lit != want:
				r.Bad(key, 0, "the writer template for %s is %q, expected %q: the generated setter writes another wire type than the schema declares", K, lit, want)
			case m == nil:
				r.Bad(key, 0, "writer.FieldWriter has no method %s", N)
			case inT == nil:
				r.Unk(key, 0, "cannot resolve the Go type %q named by inTypeName(%s)", inName, K)
			case !types.Identical(m.Type().(*types.Signature).Params().At(0).Type(), inT):
				r.Bad(key, 0, "FieldWriter.%s takes %s but the generated setter is declared with %s", N, m.Type().(*types.Signature).Params().At(0).Type(), inName)
			default:
				r.OK(key, 0, "w.w.Field(%%d).%s(v %s)", N, inName)
			}
		}
		// decode / encode function tables
		for _, tb := range []struct {
			what string
			m    map[string][]string
			pre  string
		}{{"decode", dec, "spec.Decode"}, {"encode", enc, "spec.Encode"}} {
			key := "generator/" + tb.what + ":" + K
			lit := one(tb.m, K)
			want := tb.pre + N
			if lit != want {
				r.Bad(key, 0, "%s function for %s is %q, expected %q", tb.what, K, lit, want)
				continue
			}
			o := root.Types.Scope().Lookup(strings.TrimPrefix(want, "spec."))
			// spec re-exports the codecs either as functions or as package-level function variables
			var sig *types.Signature
			if o != nil {
				sig, _ = o.Type().Underlying().(*types.Signature)
			}
			if sig == nil {
				r.Bad(key, 0, "%s does not exist in package spec (or is not a function)", want)
				continue
			}
			if tb.what == "decode" {
				if sig.Results().Len() == 3 && refT != nil && types.Identical(sig.Results().At(0).Type(), refT) {
					r.OK(key, 0, "%s : func([]byte) (%s, int, error)", want, refName)
				} else {
					r.Bad(key, 0, "%s has signature %s, the generated code expects a (%s, int, error) result", want, sig, refName)
				}
			} else {
				if sig.Params().Len() == 2 && inT != nil && types.Identical(sig.Params().At(1).Type(), inT) {
					r.OK(key, 0, "%s : func(buffer.Buffer, %s) (int, error)", want, inName)
				} else {
					r.Bad(key, 0, "%s has signature %s, the generated code passes a %s", want, sig, inName)
				}
			}
		}
	}
}

var reVerb = regexp.MustCompile(`%[a-z]`)

func runR05_3(c *Ctx, r *R) {
	gp := c.Pkg("internal/lang/generator")
	if gp == nil {
		return
	}
	for _, fn := range []string{"messageWriter.field", "messageWriter.has_field", "messageWriter.writer_field"} {
		fd := findFuncDecl(gp, fn)
		if fd == nil {
			r.Unk("internal/lang/generator."+fn, 0, "anchor lost")
			continue
		}
		// which identifiers are bound to <param>.Tag ?
		tagIdents := map[types.Object]bool{}
		var fieldParam types.Object
		for _, p := range fd.Type.Params.List {
			for _, nm := range p.Names {
				if nm.Name == "field" {
					fieldParam = gp.TypesInfo.Defs[nm]
				}
			}
		}
		isFieldTag := func(e ast.Expr) bool {
			se, ok := e.(*ast.SelectorExpr)
			if !ok || se.Sel.Name != "Tag" {
				return false
			}
			id, ok := se.X.(*ast.Ident)
			return ok && gp.TypesInfo.Uses[id] == fieldParam && fieldParam != nil
		}
		ast.Inspect(fd.Body, func(n ast.Node) bool {
			as, ok := n.(*ast.AssignStmt)
			if !ok || len(as.Lhs) != 1 || len(as.Rhs) != 1 {
				return true
			}
			if id, ok := as.Lhs[0].(*ast.Ident); ok && isFieldTag(as.Rhs[0]) {
				if o := gp.TypesInfo.Defs[id]; o != nil {
					tagIdents[o] = true
				}
			}
			return true
		})
		n := 0
		ast.Inspect(fd.Body, func(nd ast.Node) bool {
			call, ok := nd.(*ast.CallExpr)
			if !ok || len(call.Args) < 1 {
				return true
			}
			se, ok := call.Fun.(*ast.SelectorExpr)
			if !ok || (se.Sel.Name != "writef" && se.Sel.Name != "linef") {
				return true
			}
			var formats []string
			var bl ast.Expr = call.Args[0]
			if lit, ok := call.Args[0].(*ast.BasicLit); ok {
				f0, _ := strconv.Unquote(lit.Value)
				formats = []string{f0}
			} else if tbl := kindTable(gp, fd, call.Args[0]); tbl != nil {
				// table-driven template: every entry is filled with the arguments of this one call
				for _, k := range sortedKeys(tbl) {
					formats = append(formats, tbl[k])
				}
			} else {
				return true
			}
			for _, format := range formats {
				verbs := reVerb.FindAllString(format, -1)
				for i, v := range verbs {
					if v != "%d" {
						continue
					}
					n++
					pos := c.Fset.Position(bl.Pos())
					key := fmt.Sprintf("generator.%s/%%d#%d", fn, n)
					if i+1 >= len(call.Args) {
						r.Bad(key, bl.Pos(), "template %q has no argument for %%d", format)
						continue
					}
					arg := call.Args[i+1]
					ok := isFieldTag(arg)
					if id, isId := arg.(*ast.Ident); isId && tagIdents[gp.TypesInfo.Uses[id]] {
						ok = true
					}
					_ = pos
					if ok {
						r.OK(key, bl.Pos(), "%%d <- field.Tag")
					} else {
						r.Bad(key, bl.Pos(), "the tag placeholder of template %q is filled with %s instead of the Tag of the field being emitted: the accessor reads/writes another field's tag", format, exprString(arg))
					}
				}
			}
			return true
		})
	}
}

func exprString(e ast.Expr) string { return types.ExprString(e) }

// ---- independent schema reader (messages / enums / structs) ----

type sField struct {
	Name string
	Type string
	Tag  int
}
type sDef struct {
	Kind   string // message, enum, struct
	Name   string
	Fields []sField // enum: Name, Tag=value
}

func readSchema(path string) ([]sDef, error) {
	b, err := os.ReadFile(path)
	if err != nil {
		return nil, err
	}
	src := regexp.MustCompile(`(?s)/\*.*?\*/`).ReplaceAllString(string(b), " ")
	src = regexp.MustCompile(`//[^\n]*`).ReplaceAllString(src, " ")
	toks := regexp.MustCompile(`[A-Za-z_][A-Za-z0-9_.]*|\d+|"[^"]*"|\[\]|[{}()=;,<>-]`).FindAllString(src, -1)
	var defs []sDef
	i := 0
	for i < len(toks) {
		switch toks[i] {
		case "message", "enum", "struct":
			if i+2 >= len(toks) || toks[i+2] != "{" {
				i++
				continue
			}
			d := sDef{Kind: toks[i], Name: toks[i+1]}
			j := i + 3
			for j < len(toks) && toks[j] != "}" {
				switch d.Kind {
				case "enum":
					// NAME = N ;
					if j+2 < len(toks) && toks[j+1] == "=" {
						v, _ := strconv.Atoi(toks[j+2])
						d.Fields = append(d.Fields, sField{Name: toks[j], Tag: v})
						j += 3
					} else {
						j++
					}
				case "message":
					// name [[]]type tag ;
					if toks[j] == ";" {
						j++
						continue
					}
					name := toks[j]
					j++
					typ := ""
					if j < len(toks) && toks[j] == "[]" {
						typ = "[]"
						j++
					}
					if j < len(toks) {
						typ += toks[j]
						j++
					}
					tag := 0
					if j < len(toks) {
						tag, _ = strconv.Atoi(toks[j])
						j++
					}
					d.Fields = append(d.Fields, sField{name, typ, tag})
				default:
					j++
				}
			}
			defs = append(defs, d)
			i = j + 1
		case "service", "subservice":
			// skip to matching brace
			depth := 0
			for i < len(toks) {
				if toks[i] == "{" {
					depth++
				}
				if toks[i] == "}" {
					depth--
					if depth == 0 {
						break
					}
				}
				i++
			}
			i++
		default:
			i++
		}
	}
	return defs, nil
}

func upperCamel(s string) string {
	parts := strings.Split(s, "_")
	for i, p := range parts {
		if p != "" {
			parts[i] = strings.ToUpper(p[:1]) + p[1:]
		}
	}
	return strings.Join(parts, "")
}

// methodTags: receiver type -> method name -> integer literal arguments appearing in the body
func methodTags(f *ast.File) map[string]map[string][]int {
	out := map[string]map[string][]int{}
	for _, d := range f.Decls {
		fd, ok := d.(*ast.FuncDecl)
		if !ok || fd.Recv == nil || len(fd.Recv.List) != 1 || fd.Body == nil {
			continue
		}
		t := fd.Recv.List[0].Type
		if st, ok := t.(*ast.StarExpr); ok {
			t = st.X
		}
		id, ok := t.(*ast.Ident)
		if !ok {
			continue
		}
		var tags []int
		ast.Inspect(fd.Body, func(n ast.Node) bool {
			call, ok := n.(*ast.CallExpr)
			if !ok {
				return true
			}
			for _, a := range call.Args {
				if bl, ok := a.(*ast.BasicLit); ok && bl.Kind == token.INT {
					v, _ := strconv.Atoi(bl.Value)
					tags = append(tags, v)
				}
			}
			return true
		})
		if out[id.Name] == nil {
			out[id.Name] = map[string][]int{}
		}
		out[id.Name][fd.Name.Name] = tags
	}
	return out
}

func runR05_4(c *Ctx, r *R) {
	for _, sp := range []struct{ dir, spec, gen string }{
		{"proto/pmpx", "mpx.spec", "mpx_generated.go"},
		{"proto/prpc", "rpc.spec", "rpc_generated.go"},
	} {
		defs, err := readSchema(filepath.Join(c.Repo, sp.dir, sp.spec))
		if err != nil {
			r.Unk(sp.dir+"/"+sp.spec, 0, "cannot read schema: %v", err)
			continue
		}
		fset := token.NewFileSet()
		gf, err := parser.ParseFile(fset, filepath.Join(c.Repo, sp.dir, sp.gen), nil, 0)
		if err != nil {
			r.Unk(sp.dir+"/"+sp.gen, 0, "cannot parse generated file: %v", err)
			continue
		}
		mt := methodTags(gf)
		// constants of enums
		consts := map[string]int{}
		for _, d := range gf.Decls {
			gd, ok := d.(*ast.GenDecl)
			if !ok || gd.Tok != token.CONST {
				continue
			}
			for _, s := range gd.Specs {
				vs := s.(*ast.ValueSpec)
				for i, nm := range vs.Names {
					if i < len(vs.Values) {
						if bl, ok := vs.Values[i].(*ast.BasicLit); ok && bl.Kind == token.INT {
							v, _ := strconv.Atoi(bl.Value)
							consts[nm.Name] = v
						}
					}
				}
			}
		}
		nDefs := 0
		for _, d := range defs {
			switch d.Kind {
			case "message":
				nDefs++
				for _, f := range d.Fields {
					key := fmt.Sprintf("%s/%s.%s", sp.dir, d.Name, f.Name)
					mn := upperCamel(f.Name)
					var problems []string
					check := func(recv, method string) {
						tags, ok := mt[recv][method]
						if !ok {
							problems = append(problems, fmt.Sprintf("%s.%s missing", recv, method))
							return
						}
						found := false
						for _, t := range tags {
							if t == f.Tag {
								found = true
							}
						}
						if !found {
							problems = append(problems, fmt.Sprintf("%s.%s uses tags %v, the schema says %d", recv, method, tags, f.Tag))
						}
					}
					check(d.Name, mn)
					check(d.Name, "Has"+mn)
					check(d.Name+"Writer", mn)
					if len(problems) == 0 {
						r.OK(key, 0, "accessor, Has and writer carry tag %d", f.Tag)
					} else {
						r.Bad(key, 0, "checked-in generated code disagrees with the schema: %s", strings.Join(problems, "; "))
					}
				}
			case "enum":
				nDefs++
				for _, f := range d.Fields {
					key := fmt.Sprintf("%s/%s.%s", sp.dir, d.Name, f.Name)
					cn := d.Name + "_" + upperCamel(strings.ToLower(f.Name))
					v, ok := consts[cn]
					switch {
					case !ok:
						r.Bad(key, 0, "generated constant %s is missing", cn)
					case v != f.Tag:
						r.Bad(key, 0, "generated constant %s = %d, the schema says %d", cn, v, f.Tag)
					default:
						r.OK(key, 0, "%s = %d", cn, v)
					}
				}
			}
		}
		if nDefs == 0 {
			r.Unk(sp.dir+"/"+sp.spec, 0, "the independent reader found no definitions")
		}
	}
}

func runR05_5(c *Ctx, r *R) {
	n := 0
	for _, rel := range []string{"internal/lang/generator", "internal/lang/compiler"} {
		p := c.Pkg(rel)
		if p == nil {
			continue
		}
		for _, f := range p.Syntax {
			ast.Inspect(f, func(nd ast.Node) bool {
				rs, ok := nd.(*ast.RangeStmt)
				if !ok {
					return true
				}
				n++
				t := p.TypesInfo.TypeOf(rs.X)
				if t != nil {
					if _, isMap := t.Underlying().(*types.Map); isMap {
						r.Bad(fmt.Sprintf("%s/range-over-map@%s", rel, c.pos(rs.Pos())), rs.Pos(), "the generator iterates over a Go map: output order depends on map iteration order, regenerating yields different files")
					}
				}
				return true
			})
		}
	}
	r.OK("internal/lang/generator/range-statements", 0, "%d range statements, none over a map", n)
	// output file is created truncating
	if f := r.Need("internal/lang/generator", "generator.createFile"); f != nil {
		key := fnKey(f) + "/truncating-create"
		good, what := false, ""
		for _, call := range callsIn(f, false) {
			o := calleeObj(call)
			if o == nil || o.Pkg() == nil || o.Pkg().Path() != "os" {
				continue
			}
			switch o.Name() {
			case "Create", "WriteFile":
				good, what = true, "os."+o.Name()
			case "OpenFile":
				what = "os.OpenFile"
				if len(call.Common().Args) >= 2 {
					if k, ok := constInt(call.Common().Args[1]); ok && k&int64(os.O_TRUNC) != 0 {
						good = true
					}
				}
			}
		}
		if good {
			r.OK(key, f.Pos(), "output written through %s (truncating)", what)
		} else {
			r.Bad(key, f.Pos(), "the generated file is opened without truncation (%s): regenerating a schema whose output became shorter leaves a stale tail of the previous file", what)
		}
	}
}

// synthTemplate concatenates the string literals passed to w.line/linef/writef in source order, loops unrolled
// once, replacing format verbs by placeholders, and returns the text.
func synthTemplate(fd *ast.FuncDecl) string {
	var sb strings.Builder
	ast.Inspect(fd.Body, func(n ast.Node) bool {
		call, ok := n.(*ast.CallExpr)
		if !ok || len(call.Args) == 0 {
			return true
		}
		se, ok := call.Fun.(*ast.SelectorExpr)
		if !ok {
			return true
		}
		switch se.Sel.Name {
		case "line", "linef", "write", "writef":
		default:
			return true
		}
		bl, ok := call.Args[0].(*ast.BasicLit)
		if !ok || bl.Kind != token.STRING {
			return true
		}
		s, err := strconv.Unquote(bl.Value)
		if err != nil {
			return true
		}
		if se.Sel.Name == "linef" || se.Sel.Name == "writef" {
			k := 0
			s = reVerb.ReplaceAllStringFunc(s, func(v string) string {
				k++
				if v == "%d" {
					return "0"
				}
				return fmt.Sprintf("X%d", k)
			})
		}
		sb.WriteString(s)
		sb.WriteString("\n")
		return true
	})
	return sb.String()
}

func runR05_6(c *Ctx, r *R) {
	gp := c.Pkg("internal/lang/generator")
	if gp == nil {
		return
	}
	for _, m := range []struct{ fn, sizeVar, consume string }{
		{"structWriter.encode_method", "n", "dataSize"},
		{"structWriter.decode_method", "n", "off"},
	} {
		fd := findFuncDecl(gp, m.fn)
		if fd == nil {
			r.Unk("internal/lang/generator."+m.fn, 0, "anchor lost")
			continue
		}
		text := synthTemplate(fd)
		key := "generator." + m.fn + "/synthesised-body"
		fset := token.NewFileSet()
		file, err := parser.ParseFile(fset, "synth.go", "package p\n"+text, 0)
		if err != nil {
			r.Bad(key, fd.Pos(), "the template lines of %s do not form valid Go (loops unrolled once): %v", m.fn, err)
			continue
		}
		r.OK(key, fd.Pos(), "template body parses as Go (%d bytes)", len(text))
		// every assignment to the size variable from a call is consumed before being overwritten / before return
		for _, d := range file.Decls {
			gfd, ok := d.(*ast.FuncDecl)
			if !ok || gfd.Body == nil {
				continue
			}
			pending := "" // description of the unconsumed assignment
			bad := ""
			var scan func(stmts []ast.Stmt)
			uses := func(n ast.Node, name string) bool {
				found := false
				ast.Inspect(n, func(x ast.Node) bool {
					if id, ok := x.(*ast.Ident); ok && id.Name == name {
						found = true
					}
					return true
				})
				return found
			}
			scan = func(stmts []ast.Stmt) {
				for _, st := range stmts {
					switch s := st.(type) {
					case *ast.AssignStmt:
						// reads on the RHS consume
						for _, rhs := range s.Rhs {
							if uses(rhs, m.sizeVar) {
								pending = ""
							}
						}
						if s.Tok == token.ADD_ASSIGN || s.Tok == token.SUB_ASSIGN {
							continue
						}
						for _, lhs := range s.Lhs {
							if id, ok := lhs.(*ast.Ident); ok && id.Name == m.sizeVar {
								if _, isCall := s.Rhs[0].(*ast.CallExpr); isCall {
									if pending != "" {
										bad = "size returned by " + pending + " is overwritten before it is used"
									}
									pending = exprString(s.Rhs[0])
								}
							}
						}
					case *ast.ReturnStmt:
						consumed := false
						for _, e := range s.Results {
							if uses(e, m.sizeVar) {
								consumed = true
							}
						}
						if pending != "" && !consumed {
							bad = "size returned by " + pending + " is never added: the function returns without accounting for those bytes"
						}
					case *ast.IfStmt:
						// error exits: `if err != nil { return ... }` do not consume
						if s.Init != nil {
							scan([]ast.Stmt{s.Init})
						}
					case *ast.ExprStmt, *ast.IncDecStmt, *ast.DeclStmt:
						if uses(s, m.sizeVar) {
							pending = ""
						}
					}
				}
			}
			scan(gfd.Body.List)
			k2 := "generator." + m.fn + "/size-accounting"
			if bad == "" {
				r.OK(k2, fd.Pos(), "every size result is consumed (%s) before it is overwritten or the function returns", m.consume)
			} else {
				r.Bad(k2, fd.Pos(), "%s: generated %s reports a size that differs from the bytes written/read, nested structs decode from the wrong offset", bad, strings.TrimPrefix(m.fn, "structWriter."))
			}
		}
	}
	// order: encode walks the struct's fields ascending, decode descending (decided on the loops' induction
	// variables, not on the spelling of the loop header)
	enc, dec := findFuncDecl(gp, "structWriter.encode_method"), findFuncDecl(gp, "structWriter.decode_method")
	if enc != nil && dec != nil {
		isFields := func(v ssa.Value) bool {
			call, ok := v.(*ssa.Call)
			if !ok {
				return false
			}
			name := ""
			var recv ssa.Value
			if call.Call.IsInvoke() {
				name, recv = call.Call.Method.Name(), call.Call.Value
			} else if cal := call.Call.StaticCallee(); cal != nil && len(call.Call.Args) > 0 {
				name, recv = cal.Name(), call.Call.Args[0]
			}
			return name == "Values" && recv != nil && strings.HasSuffix(valueSource(recv), ".Fields")
		}
		asc := loopOrderOver(c, c.Func("internal/lang/generator", "structWriter.encode_method"), isFields) == "asc"
		desc := loopOrderOver(c, c.Func("internal/lang/generator", "structWriter.decode_method"), isFields) == "desc"
		key := "generator.structWriter/field-order"
		if asc && desc {
			r.OK(key, enc.Pos(), "fields encoded in declaration order, decoded in reverse (values are read from the end of the buffer)")
		} else {
			r.Bad(key, enc.Pos(), "struct fields must be encoded in declaration order (found=%v) and decoded in reverse order (found=%v)", asc, desc)
		}
	}
}

// ------------------------------------------------------------------ C16

func runR16_1(c *Ctx, registered *R) {
	// registered for C16, C05 and C01; the template half is C16's alone
	r := &R{c: c, rule: &Rule{ID: registered.rule.ID, Props: []string{"C16"}}}
	defer func() { registered.n += r.n }()
	gp := c.Pkg("internal/lang/generator")
	if gp == nil {
		return
	}
	allowed := map[string]bool{"Field": true, "FieldRaw": true, "HasField": true, "List": true, "Message": true, "Unwrap": true, "Raw": true, "Clone": true, "CloneToArena": true, "CloneToBuffer": true, "CloneTo": true, "Empty": true, "Len": true}
	for _, N := range scalarKinds {
		allowed[N] = true
	}
	re := regexp.MustCompile(`m\.msg\.([A-Za-z]+)\(`)
	seen := map[string]token.Pos{}
	for _, f := range gp.Syntax {
		ast.Inspect(f, func(n ast.Node) bool {
			bl, ok := n.(*ast.BasicLit)
			if !ok || bl.Kind != token.STRING {
				return true
			}
			s, err := strconv.Unquote(bl.Value)
			if err != nil {
				return true
			}
			for _, m := range re.FindAllStringSubmatch(s, -1) {
				if _, ok := seen[m[1]]; !ok {
					seen[m[1]] = bl.Pos()
				}
			}
			return true
		})
	}
	for _, name := range sortedKeys(seen) {
		key := "generator/msg-api:" + name
		if allowed[name] {
			r.OK(key, seen[name], "tag-addressed API")
		} else {
			r.Bad(key, seen[name], "generated accessors use m.msg.%s: access by position/index breaks when fields are added, removed or reordered", name)
		}
	}
	// table lookup compares the full tag width: no narrowing conversion of the searched tag on the way to the comparison.
	// This half also belongs to C05 and C01: a generated accessor (and the dynamic API) reads the field of ITS tag.
	tmplR := r
	rw := &R{c: c, rule: &Rule{ID: registered.rule.ID, Props: []string{"C16", "C05", "C01", "C08"}}}
	defer func() { registered.n += rw.n }()
	_ = tmplR
	for _, fname := range []string{"MessageTable.Offset", "messageTable.offset_small", "messageTable.offset_big"} {
		r := rw
		f := r.Need("internal/format", fname)
		if f == nil {
			continue
		}
		key := fnKey(f) + "/tag-width"
		bad := ""
		var tagParam *ssa.Parameter
		for _, p := range f.Params {
			if p.Name() == "tag" {
				tagParam = p
			}
		}
		if tagParam == nil {
			r.Unk(key, f.Pos(), "no tag parameter")
			continue
		}
		if b, ok := tagParam.Type().Underlying().(*types.Basic); !ok || b.Kind() != types.Uint16 {
			bad = fmt.Sprintf("the searched tag has type %s, tags are 16-bit", tagParam.Type())
		}
		for _, u := range users(tagParam) {
			if cv, ok := u.(*ssa.Convert); ok {
				if tb, ok := cv.Type().Underlying().(*types.Basic); ok && (tb.Kind() == types.Uint8 || tb.Kind() == types.Int8) {
					bad = "the searched tag is narrowed to 8 bits before the comparison: tags >= 256 alias tags modulo 256 in small tables, an absent new field reads another field's value"
				}
			}
		}
		if bad == "" {
			r.OK(key, f.Pos(), "16-bit tag compared at full width")
		} else {
			r.Bad(key, f.Pos(), "%s", bad)
		}
	}
}

func runR16_2(c *Ctx, r *R) {
	dp := c.Pkg("internal/decode")
	if dp == nil {
		return
	}
	var names []string
	for _, n := range dp.Types.Scope().Names() {
		if strings.HasPrefix(n, "Decode") && n != "DecodeType" && n != "DecodeTypeSize" {
			if _, ok := dp.Types.Scope().Lookup(n).(*types.Func); ok {
				names = append(names, n)
			}
		}
	}
	sort.Strings(names)
	for _, n := range names {
		f := c.Func("internal/decode", n)
		if f == nil || len(f.Params) == 0 {
			continue
		}
		key := fnKey(f) + "/empty-input"
		if n == "DecodeStringClone" {
			// delegate of DecodeString
			ok := false
			for _, call := range callsIn(f, false) {
				if o := calleeObj(call); o != nil && o.Name() == "DecodeString" {
					ok = true
				}
			}
			r.Check(ok, key, f.Pos(), "delegates to DecodeString", "DecodeStringClone no longer delegates to DecodeString")
			continue
		}
		// a return under len(b) == 0 with zero results and nil error
		good := false
		for _, ret := range returnsOf(f) {
			under := false
			for _, cd := range pathConds(ret.Block()) {
				for _, rel := range relsOf(cd) {
					if rel.Op == token.EQL && isLenOf(rel.X, f.Params[0]) && isConstInt(rel.Y, 0) {
						under = true
					}
				}
			}
			if !under {
				continue
			}
			allZero := true
			for _, res := range ret.Results {
				res = unspill(res)
				switch x := res.(type) {
				case *ssa.Const:
					if x.Value != nil {
						s := x.Value.ExactString()
						if s != "0" && s != "false" && s != `""` {
							allZero = false
						}
					}
				case *ssa.UnOp:
					// zero value of a named result read before any assignment / zero struct
					if _, isAlloc := x.X.(*ssa.Alloc); !isAlloc {
						allZero = false
					}
				default:
					allZero = false
				}
			}
			if allZero {
				good = true
			}
		}
		if good {
			r.OK(key, f.Pos(), "empty input (absent field) decodes to the zero value, size 0, nil error")
		} else {
			r.Bad(key, f.Pos(), "%s has no 'len(b) == 0 -> zero value, 0, nil' exit: reading a field that is absent from the data (added in a newer schema) returns an error instead of the zero value", n)
		}
	}
	// negative lookups
	for _, fn := range []string{"Message.field", "Message.fieldAt"} {
		f := r.Need("internal/types", fn)
		if f == nil {
			continue
		}
		key := fnKey(f) + "/absent-tag"
		// the table lookup whose negative result means "not in the table"
		var look ssa.Value
		for _, call := range callsIn(f, false) {
			if o := calleeObj(call); o != nil && (objName(o) == "MessageTable.Offset" || objName(o) == "MessageTable.OffsetByIndex") {
				look = call.Value()
			}
		}
		if look == nil {
			r.Unk(key, f.Pos(), "anchor lost: no MessageTable.Offset / OffsetByIndex lookup in %s", fn)
			continue
		}
		good := nilWhenNegative(f, look, 0)
		r.Check(good, key, f.Pos(), "a tag that is not in the table (-1) reads as nil bytes: every path to a non-nil result passes the test lookup >= 0", "a missing tag is not mapped to nil bytes")
	}
}

func runR16_3(c *Ctx, r *R) {
	f := r.Need("internal/writer", "MessageWriter.Copy")
	if f == nil {
		return
	}
	// loop over all fields: index phi from 0 up to src.Fields(); continue only under HasField or !ok
	var fieldsCall *ssa.Call
	for _, call := range callsIn(f, false) {
		if o := calleeObj(call); o != nil && objName(o) == "Message.Fields" {
			fieldsCall = call.(*ssa.Call)
		}
	}
	key := fnKey(f) + "/all-fields"
	covered := false
	if fieldsCall != nil {
		allInstrs(f, func(i ssa.Instruction) {
			if cmp, ok := i.(*ssa.BinOp); ok && cmp.Op == token.LSS && cmp.Y == ssa.Value(fieldsCall) {
				if phi, ok := cmp.X.(*ssa.Phi); ok {
					for _, e := range phi.Edges {
						if isConstInt(e, 0) {
							covered = true
						}
					}
				}
			}
		})
	}
	r.Check(covered, key, f.Pos(), "iterates every field index of the source message [0, src.Fields())", "Copy does not visit every field of the source: fields unknown to this schema version are dropped on merge")
	// the write (fieldAny) is skipped only under HasField(tag) == true or TagAt !ok
	key2 := fnKey(f) + "/skip-only-present"
	good := false
	// the write may sit in a helper the loop calls per field (copyFieldAt(src, i)): its conditions there and the
	// conditions of the helper call in Copy are judged together
	type wsite struct {
		call  ssa.CallInstruction
		outer []Cond
	}
	var wsites []wsite
	for _, call := range callsIn(f, false) {
		if o := calleeObj(call); o != nil && o.Name() == "fieldAny" {
			wsites = append(wsites, wsite{call, nil})
			continue
		}
		if h := call.Common().StaticCallee(); h != nil && h.Blocks != nil && h.Pkg == f.Pkg && h != f {
			for _, c2 := range callsIn(h, false) {
				if o := calleeObj(c2); o != nil && o.Name() == "fieldAny" {
					wsites = append(wsites, wsite{c2, pathConds(call.Block())})
				}
			}
		}
	}
	for _, ws := range wsites {
		call := ws.call
		{
			conds := append(append([]Cond{}, ws.outer...), pathConds(call.Block())...)
			hasNotHas := false
			for _, cd := range conds {
				if hc, ok := cd.V.(*ssa.Call); ok && !cd.Truth {
					if o2 := calleeObj(hc); o2 != nil && o2.Name() == "HasField" {
						hasNotHas = true
					}
				}
			}
			// no other data-dependent skip: every dominating condition is HasField, TagAt's ok, or the loop bound
			other := false
			for _, cd := range conds {
				switch v := cd.V.(type) {
				case *ssa.Call:
					if o2 := calleeObj(v); o2 == nil || o2.Name() != "HasField" {
						other = true
					}
				case *ssa.Extract:
				case *ssa.BinOp:
					if v.Y != ssa.Value(fieldsCall) {
						other = true
					}
				default:
					other = true
				}
			}
			if hasNotHas && !other {
				good = true
			}
		}
	}
	r.Check(good, key2, f.Pos(), "a source field is skipped only when the destination already has that tag", "Copy skips source fields for a reason other than 'destination already has this tag' (or writes present tags twice)")
}
