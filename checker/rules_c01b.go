package main

import (
	"fmt"
	"go/token"
	"go/types"
	"strings"

	"golang.org/x/tools/go/ssa"
)

// R01.5: a clone shares no memory with its source. Message.Clone / CloneTo / CloneToArena / CloneToBuffer and
// List.Clone / CloneTo copy the value's bytes into the destination and must build the returned value from that copy
// alone: format.MessageTable and format.ListTable are views ([]byte) into the value's buffer, so a clone that keeps
// the source's table (Message{table: m.table, bytes: b}) reads tags and offsets from the SOURCE buffer - correct
// until that buffer is reused (the reason to clone), then every lookup on the clone is wrong. Decided by a taint
// analysis over the Clone* methods of internal/types: the receiver and everything read from it that can carry a
// reference (slices, strings, pointers, structs containing them) is tainted; copy(dst, src) copies contents and
// does not taint dst; a call result is tainted when a reference-carrying argument is; the value returned must be
// clean.
func init() {
	register(&Rule{ID: "R01.5", Props: []string{"C01"}, Floor: 6,
		Doc: "Clone* methods of internal/types return a value built only from the copied bytes: no slice or table view of the receiver reaches the result",
		Run: runR01_5})
}

func carriesRef(t types.Type, depth int) bool {
	if depth > 6 {
		return true
	}
	switch u := t.Underlying().(type) {
	case *types.Basic:
		return u.Info()&types.IsString != 0 || u.Kind() == types.UnsafePointer
	case *types.Struct:
		for i := 0; i < u.NumFields(); i++ {
			if carriesRef(u.Field(i).Type(), depth+1) {
				return true
			}
		}
		return false
	case *types.Array:
		return carriesRef(u.Elem(), depth+1)
	}
	return true
}

func runR01_5(c *Ctx, r *R) {
	n := 0
	for _, f := range c.SrcFuncs("internal/types") {
		if f.Parent() != nil || f.Signature.Recv() == nil || !strings.HasPrefix(f.Name(), "Clone") || len(f.Params) == 0 {
			continue
		}
		n++
		key := fnKey(f) + "/no-alias"
		recv := ssa.Value(f.Params[0])
		tainted := map[ssa.Value]bool{recv: true}
		taintedAlloc := map[*ssa.Alloc]bool{}
		isT := func(v ssa.Value) bool { return tainted[v] }
		for changed := true; changed; {
			changed = false
			mark := func(v ssa.Value) {
				if !tainted[v] && carriesRef(v.Type(), 0) {
					tainted[v] = true
					changed = true
				}
			}
			allInstrs(f, func(i ssa.Instruction) {
				switch x := i.(type) {
				case *ssa.Field:
					if isT(x.X) {
						mark(x)
					}
				case *ssa.FieldAddr:
					if isT(x.X) {
						mark(x)
					}
				case *ssa.IndexAddr:
					if isT(x.X) {
						mark(x)
					}
				case *ssa.Slice:
					if isT(x.X) {
						mark(x)
					}
				case *ssa.ChangeType:
					if isT(x.X) {
						mark(x)
					}
				case *ssa.Convert:
					if isT(x.X) {
						mark(x)
					}
				case *ssa.MakeInterface:
					if isT(x.X) {
						mark(x)
					}
				case *ssa.Phi:
					for _, e := range x.Edges {
						if isT(e) {
							mark(x)
						}
					}
				case *ssa.Extract:
					if isT(x.Tuple) {
						mark(x)
					}
				case *ssa.UnOp:
					if x.Op == token.MUL && isT(x.X) {
						mark(x)
					}
				case *ssa.Store:
					if isT(x.Val) {
						// the variable (or the struct the field belongs to) now holds a reference of the receiver
						addr := x.Addr
						for {
							if fa, ok := addr.(*ssa.FieldAddr); ok {
								addr = fa.X
								continue
							}
							break
						}
						if al, ok := addr.(*ssa.Alloc); ok && !taintedAlloc[al] {
							taintedAlloc[al] = true
							if !tainted[al] {
								tainted[al] = true
								changed = true
							}
						}
					}
				case *ssa.Call:
					if b, ok := x.Call.Value.(*ssa.Builtin); ok {
						switch b.Name() {
						case "append":
							if len(x.Call.Args) > 0 && isT(x.Call.Args[0]) {
								mark(x)
							}
						}
						return // len, cap, copy, min, max: no reference flows to the result / destination
					}
					// another Clone* method of the package is judged on its own: what it returns is a clone
					if cal := x.Call.StaticCallee(); cal != nil && cal.Pkg == f.Pkg && strings.HasPrefix(cal.Name(), "Clone") {
						return
					}
					for _, a := range x.Call.Args {
						if isT(a) && carriesRef(a.Type(), 0) {
							mark(x)
						}
					}
					if x.Call.IsInvoke() && isT(x.Call.Value) {
						mark(x)
					}
				}
			})
		}
		bad := ""
		for _, ret := range returnsOf(f) {
			for _, rv := range ret.Results {
				if isT(rv) {
					bad = fmt.Sprintf("the value returned at %s still refers to memory of the receiver (a slice or table view read from it reaches the result)", c.pos(ret.Pos()))
				}
			}
		}
		if bad == "" {
			r.OK(key, f.Pos(), "the result is built from the copied bytes only")
		} else {
			r.Bad(key, f.Pos(), "%s: the clone reads tags/offsets or data from the source buffer - correct until that buffer is reused, then every lookup on the clone is wrong", bad)
		}
	}
	if n == 0 {
		r.Unk("internal/types/Clone", 0, "anchor lost: no Clone* method found")
	}
}
