package main

import (
	"fmt"
	"go/token"
	"go/types"

	"golang.org/x/tools/go/ssa"
)

// R18.6: a handle is detached from its pooled state before the state is released. The Free methods of the handles
// that wrap pooled state (rpc.Request, the client and server channels of rpc, the writer) are idempotent by a nil
// guard on the field that holds the state. That guard only works if the field is cleared when the state goes back
// to the pool: otherwise a second Free (an explicit one plus a deferred one) Puts the same object twice, and the
// next two acquirers - in any two goroutines - share one state. In every function that hands a value to a
// releasing function (one that Puts its parameter into a pool), a value that was read from a field of the receiver
// must have been detached: obtained by an atomic Swap(nil) of that field, or the field is assigned nil in that
// function (before the release, or unconditionally after it).
func init() {
	register(&Rule{ID: "R18.6", Props: []string{"C18"}, Floor: 4,
		Doc: "a value handed to a releasing function that came from a field of the receiver was detached first (Swap(nil), or the field is set to nil in the same function)",
		Run: runR18_6})
}

// putsParam: fn hands its i-th parameter to a pool's Put.
func putsParam(fn *ssa.Function, i int) bool {
	if fn == nil || fn.Blocks == nil || i >= len(fn.Params) {
		return false
	}
	for _, call := range callsIn(fn, false) {
		cc := call.Common()
		name := ""
		if cc.IsInvoke() {
			name = cc.Method.Name()
		} else if cal := cc.StaticCallee(); cal != nil {
			name = cal.Name()
		}
		if name != "Put" {
			continue
		}
		for _, a := range cc.Args {
			if a == ssa.Value(fn.Params[i]) {
				return true
			}
			if mi, ok := a.(*ssa.MakeInterface); ok && mi.X == ssa.Value(fn.Params[i]) {
				return true
			}
		}
	}
	return false
}

func runR18_6(c *Ctx, r *R) {
	n := 0
	for _, rel := range []string{"rpc", "mpx", "internal/writer"} {
		for _, f := range c.SrcFuncs(rel) {
			if f.Signature.Recv() == nil || len(f.Params) == 0 {
				continue
			}
			recv := ssa.Value(f.Params[0])
			k := 0
			for _, call := range callsIn(f, false) {
				h := call.Common().StaticCallee()
				if h == nil {
					continue
				}
				for i, a := range call.Common().Args {
					if !putsParam(h, i) {
						continue
					}
					// where does the released value come from?
					v := a
					if ld, ok := v.(*ssa.UnOp); ok && ld.Op == token.MUL {
						if al, ok := ld.X.(*ssa.Alloc); ok {
							v = singleStoreValue(ld)
							_ = al
						}
					}
					var fld *types.Var
					detached := ""
					switch x := v.(type) {
					case *ssa.UnOp:
						if fa, ok := x.X.(*ssa.FieldAddr); ok && x.Op == token.MUL && fa.X == recv {
							fld = fieldOf(fa)
						}
					case *ssa.Call:
						if o := calleeObj(x); o != nil && o.Name() == "Swap" && len(x.Call.Args) > 0 && isNilConst(x.Call.Args[len(x.Call.Args)-1]) {
							detached = "obtained by Swap(nil)"
						}
					}
					if fld == nil && detached == "" {
						continue // not read from the handle (a parameter, a fresh object, the receiver itself)
					}
					k++
					n++
					key := fmt.Sprintf("%s/release#%d", fnKey(f), k)
					if fld != nil {
						ci := call.(ssa.Instruction)
						allInstrs(f, func(i ssa.Instruction) {
							st, ok := i.(*ssa.Store)
							if !ok || !isNilConst(st.Val) {
								return
							}
							fa, ok := st.Addr.(*ssa.FieldAddr)
							if !ok || fa.X != recv || fieldOf(fa) != fld {
								return
							}
							if dominatesInstr(st, ci) || dominatesInstr(ci, st) {
								detached = "the field is set to nil in the same function"
							}
						})
					}
					if detached != "" {
						r.OK(key, call.Pos(), "%s", detached)
					} else {
						r.Bad(key, call.Pos(), "the state read from %s.%s is handed to %s while the handle keeps pointing at it: a second Free passes the nil guard and Puts the same object into the pool again - the next two acquirers share one state", f.Params[0].Name(), fld.Name(), h.Name())
					}
				}
			}
		}
	}
	if n == 0 {
		r.Unk("rpc,mpx,internal/writer/release-sites", 0, "anchor lost: no handle releases pooled state")
	}
}
