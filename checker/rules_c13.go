package main

import (
	"fmt"
	"go/constant"
	"go/token"
	"go/types"
	"sort"
	"strings"

	"golang.org/x/tools/go/ssa"
)

const compactintPath = "github.com/basecomplextech/baselibrary/encoding/compactint"

func init() {
	props["C13"] = &propInfo{Level: "other", Explanation: "Decides structural necessary conditions of parse/open/probe agreement and locality: (R13.1) every caller of the reverse-varint decoders sends the 'zero bytes consumed' (truncated) and 'negative' (overflow) results to an error exit before the value or the count is used, on the variable that call produced - otherwise a value decodes differently depending on the bytes preceding it and the typed decoders disagree with the probe; (R13.2) the recursive parser, the size probe and Type.Check accept the same set of wire types = all declared ones; (R13.3) per wire type, the success condition of the typed decoder that ParseValue dispatches to refutes every rejection guard of the DecodeTypeSize arm, and both report the same size and type - a relational check over canonical read positions (the same read at the same offset from the end is the same symbol in both functions), helper exit summaries and linear entailment; (R13.4) the slice ParseList/ParseMessage hand to the recursive ParseValue is, as a canonical term over (container, index), the slice List.Get/Message.FieldAt open; (R02.1 locality obligations) every Decode*/Parse*/Open* result is a view into the value's own last n bytes and n does not depend on the preceding bytes' count. Not decided: re-parse equality of accepted inputs as a behavioural fact; typed accessors by tag (covered through R16.1/R01.4); integer wrap-around inside the size arithmetic is C02's obligation.",
		Trusted: []string{"compactint.Reverse* contract (0 = truncated, <0 = overflow), read from the dependency source"}}

	register(&Rule{ID: "R13.1", Props: []string{"C13", "C02"}, Floor: 20,
		Doc: "varint result contract: the byte count returned by compactint.Reverse{Uint32,Uint64,Int32,Int64,Size} (or a wrapper forwarding the tuple) is proved >= 1 by the dominating branch conditions at every use of the decoded value and every arithmetic use of the count",
		Run: runR13_1})
	register(&Rule{ID: "R13.2", Props: []string{"C13"}, Floor: 4,
		Doc: "type-set agreement: the case labels of types.ParseValue, decode.DecodeTypeSize and format.Type.Check are the same set, equal to all declared wire types",
		Run: runR13_2})
}

// varintFuncs: callee -> index of the byte-count result (-1: single result).
func isVarintDecoder(fn *types.Func) (countIdx int, ok bool) {
	if fn == nil || fn.Pkg() == nil || fn.Pkg().Path() != compactintPath {
		return 0, false
	}
	switch fn.Name() {
	case "ReverseUint32", "ReverseUint64", "ReverseInt32", "ReverseInt64":
		return 1, true
	case "ReverseSize":
		return -1, true
	}
	return 0, false
}

func runR13_1(c *Ctx, r *R) {
	// wrappers: module functions that forward the tuple of a varint decoder unchanged
	wrappers := map[*ssa.Function]bool{}
	var modFuncs []*ssa.Function
	for _, rel := range analysedPkgs {
		modFuncs = append(modFuncs, c.SrcFuncs(rel)...)
	}
	isTarget := func(call ssa.CallInstruction) (int, bool) {
		if idx, ok := isVarintDecoder(calleeObj(call)); ok {
			return idx, true
		}
		if f := calleeOf(call); f != nil && wrappers[f] {
			return 1, true
		}
		return 0, false
	}
	for changed := true; changed; {
		changed = false
		for _, f := range modFuncs {
			if wrappers[f] {
				continue
			}
			for _, call := range callsIn(f, false) {
				cv, ok := call.(*ssa.Call)
				if !ok {
					continue
				}
				if idx, ok := isTarget(call); ok && idx == 1 {
					// forwarded: the only user is a Return with the tuple
					if forwardsTuple(cv) {
						wrappers[f] = true
						changed = true
					}
				}
			}
		}
	}
	for w := range wrappers {
		r.Note("wrapper forwarding a varint result tuple: %s", fnKey(w))
	}
	perFn := map[string]int{}
	for _, f := range modFuncs {
		if wrappers[f] {
			continue
		}
		for _, call := range callsIn(f, false) {
			idx, ok := isTarget(call)
			if !ok {
				continue
			}
			cv, ok := call.(*ssa.Call)
			if !ok {
				continue
			}
			co := calleeObj(call)
			name := ""
			if co != nil {
				name = co.Name()
			} else if sf := calleeOf(call); sf != nil {
				name = sf.Name()
			}
			if sf := calleeOf(call); sf != nil && wrappers[sf] {
				name = sf.Name()
			}
			perFn[fnKey(f)+"/"+name]++
			key := fmt.Sprintf("%s/%s#%d", fnKey(f), name, perFn[fnKey(f)+"/"+name])
			var cnt, val ssa.Value
			if idx < 0 {
				cnt = cv
			} else {
				if e := extractOf(cv, idx); e != nil {
					cnt = e
				}
				if e := extractOf(cv, 0); e != nil {
					val = e
				}
			}
			if cnt == nil {
				if val != nil {
					r.Bad(key, cv.Pos(), "decoded value is used but the byte count is discarded: truncated input (count 0) is indistinguishable from value 0")
				} else {
					r.OK(key, cv.Pos(), "result unused")
				}
				continue
			}
			bad := ""
			// value and count may travel together through pure moves before the count is tested: a conversion
			// (uint64(v32)) and a join where both are merged in the same block, edge by edge (v, m = ... in every arm
			// of a switch, `if m <= 0` behind it). The obligation then is on the merged count.
			aliasOf := func(v, root ssa.Value) bool {
				for i := 0; i < 4; i++ {
					if v == root {
						return true
					}
					switch x := v.(type) {
					case *ssa.Convert:
						v = x.X
					case *ssa.ChangeType:
						v = x.X
					default:
						return false
					}
				}
				return false
			}
			seenV := map[ssa.Value]bool{}
			var check func(v, cnt ssa.Value, isCnt bool, what string, depth int)
			check = func(v, cnt ssa.Value, isCnt bool, what string, depth int) {
				if seenV[v] || depth > 6 {
					return
				}
				seenV[v] = true
				for _, u := range users(v) {
					if isCnt && isComparison(u) {
						continue
					}
					if _, ok := u.(*ssa.DebugRef); ok {
						continue
					}
					switch x := u.(type) {
					case *ssa.Convert:
						if isIntegerType(x.Type()) {
							check(x, cnt, isCnt, what, depth+1)
							continue
						}
					case *ssa.ChangeType:
						check(x, cnt, isCnt, what, depth+1)
						continue
					}
					blk := u.Block()
					if phi, ok := u.(*ssa.Phi); ok {
						// the use happens on the incoming edge
						for k, e := range phi.Edges {
							if e != v {
								continue
							}
							if isCnt {
								// the merged count carries the obligation on
								check(phi, phi, true, what, depth+1)
								continue
							}
							// the value: its companion is the phi of the same block that merges the count on the same edge
							var comp *ssa.Phi
							for _, ins := range phi.Block().Instrs {
								p2, isPhi := ins.(*ssa.Phi)
								if !isPhi {
									break
								}
								if p2 != phi && k < len(p2.Edges) && aliasOf(p2.Edges[k], cnt) {
									comp = p2
								}
							}
							if comp != nil {
								check(phi, comp, false, what, depth+1)
								continue
							}
							blk = phi.Block().Preds[k]
							if lb, ok := lowerBoundAt(blk, cnt); !ok || lb < 1 {
								bad = fmt.Sprintf("%s flows into a phi at %s without the count being proved >= 1", what, c.pos(phi.Pos()))
							}
						}
						continue
					}
					if lb, ok := lowerBoundAt(blk, cnt); !ok || lb < 1 {
						lbs := "none"
						if ok {
							lbs = fmt.Sprint(lb)
						}
						bad = fmt.Sprintf("%s is used at %s where the byte count is only known >= %s: a truncated varint (count 0) is not rejected, so the result depends on bytes outside the value", what, c.pos(instrPos(u)), lbs)
					}
				}
			}
			check(cnt, cnt, true, "the byte count", 0)
			if val != nil {
				check(val, cnt, false, "the decoded value", 0)
			}
			if bad != "" {
				r.Bad(key, cv.Pos(), "%s", bad)
			} else {
				r.OK(key, cv.Pos(), "count proved >= 1 at every use of value and count")
			}
		}
	}
}

// caseLabelsOn collects the constant case labels of equality comparisons against value-of-type typ in f
// (switch statements lower to chains of `x == K` BinOps).
func typeSwitchLabels(f *ssa.Function, isTag func(v ssa.Value) bool) map[int64]bool {
	out := map[int64]bool{}
	typeSwitchLabelsInto(f, isTag, out, 0, map[*ssa.Function]bool{})
	return out
}

func typeSwitchLabelsInto(f *ssa.Function, isTag func(v ssa.Value) bool, out map[int64]bool, depth int, seen map[*ssa.Function]bool) {
	if seen[f] {
		return
	}
	seen[f] = true
	// the switch may live in an unexported helper of the same package that is handed the tag
	if depth < 3 {
		for _, call := range callsIn(f, false) {
			callee := call.Common().StaticCallee()
			if callee == nil || callee.Blocks == nil || callee.Pkg != f.Pkg || token.IsExported(callee.Name()) {
				continue
			}
			for _, a := range call.Common().Args {
				if isTag(a) {
					typeSwitchLabelsInto(callee, isTag, out, depth+1, seen)
					break
				}
			}
		}
	}
	allInstrs(f, func(i ssa.Instruction) {
		b, ok := i.(*ssa.BinOp)
		if !ok || b.Op != token.EQL {
			return
		}
		x, y := b.X, b.Y
		if _, ok := x.(*ssa.Const); ok {
			x, y = y, x
		}
		k, ok := y.(*ssa.Const)
		if !ok || k.Value == nil || k.Value.Kind() != constant.Int || !isTag(x) {
			return
		}
		// only labels that steer control flow
		for _, u := range users(b) {
			if _, ok := u.(*ssa.If); ok {
				v, _ := constant.Int64Val(k.Value)
				out[v] = true
			}
		}
	})
}

func declaredWireTypes(c *Ctx) map[int64]string {
	out := map[int64]string{}
	p := c.Pkg("internal/format")
	if p == nil {
		return out
	}
	sc := p.Types.Scope()
	for _, n := range sc.Names() {
		k, ok := sc.Lookup(n).(*types.Const)
		if !ok || !strings.HasPrefix(n, "Type") || !typeIs(k.Type(), pkgPath("internal/format"), "Type") {
			continue
		}
		v, _ := constant.Int64Val(k.Val())
		if n == "TypeUndefined" {
			continue
		}
		out[v] = n
	}
	return out
}

func runR13_2(c *Ctx, r *R) {
	decl := declaredWireTypes(c)
	r.Check(len(decl) >= 21, "internal/format.Type*", 0, fmt.Sprintf("%d wire types declared", len(decl)), fmt.Sprintf("only %d wire types declared, the pinned format has 21", len(decl)))
	isFmtType := func(v ssa.Value) bool { return typeIs(v.Type(), pkgPath("internal/format"), "Type") }
	for _, site := range [][2]string{{"internal/types", "ParseValue"}, {"internal/decode", "DecodeTypeSize"}, {"internal/format", "Type.Check"}} {
		f := r.Need(site[0], site[1])
		if f == nil {
			continue
		}
		labels := typeSwitchLabels(f, isFmtType)
		var missing, extra []string
		for v, n := range decl {
			if !labels[v] {
				missing = append(missing, n)
			}
		}
		for v := range labels {
			if _, ok := decl[v]; !ok {
				extra = append(extra, fmt.Sprint(v))
			}
		}
		sort.Strings(missing)
		sort.Strings(extra)
		key := fnKey(f) + "/type-cases"
		if len(missing)+len(extra) == 0 {
			r.OK(key, f.Pos(), "handles exactly the %d declared wire types", len(decl))
		} else {
			r.Bad(key, f.Pos(), "type set differs from the declared wire types: missing %v, undeclared %v", missing, extra)
		}
	}
}

// forwardsTuple reports whether the results of call are returned unchanged and in order by a single Return
// (either the tuple itself or Extracts #0..#n-1 as the Return's operands) and used nowhere else.
func forwardsTuple(cv *ssa.Call) bool {
	us := users(cv)
	if len(us) == 1 {
		if _, ok := us[0].(*ssa.Return); ok {
			return true
		}
	}
	var ret *ssa.Return
	for _, u := range us {
		e, ok := u.(*ssa.Extract)
		if !ok {
			return false
		}
		eus := users(e)
		if len(eus) != 1 {
			return false
		}
		rt, ok := eus[0].(*ssa.Return)
		if !ok || (ret != nil && rt != ret) || e.Index >= len(rt.Results) || rt.Results[e.Index] != e {
			return false
		}
		ret = rt
	}
	return ret != nil
}
