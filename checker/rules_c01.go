package main

import (
	"fmt"
	"go/token"

	"golang.org/x/tools/go/ssa"
)

func init() {
	props["C01"] = &propInfo{Level: "other", Explanation: "Decides structural necessary conditions of the writer -> reader round trip, not the equality of trees: (R01.4) the tag lookup of the serialized message table is the canonical binary search: bounds left=0, right=n-1 with n=len(table)/entrySize, loop while left <= right, middle=(left+right)>>1, left=middle+1 exactly when the entry's tag is smaller, right=middle-1 exactly when it is larger, the offset field of that entry is returned when equal and -1 after the loop - for both the small and the big table form (a lookup that misses a present tag breaks 'every field is found under its tag'); (R08.2) the writer chooses the big table form exactly when some field has tag > 255 or offset > 65535 / a list has > 255 elements or a last offset > 65535, and the type code and the table layout are selected by that same value; (R08.3) trailer order table, data size, table size + type; (R08.4) every byte of every encoded region is written and no write lands in a region that a later buffer growth may have abandoned; (R12.4/R12.5) the writer's nesting transitions check the stack entry kinds the nesting grammar requires, so element/field offsets are recorded against the right parent; (C02) the reader side never reads outside the value. Not decided: that values, order, absence of other tags and the consumed length are preserved (runtime equalities); correctness of the insertion sort as a whole; sizes beyond the preallocated tables.",
		Trusted: []string{"textbook correctness of the canonical binary search on a table sorted by tag", "see C02/C08/C12 for the shared rules"}}

	register(&Rule{ID: "R01.4", Props: []string{"C01", "C16"}, Floor: 2,
		Doc: "table lookup is the canonical binary search (bounds, guard, midpoint, both updates, result)",
		Run: runR01_4})
}

func runR01_4(c *Ctx, r *R) {
	for _, sp := range []struct {
		fn     string
		stride int64
	}{{"messageTable.offset_small", 3}, {"messageTable.offset_big", 6}, {"messageTable.offset_small_safe", 3}, {"messageTable.offset_big_safe", 6}} {
		f := c.Func("internal/format", sp.fn)
		if f == nil || f.Blocks == nil {
			if sp.fn == "messageTable.offset_small" || sp.fn == "messageTable.offset_big" {
				r.Unk("internal/format."+sp.fn, 0, "anchor lost: live lookup %s not found", sp.fn)
			}
			continue // the _safe twins are dead code today; compared only if present
		}
		key := fnKey(f) + "/binary-search"
		// the search loop may live in a helper of the table that the lookup calls with the tag (find_big(tag)
		// returning a pointer to the entry, or nil): the shape is checked there, and the lookup must answer -1
		// exactly where the helper answered "absent"
		outer := f
		if loopFree(f) {
			for _, call := range callsIn(f, false) {
				h := call.Common().StaticCallee()
				cv, isCall := call.(*ssa.Call)
				if h == nil || !isCall || h.Blocks == nil || h.Pkg != f.Pkg || loopFree(h) || len(cv.Call.Args) == 0 || cv.Call.Args[0] != ssa.Value(f.Params[0]) {
					continue
				}
				passesTag := false
				for _, a := range cv.Call.Args {
					for _, p := range f.Params {
						if p.Name() == "tag" && a == ssa.Value(p) {
							passesTag = true
						}
					}
				}
				if !passesTag {
					continue
				}
				// -1 exactly under "helper said absent"
				mapped := false
				for _, ret := range returnsOf(f) {
					if len(ret.Results) == 1 && isConstInt(ret.Results[0], -1) {
						for _, cd := range pathConds(ret.Block()) {
							for _, rel := range relsOf(cd) {
								if rel.Op == token.EQL && ((rel.X == ssa.Value(cv) && (isNilConst(rel.Y) || isConstInt(rel.Y, -1))) || (rel.Y == ssa.Value(cv) && (isNilConst(rel.X) || isConstInt(rel.X, -1)))) {
									mapped = true
								}
							}
						}
					}
				}
				if mapped {
					f = h
				}
				break
			}
		}
		_ = outer
		var problems []string
		bad := func(format string, a ...any) { problems = append(problems, fmt.Sprintf(format, a...)) }
		var tag *ssa.Parameter
		for _, p := range f.Params {
			if p.Name() == "tag" {
				tag = p
			}
		}
		if tag == nil {
			r.Unk(key, f.Pos(), "no tag parameter")
			continue
		}
		// loop header: two int phis
		var left, right *ssa.Phi
		var header *ssa.BasicBlock
		for _, b := range f.Blocks {
			var phis []*ssa.Phi
			for _, ins := range b.Instrs {
				if p, ok := ins.(*ssa.Phi); ok && isIntegerType(p.Type()) {
					phis = append(phis, p)
				}
			}
			if len(phis) == 2 {
				isHdr := false
				for _, pr := range b.Preds {
					if b.Dominates(pr) {
						isHdr = true
					}
				}
				if isHdr {
					header = b
					// left is the one initialised with 0
					for _, p := range phis {
						for i, e := range p.Edges {
							if !b.Dominates(b.Preds[i]) && isConstInt(e, 0) {
								left = p
							}
						}
					}
					for _, p := range phis {
						if p != left {
							right = p
						}
					}
				}
			}
		}
		if header == nil || left == nil || right == nil {
			r.Bad(key, f.Pos(), "no loop with the two search bounds (left initialised to 0, right) found")
			continue
		}
		// right init: n-1 with n = len(t)/stride
		okInit := false
		for i, e := range right.Edges {
			if header.Dominates(header.Preds[i]) {
				continue
			}
			if sub, ok := e.(*ssa.BinOp); ok && sub.Op == token.SUB && isConstInt(sub.Y, 1) {
				if q, ok := sub.X.(*ssa.BinOp); ok && q.Op == token.QUO && isLenOf(q.X, f.Params[0]) && isConstInt(q.Y, sp.stride) {
					okInit = true
				}
			}
		}
		if !okInit {
			bad("right is not initialised to len(table)/%d - 1", sp.stride)
		}
		// guard left <= right
		guard := ifCond(header)
		okGuard := false
		if b, ok := guard.(*ssa.BinOp); ok {
			if (b.Op == token.LEQ && b.X == ssa.Value(left) && b.Y == ssa.Value(right)) || (b.Op == token.GEQ && b.X == ssa.Value(right) && b.Y == ssa.Value(left)) {
				okGuard = true
			}
		}
		if !okGuard {
			bad("loop guard is not left <= right (a strict guard skips the last candidate)")
		}
		// middle
		var middle ssa.Value
		allInstrs(f, func(i ssa.Instruction) {
			sh, ok := i.(*ssa.BinOp)
			if !ok || sh.Op != token.SHR || !isConstInt(sh.Y, 1) {
				return
			}
			x := sh.X
			if cv, ok := x.(*ssa.Convert); ok {
				x = cv.X
			}
			if add, ok := x.(*ssa.BinOp); ok && add.Op == token.ADD && ((add.X == ssa.Value(left) && add.Y == ssa.Value(right)) || (add.X == ssa.Value(right) && add.Y == ssa.Value(left))) {
				middle = sh
				for _, u := range users(sh) {
					if cv, ok := u.(*ssa.Convert); ok {
						middle = cv
					}
				}
			}
		})
		if middle == nil {
			bad("midpoint is not (left+right)>>1")
		}
		// updates
		isCmp := func(cd Cond, op token.Token) bool {
			for _, rel := range relsOf(cd) {
				x, y, o := rel.X, rel.Y, rel.Op
				if x == ssa.Value(tag) {
					x, y, o = y, x, swapOp(o)
				}
				if y == ssa.Value(tag) && o == op {
					_ = x
					return true
				}
			}
			return false
		}
		checkUpdate := func(phi *ssa.Phi, delta int64, op token.Token, name string) {
			found := false
			for i, e := range phi.Edges {
				pred := header.Preds[i]
				if !header.Dominates(pred) || e == ssa.Value(phi) {
					continue
				}
				b, ok := e.(*ssa.BinOp)
				wantOp := token.ADD
				if delta < 0 {
					wantOp = token.SUB
				}
				if !ok || b.Op != wantOp || b.X != middle || !isConstInt(b.Y, 1) {
					bad("%s is updated to something other than middle%+d", name, delta)
					continue
				}
				found = true
				under := false
				conds := pathConds(pred)
				if cnd := ifCond(pred); cnd != nil && pred.Succs[0] != pred.Succs[1] {
					conds = append(conds, Cond{cnd, pred.Succs[0] == header})
				}
				for _, cd := range conds {
					if isCmp(cd, op) {
						under = true
					}
				}
				if !under {
					bad("%s = middle%+d is not taken exactly when the entry's tag is %s than the searched tag", name, delta, map[token.Token]string{token.LSS: "smaller", token.GTR: "larger"}[op])
				}
			}
			if !found {
				bad("no update %s = middle%+d", name, delta)
			}
		}
		if middle != nil {
			checkUpdate(left, +1, token.LSS, "left")
			checkUpdate(right, -1, token.GTR, "right")
		}
		// results: -1 after the loop; a non-constant under cur == tag
		hasMinus1, hasFound := false, false
		for _, ret := range returnsOf(f) {
			if len(ret.Results) != 1 {
				continue
			}
			if isConstInt(ret.Results[0], -1) || isNilConst(ret.Results[0]) {
				hasMinus1 = true
				continue
			}
			conds := pathConds(ret.Block())
			for _, cd := range conds {
				if isCmp(cd, token.EQL) {
					hasFound = true
				}
			}
			// switch lowering: cur == tag is the last case; reaching it through the false edges of < and > is equivalent
			lt, gt := false, false
			for _, cd := range conds {
				if isCmp(cd, token.GEQ) {
					lt = true
				}
				if isCmp(cd, token.LEQ) {
					gt = true
				}
			}
			if lt && gt {
				hasFound = true
			}
		}
		// an early "absent" answer before the search starts must mean that the table has no entry at all
		{
			e := newBE(c)
			fc := e.newFnCtx(f)
			inLoop := reachableFrom(header)
			for _, ret := range returnsOf(f) {
				if len(ret.Results) != 1 || !(isConstInt(ret.Results[0], -1) || isNilConst(ret.Results[0])) || inLoop[ret.Block()] || ret.Block() == header {
					continue
				}
				budget := 300
				if !fc.prove(leq(e.lenOf(f.Params[0], 'l'), linConst(sp.stride-1)), ret.Block(), nil, nil, 4, &budget) {
					bad("the early -1 at %s is taken for tables that are not empty (it must imply len(table) < %d): the only field of a one-entry table is reported absent", c.pos(ret.Pos()), sp.stride)
				}
			}
		}
		if !hasMinus1 {
			bad("no -1 result for an absent tag")
		}
		if !hasFound {
			bad("the offset is not returned under entry tag == searched tag")
		}
		if len(problems) == 0 {
			r.OK(key, f.Pos(), "canonical binary search over %d-byte entries", sp.stride)
		} else {
			r.Bad(key, f.Pos(), "the tag lookup is not the canonical binary search: %v - a field that is present in the table can be reported absent (or the loop does not terminate)", problems)
		}
	}
}
