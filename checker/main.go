// specvet: purpose-built static analyser for basecomplextech/spec.
// Decides structural necessary conditions of the 20 given properties from /repo's current source.
package main

import (
	"encoding/json"
	"flag"
	"fmt"
	"os"
	"path/filepath"
	"runtime/debug"
	"sort"
	"strconv"
	"strings"
	"time"
)

var rules []*Rule

func register(r *Rule) { rules = append(rules, r) }

type propInfo struct {
	Level       string
	Explanation string   // what is decided / not decided
	Trusted     []string // trusted base
}

var props = map[string]*propInfo{}

var selftestFile string

func main() {
	repo := flag.String("repo", "/repo", "repository root to analyse")
	prop := flag.String("prop", "", "property id (C01..C20) or 'all'")
	tier := flag.String("tier", "quick", "quick|thorough")
	evdir := flag.String("evidence", "", "directory for evidence files (empty: none written)")
	known := flag.String("known", "", "known_findings.json")
	only := flag.String("rules", "", "comma-separated rule ids to run (default: all rules of the property)")
	dump := flag.String("dump", "", "write all obligations as JSON to this file")
	replay := flag.String("replay", "", "replay file: re-run only that rule and print the matching obligation")
	arch := flag.String("arch", "", "GOARCH to load for (default host)")
	list := flag.Bool("list", false, "list rules")
	verbose := flag.Bool("v", false, "print every obligation")
	selftest := flag.String("selftest", "", "JSON file with mutant self-test results to embed in the evidence (thorough tier)")
	flag.Parse()
	selftestFile = *selftest

	if os.Getenv("SPECVET_DUMP_GRAMMAR") != "" {
		g, err := parseYacc(filepath.Join(*repo, "internal/lang/parser/grammar.y"))
		if err != nil {
			fatal(err)
		}
		for _, a := range g.Alts {
			fmt.Printf("\t%q: %q,\n", a.sig(), strings.Join(altBindings(a.Action), "; "))
		}
		return
	}
	if *list {
		for _, r := range rules {
			fmt.Printf("%-7s %-16s floor=%-3d %s\n", r.ID, strings.Join(r.Props, ","), r.Floor, r.Doc)
		}
		return
	}
	if *replay != "" {
		b, err := os.ReadFile(*replay)
		if err != nil {
			fatal(err)
		}
		var ob Ob
		if err := json.Unmarshal(b, &ob); err != nil {
			fatal(err)
		}
		*prop, *only = ob.Prop, ob.Rule
		*verbose = true
		*evdir = ""
	}
	if *prop == "" {
		fmt.Fprintln(os.Stderr, "usage: specvet -prop Cxx [-tier quick|thorough] [-repo dir] [-evidence dir]")
		os.Exit(2)
	}
	seed := 0
	if s := os.Getenv("VERIF_SEED"); s != "" {
		seed, _ = strconv.Atoi(s)
	}
	t0 := time.Now()
	abs, _ := filepath.Abs(*repo)
	c, err := load(abs, *arch)
	if err != nil {
		fmt.Printf("BROKEN: cannot load %s: %v\n", abs, err)
		os.Exit(2)
	}
	c.Tier = *tier
	kf, err := loadKnown(*known)
	if err != nil {
		fatal(err)
	}
	onlySet := map[string]bool{}
	for _, s := range strings.Split(*only, ",") {
		if s != "" {
			onlySet[s] = true
		}
	}

	var wanted []string
	if *prop == "all" {
		for p := range props {
			wanted = append(wanted, p)
		}
		sort.Strings(wanted)
	} else {
		wanted = strings.Split(*prop, ",")
	}
	want := map[string]bool{}
	for _, p := range wanted {
		want[p] = true
	}

	// run rules
	ran := map[string]*R{}
	for _, r := range rules {
		use := false
		for _, p := range r.Props {
			if want[p] {
				use = true
			}
		}
		if !use || (len(onlySet) > 0 && !onlySet[r.ID]) {
			continue
		}
		rr := &R{c: c, rule: r}
		func() {
			defer func() {
				if e := recover(); e != nil {
					rr.Unk("panic", 0, "checker panic in rule %s: %v\n%s", r.ID, e, debug.Stack())
				}
			}()
			r.Run(c, rr)
		}()
		if rr.n < r.Floor {
			rr.Unk("floor", 0, "rule matched %d constructs, fewer than the %d confirmed on the reference tree (anchor lost; a vacuous pass is not accepted)", rr.n, r.Floor)
		}
		ran[r.ID] = rr
	}

	// mark known findings
	for _, ob := range c.Obs {
		if ob.status == Discharged {
			continue
		}
		for _, k := range kf.Known {
			if k.Property == ob.Prop && k.Rule == ob.Rule && k.Key == ob.Key {
				ob.Known = true
			}
		}
	}

	if *dump != "" {
		b, _ := json.MarshalIndent(c.Obs, "", " ")
		os.WriteFile(*dump, b, 0o644)
	}

	exit := 0
	for _, p := range wanted {
		var obs []*Ob
		for _, ob := range c.Obs {
			if ob.Prop == p {
				obs = append(obs, ob)
			}
		}
		sort.SliceStable(obs, func(i, j int) bool {
			if obs[i].Rule != obs[j].Rule {
				return obs[i].Rule < obs[j].Rule
			}
			return obs[i].Key < obs[j].Key
		})
		nViol, nKnown, nDis := 0, 0, 0
		var viol []*Ob
		printedKnown := map[string]bool{}
		for _, ob := range obs {
			switch {
			case ob.status == Discharged:
				nDis++
			case ob.Known:
				nKnown++
				kk := ob.Rule + "|" + ob.Key
				if !printedKnown[kk] {
					printedKnown[kk] = true
					fmt.Printf("KNOWN-FINDING: property=%s %s %s at %s: %s\n", p, ob.Rule, ob.Key, ob.Pos, ob.Msg)
				}
			default:
				nViol++
				viol = append(viol, ob)
			}
			if *verbose || (ob.status != Discharged && !ob.Known) {
				fmt.Printf("  [%s] %s %s %s (%s) %s\n", p, ob.Rule, ob.Status, ob.Key, ob.Pos, ob.Msg)
			}
		}
		perRule := map[string][3]int{}
		for _, ob := range obs {
			x := perRule[ob.Rule]
			x[ob.status]++
			perRule[ob.Rule] = x
		}
		fmt.Printf("%s: rules=%d obligations=%d discharged=%d known=%d violations=%d (load %.1fs, total %.1fs)\n",
			p, len(perRule), len(obs), nDis, nKnown, nViol, c.LoadS, time.Since(t0).Seconds())
		if *evdir != "" {
			os.MkdirAll(filepath.Join(*evdir, "replay"), 0o755)
			// stale replay files of this property
			old, _ := filepath.Glob(filepath.Join(*evdir, "replay", p+"-*.json"))
			for _, f := range old {
				os.Remove(f)
			}
		}
		for i, ob := range viol {
			path := "-"
			if *evdir != "" {
				path = filepath.Join(*evdir, "replay", fmt.Sprintf("%s-%d.json", p, i+1))
				b, _ := json.MarshalIndent(ob, "", " ")
				os.WriteFile(path, b, 0o644)
			}
			fmt.Printf("VIOLATION property=%s replay=%s\n", p, path)
			exit = 1
		}
		if len(obs) == 0 {
			fmt.Printf("BROKEN: no obligations for %s\n", p)
			if exit == 0 {
				exit = 2
			}
		}
		if *evdir != "" {
			writeEvidence(c, *evdir, p, *tier, seed, obs, perRule, nDis, nKnown, nViol, time.Since(t0).Seconds())
		}
	}
	os.Exit(exit)
}

func fatal(err error) {
	fmt.Fprintln(os.Stderr, "specvet:", err)
	os.Exit(2)
}

func writeEvidence(c *Ctx, dir, p, tier string, seed int, obs []*Ob, perRule map[string][3]int, nDis, nKnown, nViol int, wall float64) {
	pi := props[p]
	if pi == nil {
		pi = &propInfo{Level: "other", Explanation: "(no description)"}
	}
	type ruleEv struct {
		Rule        string   `json:"rule"`
		Doc         string   `json:"doc"`
		Floor       int      `json:"floor"`
		Obligations int      `json:"obligations"`
		Discharged  int      `json:"discharged"`
		Violated    int      `json:"violated"`
		Undecided   int      `json:"undecided"`
		Notes       []string `json:"notes,omitempty"`
	}
	var revs []ruleEv
	for _, r := range rules {
		x, ok := perRule[r.ID]
		if !ok {
			continue
		}
		revs = append(revs, ruleEv{r.ID, r.Doc, r.Floor, x[0] + x[1] + x[2], x[0], x[1], x[2], c.Notes[r.ID]})
	}
	distinct := map[string]bool{}
	funcs := map[string]bool{}
	for _, ob := range obs {
		distinct[ob.Rule+"|"+ob.Key] = true
		k := ob.Key
		if i := strings.IndexAny(k, "/"); i >= 0 {
			k = k[:i]
		}
		funcs[k] = true
	}
	var samples []any
	seenRule := map[string]int{}
	for _, ob := range obs {
		if ob.status != Discharged || seenRule[ob.Rule] < 3 {
			samples = append(samples, ob)
			seenRule[ob.Rule]++
		}
	}
	cov := map[string]any{
		"explanation":         pi.Explanation,
		"rule":                "one obligation per (rule, construct) matched in the type-checked/SSA program of the repository; distinct = distinct (rule,construct-key) pairs; every obligation is non-trivial (it names a concrete function, call site, field, constant or path that the rule had to decide)",
		"evaluations":         len(obs),
		"distinct_nontrivial": len(distinct),
		"obligations":         len(obs),
		"discharged":          nDis,
		"known_findings":      nKnown,
		"constructs_analysed": len(funcs),
		"rules":               revs,
		"all_obligations":     obs,
		"samples":             samples,
		"packages_analysed":   len(analysedPkgs),
		"load_s":              c.LoadS,
		"checker_cmd":         fmt.Sprintf("./run %s %s", p, tier),
		"trusted_base":        pi.Trusted,
		"exhaustive":          true,
		"goarch":              c.Arch,
	}
	ev := map[string]any{
		"property_id": p,
		"tier":        tier,
		"seed":        seed,
		"level":       pi.Level,
		"coverage":    cov,
		"assumptions": append([]string{"go/packages, go/types and go/ssa (x/tools v0.50.0) represent the program the Go compiler builds", "linux/amd64 build configuration unless goarch says otherwise; the module has no build tags"}, pi.Trusted...),
		"wall_s":      wall,
		"violations":  nViol,
	}
	if selftestFile != "" {
		if sb, err := os.ReadFile(selftestFile); err == nil {
			var st any
			if json.Unmarshal(sb, &st) == nil {
				cov["mutant_selftest"] = st
			}
		}
	}
	b, _ := json.MarshalIndent(ev, "", " ")
	if err := os.WriteFile(filepath.Join(dir, p+".json"), b, 0o644); err != nil {
		fatal(err)
	}
}
