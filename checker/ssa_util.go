package main

import (
	"go/constant"
	"go/token"
	"go/types"
	"strings"

	"golang.org/x/tools/go/ssa"
	"golang.org/x/tools/go/ssa/ssautil"
)

// Cond is a branch condition known to hold (Truth) at some program point.
type Cond struct {
	V     ssa.Value
	Truth bool
}

// pathConds returns the branch conditions that hold on every path to block b, derived from the
// dominator tree: an ancestor d ending in If whose true (false) successor has d as its only
// predecessor and dominates b contributes cond (not cond).
func pathConds(b *ssa.BasicBlock) []Cond {
	var out []Cond
	for c := b; c != nil; c = c.Idom() {
		d := c.Idom()
		if d == nil {
			break
		}
		// find the successor s of d on the way to c: s dominates c
		ifi, ok := d.Instrs[len(d.Instrs)-1].(*ssa.If)
		if !ok {
			continue
		}
		for k, s := range d.Succs {
			if len(s.Preds) == 1 && s.Dominates(c) && d.Succs[0] != d.Succs[1] {
				out = append(out, Cond{ifi.Cond, k == 0})
			}
		}
	}
	return out
}

// Rel is a normalised comparison  X op Y  (op one of LSS LEQ GTR GEQ EQL NEQ).
type Rel struct {
	X, Y ssa.Value
	Op   token.Token
}

func negOp(op token.Token) token.Token {
	switch op {
	case token.LSS:
		return token.GEQ
	case token.LEQ:
		return token.GTR
	case token.GTR:
		return token.LEQ
	case token.GEQ:
		return token.LSS
	case token.EQL:
		return token.NEQ
	case token.NEQ:
		return token.EQL
	}
	return token.ILLEGAL
}

func swapOp(op token.Token) token.Token {
	switch op {
	case token.LSS:
		return token.GTR
	case token.LEQ:
		return token.GEQ
	case token.GTR:
		return token.LSS
	case token.GEQ:
		return token.LEQ
	}
	return op
}

// relsOf expands a condition with a truth value into the atomic relations it implies.
// (a && b) true => both; (a || b) false => both negated; !a flips. Short-circuit operators appear in SSA
// as control flow, so usually only BinOp comparisons and UnOp NOT reach here.
func relsOf(c Cond) []Rel {
	switch v := c.V.(type) {
	case *ssa.BinOp:
		switch v.Op {
		case token.LSS, token.LEQ, token.GTR, token.GEQ, token.EQL, token.NEQ:
			op := v.Op
			if !c.Truth {
				op = negOp(op)
			}
			return []Rel{{v.X, v.Y, op}}
		}
	case *ssa.UnOp:
		if v.Op == token.NOT {
			return relsOf(Cond{v.X, !c.Truth})
		}
	}
	return nil
}

func constInt(v ssa.Value) (int64, bool) {
	c, ok := v.(*ssa.Const)
	if !ok || c.Value == nil {
		return 0, false
	}
	if c.Value.Kind() != constant.Int {
		if c.Value.Kind() == constant.Float {
			f, _ := constant.Float64Val(c.Value)
			if f == float64(int64(f)) {
				return int64(f), true
			}
		}
		return 0, false
	}
	i, exact := constant.Int64Val(c.Value)
	return i, exact
}

// lowerBound returns the greatest constant L such that the relations known at block b imply v >= L (ok=false if none).
func lowerBoundAt(b *ssa.BasicBlock, v ssa.Value) (int64, bool) {
	best, have := int64(0), false
	upd := func(l int64) {
		if !have || l > best {
			best, have = l, true
		}
	}
	for _, c := range pathConds(b) {
		for _, r := range relsOf(c) {
			x, y, op := r.X, r.Y, r.Op
			if y == v {
				x, y, op = y, x, swapOp(op)
			}
			if x != v {
				continue
			}
			k, ok := constInt(y)
			if !ok {
				continue
			}
			switch op {
			case token.GTR:
				upd(k + 1)
			case token.GEQ:
				upd(k)
			case token.EQL:
				upd(k)
			}
		}
	}
	// v != 0 together with v >= 0 gives v >= 1
	if have && best == 0 {
		for _, c := range pathConds(b) {
			for _, r := range relsOf(c) {
				if r.Op == token.NEQ {
					if (r.X == v && isConstInt(r.Y, 0)) || (r.Y == v && isConstInt(r.X, 0)) {
						best = 1
					}
				}
			}
		}
	}
	return best, have
}

func isConstInt(v ssa.Value, k int64) bool {
	c, ok := constInt(v)
	return ok && c == k
}

// users returns the instructions using v (referrers), or nil.
func users(v ssa.Value) []ssa.Instruction {
	if r := v.Referrers(); r != nil {
		return *r
	}
	return nil
}

// extractOf returns the Extract of tuple t with index i (nil if none).
func extractOf(t ssa.Value, i int) *ssa.Extract {
	for _, u := range users(t) {
		if e, ok := u.(*ssa.Extract); ok && e.Index == i {
			return e
		}
	}
	return nil
}

// isComparison reports whether instruction i is a comparison BinOp.
func isComparison(i ssa.Instruction) bool {
	b, ok := i.(*ssa.BinOp)
	if !ok {
		return false
	}
	switch b.Op {
	case token.LSS, token.LEQ, token.GTR, token.GEQ, token.EQL, token.NEQ:
		return true
	}
	return false
}

// returnsOf lists the Return instructions of f.
func returnsOf(f *ssa.Function) []*ssa.Return {
	var out []*ssa.Return
	for _, b := range f.Blocks {
		if len(b.Instrs) == 0 {
			continue
		}
		if r, ok := b.Instrs[len(b.Instrs)-1].(*ssa.Return); ok {
			out = append(out, r)
		}
	}
	return out
}

// callsIn lists call instructions (Call, Go, Defer) of f, optionally including nested closures.
func callsIn(f *ssa.Function, nested bool) []ssa.CallInstruction {
	var out []ssa.CallInstruction
	visit := func(g *ssa.Function) {
		allInstrs(g, func(i ssa.Instruction) {
			if c, ok := i.(ssa.CallInstruction); ok {
				out = append(out, c)
			}
		})
	}
	if nested {
		withAnon(f, visit)
	} else {
		visit(f)
	}
	return out
}

// reachable reports whether block `to` is reachable from block `from` (from itself counts only via a cycle unless from==to at start).
func reachableFrom(from *ssa.BasicBlock) map[*ssa.BasicBlock]bool {
	seen := map[*ssa.BasicBlock]bool{}
	var dfs func(b *ssa.BasicBlock)
	dfs = func(b *ssa.BasicBlock) {
		for _, s := range b.Succs {
			if !seen[s] {
				seen[s] = true
				dfs(s)
			}
		}
	}
	dfs(from)
	return seen
}

func instrIndex(i ssa.Instruction) int {
	for k, x := range i.Block().Instrs {
		if x == i {
			return k
		}
	}
	return -1
}

// before reports whether a executes before b on every path that reaches b, i.e. a dominates b.
func dominatesInstr(a, b ssa.Instruction) bool {
	if a.Block() == b.Block() {
		return instrIndex(a) < instrIndex(b)
	}
	return a.Block().Dominates(b.Block())
}

// fieldOf returns the struct field addressed/read by a FieldAddr/Field instruction.
func fieldOf(v ssa.Value) *types.Var {
	switch f := v.(type) {
	case *ssa.FieldAddr:
		st := deref(f.X.Type()).Underlying().(*types.Struct)
		return st.Field(f.Field)
	case *ssa.Field:
		st := f.X.Type().Underlying().(*types.Struct)
		return st.Field(f.Field)
	}
	return nil
}

func deref(t types.Type) types.Type {
	if p, ok := t.Underlying().(*types.Pointer); ok {
		return p.Elem()
	}
	return t
}

func namedOf(t types.Type) *types.Named {
	t = deref(t)
	if a, ok := t.(*types.Alias); ok {
		t = types.Unalias(a)
	}
	n, _ := t.(*types.Named)
	return n
}

// typeIs reports whether t (possibly a pointer) is the named type pkgpath.name.
func typeIs(t types.Type, pkgpath, name string) bool {
	n := namedOf(t)
	return n != nil && n.Obj().Pkg() != nil && n.Obj().Pkg().Path() == pkgpath && n.Obj().Name() == name
}

// FieldRead is a read of one field of a struct value.
type FieldRead struct {
	Name string
	Val  ssa.Value       // the value read (Field or the UnOp load)
	At   ssa.Instruction // the reading instruction
}

// structFieldReads finds the reads of fields of struct value v, both direct (Field) and through the
// spill pattern go/ssa uses for addressable locals (store v to an Alloc, FieldAddr, load). other = uses of v
// that are neither (e.g. passing the whole struct on).
func structFieldReads(v ssa.Value) (reads []FieldRead, other []ssa.Instruction) {
	for _, u := range users(v) {
		switch x := u.(type) {
		case *ssa.DebugRef:
		case *ssa.Field:
			reads = append(reads, FieldRead{fieldOf(x).Name(), x, x})
		case *ssa.Store:
			al, ok := x.Addr.(*ssa.Alloc)
			if !ok || x.Val != v {
				other = append(other, u)
				continue
			}
			// other stores to the same alloc
			var stores []*ssa.Store
			for _, au := range users(al) {
				if s, ok := au.(*ssa.Store); ok && s.Addr == al {
					stores = append(stores, s)
				}
			}
			for _, au := range users(al) {
				fa, ok := au.(*ssa.FieldAddr)
				if !ok {
					if _, isStore := au.(*ssa.Store); !isStore {
						if _, isDbg := au.(*ssa.DebugRef); !isDbg {
							// whole-struct load or address escape
							if ld, ok := au.(*ssa.UnOp); ok && reachesFromStore(x, ld, stores) {
								other = append(other, au)
							} else if !ok {
								other = append(other, au)
							}
						}
					}
					continue
				}
				for _, fu := range users(fa) {
					ld, ok := fu.(*ssa.UnOp)
					if !ok {
						if _, isDbg := fu.(*ssa.DebugRef); !isDbg {
							other = append(other, fu)
						}
						continue
					}
					if reachesFromStore(x, ld, stores) {
						reads = append(reads, FieldRead{fieldOf(fa).Name(), ld, ld})
					}
				}
			}
		default:
			other = append(other, u)
		}
	}
	return
}

// reachesFromStore: store s is the store whose value load ld observes: s dominates ld and no other store to the
// same alloc is dominated by s and dominates ld.
func reachesFromStore(s *ssa.Store, ld ssa.Instruction, stores []*ssa.Store) bool {
	if !dominatesInstr(s, ld) {
		return false
	}
	for _, o := range stores {
		if o != s && dominatesInstr(s, o) && dominatesInstr(o, ld) {
			return false
		}
	}
	return true
}

// unspill resolves a value loaded from a local Alloc to the value stored by the last store to that Alloc in the
// same block before the load (go/ssa spills results to allocs in functions with defer: store; rundefers; load; return).
func unspill(v ssa.Value) ssa.Value {
	ld, ok := v.(*ssa.UnOp)
	if !ok || ld.Op != token.MUL {
		return v
	}
	al, ok := ld.X.(*ssa.Alloc)
	if !ok {
		return v
	}
	var last ssa.Value
	for _, ins := range ld.Block().Instrs {
		if ins == ssa.Instruction(ld) {
			break
		}
		if st, ok := ins.(*ssa.Store); ok && st.Addr == ssa.Value(al) {
			last = st.Val
		}
	}
	if last != nil {
		return last
	}
	return v
}

// backPaths enumerates the acyclic ways of reaching block b from block stop (stop == nil: from the entry) as the
// branch conditions taken on the way, innermost first. `a || b` guards and shared exits give several
// alternatives where the dominator tree gives no condition at all. At most max alternatives; beyond that the single
// alternative of dominating conditions is returned.
func backPaths(b, stop *ssa.BasicBlock, max int) [][]Cond {
	var out [][]Cond
	over := false
	onPath := map[*ssa.BasicBlock]bool{}
	var walk func(b *ssa.BasicBlock, conds []Cond)
	walk = func(b *ssa.BasicBlock, conds []Cond) {
		if over {
			return
		}
		if b == stop || len(b.Preds) == 0 {
			out = append(out, append([]Cond{}, conds...))
			if len(out) > max {
				over = true
			}
			return
		}
		onPath[b] = true
		for _, p := range b.Preds {
			if onPath[p] && p != stop {
				continue // back edge
			}
			next := conds
			if ifi, ok := p.Instrs[len(p.Instrs)-1].(*ssa.If); ok && p.Succs[0] != p.Succs[1] {
				next = append(append([]Cond{}, conds...), Cond{ifi.Cond, p.Succs[0] == b})
			}
			walk(p, next)
		}
		onPath[b] = false
	}
	walk(b, nil)
	if over || len(out) == 0 {
		return [][]Cond{pathConds(b)}
	}
	return out
}

// funcAliases: package-level variables of function type in the module that are stored exactly once - by their package
// initialiser, with a named function - and are otherwise only loaded (package spec re-exports internal/decode and
// internal/encode this way: `DecodeInt32 = decode.DecodeInt32`; generated code calls through these variables).
var funcAliasMemo map[*ssa.Global]*ssa.Function

func (c *Ctx) funcAliases() map[*ssa.Global]*ssa.Function {
	if funcAliasMemo != nil {
		return funcAliasMemo
	}
	stores := map[*ssa.Global][]ssa.Value{}
	bad := map[*ssa.Global]bool{}
	for fn := range ssautil.AllFunctions(c.Prog) {
		g := fn
		if g.Origin() != nil {
			g = g.Origin()
		}
		if g.Pkg == nil || !strings.HasPrefix(g.Pkg.Pkg.Path(), Mod) {
			continue
		}
		for _, b := range fn.Blocks {
			for _, ins := range b.Instrs {
				for _, op := range ins.Operands(nil) {
					gl, ok := (*op).(*ssa.Global)
					if !ok {
						continue
					}
					if _, isFn := gl.Type().(*types.Pointer).Elem().Underlying().(*types.Signature); !isFn {
						continue
					}
					switch x := ins.(type) {
					case *ssa.Store:
						if x.Addr == ssa.Value(gl) && fn.Name() == "init" && fn.Synthetic != "" {
							stores[gl] = append(stores[gl], x.Val)
						} else {
							bad[gl] = true
						}
					case *ssa.UnOp:
						if x.Op != token.MUL {
							bad[gl] = true
						}
					default:
						bad[gl] = true
					}
				}
			}
		}
	}
	funcAliasMemo = map[*ssa.Global]*ssa.Function{}
	for gl, vs := range stores {
		if bad[gl] || len(vs) != 1 {
			continue
		}
		if f, ok := vs[0].(*ssa.Function); ok {
			funcAliasMemo[gl] = f
		}
	}
	return funcAliasMemo
}

// calleeOf: the statically known callee, looking through function-alias variables.
func (c *Ctx) calleeOf(cc *ssa.CallCommon) *ssa.Function {
	if f := cc.StaticCallee(); f != nil {
		return f
	}
	if cc.IsInvoke() {
		return nil
	}
	if ld, ok := cc.Value.(*ssa.UnOp); ok && ld.Op == token.MUL {
		if gl, ok := ld.X.(*ssa.Global); ok {
			return c.funcAliases()[gl]
		}
	}
	return nil
}
