package main

import (
	"fmt"
	"go/token"

	"golang.org/x/tools/go/ssa"
)

// errorSwallowed: the function returns a nil error (success) on a path from `call` on which the error value e it
// produced was not established nil. Returns the position of such a return.
func errorSwallowed(fn *ssa.Function, call *ssa.Call, e ssa.Value) (token.Pos, bool) {
	rs := fn.Signature.Results()
	if rs.Len() == 0 || !isErrorType(rs.At(rs.Len()-1).Type()) {
		return 0, false
	}
	establishesNil := func(cd Cond) bool {
		for _, rel := range relsOf(cd) {
			if rel.Op == token.EQL && ((rel.X == e && isNilConst(rel.Y)) || (rel.Y == e && isNilConst(rel.X))) {
				return true
			}
		}
		return false
	}
	for _, ret := range returnsOf(fn) {
		last := unspill(ret.Results[len(ret.Results)-1])
		if knownNonNil(last) {
			continue // a definite failure
		}
		if !reachesInstr(call, ret) {
			continue
		}
		for _, alt := range backPaths(ret.Block(), call.Block(), 64) {
			ok := false
			for _, cd := range alt {
				if establishesNil(cd) {
					ok = true
				}
			}
			if !ok {
				return ret.Pos(), true
			}
		}
	}
	return 0, false
}

var _ = fmt.Sprint
