package main

import (
	"fmt"
	"go/token"
	"strings"

	"golang.org/x/tools/go/ssa"
)

// R13.4: the parser visits what the accessors open. "Every nested field and element the parser visited can be
// read again" needs the slice that ParseList / ParseMessage hand to the recursive ParseValue to be the very slice
// that the public accessor of the same index opens (List.Get(i), Message.FieldAt(i)). A parser that validates
// bytes[:end] while Get returns bytes[start:end] accepts lists whose elements cannot be read back.
//
// Both sides are evaluated to canonical slice terms over the container symbol L and the index symbol I
// (L.bytes[Offset(L.table, I).0 : Offset(L.table, I).1]); module calls are uninterpreted functions of their
// canonical arguments, so inlining or extracting helpers does not change the term.

func init() {
	register(&Rule{ID: "R13.4", Props: []string{"C13", "C16"}, Floor: 2,
		Doc: "the parser visits what the accessors open: the slice ParseList/ParseMessage pass to the recursive ParseValue equals, as a canonical term over (container, index), the slice that List.Get / Message.FieldAt open for the same index",
		Run: runR13_4})
}

func runR13_4(c *Ctx, outer *R) {
	for _, pair := range []struct{ parser, accessor string }{
		{"ParseList", "List.Get"},
		{"ParseMessage", "Message.FieldAt"},
	} {
		pf := outer.Need("internal/types", pair.parser)
		af := outer.Need("internal/types", pair.accessor)
		if pf == nil || af == nil {
			continue
		}
		// Message.FieldAt is also what MessageWriter.Copy/Merge read unknown fields with (C16)
		props := []string{"C13"}
		if pair.accessor == "Message.FieldAt" {
			props = []string{"C13", "C16"}
		}
		r := &R{c: c, rule: &Rule{ID: outer.rule.ID, Props: props}}
		defer func() { outer.n += r.n }()
		key := fmt.Sprintf("%s/visited == %s/opened", fnKey(pf), pair.accessor)
		an := &agreeAn{c: c, g: &gsyms{ids: map[string]int{}}, seenC: map[string]bool{}, cnts: map[string][]int{}, rsOf: map[string]int{}, noInline: true}
		mk := func(fn *ssa.Function) *gEnv {
			return &gEnv{an: an, fn: fn, par: map[*ssa.Parameter]cT{}, memo: map[ssa.Value]cT{}, ctx: "L,I", containerSym: "L", indexSym: "I"}
		}
		// opened(fn): the slices a function with receiver L and index parameter I returns (non-nil results), looking
		// through OpenValue(x) / a one-step accessor call on (L, I)
		// guard alternatives under which the slices found so far are returned (conjunctions of canonical atoms, one
		// per acyclic path, accumulated across nested accessors)
		ctx := [][]gAtom{nil}
		var guards [][]gAtom
		exactAll := true
		var opened func(fn *ssa.Function, bind map[*ssa.Parameter]cT, depth int) []cT
		opened = func(fn *ssa.Function, bind map[*ssa.Parameter]cT, depth int) []cT {
			ev := mk(fn)
			for _, p := range fn.Params {
				if t, ok := bind[p]; ok {
					ev.par[p] = t
				} else if bind == nil && isIntegerType(p.Type()) {
					ev.par[p] = ev.intSym("I", p.Type())
				}
			}
			var out []cT
			for _, ret := range returnsOf(fn) {
				if len(ret.Results) == 0 {
					continue
				}
				v := ret.Results[0]
				if isNilConst(v) {
					continue
				}
				alts, exact := ev.exitAlts(ret.Block())
				if !exact {
					exactAll = false
				}
				saved := ctx
				var combined [][]gAtom
				for _, c0 := range saved {
					for _, a := range alts {
						combined = append(combined, append(append([]gAtom{}, c0...), a.atoms...))
					}
				}
				ctx = combined
				before := len(out)
				nestedBefore := len(guards)
				out = append(out, sliceOf(ev, v, opened, depth)...)
				if len(out) > before && len(guards) == nestedBefore {
					// the slice was produced at this level (no nested accessor recorded its own guards)
					guards = append(guards, combined...)
				}
				ctx = saved
			}
			return out
		}
		acc := opened(af, nil, 0)
		accGuards := guards
		guards, ctx = nil, [][]gAtom{nil}
		// the parser's argument of the recursive ParseValue
		pev := mk(pf)
		var visited []cT
		var at ssa.Instruction
		for _, call := range callsIn(pf, false) {
			cal := call.Common().StaticCallee()
			if cal == nil {
				continue
			}
			if cal.Name() != "ParseValue" || len(call.Common().Args) != 1 {
				// a helper of the package that hands one of its parameters to ParseValue (parseElement(b1)): the
				// argument bound to that parameter is what the parser visits
				if cal.Blocks != nil && cal.Pkg == pf.Pkg && !token.IsExported(cal.Name()) {
					for _, c2 := range callsIn(cal, false) {
						c2f := c2.Common().StaticCallee()
						if c2f == nil || c2f.Name() != "ParseValue" || len(c2.Common().Args) != 1 {
							continue
						}
						for k, prm := range cal.Params {
							if c2.Common().Args[0] == ssa.Value(prm) && k < len(call.Common().Args) {
								at = call
								visited = append(visited, sliceOf(pev, call.Common().Args[k], opened, 0)...)
							}
						}
					}
				}
				continue
			}
			at = call
			visited = append(visited, sliceOf(pev, call.Common().Args[0], opened, 0)...)
		}
		if at == nil {
			r.Unk(key, pf.Pos(), "no recursive ParseValue call found in %s", pair.parser)
			continue
		}
		if len(acc) == 0 || len(visited) == 0 {
			r.Unk(key, at.Pos(), "could not express the slices as canonical terms (accessor: %d, parser: %d)", len(acc), len(visited))
			continue
		}
		strs := func(ts []cT) []string {
			seen := map[string]bool{}
			var out []string
			for _, t := range ts {
				s := an.str(t)
				if !seen[s] {
					seen[s] = true
					out = append(out, s)
				}
			}
			return out
		}
		va, vv := strs(acc), strs(visited)
		visGuards := guards
		// the conditions under which the helper hands the slice out must be the same on both sides: a parser that
		// skips (gets nil for) a field the accessor opens has not validated it
		implies := func(from, to [][]gAtom) (bool, string) {
			for _, a := range from {
				f := an.newFacts()
				opq := map[string]bool{}
				for _, at := range a {
					if at.kind == 'o' {
						opq[at.s] = true
					}
					f.add(at)
				}
				f.saturate()
				if f.unsat() {
					continue
				}
				found := false
				for _, b := range to {
					all := true
					for _, bt := range b {
						if bt.kind == 'o' {
							if !opq[bt.s] {
								all = false
							}
						} else if !f.holds(bt) {
							all = false
						}
					}
					if all {
						found = true
						break
					}
				}
				if !found {
					var as []string
					for _, at := range a {
						as = append(as, an.atomStr(at))
					}
					return false, strings.Join(as, " and ")
				}
			}
			return true, ""
		}
		guardsAgree, guardWhy := true, ""
		if exactAll && len(accGuards) > 0 && len(visGuards) > 0 {
			if ok, w := implies(accGuards, visGuards); !ok {
				guardsAgree, guardWhy = false, fmt.Sprintf("%s opens the slice when {%s}, but %s is not handed it under that condition", pair.accessor, w, pair.parser)
			} else if ok, w := implies(visGuards, accGuards); !ok {
				guardsAgree, guardWhy = false, fmt.Sprintf("%s visits the slice when {%s}, but %s does not open it under that condition", pair.parser, w, pair.accessor)
			}
		}
		if len(va) == 1 && len(vv) == 1 && va[0] == vv[0] && !guardsAgree {
			r.Bad(key, at.Pos(), "same slice %s, different conditions: %s - an element/field the parser skipped was never validated although it can be read back", va[0], guardWhy)
		} else if len(va) == 1 && len(vv) == 1 && va[0] == vv[0] {
			r.OK(key, at.Pos(), "both are %s, handed out under the same conditions", va[0])
		} else {
			r.Bad(key, at.Pos(), "%s validates {%s} but %s opens {%s} for the same index: an element/field the parser accepted is a different byte range when read back", pair.parser, strings.Join(vv, " | "), pair.accessor, strings.Join(va, " | "))
		}
	}
}

// sliceOf: canonical slice term(s) of v; an OpenValue/OpenValueErr call is looked through to its argument, a call of
// a module accessor on (container, index) is replaced by what that accessor returns.
func sliceOf(ev *gEnv, v ssa.Value, opened func(fn *ssa.Function, bind map[*ssa.Parameter]cT, depth int) []cT, depth int) []cT {
	switch x := v.(type) {
	case *ssa.ChangeType:
		return sliceOf(ev, x.X, opened, depth)
	case *ssa.Convert:
		return sliceOf(ev, x.X, opened, depth)
	case *ssa.Extract:
		if call, ok := x.Tuple.(*ssa.Call); ok && x.Index == 0 {
			return sliceOf(ev, call, opened, depth)
		}
	case *ssa.Call:
		cal := x.Call.StaticCallee()
		if cal != nil && (cal.Name() == "OpenValue" || cal.Name() == "OpenValueErr") && len(x.Call.Args) == 1 {
			return sliceOf(ev, x.Call.Args[0], opened, depth)
		}
		if cal != nil && cal.Blocks != nil && cal.Signature.Recv() != nil && depth < 4 && len(x.Call.Args) == len(cal.Params) && len(x.Call.Args) >= 1 {
			// a module method on the container: what it returns, with its parameters bound to the canonical
			// arguments of this call (the index, or an offset computed from the index by the caller)
			if recv := ev.term(x.Call.Args[0]); recv.kind == 'o' && recv.s == "L" {
				bind := map[*ssa.Parameter]cT{}
				for i, p := range cal.Params {
					if i > 0 {
						bind[p] = ev.term(x.Call.Args[i])
					}
				}
				if res := opened(cal, bind, depth+1); len(res) > 0 {
					return res
				}
			}
		}
	}
	t := ev.term(v)
	if t.kind == 's' {
		return []cT{t}
	}
	return nil
}
