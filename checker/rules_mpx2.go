package main

import (
	"fmt"
	"go/ast"
	"go/constant"
	"go/token"
	"go/types"
	"sort"
	"strings"

	"golang.org/x/tools/go/ssa"
)

const bytequeuePath = "github.com/basecomplextech/baselibrary/alloc/bytequeue"

// R03.6: no silent drop into a full queue. bytequeue.Queue.Write(msg) returns (ok bool, st Status): ok == false
// with st == OK means "the queue is full, nothing was written". A writer that throws ok away loses the message while
// the sender's Send has already returned OK - unless the queue can never be full, i.e. every value ever stored in
// that queue field comes from the unbounded constructor bytequeue.New().

func init() {
	register(&Rule{ID: "R03.6", Props: []string{"C03"}, Floor: 3,
		Doc: "no silent drop: every bytequeue Write in package mpx either consumes its 'written' result or writes to a queue field that is only ever constructed unbounded (bytequeue.New)",
		Run: runR03_6})
}

// R09.6: publish, then sweep; insert, then re-check. When the transport fails conn.closeChannels frees every channel
// in the map. A conn.Channel() racing with it must either fail or have its channel freed by the sweep - which holds
// exactly when (a) the sweep starts only after the channels-closed flag has been published and (b) createChannel
// reports success only behind a re-check of that flag performed after its own insert. If the flag is published after
// the sweep (a deferred Store), a channel inserted behind the sweep's back passes the re-check and is never freed:
// its context is never cancelled and Receive blocks forever.
func init() {
	register(&Rule{ID: "R09.6", Props: []string{"C09", "C20"}, Floor: 2,
		Doc: "publish-then-sweep: closeChannels stores channelsClosed before it ranges over the channel map; createChannel returns a channel only behind a channelsClosed re-check that follows its insert",
		Run: runR09_6})
}

func runR09_6(c *Ctx, r *R) {
	if f := r.Need("mpx", "conn.closeChannels"); f != nil {
		key := fnKey(f) + "/flag-before-sweep"
		var store, sweep ssa.Instruction
		deferred := false
		for _, call := range callsIn(f, false) {
			switch calleeLabel(call) {
			case "channelsClosed.Store":
				if isConstTrueArg(call) {
					if _, isDefer := call.(*ssa.Defer); isDefer {
						deferred = true
					} else {
						store = call.(ssa.Instruction)
					}
				}
			case "channels.Range":
				sweep = call.(ssa.Instruction)
			}
		}
		switch {
		case sweep == nil:
			r.Unk(key, f.Pos(), "anchor lost: no channels.Range in closeChannels")
		case store != nil && dominatesInstr(store, sweep):
			r.OK(key, sweep.Pos(), "channelsClosed is stored before the sweep over the channel map starts")
		case deferred:
			r.Bad(key, sweep.Pos(), "channelsClosed is stored by a deferred call, i.e. after the sweep: a channel inserted behind the sweep passes createChannel's re-check and is never freed (its context is never cancelled)")
		default:
			r.Bad(key, sweep.Pos(), "the sweep over the channel map is not preceded by channelsClosed.Store(true) on every path")
		}
	}
	if f := r.Need("mpx", "conn.createChannel"); f != nil {
		n := 0
		for _, ret := range returnsOf(f) {
			if len(ret.Results) != 3 {
				continue
			}
			if k, ok := unspill(ret.Results[1]).(*ssa.Const); !ok || k.Value == nil || k.Value.String() != "true" {
				continue
			}
			n++
			key := fmt.Sprintf("%s/recheck-after-insert#%d", fnKey(f), n)
			inserted, rechecked := insertedAndRechecked(ret.Block(), 0)
			switch {
			case !inserted:
				r.Bad(key, ret.Pos(), "the channel is never inserted into the map")
			case rechecked:
				r.OK(key, ret.Pos(), "a channel is returned only after channelsClosed was re-checked behind the insert")
			default:
				r.Bad(key, ret.Pos(), "createChannel reports success without re-checking channelsClosed after the insert: a sweep that already passed leaves this channel open forever")
			}
		}
		if n == 0 {
			r.Unk(fnKey(f)+"/recheck-after-insert", f.Pos(), "no success return found in createChannel")
		}
	}
}

// R06.6: teardown statuses come in three. An operation that is interrupted because its channel or connection is
// going away can report it as cancelled (the context was cancelled), closed (the connection flag) or end (the queue
// was closed), depending on which signal wins the race. Every place in mpx and rpc that classifies a status as
// "the other side / the connection is gone, not an error" therefore has to accept all three: a switch that names
// two of them and forgets the third treats an ordinary race as an unexpected status (closeUser panics on it).
// Sibling cross-check: all such switches of the two packages agree.
func init() {
	register(&Rule{ID: "R06.6", Props: []string{"C06", "C09", "C03"}, Floor: 5,
		Doc: "teardown status classes: every comparison chain over a status code in mpx/rpc that accepts two of {cancelled, closed, end} accepts all three",
		Run: runR06_6})
}

func runR06_6(c *Ctx, outer *R) {
	// registered for C06, C09 and C03: only the classification inside channel.ReceiveAsync also belongs to C03 (there
	// the message has already been taken off the queue: treating the lost race as an error drops that message)
	r := &R{c: c, rule: &Rule{ID: outer.rule.ID, Props: []string{"C06", "C09"}}}
	rRecv := &R{c: c, rule: &Rule{ID: outer.rule.ID, Props: []string{"C06", "C09", "C03"}}}
	defer func() { outer.n += r.n + rRecv.n }()
	sp := c.Pkgs[statusPath]
	if sp == nil {
		for _, p := range c.Pkgs {
			for _, imp := range p.Imports {
				if imp.PkgPath == statusPath {
					sp = imp
				}
			}
		}
	}
	if sp == nil {
		r.Unk("status/codes", 0, "status package not loaded")
		return
	}
	codeVal := map[string]string{}
	for _, n := range []string{"CodeCancelled", "CodeClosed", "CodeEnd"} {
		if k, ok := sp.Types.Scope().Lookup(n).(*types.Const); ok {
			codeVal[constantString(k)] = n
		}
	}
	if len(codeVal) != 3 {
		r.Unk("status/codes", 0, "teardown code constants not found in the status package")
		return
	}
	n := 0
	// package mpx only: the switches of package rpc over these codes select a log level (receiveFail) or map wire
	// codes (parseStatusCode), they do not decide whether a status is a teardown
	for _, rel := range []string{"mpx"} {
		for _, fn := range c.SrcFuncs(rel) {
			// group equality tests by the compared value
			groups := map[ssa.Value]map[string]token.Pos{}
			allInstrs(fn, func(i ssa.Instruction) {
				b, ok := i.(*ssa.BinOp)
				if !ok || b.Op != token.EQL {
					return
				}
				x, y := b.X, b.Y
				if _, isK := x.(*ssa.Const); isK {
					x, y = y, x
				}
				k, isK := y.(*ssa.Const)
				if !isK || k.Value == nil || !typeIs(x.Type(), statusPath, "Code") {
					return
				}
				name := codeVal[constantStringVal(k)]
				if name == "" {
					return
				}
				if groups[x] == nil {
					groups[x] = map[string]token.Pos{}
				}
				groups[x][name] = b.Pos()
			})
			k := 0
			var vals []ssa.Value
			for v := range groups {
				vals = append(vals, v)
			}
			sort.Slice(vals, func(i, j int) bool { return vals[i].Name() < vals[j].Name() })
			for _, v := range vals {
				g := groups[v]
				if len(g) < 2 {
					continue
				}
				k++
				n++
				key := fmt.Sprintf("%s/teardown-codes#%d", fnKey(fn), k)
				var pos token.Pos
				var missing []string
				for _, name := range []string{"CodeCancelled", "CodeClosed", "CodeEnd"} {
					if p, ok := g[name]; ok {
						if pos == 0 {
							pos = p
						}
					} else {
						missing = append(missing, name)
					}
				}
				rr := r
				if fnKey(fn) == "mpx.channel.ReceiveAsync" {
					rr = rRecv
				}
				if len(missing) == 0 {
					rr.OK(key, pos, "accepts cancelled, closed and end alike")
				} else {
					rr.Bad(key, pos, "this status classification accepts two of the three teardown codes but not %v, unlike its siblings in the package: when that signal wins the race, an ordinary teardown is treated as an unexpected status (a panic in closeUser, an error log or a failed call elsewhere)", missing)
				}
			}
		}
	}
	if n == 0 {
		r.Unk("mpx/teardown-codes", 0, "anchor lost: no teardown status classification found")
	}
	// the other half: the statuses the package itself returns on teardown (package-level values built once) must
	// carry one of the three codes those classifications accept
	if ini := c.Func("mpx", "init"); ini != nil {
		k := 0
		allInstrs(ini, func(i ssa.Instruction) {
			st, ok := i.(*ssa.Store)
			if !ok {
				return
			}
			g, ok := st.Addr.(*ssa.Global)
			if !ok || !isStatusType(deref(g.Type())) {
				return
			}
			call, ok := st.Val.(*ssa.Call)
			if !ok {
				return
			}
			o := calleeObj(call)
			if o == nil || o.Pkg() == nil || o.Pkg().Path() != statusPath {
				return
			}
			k++
			key := "mpx." + g.Name() + "/teardown-code"
			ctor := o.Name()
			if strings.HasPrefix(ctor, "Closed") || strings.HasPrefix(ctor, "Cancel") || strings.HasPrefix(ctor, "End") {
				r.OK(key, st.Pos(), "built with status.%s: a code every teardown classification accepts", ctor)
			} else {
				r.Bad(key, st.Pos(), "the package's teardown status %s is built with status.%s: its code is none of cancelled / closed / end, so the classifications that expect a teardown (closeUser, ReceiveAsync, the handlers' exit) treat it as an unexpected status - Free panics during connection teardown", g.Name(), ctor)
			}
		})
		if k == 0 {
			r.Unk("mpx/teardown-statuses", 0, "anchor lost: no package-level status value found in mpx")
		}
	}
}

// R11.5: a frame's payload is read only under its code. pmpx.Message is a tagged union: Code() says which of
// ConnectRequest / ConnectResponse / Batch / ChannelOpen / ChannelClose / ChannelData / ChannelWindow is meant, but
// every payload accessor works on whatever bytes the peer put under its field tag. Each accessor call in package mpx
// must be reached only with Code() of the same message compared equal to the matching Code_<Payload> constant -
// in the function itself, or at every call site of the (unexported) function that receives the message. A peer
// that sends code channel_data together with a connect_request field must not get a handshake out of it.
func init() {
	register(&Rule{ID: "R11.5", Props: []string{"C11", "C03"}, Floor: 16,
		Doc: "payload under its code: every payload accessor of pmpx.Message in package mpx is dominated by Code() == Code_<Payload> of the same message (locally or at all call sites of the receiving helper)",
		Run: runR11_5})
}

func runR11_5(c *Ctx, r *R) {
	pp := c.Pkg("proto/pmpx")
	if pp == nil {
		r.Unk("proto/pmpx", 0, "package not loaded")
		return
	}
	payloads := map[string]int64{}
	for _, n := range []string{"ConnectRequest", "ConnectResponse", "Batch", "ChannelOpen", "ChannelClose", "ChannelData", "ChannelWindow"} {
		if k, ok := pp.Types.Scope().Lookup("Code_" + n).(*types.Const); ok {
			v, _ := constant.Int64Val(constant.ToInt(k.Val()))
			payloads[n] = v
		}
	}
	if len(payloads) != 7 {
		r.Unk("proto/pmpx/codes", 0, "only %d of 7 Code_ constants found", len(payloads))
		return
	}
	isMsg := func(v ssa.Value) bool { return typeIs(v.Type(), pkgPath("proto/pmpx"), "Message") }
	r11sa := newStatusAn(c)
	// isCodeOf: v is the code of message m - the result of m.Code(), or a parameter of an unexported function that
	// receives, at every call site, the code of the message it receives as m
	var isCodeOf func(fn *ssa.Function, v, m ssa.Value, depth int) bool
	isCodeOf = func(fn *ssa.Function, v, m ssa.Value, depth int) bool {
		if call, ok := v.(*ssa.Call); ok {
			o := calleeObj(call)
			if o == nil || o.Name() != "Code" {
				return false
			}
			args := call.Call.Args
			recv := call.Call.Value
			if !call.Call.IsInvoke() && len(args) > 0 {
				recv = args[0]
			}
			return recv == m
		}
		vp, ok1 := v.(*ssa.Parameter)
		mp, ok2 := m.(*ssa.Parameter)
		if !ok1 || !ok2 || depth >= 3 || ast.IsExported(fn.Name()) || !typeIs(vp.Type(), pkgPath("proto/pmpx"), "Code") {
			return false
		}
		vi, mi := paramIndex(fn, vp), paramIndex(fn, mp)
		n := 0
		good := true
		for _, g := range c.SrcFuncs("mpx") {
			withAnon(g, func(h *ssa.Function) {
				allInstrs(h, func(i ssa.Instruction) {
					for _, op := range i.Operands(nil) {
						if *op == ssa.Value(fn) {
							if ci, isCall := i.(*ssa.Call); !isCall || ci.Call.Value != ssa.Value(fn) {
								good = false // used as a value / go / defer: callers unknown
							}
						}
					}
				})
				for _, call := range callsIn(h, false) {
					if call.Common().StaticCallee() != fn || vi >= len(call.Common().Args) || mi >= len(call.Common().Args) {
						continue
					}
					n++
					if !isCodeOf(h, call.Common().Args[vi], call.Common().Args[mi], depth+1) {
						good = false
					}
				}
			})
		}
		return good && n > 0
	}
	// codeKnown: on every path to block b, the code of message value m was compared equal to want
	// bind: parameters of the enclosing helper whose value is a known constant at the call under examination
	// (readExpected(pmpx.Code_ConnectRequest, ...): the comparison code == expected is a comparison with that code)
	var bind map[*ssa.Parameter]int64
	codeKnown := func(b *ssa.BasicBlock, m ssa.Value, want int64) bool {
		fn := b.Parent()
		for _, alt := range backPaths(b, nil, 64) {
			known := false
			for _, cd := range alt {
				for _, rel := range relsOf(cd) {
					x, y := rel.X, rel.Y
					if _, isK := x.(*ssa.Const); isK {
						x, y = y, x
					}
					if k, isK := constInt(y); isK && rel.Op == token.EQL && k == want && isCodeOf(fn, x, m, 0) {
						known = true
					}
					if rel.Op == token.EQL && bind != nil {
						if px, ok := x.(*ssa.Parameter); ok {
							if k, bound := bind[px]; bound && k == want && isCodeOf(fn, y, m, 0) {
								known = true
							}
						}
						if py, ok := y.(*ssa.Parameter); ok {
							if k, bound := bind[py]; bound && k == want && isCodeOf(fn, x, m, 0) {
								known = true
							}
						}
					}
				}
			}
			if !known {
				return false
			}
		}
		return true
	}
	var establishedAt func(fn *ssa.Function, at ssa.Instruction, m ssa.Value, want int64, depth int) bool
	establishedAt = func(fn *ssa.Function, at ssa.Instruction, m ssa.Value, want int64, depth int) bool {
		if codeKnown(at.Block(), m, want) {
			return true
		}
		// the message is the result of a helper that checked the code itself (msg, st := r.readExpected(code, ..)):
		// used here under st.OK(), and every exit of the helper with a possibly-OK status returns a message whose
		// code it compared with the code handed in at this call
		if hc, mi := resultOfCall(m); hc != nil && depth < 2 {
			if h := hc.Call.StaticCallee(); h != nil && h.Blocks != nil && h.Pkg == fn.Pkg && !ast.IsExported(h.Name()) {
				sj := -1
				res := h.Signature.Results()
				for j := 0; j < res.Len(); j++ {
					if isStatusType(res.At(j).Type()) {
						sj = j
					}
				}
				if sj >= 0 && mi < res.Len() {
					if ex := extractOf(hc, sj); ex != nil && r11sa.classOf(ex, at.Block(), false, 0) == SOK {
						saved := bind
						bind = map[*ssa.Parameter]int64{}
						for k, prm := range h.Params {
							if k < len(hc.Call.Args) {
								if kv, isK := constInt(hc.Call.Args[k]); isK {
									bind[prm] = kv
								}
							}
						}
						all, nOK := true, 0
						for _, ret := range returnsOf(h) {
							if ret.Block() == h.Recover || len(ret.Results) != res.Len() {
								continue
							}
							if r11sa.classOf(ret.Results[sj], ret.Block(), false, 0) == SNonOK {
								continue
							}
							nOK++
							if !establishedAt(h, ret, unspill(ret.Results[mi]), want, depth+1) {
								all = false
							}
						}
						bind = saved
						if all && nOK > 0 {
							return true
						}
					}
				}
			}
		}
		p, isParam := m.(*ssa.Parameter)
		if !isParam || depth >= 2 || ast.IsExported(fn.Name()) {
			return false
		}
		pi := paramIndex(fn, p)
		n := 0
		for _, g := range c.SrcFuncs("mpx") {
			ok := true
			withAnon(g, func(h *ssa.Function) {
				for _, call := range callsIn(h, false) {
					if call.Common().StaticCallee() != fn || pi >= len(call.Common().Args) {
						continue
					}
					n++
					if !establishedAt(h, call.(ssa.Instruction), call.Common().Args[pi], want, depth+1) {
						ok = false
					}
				}
			})
			if !ok {
				return false
			}
		}
		return n > 0
	}
	n := 0
	for _, fn := range c.SrcFuncs("mpx") {
		cnt := map[string]int{}
		for _, call := range callsIn(fn, false) {
			o := calleeObj(call)
			if o == nil {
				continue
			}
			want, isPayload := payloads[o.Name()]
			if !isPayload {
				continue
			}
			args := call.Common().Args
			recv := call.Common().Value
			if !call.Common().IsInvoke() && len(args) > 0 {
				recv = args[0]
			}
			if recv == nil || !isMsg(recv) {
				continue
			}
			n++
			cnt[o.Name()]++
			key := fmt.Sprintf("%s/%s()#%d", fnKey(fn), o.Name(), cnt[o.Name()])
			if establishedAt(fn, call.(ssa.Instruction), recv, want, 0) {
				r.OK(key, call.Pos(), "read only with Code() == Code_%s established", o.Name())
			} else {
				r.Bad(key, call.Pos(), "the %s payload of a frame is read without the frame's Code() having been compared with Code_%s on every path: a peer can smuggle this payload under another frame code (a connect request inside a data frame completes the handshake)", o.Name(), o.Name())
			}
		}
	}
	if n == 0 {
		r.Unk("mpx/payload-accessors", 0, "anchor lost: no payload accessor call found")
	}
}

func constantString(k *types.Const) string {
	if k.Val().Kind() == constant.String {
		return constant.StringVal(k.Val())
	}
	return k.Val().ExactString()
}

func constantStringVal(k *ssa.Const) string {
	if k.Value.Kind() == constant.String {
		return constant.StringVal(k.Value)
	}
	return k.Value.ExactString()
}

// R09.9: close before waiting. conn.run waits for its two loops with a deferred StopWaitAll. A loop parked in socket
// I/O (the send loop in a write to a peer that does not read) is released by nothing but conn.close(), which closes
// the socket. Deferred calls run last-in-first-out: a close() must be deferred AFTER the wait is deferred, so that it
// runs BEFORE it; with only the outer deferred close (registered first, run last) run() waits forever when one loop
// ends while the other is blocked - the closed flag is never set, listeners never fire, handler contexts are never
// cancelled.
func init() {
	register(&Rule{ID: "R09.9", Props: []string{"C09", "C20"}, Floor: 1,
		Doc: "close before waiting: in conn.run a deferred close() is registered after the deferred wait for the receive/send loops (so it runs first and unblocks them)",
		Run: runR09_9})
}

func runR09_9(c *Ctx, r *R) {
	if r.Need("mpx", "conn.run") == nil {
		return
	}
	// the function that waits for the loops: conn.run, or a helper it hands the loops to (conn.runLoops)
	found := false
	for _, f := range c.SrcFuncs("mpx") {
		if strings.HasPrefix(baseName(c.Fset.Position(f.Pos()).Filename), "test_") || !typeIsRecv(f, "conn") {
			continue
		}
		key := fnKey(f) + "/close-before-wait"
		var waits, closes []*ssa.Defer
		for _, call := range callsIn(f, false) {
			d, ok := call.(*ssa.Defer)
			if !ok {
				continue
			}
			if o := calleeObj(d); o != nil && strings.HasPrefix(o.Name(), "StopWait") {
				waits = append(waits, d)
			}
			if calleeLabel(d) == "close" {
				closes = append(closes, d)
			}
		}
		for _, w := range waits {
			found = true
			ok := false
			for _, cl := range closes {
				if dominatesInstr(w, cl) {
					ok = true
				}
			}
			if ok {
				r.OK(key, w.Pos(), "a close() deferred after the wait runs before it and releases a loop blocked in socket I/O")
			} else {
				r.Bad(key, w.Pos(), "no close() is deferred after the deferred wait for the loops: when one loop ends while the other is blocked in a socket write, run() waits forever, the closed flag is never set, close listeners never fire and handler contexts are never cancelled")
			}
		}
	}
	if !found {
		// no deferred wait: the shape changed, say so
		r.Unk("mpx.conn.run/close-before-wait", 0, "no method of conn defers a wait for the receive/send loops (anchor lost)")
	}
}

// typeIsRecv: f is a method of the named type (pointer or value receiver) of its package.
func typeIsRecv(f *ssa.Function, name string) bool {
	if f.Signature.Recv() == nil {
		return false
	}
	t := f.Signature.Recv().Type()
	if p, ok := t.(*types.Pointer); ok {
		t = p.Elem()
	}
	n, ok := t.(*types.Named)
	return ok && n.Obj().Name() == name
}

func isConstTrueArg(call ssa.CallInstruction) bool {
	args := call.Common().Args
	if len(args) == 0 {
		return false
	}
	k, ok := args[len(args)-1].(*ssa.Const)
	return ok && k.Value != nil && k.Value.String() == "true"
}

func runR03_6(c *Ctx, r *R) {
	// constructor provenance of queue-typed struct fields
	type prov struct {
		unbounded, bounded int
		other              []string
	}
	fields := map[*types.Var]*prov{}
	isQueue := func(t types.Type) bool { return typeIs(t, bytequeuePath, "Queue") }
	for _, rel := range []string{"mpx", "rpc"} {
		for _, fn := range c.SrcFuncs(rel) {
			allInstrs(fn, func(i ssa.Instruction) {
				st, ok := i.(*ssa.Store)
				if !ok {
					return
				}
				fa, ok := st.Addr.(*ssa.FieldAddr)
				if !ok || !isQueue(fieldOf(fa).Type()) {
					return
				}
				p := fields[fieldOf(fa)]
				if p == nil {
					p = &prov{}
					fields[fieldOf(fa)] = p
				}
				v := st.Val
				if mi, ok := v.(*ssa.MakeInterface); ok {
					v = mi.X
				}
				if call, ok := v.(*ssa.Call); ok {
					if o := calleeObj(call); o != nil && o.Pkg() != nil && o.Pkg().Path() == bytequeuePath {
						switch o.Name() {
						case "New":
							p.unbounded++
							return
						case "NewCap":
							p.bounded++
							return
						}
					}
				}
				// s.q = <value loaded from the same field>: the queue object survives a reset, no new provenance
				if u, ok := v.(*ssa.UnOp); ok && u.Op == token.MUL {
					if fa2, ok := u.X.(*ssa.FieldAddr); ok && fieldOf(fa2) == fieldOf(fa) {
						return
					}
				}
				// ... also when a helper of the package hands that same field's value back (resetRecvQueue())
				if hc, ok := v.(*ssa.Call); ok {
					if h := hc.Call.StaticCallee(); h != nil && h.Blocks != nil && h.Pkg == fn.Pkg {
						same, nret := true, 0
						for _, ret := range returnsOf(h) {
							if len(ret.Results) != 1 {
								same = false
								continue
							}
							nret++
							rv := singleStoreValue(unspill(ret.Results[0]))
							u, ok := rv.(*ssa.UnOp)
							if !ok || u.Op != token.MUL {
								same = false
								continue
							}
							if fa2, ok := u.X.(*ssa.FieldAddr); !ok || fieldOf(fa2) != fieldOf(fa) {
								same = false
							}
						}
						if same && nret > 0 {
							return
						}
					}
				}
				p.other = append(p.other, c.pos(st.Pos()))
			})
		}
	}
	n := 0
	for _, fn := range c.SrcFuncs("mpx") {
		cnt := map[string]int{}
		for _, call := range callsIn(fn, false) {
			cc := call.Common()
			if !cc.IsInvoke() || cc.Method.Name() != "Write" || !isQueue(cc.Value.Type()) {
				continue
			}
			n++
			lbl := calleeLabel(call)
			cnt[lbl]++
			key := fmt.Sprintf("%s/%s#%d", fnKey(fn), lbl, cnt[lbl])
			// is the 'written' result consumed?
			consumed := false
			if cv, ok := call.(*ssa.Call); ok {
				if ex := extractOf(cv, 0); ex != nil && len(users(ex)) > 0 {
					consumed = true
				}
			}
			if consumed {
				r.OK(key, call.Pos(), "the 'written' result of Write is examined")
				continue
			}
			var fld *types.Var
			if u, ok := cc.Value.(*ssa.UnOp); ok && u.Op == token.MUL {
				if fa, ok := u.X.(*ssa.FieldAddr); ok {
					fld = fieldOf(fa)
				}
			}
			p := fields[fld]
			switch {
			case fld == nil || p == nil:
				r.Bad(key, call.Pos(), "the 'written' result of Write is discarded and the queue's construction cannot be traced: a full queue drops the message silently")
			case p.bounded == 0 && len(p.other) == 0 && p.unbounded > 0:
				r.OK(key, call.Pos(), "result discarded, but %s is only ever constructed with bytequeue.New() (unbounded): Write cannot report 'full'", fld.Name())
			default:
				r.Bad(key, call.Pos(), "the 'written' result of Write is discarded while %s can be a bounded queue (NewCap: %d, other stores: %s): when the queue is full the message is dropped although the sender's Send returned OK", fld.Name(), p.bounded, strings.Join(p.other, ","))
			}
		}
	}
	if n == 0 {
		r.Unk("mpx/queue-writes", 0, "no bytequeue Write found in package mpx (anchor lost)")
	}
}

// insertedAndRechecked: block b is reached only after channels.Set (inserted) and, behind it, a
// channelsClosed.Load() that returned false (rechecked) - in this function, or inside a helper of the package whose
// true result (the condition on the way to b) is returned only under these two.
func insertedAndRechecked(b *ssa.BasicBlock, depth int) (inserted, rechecked bool) {
	fn := b.Parent()
	var set ssa.Instruction
	for _, call := range callsIn(fn, false) {
		if calleeLabel(call) == "channels.Set" {
			set = call.(ssa.Instruction)
		}
	}
	if set != nil && (set.Block() == b || set.Block().Dominates(b)) {
		inserted = true
	}
	for _, cd := range pathConds(b) {
		v, truth := cd.V, cd.Truth
		if un, ok := v.(*ssa.UnOp); ok && un.Op == token.NOT {
			v, truth = un.X, !truth
		}
		if call, ok := v.(*ssa.Call); ok && !truth && calleeLabel(call) == "channelsClosed.Load" && set != nil && dominatesInstr(set, call) {
			rechecked = true
		}
		// `added` result of a helper
		if !truth || depth >= 2 {
			continue
		}
		var hc *ssa.Call
		idx := 0
		switch x := v.(type) {
		case *ssa.Call:
			hc = x
		case *ssa.Extract:
			if c2, ok := x.Tuple.(*ssa.Call); ok {
				hc, idx = c2, x.Index
			}
		}
		if hc == nil {
			continue
		}
		h := hc.Call.StaticCallee()
		if h == nil || h.Blocks == nil || h.Pkg != fn.Pkg {
			continue
		}
		allIns, allRe, any := true, true, false
		for _, ret := range returnsOf(h) {
			if idx >= len(ret.Results) {
				allIns, allRe = false, false
				continue
			}
			if k, ok := unspill(ret.Results[idx]).(*ssa.Const); ok && k.Value != nil && k.Value.String() == "false" {
				continue
			}
			any = true
			i2, r2 := insertedAndRechecked(ret.Block(), depth+1)
			allIns = allIns && i2
			allRe = allRe && r2
		}
		if any {
			inserted = inserted || allIns
			rechecked = rechecked || (allIns && allRe)
		}
	}
	return
}
