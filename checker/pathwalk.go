package main

import (
	"go/constant"
	"go/token"

	"golang.org/x/tools/go/ssa"
)

// Path walking: enumerate the acyclic block paths from the entry of a function to a target block and replay each
// one, keeping the incoming value of every phi passed and the last value stored into every local variable (Alloc -
// a variable captured by a closure is not a phi). Branches on `x == K` / `x != K` whose operand resolves, along the
// path, to a constant (or to a value known non-zero) prune the paths that take the other edge:
//
//	var id int64; if !closed { id = seq.Add(1); ...; if closed { ...; id = 0 } }; if id == 0 { ... }
//
// has no path that registers the listener (id = Add(1), never reset) and then takes the id == 0 branch.

type pwState struct {
	bind map[*ssa.Phi]ssa.Value
	mem  map[*ssa.Alloc]ssa.Value // absent: zero value
}

var pwZero = &ssa.Const{}

func enumBlockPaths(fn *ssa.Function, target *ssa.BasicBlock, max int) ([][]*ssa.BasicBlock, bool) {
	var out [][]*ssa.BasicBlock
	over := false
	on := map[*ssa.BasicBlock]bool{}
	var cur []*ssa.BasicBlock
	var walk func(b *ssa.BasicBlock)
	walk = func(b *ssa.BasicBlock) {
		if over {
			return
		}
		cur = append(cur, b)
		on[b] = true
		if len(b.Preds) == 0 {
			p := make([]*ssa.BasicBlock, len(cur))
			for i := range cur {
				p[len(cur)-1-i] = cur[i]
			}
			out = append(out, p)
			if len(out) > max {
				over = true
			}
		} else {
			for _, p := range b.Preds {
				if !on[p] {
					walk(p)
				}
			}
		}
		on[b] = false
		cur = cur[:len(cur)-1]
	}
	walk(target)
	return out, !over
}

func (st *pwState) resolve(v ssa.Value) ssa.Value {
	for i := 0; i < 20; i++ {
		switch x := v.(type) {
		case *ssa.Phi:
			if e, ok := st.bind[x]; ok {
				v = e
				continue
			}
		case *ssa.UnOp:
			if x.Op == token.MUL {
				if al, ok := x.X.(*ssa.Alloc); ok {
					if val, ok := st.mem[al]; ok {
						v = val
						continue
					}
					return pwZero
				}
			}
		case *ssa.ChangeType:
			v = x.X
			continue
		}
		return v
	}
	return v
}

// walkPath replays one block path. visit sees every instruction in order (loads of locals are resolved with
// st.resolve at that moment); branch is called for every conditional branch taken with the normalised condition and
// the truth value it has on this path. Returns false when the path is infeasible.
func walkPath(blocks []*ssa.BasicBlock, nonZero func(v ssa.Value) bool, visit func(ins ssa.Instruction, st *pwState), branch func(cond ssa.Value, truth bool, st *pwState)) bool {
	st := &pwState{bind: map[*ssa.Phi]ssa.Value{}, mem: map[*ssa.Alloc]ssa.Value{}}
	// loads are resolved when they execute: remember the value seen
	seen := map[*ssa.UnOp]ssa.Value{}
	res := func(v ssa.Value) ssa.Value {
		if ld, ok := v.(*ssa.UnOp); ok {
			if s, ok := seen[ld]; ok {
				return s
			}
		}
		return st.resolve(v)
	}
	for i, b := range blocks {
		if i > 0 {
			for k, p := range b.Preds {
				if p == blocks[i-1] {
					for _, ins := range b.Instrs {
						phi, ok := ins.(*ssa.Phi)
						if !ok {
							break
						}
						st.bind[phi] = res(phi.Edges[k])
					}
					break
				}
			}
		}
		for _, ins := range b.Instrs {
			switch x := ins.(type) {
			case *ssa.Store:
				if al, ok := x.Addr.(*ssa.Alloc); ok {
					st.mem[al] = res(x.Val)
				}
			case *ssa.UnOp:
				if x.Op == token.MUL {
					if _, ok := x.X.(*ssa.Alloc); ok {
						seen[x] = st.resolve(x)
					}
				}
			}
			if visit != nil {
				visit(ins, st)
			}
		}
		if i+1 >= len(blocks) {
			break
		}
		iff, ok := b.Instrs[len(b.Instrs)-1].(*ssa.If)
		if !ok || b.Succs[0] == b.Succs[1] {
			continue
		}
		taken := blocks[i+1] == b.Succs[0]
		cond, truth := iff.Cond, taken
		for {
			un, isNot := cond.(*ssa.UnOp)
			if !isNot || un.Op != token.NOT {
				break
			}
			cond, truth = un.X, !truth
		}
		if bo, isB := cond.(*ssa.BinOp); isB && (bo.Op == token.EQL || bo.Op == token.NEQ) {
			x, y := res(bo.X), res(bo.Y)
			val, known := false, false
			kx, okx := constOf(x)
			ky, oky := constOf(y)
			switch {
			case okx && oky && kx.Kind() == ky.Kind():
				val, known = constant.Compare(kx, token.EQL, ky), true
			case okx && isZeroConst(kx) && nonZero != nil && nonZero(y):
				val, known = false, true
			case oky && isZeroConst(ky) && nonZero != nil && nonZero(x):
				val, known = false, true
			}
			if known {
				if bo.Op == token.NEQ {
					val = !val
				}
				if val != truth {
					return false
				}
			}
		}
		if k, ok := res(cond).(*ssa.Const); ok && k != pwZero && k.Value != nil && k.Value.Kind() == constant.Bool {
			if constant.BoolVal(k.Value) != truth {
				return false
			}
		}
		if branch != nil {
			branch(cond, truth, st)
		}
	}
	return true
}

func constOf(v ssa.Value) (constant.Value, bool) {
	if v == ssa.Value(pwZero) {
		return constant.MakeInt64(0), true
	}
	k, ok := v.(*ssa.Const)
	if !ok || k.Value == nil {
		return nil, false
	}
	switch k.Value.Kind() {
	case constant.Int, constant.Bool, constant.String:
		return k.Value, true
	}
	return nil, false
}

func isZeroConst(k constant.Value) bool {
	return k.Kind() == constant.Int && constant.Sign(k) == 0
}
