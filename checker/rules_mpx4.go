package main

import (
	"fmt"
	"go/token"
	"go/types"

	"golang.org/x/tools/go/ssa"
)

// R06.7: the send loop tolerates a channel that is already gone. When both sides end a channel at about the same
// time, our close frame may still sit in the write queue while the peer's close frame removes the entry from the
// connection's channel map. Whatever the send loop's per-frame handler (conn.sendHandle and what it delegates to) does
// with the channel map, a lookup that misses must not turn into a non-OK status: the send loop exits on any non-OK
// status and takes the whole connection - every other channel - down with it. (R06.4 states the same for the
// receive side.)

func init() {
	register(&Rule{ID: "R06.7", Props: []string{"C06"}, Floor: 1,
		Doc: "send side: a channel-map lookup that misses in conn.sendHandle never leads to a non-OK return",
		Run: runR06_7})
}

func runR06_7(c *Ctx, r *R) {
	f := r.Need("mpx", "conn.sendHandle")
	if f == nil {
		return
	}
	sa := newStatusAn(c)
	n := 0
	var visit func(fn *ssa.Function, depth int)
	seen := map[*ssa.Function]bool{}
	visit = func(fn *ssa.Function, depth int) {
		if seen[fn] || depth > 2 {
			return
		}
		seen[fn] = true
		for _, call := range callsIn(fn, false) {
			lbl := calleeLabel(call)
			if lbl != "channels.Get" && lbl != "channels.Delete" && lbl != "channels.GetOrSet" {
				if g := call.Common().StaticCallee(); g != nil && g.Pkg == fn.Pkg && g.Blocks != nil && g != fn && isStatusType(lastResultType(g)) {
					if o := calleeObj(call); o != nil && (o.Name() == "sendHandle" || o.Name() == "free" || o.Name() == "Free") {
						continue
					}
					visit(g, depth+1)
				}
				continue
			}
			cv, ok := call.(*ssa.Call)
			if !ok {
				continue
			}
			okv := extractOf(cv, 1)
			n++
			key := fmt.Sprintf("%s/%s-miss#%d", fnKey(fn), lbl, n)
			bad := ""
			for _, ret := range returnsOf(fn) {
				if !reachesInstr(cv, ret) || len(ret.Results) == 0 {
					continue
				}
				// is this return reachable with the lookup having missed?
				missPossible := false
				for _, alt := range backPaths(ret.Block(), cv.Block(), 64) {
					hit := false
					for _, cd := range alt {
						v, truth := cd.V, cd.Truth
						if un, isNot := v.(*ssa.UnOp); isNot && un.Op == token.NOT {
							v, truth = un.X, !truth
						}
						if okv != nil && v == ssa.Value(okv) && truth {
							hit = true
						}
					}
					if !hit {
						missPossible = true
					}
				}
				if !missPossible {
					continue
				}
				// a return that only forwards the status of a nested dispatch is judged there
				if cl := sa.classOf(ret.Results[len(ret.Results)-1], ret.Block(), false, 0); cl != SOK {
					// returns that are reached only through an unrelated failing call (its own error) are not about the miss:
					// require the miss edge itself on the path
					onMissEdge := false
					for _, alt := range backPaths(ret.Block(), cv.Block(), 64) {
						for _, cd := range alt {
							v, truth := cd.V, cd.Truth
							if un, isNot := v.(*ssa.UnOp); isNot && un.Op == token.NOT {
								v, truth = un.X, !truth
							}
							if okv != nil && v == ssa.Value(okv) && !truth {
								onMissEdge = true
							}
						}
					}
					if onMissEdge {
						bad = fmt.Sprintf("the return at %s, taken when %s does not find the channel, yields a status that is not OK", c.pos(ret.Pos()), lbl)
					}
				}
			}
			if bad == "" {
				r.OK(key, cv.Pos(), "a missing channel is skipped, the frame is still written")
			} else {
				r.Bad(key, cv.Pos(), "%s: a close frame that crosses the peer's close of the same channel makes the send loop exit and closes the whole connection with all its other channels", bad)
			}
		}
	}
	visit(f, 0)
	if n == 0 {
		r.Unk(fnKey(f)+"/lookups", f.Pos(), "anchor lost: conn.sendHandle performs no channel-map lookup")
	}
}

func lastResultType(fn *ssa.Function) types.Type {
	rs := fn.Signature.Results()
	if rs.Len() == 0 {
		return types.Typ[types.Invalid]
	}
	return rs.At(rs.Len() - 1).Type()
}
