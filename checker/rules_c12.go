package main

import (
	"fmt"
	"go/ast"
	"go/token"
	"go/types"
	"os"
	"sort"
	"strings"

	"golang.org/x/tools/go/ssa"
)

func init() {
	props["C12"] = &propInfo{Level: "other", Explanation: "Decides the structural part of 'no call panics, the first error is sticky, Free is always safe': (R12.1) an interprocedural must-analysis over all functions of internal/writer with three facts about the one writer object in scope - L 'embedded state pointer is non-nil', E 'w.err is non-nil', I 'invariant state==nil => err!=nil holds' - proves that every dereference of the embedded *writerState (field access or method call through it) happens with L established (by the sticky-error prologue, an explicit nil check, or the callee contract of a helper), and that I holds again at every return of every externally callable function; (R12.2) no handle field of type *writer is ever assigned nil (else later calls dereference nil); (R12.3) w.err is assigned a new error only where it is known nil and cleared only by Reset/reset; (R12.4) every field of a stack entry obtained from pop/peek is used only under ok==true and, except type_, under a type_ comparison; (R12.5) each transition function compares the entry type with the constant the nesting grammar requires. Not decided: that bytes returned by a successful root Build parse completely for every program (needs execution); panics inside dependency code.",
		Trusted: []string{"errors.New/fmt.Errorf never return nil", "all *writer values inside one function of internal/writer denote the same writer (no function of the package handles two writers)"}}

	register(&Rule{ID: "R12.1", Props: []string{"C12"}, Floor: 60,
		Doc: "state typestate: every dereference of writer.writerState is reached only with the pointer proved non-nil; invariant (state==nil => err!=nil) re-established at every API return",
		Run: runR12_1})
	register(&Rule{ID: "R12.6", Props: []string{"C12"}, Floor: 60,
		Doc: "sticky errors: at every return of a writer function whose error result may be non-nil, w.err has been set (E holds in every calling context)",
		Run: func(c *Ctx, r *R) {
			if lastWA == nil {
				runR12_1(c, &R{c: c, rule: &Rule{ID: "R12.1-shadow"}})
			}
			if lastWA != nil {
				reportSticky(c, r, lastWA)
			}
		}})
	register(&Rule{ID: "R12.2", Props: []string{"C12"}, Floor: 4,
		Doc: "handle fields of type *writer are never assigned nil",
		Run: runR12_2})
	register(&Rule{ID: "R12.3", Props: []string{"C12"}, Floor: 4,
		Doc: "stickiness: a non-nil error is stored to writer.err only under w.err == nil; nil is stored only in Reset/reset",
		Run: runR12_3})
	register(&Rule{ID: "R12.4", Props: []string{"C12", "C01"}, Floor: 14,
		Doc: "stack discipline: fields of an entry returned by stack.pop/peek/peekSecondLast are read only under ok==true, and fields other than type_ only under a type_ check",
		Run: runR12_4})
	register(&Rule{ID: "R12.5", Props: []string{"C12", "C01"}, Floor: 11,
		Doc: "nesting grammar: each writer transition compares the entry type against the constant required by the value/list/element/message/field nesting",
		Run: runR12_5})
}

const writerPkg = "internal/writer"

func isWriterPtr(t types.Type) bool {
	p, ok := t.Underlying().(*types.Pointer)
	return ok && typeIs(p.Elem(), pkgPath(writerPkg), "writer") && namedOf(p.Elem()).Obj().Name() == "writer"
}

// carriesWriter: *writer, the Writer interface, or a (pointer to a) handle struct with a *writer field.
func carriesWriter(t types.Type) bool {
	if isWriterPtr(t) {
		return true
	}
	if typeIs(t, pkgPath(writerPkg), "Writer") {
		return true
	}
	u := deref(t).Underlying()
	if st, ok := u.(*types.Struct); ok {
		for i := 0; i < st.NumFields(); i++ {
			if isWriterPtr(st.Field(i).Type()) {
				return true
			}
		}
	}
	return false
}

func writerFieldName(v ssa.Value) string {
	fa, ok := v.(*ssa.FieldAddr)
	if !ok || !isWriterPtr(fa.X.Type()) {
		return ""
	}
	return fieldOf(fa).Name()
}

// loadOfWriterField: v = *(&w.<name>)
func loadOfWriterField(v ssa.Value, name string) bool {
	u, ok := v.(*ssa.UnOp)
	return ok && u.Op == token.MUL && writerFieldName(u.X) == name
}

// wFacts is the fact universe of the writer typestate analysis: L state non-nil, E err non-nil, I invariant,
// RW0/RW1, RS0/RS1: the release flags of the current state are known false/true.
var wFacts = []string{"L", "E", "I", "RW0", "RW1", "RS0", "RS1"}

func stateFlagLoad(v ssa.Value) string {
	u, ok := v.(*ssa.UnOp)
	if !ok || u.Op != token.MUL {
		return ""
	}
	fa, ok := u.X.(*ssa.FieldAddr)
	if !ok || !typeIs(fa.X.Type(), pkgPath(writerPkg), "writerState") {
		return ""
	}
	switch fieldOf(fa).Name() {
	case "releaseWriter":
		return "RW"
	case "releaseState":
		return "RS"
	}
	return ""
}

// flagPredicate: fn is a pure boolean function of the two release flags of its receiver's state (no stores, no
// calls; only flag loads, branches on them, constants and phis), e.g. autoRelease() = releaseState || releaseWriter.
// The truth table is indexed by world = rs<<1 | rw and obtained by following the CFG in each of the four worlds.
func flagPredicate(fn *ssa.Function) (table [4]bool, ok bool) {
	if fn == nil || fn.Blocks == nil || fn.Signature.Results().Len() != 1 {
		return table, false
	}
	if b, isB := fn.Signature.Results().At(0).Type().Underlying().(*types.Basic); !isB || b.Kind() != types.Bool {
		return table, false
	}
	pure := true
	allInstrs(fn, func(i ssa.Instruction) {
		switch x := i.(type) {
		case *ssa.Store, ssa.CallInstruction, *ssa.MapUpdate, *ssa.Send:
			_ = x
			pure = false
		}
	})
	if !pure {
		return table, false
	}
	for world := 0; world < 4; world++ {
		rs, rw := world&2 != 0, world&1 != 0
		var eval func(v ssa.Value, from, at *ssa.BasicBlock, depth int) (bool, bool)
		eval = func(v ssa.Value, from, at *ssa.BasicBlock, depth int) (bool, bool) {
			if depth > 8 {
				return false, false
			}
			if k, isK := v.(*ssa.Const); isK && k.Value != nil {
				switch k.Value.String() {
				case "true":
					return true, true
				case "false":
					return false, true
				}
				return false, false
			}
			switch stateFlagLoad(v) {
			case "RS":
				return rs, true
			case "RW":
				return rw, true
			}
			switch x := v.(type) {
			case *ssa.UnOp:
				if x.Op == token.NOT {
					r, good := eval(x.X, from, at, depth+1)
					return !r, good
				}
			case *ssa.Phi:
				if x.Block() == at && from != nil {
					for j, p := range at.Preds {
						if p == from {
							return eval(x.Edges[j], nil, nil, depth+1)
						}
					}
				}
			}
			return false, false
		}
		var from *ssa.BasicBlock
		b := fn.Blocks[0]
		decided := false
		for steps := 0; steps < 64 && !decided; steps++ {
			last := b.Instrs[len(b.Instrs)-1]
			switch x := last.(type) {
			case *ssa.Return:
				r, good := eval(x.Results[0], from, b, 0)
				if !good {
					return table, false
				}
				table[world] = r
				decided = true
			case *ssa.If:
				r, good := eval(x.Cond, from, b, 0)
				if !good {
					return table, false
				}
				from = b
				if r {
					b = b.Succs[0]
				} else {
					b = b.Succs[1]
				}
			case *ssa.Jump:
				from = b
				b = b.Succs[0]
			default:
				return table, false
			}
		}
		if !decided {
			return table, false
		}
	}
	return table, true
}

// refineByPredicate: the predicate call result is known to be `truth` on this edge: worlds inconsistent with the
// flag facts already known or with the result are excluded; what the remaining worlds share becomes a fact.
func refineByPredicate(table [4]bool, truth bool, f Facts) {
	var worlds []int
	for w := 0; w < 4; w++ {
		rs, rw := w&2 != 0, w&1 != 0
		if (f["RS1"] && !rs) || (f["RS0"] && rs) || (f["RW1"] && !rw) || (f["RW0"] && rw) {
			continue
		}
		if table[w] == truth {
			worlds = append(worlds, w)
		}
	}
	if len(worlds) == 0 {
		f["BOT"] = true
		return
	}
	allRS1, allRS0, allRW1, allRW0 := true, true, true, true
	for _, w := range worlds {
		if w&2 != 0 {
			allRS0 = false
		} else {
			allRS1 = false
		}
		if w&1 != 0 {
			allRW0 = false
		} else {
			allRW1 = false
		}
	}
	if allRS1 {
		f["RS1"] = true
	}
	if allRS0 {
		f["RS0"] = true
	}
	if allRW1 {
		f["RW1"] = true
	}
	if allRW0 {
		f["RW0"] = true
	}
}

type wsum struct {
	all     Facts // facts at all returns (intersection)
	okRet   Facts // facts at returns whose error result may be nil (nil map = no such return)
	errRet  Facts // facts at returns whose error result may be non-nil (nil map = no such return)
	hasErr  bool
	nonNil  bool // error result provably non-nil on every return
	busy    bool
	derefOK map[ssa.Instruction]bool
}

type wAnalysis struct {
	c     *Ctx
	memo  map[string]*wsum
	deref map[ssa.Instruction][]string // deref instr -> failing contexts
	seen  map[ssa.Instruction]bool
	glob  map[*ssa.Global]bool // package-level error variables never reassigned
	// summary last applied at a call instruction (in the analysis currently running for its function)
	callSum map[ssa.CallInstruction]*wsum
	// functions of the package that (transitively) store to the release flags of a writerState
	flagWriters map[*ssa.Function]bool
	retSeen     map[*ssa.Return]bool
	retBad      map[*ssa.Return][]string
	// results of calls to pure flag predicates (autoRelease() = releaseState || releaseWriter): truth tables
	preds map[ssa.Value][4]bool
}

func errorResultIndex(sig *types.Signature) int {
	n := sig.Results().Len()
	if n == 0 {
		return -1
	}
	if types.Identical(sig.Results().At(n-1).Type(), types.Universe.Lookup("error").Type()) {
		return n - 1
	}
	return -1
}

func factsKey(f Facts) string {
	ks := sortedKeys(f)
	return strings.Join(ks, "")
}

// nonNilValue decides whether error/pointer value v is provably non-nil at block b given facts.
func (a *wAnalysis) nonNilValue(v ssa.Value, b *ssa.BasicBlock, f Facts, nonNilParams map[*ssa.Parameter]bool, depth int) bool {
	if depth > 6 {
		return false
	}
	switch x := v.(type) {
	case *ssa.Const:
		return x.Value != nil
	case *ssa.MakeInterface, *ssa.Alloc, *ssa.MakeClosure:
		return true
	case *ssa.Parameter:
		if nonNilParams[x] {
			return true
		}
	case *ssa.Phi:
		for k, e := range x.Edges {
			if !a.nonNilValue(e, x.Block().Preds[k], f, nonNilParams, depth+1) {
				return false
			}
		}
		return true
	case *ssa.Call:
		if o := calleeObj(x); o != nil && o.Pkg() != nil {
			if (o.Pkg().Path() == "errors" && o.Name() == "New") || (o.Pkg().Path() == "fmt" && o.Name() == "Errorf") {
				return true
			}
		}
		if callee := calleeOf(x); callee != nil && touchesWriter(callee) {
			if s := a.callSum[x]; s != nil && s.hasErr && s.nonNil {
				return true
			}
		}
	case *ssa.Extract:
		if call, ok := x.Tuple.(*ssa.Call); ok {
			if callee := calleeOf(call); callee != nil && touchesWriter(callee) {
				if idx := errorResultIndex(callee.Signature); idx == x.Index {
					if s := a.callSum[call]; s != nil && s.nonNil {
						return true
					}
				}
			}
		}
	case *ssa.UnOp:
		if x.Op == token.MUL {
			if loadOfWriterField(x, "err") && f["E"] {
				return true
			}
			if g, ok := x.X.(*ssa.Global); ok && a.glob[g] {
				return true
			}
		}
	}
	// dominating v != nil
	for _, c := range pathConds(b) {
		for _, r := range relsOf(c) {
			if r.Op == token.NEQ && ((r.X == v && isNilConst(r.Y)) || (r.Y == v && isNilConst(r.X))) {
				return true
			}
		}
	}
	return false
}

func (a *wAnalysis) summaryForCall(call ssa.CallInstruction, pre Facts) *wsum {
	callee := calleeOf(call)
	if callee == nil {
		return nil
	}
	if callee.Blocks == nil && callee.Origin() != nil {
		callee = callee.Origin()
	}
	if callee.Blocks == nil {
		return nil
	}
	// which error params are non-nil at the call site?
	nn := map[*ssa.Parameter]bool{}
	args := call.Common().Args
	for i, p := range callee.Params {
		if i < len(args) && types.Identical(p.Type(), types.Universe.Lookup("error").Type()) {
			if a.nonNilValue(args[i], call.Block(), pre, nil, 5) {
				nn[p] = true
			}
		}
	}
	if len(pre) == 0 && os.Getenv("DBG12") != "" {
		fmt.Fprintf(os.Stderr, "DBG empty ctx call %s -> %s at %s\n", fnKey(call.Parent()), fnKey(callee), a.c.pos(call.Pos()))
	}
	entry := Facts{}
	for _, k := range wFacts {
		if pre[k] {
			entry[k] = true
		}
	}
	return a.analyse(callee, entry, nn)
}

// summaryForTable: the meet of the summaries of every function a table-driven call can reach.
func (a *wAnalysis) summaryForTable(call ssa.CallInstruction, targets []*ssa.Function, pre Facts) *wsum {
	entry := Facts{}
	for _, k := range wFacts {
		if pre[k] {
			entry[k] = true
		}
	}
	var out *wsum
	meetF := func(dst *Facts, src Facts) {
		if src == nil {
			return
		}
		if *dst == nil {
			*dst = src.clone()
			return
		}
		for k := range *dst {
			if !src[k] {
				delete(*dst, k)
			}
		}
	}
	for _, t := range targets {
		s := a.analyse(t, entry, map[*ssa.Parameter]bool{})
		if s == nil {
			return nil
		}
		if out == nil {
			out = &wsum{hasErr: s.hasErr, nonNil: s.nonNil}
		}
		out.hasErr = out.hasErr || s.hasErr
		out.nonNil = out.nonNil && s.nonNil
		meetF(&out.all, s.all)
		meetF(&out.okRet, s.okRet)
		meetF(&out.errRet, s.errRet)
	}
	return out
}

// touchesWriter: function of the writer package with a parameter that carries the writer.
func touchesWriter(f *ssa.Function) bool {
	if f == nil {
		return false
	}
	g := f
	if g.Origin() != nil {
		g = g.Origin()
	}
	if g.Pkg == nil || g.Pkg.Pkg.Path() != pkgPath(writerPkg) {
		return false
	}
	for _, p := range f.Params {
		if carriesWriter(p.Type()) {
			return true
		}
	}
	return false
}

func (a *wAnalysis) analyse(fn *ssa.Function, entry Facts, nonNilParams map[*ssa.Parameter]bool) *wsum {
	key := fnKey(fn) + "|" + factsKey(entry) + "|"
	for _, p := range fn.Params {
		if nonNilParams[p] {
			key += p.Name() + ","
		}
	}
	if s, ok := a.memo[key]; ok {
		if s.busy { // recursion: be conservative
			return &wsum{all: Facts{}, okRet: Facts{}, hasErr: errorResultIndex(fn.Signature) >= 0}
		}
		return s
	}
	sum := &wsum{busy: true}
	a.memo[key] = sum
	if os.Getenv("DBG12") != "" {
		fmt.Fprintf(os.Stderr, "DBG analyse %s\n", key)
	}
	ctx := fnKey(fn) + "{" + factsKey(entry) + "}"

	fl := &Flow{Must: true, Entry: entry}
	fl.Transfer = func(i ssa.Instruction, f Facts) {
		if f["BOT"] {
			return
		}
		switch x := i.(type) {
		case *ssa.Store:
			if fa, ok := x.Addr.(*ssa.FieldAddr); ok && typeIs(fa.X.Type(), pkgPath(writerPkg), "writerState") {
				pre := ""
				switch fieldOf(fa).Name() {
				case "releaseWriter":
					pre = "RW"
				case "releaseState":
					pre = "RS"
				}
				if pre != "" {
					delete(f, pre+"0")
					delete(f, pre+"1")
					for k := range f {
						if strings.HasPrefix(k, "fresh:") {
							delete(f, k)
						}
					}
					if c, ok := x.Val.(*ssa.Const); ok && c.Value != nil {
						if c.Value.String() == "true" {
							f[pre+"1"] = true
						} else {
							f[pre+"0"] = true
						}
					}
				}
			}
			switch writerFieldName(x.Addr) {
			case "writerState":
				for _, k := range []string{"RW0", "RW1", "RS0", "RS1"} {
					delete(f, k)
				}
				if isNilConst(x.Val) {
					delete(f, "L")
					if !f["E"] {
						delete(f, "I")
					}
				} else {
					f["L"] = true
					f["I"] = true
				}
			case "err":
				for k := range f {
					if strings.HasPrefix(k, "nz:") {
						delete(f, k)
					}
				}
				if a.nonNilValue(x.Val, x.Block(), f, nonNilParams, 0) {
					f["E"] = true
					f["I"] = true
				} else {
					delete(f, "E")
					if !f["L"] {
						delete(f, "I")
					}
				}
			}
		case ssa.CallInstruction:
			callee := calleeOf(x)
			if _, isDefer := x.(*ssa.Defer); isDefer {
				return
			}
			// a flag read through a predicate helper is "fresh" until the next call that could change the flags
			for k := range f {
				if strings.HasPrefix(k, "fresh:") {
					delete(f, k)
				}
			}
			if tbl, isPred := flagPredicate(callee); isPred {
				if v, ok := x.(*ssa.Call); ok {
					a.preds[v] = tbl
					// value of the predicate in the worlds still possible here
					var vals [2]bool
					for w := 0; w < 4; w++ {
						rs, rw := w&2 != 0, w&1 != 0
						if (f["RS1"] && !rs) || (f["RS0"] && rs) || (f["RW1"] && !rw) || (f["RW0"] && rw) {
							continue
						}
						if tbl[w] {
							vals[1] = true
						} else {
							vals[0] = true
						}
					}
					if vals[1] && !vals[0] {
						f["pv:"+v.Name()+":1"] = true
					}
					if vals[0] && !vals[1] {
						f["pv:"+v.Name()+":0"] = true
					}
					defer func() { f["fresh:"+v.Name()] = true }()
				}
			}
			if callee != nil && !touchesWriter(callee) && a.flagWriters[callee] {
				for _, k := range []string{"RW0", "RW1", "RS0", "RS1"} {
					delete(f, k)
				}
			}
			// a dynamic call through a constant table of writer functions (endFuncs[entry.type_]): every entry is a
			// possible callee, the summaries are met
			var table []*ssa.Function
			if callee == nil && !x.Common().IsInvoke() {
				for _, t := range funcTableTargets(x.Common().Value) {
					if !touchesWriter(t) {
						table = nil
						break
					}
					table = append(table, t)
				}
			}
			if (callee == nil || !touchesWriter(callee)) && len(table) == 0 {
				// dynamic call (interface Writer method or WriteFunc): a Writer interface method may do anything to the writer
				if x.Common().IsInvoke() && typeIs(x.Common().Value.Type(), pkgPath(writerPkg), "Writer") {
					for k := range f {
						if k != "I" {
							delete(f, k)
						}
					}
				}
				return
			}
			var s *wsum
			if len(table) > 0 {
				s = a.summaryForTable(x, table, f)
			} else {
				s = a.summaryForCall(x, f)
			}
			a.callSum[x] = s
			if s == nil {
				for k := range f {
					delete(f, k)
				}
				return
			}
			post := s.all
			if os.Getenv("DBG12") != "" {
				fmt.Fprintf(os.Stderr, "DBG call %s -> %s pre=%v post=%v ok=%v nonnil=%v\n", fnKey(fn), fnKey(callee), factsKey(f), post, s.okRet, s.nonNil)
			}
			if post == nil { // function never returns normally
				post = Facts{"BOT": true}
			}
			for k := range f {
				if strings.HasPrefix(k, "ok:") {
					delete(f, k)
				}
			}
			for _, k := range wFacts {
				if post[k] {
					f[k] = true
				} else {
					delete(f, k)
				}
			}
			if v, ok := x.(*ssa.Call); ok && s.hasErr && s.okRet != nil {
				for k := range s.okRet {
					f["ok:"+v.Name()+":"+k] = true
				}
			}
			for k := range f {
				if strings.HasPrefix(k, "nz:") {
					delete(f, k)
				}
			}
			if v, ok := x.(*ssa.Call); ok && s.hasErr {
				if s.errRet == nil {
					f["nz:"+v.Name()+":never"] = true
				}
				for k := range s.errRet {
					f["nz:"+v.Name()+":"+k] = true
				}
			}
		}
	}
	fl.Edge = func(from *ssa.BasicBlock, k int, f Facts) {
		// error results merged by a phi (result, err = w.endValue() / w.endList() / ... followed by one shared
		// `if err != nil`): the conditional facts of the call on this edge are re-keyed to the phi, so that the meet
		// at the join keeps what every incoming call guarantees
		if to := from.Succs[k]; len(to.Preds) > 1 {
			for j, p := range to.Preds {
				if p != from {
					continue
				}
				for _, ins := range to.Instrs {
					phi, ok := ins.(*ssa.Phi)
					if !ok {
						break
					}
					var call *ssa.Call
					switch v := phi.Edges[j].(type) {
					case *ssa.Call:
						call = v
					case *ssa.Extract:
						call, _ = v.Tuple.(*ssa.Call)
					}
					if call == nil {
						continue
					}
					for _, pre := range []string{"ok:", "nz:"} {
						for key := range f {
							if strings.HasPrefix(key, pre+call.Name()+":") {
								f[pre+phi.Name()+":"+strings.TrimPrefix(key, pre+call.Name()+":")] = true
							}
						}
					}
				}
			}
		}
		cond := ifCond(from)
		if cond == nil {
			return
		}
		{
			cv, truth := cond, k == 0
			if un, ok := cv.(*ssa.UnOp); ok && un.Op == token.NOT {
				cv, truth = un.X, !truth
			}
			if pre := stateFlagLoad(cv); pre != "" {
				yes, no := pre+"1", pre+"0"
				if !truth {
					yes, no = no, yes
				}
				if f[no] {
					f["BOT"] = true
				}
				f[yes] = true
			}
			if tbl, isPred := a.preds[cv]; isPred {
				// the value the predicate had when it was called
				if (truth && f["pv:"+cv.Name()+":0"]) || (!truth && f["pv:"+cv.Name()+":1"]) {
					f["BOT"] = true
				}
				// and, while nothing could have changed the flags since, what its value says about them
				if f["fresh:"+cv.Name()] {
					refineByPredicate(tbl, truth, f)
				}
			}
		}
		for _, r := range relsOf(Cond{cond, k == 0}) {
			x, y := r.X, r.Y
			if isNilConst(x) {
				x, y = y, x
			}
			if !isNilConst(y) || (r.Op != token.EQL && r.Op != token.NEQ) {
				continue
			}
			isNil := r.Op == token.EQL
			switch {
			case loadOfWriterField(x, "err"):
				if isNil && f["E"] {
					f["BOT"] = true // err known non-nil: edge infeasible
				}
				if isNil {
					delete(f, "E")
					if f["I"] {
						f["L"] = true
					}
				} else {
					f["E"] = true
					f["I"] = true
				}
			case loadOfWriterField(x, "writerState"):
				if isNil && f["L"] {
					f["BOT"] = true // state known non-nil: edge infeasible
				}
				if isNil {
					delete(f, "L")
				} else {
					f["L"] = true
					f["I"] = true
				}
			default:
				// error result of a writer call: nil => facts of the callee's nil-result returns
				var call ssa.Value // the call, or the phi merging the error results of several calls
				switch v := x.(type) {
				case *ssa.Call:
					call = v
				case *ssa.Extract:
					if cv, ok := v.Tuple.(*ssa.Call); ok {
						call = cv
					}
				case *ssa.Phi:
					call = v
				}
				if call != nil && isNil {
					for _, kk := range wFacts {
						if f["ok:"+call.Name()+":"+kk] {
							f[kk] = true
						}
					}
				}
				if call != nil && !isNil {
					if f["nz:"+call.Name()+":never"] {
						f["BOT"] = true
					}
					for _, kk := range wFacts {
						if f["nz:"+call.Name()+":"+kk] {
							f[kk] = true
						}
					}
				}
				if p, ok := x.(*ssa.Parameter); ok && nonNilParams[p] && isNil {
					f["BOT"] = true
				}
			}
		}
	}
	res := fl.Run(fn)

	// dereferences
	for _, b := range fn.Blocks {
		in, ok := res.In[b]
		if !ok || in["BOT"] {
			continue
		}
		for _, ins := range b.Instrs {
			var ptr ssa.Value
			switch x := ins.(type) {
			case *ssa.FieldAddr:
				if loadOfWriterField(x.X, "writerState") {
					ptr = x.X
				}
			case *ssa.Call:
				if args := x.Common().Args; len(args) > 0 && !x.Common().IsInvoke() && loadOfWriterField(args[0], "writerState") {
					if cal := calleeOf(x); cal != nil && cal.Signature.Recv() != nil {
						ptr = args[0]
					}
				}
			}
			if ptr == nil {
				continue
			}
			a.seen[ins] = true
			load := ptr.(*ssa.UnOp)
			f := res.At(load)
			okd := f != nil && (f["L"] || f["BOT"])
			if !okd {
				for _, cnd := range pathConds(b) {
					for _, r := range relsOf(cnd) {
						if r.Op == token.NEQ && ((r.X == ptr && isNilConst(r.Y)) || (r.Y == ptr && isNilConst(r.X))) {
							okd = true
						}
					}
				}
			}
			if !okd {
				a.deref[ins] = append(a.deref[ins], ctx)
			}
		}
	}

	// summary at returns
	sum.hasErr = errorResultIndex(fn.Signature) >= 0
	sum.nonNil = sum.hasErr
	for _, ret := range returnsOf(fn) {
		f := res.At(ret)
		if f == nil || f["BOT"] {
			continue
		}
		g := Facts{}
		for _, k := range wFacts {
			if f[k] {
				g[k] = true
			}
		}
		meet := func(dst *Facts) {
			if *dst == nil {
				*dst = g.clone()
				return
			}
			for k := range *dst {
				if !g[k] {
					delete(*dst, k)
				}
			}
		}
		meet(&sum.all)
		if sum.hasErr {
			ev := ret.Results[errorResultIndex(fn.Signature)]
			if !a.nonNilValue(ev, ret.Block(), f, nonNilParams, 0) {
				sum.nonNil = false
				// `return w.endTable(start)`: the error is the callee's; where it is nil the callee's nil-result
				// facts hold on top of what is known at the return
				saved := g
				var fwd *ssa.Call
				switch x := ev.(type) {
				case *ssa.Call:
					fwd = x
				case *ssa.Extract:
					fwd, _ = x.Tuple.(*ssa.Call)
				}
				if fwd != nil {
					g = g.clone()
					for _, kk := range wFacts {
						if f["ok:"+fwd.Name()+":"+kk] {
							g[kk] = true
						}
					}
				}
				meet(&sum.okRet)
				g = saved
			}
			if !isNilConst(ev) {
				// facts known if the returned error is non-nil
				g2 := g.clone()
				var call *ssa.Call
				switch x := ev.(type) {
				case *ssa.Call:
					call = x
				case *ssa.Extract:
					call, _ = x.Tuple.(*ssa.Call)
				}
				never := false
				if call != nil {
					never = f["nz:"+call.Name()+":never"]
					for _, kk := range wFacts {
						if f["nz:"+call.Name()+":"+kk] {
							g2[kk] = true
						}
					}
				}
				if loadOfWriterField(ev, "err") {
					g2["E"] = true
					g2["I"] = true
				}
				if !never {
					if sum.errRet == nil {
						sum.errRet = g2
					} else {
						for k := range sum.errRet {
							if !g2[k] {
								delete(sum.errRet, k)
							}
						}
					}
					a.retSeen[ret] = true
					// a non-sticky error propagated from a callee of this package is reported at its origin only
					propagated := call != nil && calleeOf(call) != nil && touchesWriter(calleeOf(call)) && a.callSum[call] != nil
					if !g2["E"] && !propagated {
						a.retBad[ret] = append(a.retBad[ret], ctx)
					}
				}
			}
		}
	}
	sum.busy = false
	return sum
}

var lastWA *wAnalysis

func runR12_1(c *Ctx, r *R) {
	a := &wAnalysis{c: c, memo: map[string]*wsum{}, callSum: map[ssa.CallInstruction]*wsum{}, retSeen: map[*ssa.Return]bool{}, retBad: map[*ssa.Return][]string{}, deref: map[ssa.Instruction][]string{}, seen: map[ssa.Instruction]bool{}, glob: map[*ssa.Global]bool{}, preds: map[ssa.Value][4]bool{}}
	sp := c.SPkg(writerPkg)
	if sp == nil {
		r.Unk(writerPkg, 0, "package not loaded")
		return
	}
	lastWA = a
	// package-level error variables that are never reassigned outside init
	funcs := c.SrcFuncs(writerPkg)
	for _, m := range sp.Members {
		g, ok := m.(*ssa.Global)
		if !ok || !types.Identical(deref(g.Type()), types.Universe.Lookup("error").Type()) {
			continue
		}
		re := false
		for _, f := range funcs {
			allInstrs(f, func(i ssa.Instruction) {
				if s, ok := i.(*ssa.Store); ok && s.Addr == g {
					re = true
				}
			})
		}
		if !re {
			a.glob[g] = true
		}
	}
	a.flagWriters = map[*ssa.Function]bool{}
	for _, f := range funcs {
		allInstrs(f, func(i ssa.Instruction) {
			if st, ok := i.(*ssa.Store); ok {
				if fa, ok := st.Addr.(*ssa.FieldAddr); ok && typeIs(fa.X.Type(), pkgPath(writerPkg), "writerState") {
					if n := fieldOf(fa).Name(); n == "releaseWriter" || n == "releaseState" {
						a.flagWriters[f] = true
					}
				}
			}
		})
	}
	for changed := true; changed; {
		changed = false
		for _, f := range funcs {
			if a.flagWriters[f] {
				continue
			}
			for _, call := range callsIn(f, false) {
				if cal := calleeOf(call); cal != nil && a.flagWriters[cal] {
					a.flagWriters[f] = true
					changed = true
				}
			}
		}
	}
	// entry points: the exported functions and methods of the package that carry a writer. Unexported ones can only
	// be called from inside the package and are analysed in the context of every call site. Each entry point is
	// analysed under the three exhaustive cases of the release flags of the current state.
	flagCases := []Facts{
		{"I": true, "RW1": true},
		{"I": true, "RW0": true, "RS1": true},
		{"I": true, "RW0": true, "RS0": true},
	}
	nEntry := 0
	for _, f := range funcs {
		if !touchesWriter(f) || f.Parent() != nil || !token.IsExported(f.Name()) {
			continue
		}
		nEntry++
		key := fnKey(f) + "/invariant-at-return"
		bad := ""
		for _, fc := range flagCases {
			s := a.analyse(f, fc, nil)
			if s.all != nil && !s.all["I"] {
				bad = factsKey(fc)
			}
		}
		if bad == "" {
			r.OK(key, f.Pos(), "state==nil => err!=nil holds at every return (3 flag cases)")
		} else {
			r.Bad(key, f.Pos(), "a return is reachable (flag case %s) where the embedded state may be nil while w.err may be nil: the next call passes the sticky-error check and dereferences a nil state", bad)
		}
	}
	r.Note("%d externally callable functions analysed with entry fact {I}; %d (function,context) summaries computed", nEntry, len(a.memo))
	// report dereference sites
	type site struct {
		ins ssa.Instruction
		key string
	}
	var sites []site
	cnt := map[string]int{}
	var order []ssa.Instruction
	for ins := range a.seen {
		order = append(order, ins)
	}
	sort.Slice(order, func(i, j int) bool { return order[i].Pos() < order[j].Pos() })
	for _, ins := range order {
		what := ""
		switch x := ins.(type) {
		case *ssa.FieldAddr:
			what = fieldOf(x).Name()
		case *ssa.Call:
			what = calleeOf(x).Name() + "()"
		}
		base := fnKey(ins.Parent()) + "/state." + what
		cnt[base]++
		sites = append(sites, site{ins, fmt.Sprintf("%s#%d", base, cnt[base])})
	}
	for _, s := range sites {
		if bad := a.deref[s.ins]; len(bad) > 0 {
			r.Bad(s.key, s.ins.Pos(), "embedded *writerState dereferenced where it may be nil (contexts: %s): not dominated by a w.err==nil / state!=nil check that survives the intervening calls", strings.Join(uniq(bad), "; "))
		} else {
			r.OK(s.key, s.ins.Pos(), "state proved non-nil in every calling context")
		}
	}
}

func reportSticky(c *Ctx, r *R, a *wAnalysis) {
	var rets []*ssa.Return
	for ret := range a.retSeen {
		rets = append(rets, ret)
	}
	sort.Slice(rets, func(i, j int) bool { return rets[i].Pos() < rets[j].Pos() })
	cnt := map[string]int{}
	for _, ret := range rets {
		base := fnKey(ret.Parent()) + "/return-error"
		cnt[base]++
		key := fmt.Sprintf("%s#%d", base, cnt[base])
		if bad := a.retBad[ret]; len(bad) > 0 {
			r.Bad(key, ret.Pos(), "an error can be returned here that has not been recorded in w.err (contexts: %s): the error is reported once but is not sticky, later calls and Build proceed as if nothing happened", strings.Join(uniq(bad), "; "))
		} else {
			r.OK(key, ret.Pos(), "a non-nil error returned here is recorded in w.err")
		}
	}
}

func uniq(s []string) []string {
	m := map[string]bool{}
	var out []string
	for _, x := range s {
		if !m[x] {
			m[x] = true
			out = append(out, x)
		}
	}
	sort.Strings(out)
	return out
}

func runR12_2(c *Ctx, r *R) {
	// every store into a field of type *writer of a struct other than writer itself
	for _, f := range c.SrcFuncs(writerPkg) {
		n := 0
		allInstrs(f, func(i ssa.Instruction) {
			s, ok := i.(*ssa.Store)
			if !ok {
				return
			}
			fa, ok := s.Addr.(*ssa.FieldAddr)
			if !ok || !isWriterPtr(fieldOf(fa).Type()) {
				return
			}
			n++
			key := fmt.Sprintf("%s/%s.%s=#%d", fnKey(f), namedOrStruct(fa.X.Type()), fieldOf(fa).Name(), n)
			if isNilConst(s.Val) {
				r.Bad(key, s.Pos(), "handle field of type *writer is set to nil; any later call on the (stale) handle dereferences a nil writer and panics instead of returning the sticky error")
			} else {
				r.OK(key, s.Pos(), "non-nil writer stored")
			}
		})
	}
	// composite literals storing handles are Field stores as well (covered above). Also count handle constructors.
	for _, name := range []string{"MessageWriter", "ListWriter", "ValueWriter", "FieldWriter"} {
		sp := c.SPkg(writerPkg)
		if sp == nil || sp.Members[name] == nil {
			r.Unk(writerPkg+"."+name, 0, "anchor lost: handle type %s not found", name)
			continue
		}
		r.OK(writerPkg+"."+name+"/type", sp.Members[name].Pos(), "handle type present")
	}
}

func namedOrStruct(t types.Type) string {
	if n := namedOf(t); n != nil {
		return n.Obj().Name()
	}
	return "struct"
}

func runR12_3(c *Ctx, r *R) {
	cnt := 0
	for _, f := range c.SrcFuncs(writerPkg) {
		n := 0
		allInstrs(f, func(i ssa.Instruction) {
			s, ok := i.(*ssa.Store)
			if !ok || writerFieldName(s.Addr) != "err" {
				return
			}
			n++
			cnt++
			key := fmt.Sprintf("%s/err=#%d", fnKey(f), n)
			if isNilConst(s.Val) {
				// the error may be cleared in two situations only: by the exported Reset (the API that returns a
				// writer to its clean state) and on the way into the pool (the clearing dominates the Put of the
				// same writer, directly or through the only callers of an unexported helper)
				switch {
				case f.Name() == "Reset" && f.Signature.Recv() != nil:
					r.OK(key, s.Pos(), "error cleared by the exported Reset")
				case clearsForPooling(c, f, s, 0):
					r.OK(key, s.Pos(), "error cleared on the way into the pool (dominates pools.Pool.Put of this writer)")
				default:
					r.Bad(key, s.Pos(), "w.err is cleared outside Reset and not on the way into the pool: the first error is no longer sticky")
				}
				return
			}
			// must be dominated by w.err == nil
			guarded := false
			for _, cd := range pathConds(s.Block()) {
				for _, rel := range relsOf(cd) {
					x, y := rel.X, rel.Y
					if isNilConst(x) {
						x, y = y, x
					}
					if isNilConst(y) && rel.Op == token.EQL && loadOfWriterField(x, "err") {
						guarded = true
					}
				}
			}
			if guarded {
				r.OK(key, s.Pos(), "error stored only where w.err == nil")
			} else {
				r.Bad(key, s.Pos(), "w.err is overwritten without a dominating w.err == nil check: a later error replaces the first one")
			}
		})
	}
	if cnt == 0 {
		r.Unk(writerPkg+".writer.err", 0, "anchor lost: no store to writer.err found")
	}
}

// clearsForPooling: instruction at of f (a method whose receiver is the object in question) dominates a
// pools.Pool.Put of that receiver in f, or f is an unexported helper all of whose call sites do.
func clearsForPooling(c *Ctx, f *ssa.Function, at ssa.Instruction, depth int) bool {
	if depth > 3 || len(f.Params) == 0 {
		return false
	}
	recv := ssa.Value(f.Params[0])
	for _, call := range callsIn(f, false) {
		if isPoolPut(call.Common()) && call.Common().Args[0] == recv && dominatesInstr(at, call.(ssa.Instruction)) {
			return true
		}
	}
	if ast.IsExported(f.Name()) {
		return false
	}
	n := 0
	for _, g := range c.SrcFuncs(relPkg(f.Pkg.Pkg.Path())) {
		ok := true
		withAnon(g, func(h *ssa.Function) {
			for _, call := range callsIn(h, false) {
				if call.Common().StaticCallee() != f {
					continue
				}
				n++
				if h.Parent() != nil || len(call.Common().Args) == 0 || len(h.Params) == 0 || call.Common().Args[0] != ssa.Value(h.Params[0]) || !clearsForPooling(c, h, call.(ssa.Instruction), depth+1) {
					ok = false
				}
			}
		})
		if !ok {
			return false
		}
	}
	return n > 0
}

// entry values: results of stack.pop/peek/peekSecondLast
func runR12_4(c *Ctx, r *R) {
	for _, f := range c.SrcFuncs(writerPkg) {
		n := 0
		for _, call := range callsIn(f, false) {
			cv, ok := call.(*ssa.Call)
			if !ok {
				continue
			}
			o := calleeObj(call)
			if o == nil || o.Pkg() == nil || o.Pkg().Path() != pkgPath(writerPkg) {
				continue
			}
			on := objName(o)
			if !returnsEntryAndOK(o) {
				continue
			}
			n++
			key := fmt.Sprintf("%s/%s#%d", fnKey(f), on, n)
			entry, okv := extractOf(cv, 0), extractOf(cv, 1)
			if entry == nil {
				r.OK(key, cv.Pos(), "entry unused")
				continue
			}
			if okv == nil {
				r.Bad(key, cv.Pos(), "entry is used but the ok result is discarded")
				continue
			}
			bad := ""
			reads, other := structFieldReads(entry)
			// peekType(entryList): ok == true already means type_ == entryList
			typedOK := false
			if _, ti, isTyped := typedAccessor(cv.Call.StaticCallee()); isTyped && ti < len(cv.Call.Args) {
				if _, isK := constInt(cv.Call.Args[ti]); isK {
					typedOK = true
				}
			}
			var typeReads []ssa.Value
			for _, rd := range reads {
				if rd.Name == "type_" {
					typeReads = append(typeReads, rd.Val)
				}
			}
			type use struct {
				at     ssa.Instruction
				isType bool
			}
			var uses []use
			for _, rd := range reads {
				uses = append(uses, use{rd.At, rd.Name == "type_"})
			}
			for _, o := range other {
				uses = append(uses, use{o, false})
			}
			for _, u := range uses {
				conds := pathConds(u.at.Block())
				hasOK, hasType := false, false
				for _, cd := range conds {
					if cd.V == okv && cd.Truth {
						hasOK = true
					}
					if un, ok := cd.V.(*ssa.UnOp); ok && un.Op == token.NOT && un.X == okv && !cd.Truth {
						hasOK = true
					}
					for _, rel := range relsOf(cd) {
						for _, tr := range typeReads {
							if (rel.X == tr || rel.Y == tr) && rel.Op == token.EQL {
								hasType = true
							}
						}
					}
				}
				// an accessor built on another accessor (pop in terms of peek) hands the whole entry on together with
				// its ok flag: no field is used here, the obligations are those of its callers
				if ret, isRet := u.at.(*ssa.Return); isRet && hasOK && len(ret.Results) == 2 && ret.Results[0] == ssa.Value(entry) && isBoolType(ret.Results[1].Type()) {
					continue
				}
				if !hasOK {
					bad = fmt.Sprintf("entry used at %s without ok==true on the path", c.pos(instrPos(u.at)))
				} else if !u.isType && !hasType && !typedOK {
					bad = fmt.Sprintf("entry field used at %s without a dominating type_ == K check", c.pos(instrPos(u.at)))
				}
			}
			if bad != "" {
				r.Bad(key, cv.Pos(), "%s", bad)
			} else {
				r.OK(key, cv.Pos(), "entry used only under ok and type_ checks")
			}
		}
	}
}

// expected entry-type comparisons per transition function.
var r12_5table = map[string][]string{
	"writer.endValue":     {"stack.pop:entryData"},
	"writer.beginElement": {"stack.peek:entryList"},
	"writer.element":      {"stack.peek:entryList"},
	"writer.listLen":      {"stack.peek:entryList"},
	"writer.endElement":   {"stack.pop:entryElement", "stack.peek:entryList"},
	"writer.endList":      {"stack.pop:entryList"},
	"writer.beginField":   {"stack.peek:entryMessage"},
	"writer.field":        {"stack.peek:entryMessage"},
	"writer.hasField":     {"stack.peek:entryMessage"},
	"writer.endField":     {"stack.pop:entryField", "stack.peek:entryMessage"},
	"writer.endMessage":   {"stack.pop:entryMessage"},
	"writer.popData":      {"stack.pop:entryData"},
	"writer.pushData":     {"stack.peek:entryData"},
}

func runR12_5(c *Ctx, r *R) {
	p := c.Pkg(writerPkg)
	if p == nil {
		return
	}
	constName := map[int64]string{}
	for _, n := range p.Types.Scope().Names() {
		if k, ok := p.Types.Scope().Lookup(n).(*types.Const); ok && strings.HasPrefix(n, "entry") {
			if v, ok := constIntVal(k); ok {
				constName[v] = n
			}
		}
	}
	for _, fname := range sortedKeys(r12_5table) {
		f := r.Need(writerPkg, fname)
		if f == nil {
			continue
		}
		// the comparisons of the transition, in call order; an unexported helper of the writer that is not itself a
		// transition of the table contributes its comparisons at the point of the call
		var collect func(f *ssa.Function, depth int) []string
		collect = func(f *ssa.Function, depth int) []string {
			var got []string
			for _, call := range callsIn(f, false) {
				cv, ok := call.(*ssa.Call)
				if !ok {
					continue
				}
				o := calleeObj(call)
				if o == nil {
					continue
				}
				on := objName(o)
				if base, ti, isTyped := typedAccessor(cv.Call.StaticCallee()); isTyped && ti < len(cv.Call.Args) {
					if k, isK := constInt(cv.Call.Args[ti]); isK && extractOf(cv, 1) != nil {
						got = append(got, base+":"+constName[k])
						continue
					}
				}
				if on != "stack.pop" && on != "stack.peek" && on != "stack.peekSecondLast" {
					if cal := cv.Call.StaticCallee(); cal != nil && cal.Blocks != nil && cal.Pkg == f.Pkg && depth < 2 && strings.HasPrefix(on, "writer.") && !token.IsExported(o.Name()) {
						if _, isTransition := r12_5table[on]; !isTransition {
							got = append(got, collect(cal, depth+1)...)
						}
					}
					continue
				}
				entry := extractOf(cv, 0)
				if entry == nil {
					continue
				}
				var ks []string
				reads, _ := structFieldReads(entry)
				for _, rd := range reads {
					if rd.Name != "type_" {
						continue
					}
					for _, uu := range users(rd.Val) {
						if b, ok := uu.(*ssa.BinOp); ok && (b.Op == token.EQL || b.Op == token.NEQ) {
							other := b.Y
							if other == rd.Val {
								other = b.X
							}
							if k, ok := constInt(other); ok {
								ks = append(ks, constName[k])
							}
						}
					}
				}
				sort.Strings(ks)
				got = append(got, on+":"+strings.Join(ks, ","))
			}
			return got
		}
		got := collect(f, 0)
		want := r12_5table[fname]
		key := writerPkg + "." + fname + "/entry-types"
		if strings.Join(got, " ") == strings.Join(want, " ") {
			r.OK(key, f.Pos(), "compares %v", got)
		} else {
			r.Bad(key, f.Pos(), "entry-type comparisons are %v, the nesting grammar requires %v", got, want)
		}
	}
}

func constIntVal(k *types.Const) (int64, bool) {
	return constInt(&ssa.Const{Value: k.Val()})
}

// returnsEntryAndOK: a function of the writer package with results (stackEntry, bool) - pop, peek, peekSecondLast and
// whatever accessor is built on them.
func returnsEntryAndOK(o types.Object) bool {
	fn, ok := o.(*types.Func)
	if !ok {
		return false
	}
	rs := fn.Type().(*types.Signature).Results()
	return rs.Len() == 2 && typeIs(rs.At(0).Type(), pkgPath(writerPkg), "stackEntry") && isBoolType(rs.At(1).Type())
}
