package main

import (
	"go/token"

	"golang.org/x/tools/go/ssa"
)

// isEntryStartSlice: the slice expression is a view buf.Bytes()[start:...] of the writer's buffer whose lower bound
// is the `start` field of a stack entry - directly, or as the parameter of an unexported helper that every call
// site hands such a field (endTable(list.start)). Invariant I2 (rules_c12b.go) then bounds it: an entry's start is
// buf.Len() at the time the object was opened and the buffer only grows while the object is open.
func isEntryStartSlice(sl *ssa.Slice) bool {
	if sl.Low == nil {
		return false
	}
	x := singleStoreValue(unspill(sl.X))
	call, ok := x.(*ssa.Call)
	if !ok || !call.Call.IsInvoke() || call.Call.Method.Name() != "Bytes" || !isBufferType(call.Call.Value.Type()) {
		return false
	}
	return isEntryStart(sl.Low, 0)
}

func isEntryStart(v ssa.Value, depth int) bool {
	if depth > 3 {
		return false
	}
	v = singleStoreValue(unspill(v))
	switch x := v.(type) {
	case *ssa.Field:
		return fieldOf(x).Name() == "start" && typeIs(x.X.Type(), pkgPath(writerPkg), "stackEntry")
	case *ssa.UnOp:
		if x.Op == token.MUL {
			if fa, ok := x.X.(*ssa.FieldAddr); ok {
				return fieldOf(fa).Name() == "start" && typeIs(deref(fa.X.Type()), pkgPath(writerPkg), "stackEntry")
			}
		}
	case *ssa.Parameter:
		fn := x.Parent()
		if fn == nil || fn.Parent() != nil || token.IsExported(fn.Name()) {
			return false
		}
		sites, escapes := sitesOf(fn)
		if escapes || len(sites) == 0 {
			return false
		}
		pi := paramIndex(fn, x)
		for _, s := range sites {
			if _, isCall := s.(*ssa.Call); !isCall || pi >= len(s.Common().Args) || !isEntryStart(s.Common().Args[pi], depth+1) {
				return false
			}
		}
		return true
	}
	return false
}
