package main

// Additions of the sixth round to the per-property explanations (initialised after zz_round5.go).
func init() {
	add := map[string]string{
		"C01": " (R13.3 converse) where the size probe accepts, the decoder does not reject on a guard over lengths alone; (R16.5) ordered insert into the pending field table; (R08.8) table readers decode the offset where the encoder writes it.",
		"C02": " (R02.2 depth) the recursive parser carries no depth limit: KNOWN FINDING D30 - a well-formed value nested ~4 million levels deep (44 MB) overflows the 1 GB goroutine stack, a fatal error; (R02.3) the negative 'index out of range' answers of the table offset readers lie behind a test of the index: a corrupt entry at a valid index cannot reach the accessors' index panic.",
		"C03": " (R07.10) one sender waits for window at a time; (R07.6) the open frame advertises the initial window; (R06.4) frames for unknown channels are dropped, not errors.",
		"C04": " (R04.10) the rpc client reads the transport only while recvEnd is false; (R07.2) the flow-control thresholds also decide whether a streaming call completes.",
		"C05": " (R14.23) qualified references use Type.ImportName; (R14.21) imports are marked used whatever the definition kind; (R13.3) probe and decoders agree, so generated accessors and the dynamic API read the same bytes.",
		"C06": " (R06.9) tryAcquire takes its reference by CompareAndSwap from a count observed positive.",
		"C07": " (R07.10) every call of a function that waits for send window holds the sender's mutex; (R07.9) the receive loop takes no mutex a blocked sender holds.",
		"C08": " (R08.8) offset position inside a table entry: encoder and readers agree; (R16.1) full-width tag comparison also counts here.",
		"C09": " (R07.9) the receive loop never waits for a sender's mutex.",
		"C10": " (R08.4) every byte of an encoded string, the terminator included, is written.",
		"C11": " (R02.2 depth) KNOWN FINDING D30: frame size and nesting depth are unbounded, a peer can kill the server process with one deeply nested frame; (R09.8) lock pairing on the send path: an unlock of an unlocked mutex is a fatal error no recover stops; (R09.3) one frame per read, empty frames included.",
		"C12": " (R12.11) Reset empties the object stack, the element table and the field table.",
		"C13": " (R13.3 converse); (R08.8).",
		"C14": " (R14.21) import marking; (R14.22) a cached package is handed to an importer only when it is not being compiled; (R14.23) qualifiers.",
		"C16": " (R16.5) the pending field table stays sorted for hasField's binary search.",
		"C17": " (R17.5) the constructors of pooled writer objects are pool factories only; (R13.3 converse) valid values do not take an error path.",
		"C18": " (R12.11).",
		"C19": " (R19.10) the connection count compared with the maximum is read under client.mu.",
		"C20": " (R20.7) close listeners run without a lock held; (R07.9) a peer close is handled without waiting for a blocked sender.",
	}
	for k, v := range add {
		if p := props[k]; p != nil {
			p.Explanation += " Round 6:" + v
		}
	}
}
