package main

import (
	"fmt"
	"go/constant"
	"go/token"
	"go/types"
	"math/big"
	"sort"
	"strings"

	"golang.org/x/tools/go/ssa"
)

// ---------------------------------------------------------------------------------------------------
// Bounds engine: modular verification of panic-freedom and size postconditions with linear integer
// arithmetic. Per function: assume the declared/conventional precondition and type invariants of the
// parameters; prove every panic-capable instruction safe, every callee precondition, and the function's
// postcondition at every return; at call sites assume the callee's postcondition. Facts are linear
// inequalities over SSA values, lengths/capacities of slice values and field paths of struct values.
// Branch conditions come from the dominator tree; non-loop phis are eliminated by case splitting over the
// incoming edges (substituting all phis of the block simultaneously, which keeps error/size pairs
// correlated); loop phis get Houdini invariants. Entailment is Fourier-Motzkin with integer tightening.
// ---------------------------------------------------------------------------------------------------

type vkey struct {
	root ssa.Value
	path string // field path ".table.data"
	kind byte   // 'v' value, 'l' len, 'c' cap
}

type BE struct {
	c     *Ctx
	ids   map[vkey]int
	keys  []vkey
	memo  map[ssa.Value]*Lin  // expand memo
	inv   map[*ssa.Phi][]Ineq // loop invariants
	invOK map[*ssa.BasicBlock]bool
	// statistics
	nFM int
	// fresh values standing for non-linear results
	dbg bool
	// stablePtrFields: fields read through a pointer parameter are not mutated during the call (used by R14.3 for
	// the immutable syntax tree); off for the C02 proof
	stablePtrFields bool
	// inferred preconditions of private helpers (bounds2.go inferPre)
	inferred map[*ssa.Function][]inferredPre
	// inferred size postconditions of private helpers (bounds4.go inferPost)
	inferredPost map[*ssa.Function]*Contract
	exitMemo     map[*ssa.Return]map[string]bool
}

func newBE(c *Ctx) *BE {
	return &BE{c: c, ids: map[vkey]int{}, memo: map[ssa.Value]*Lin{}, inv: map[*ssa.Phi][]Ineq{}, invOK: map[*ssa.BasicBlock]bool{}}
}

func (e *BE) id(k vkey) int {
	if i, ok := e.ids[k]; ok {
		return i
	}
	i := len(e.keys)
	e.ids[k] = i
	e.keys = append(e.keys, k)
	return i
}

func (e *BE) name(i int) string {
	k := e.keys[i]
	n := "?"
	if k.root != nil {
		n = k.root.Name()
		if p, ok := k.root.(*ssa.Parameter); ok {
			n = p.Name()
		}
	}
	n += k.path
	switch k.kind {
	case 'l':
		return "len(" + n + ")"
	case 'c':
		return "cap(" + n + ")"
	}
	return n
}

func (e *BE) show(q Ineq) string { return q.L.String(e.name) + " >= 0" }

var (
	bigOne = big.NewInt(1)
	maxLen = new(big.Int).Lsh(bigOne, 62)
)

func typeRange(t types.Type) (lo, hi *big.Int, ok bool) {
	b, isB := t.Underlying().(*types.Basic)
	if !isB {
		return nil, nil, false
	}
	p := func(n uint) *big.Int { return new(big.Int).Lsh(bigOne, n) }
	m1 := func(x *big.Int) *big.Int { return new(big.Int).Sub(x, bigOne) }
	switch b.Kind() {
	case types.Uint8:
		return big.NewInt(0), m1(p(8)), true
	case types.Uint16:
		return big.NewInt(0), m1(p(16)), true
	case types.Uint32:
		return big.NewInt(0), m1(p(32)), true
	case types.Uint64, types.Uint, types.Uintptr:
		return big.NewInt(0), m1(p(64)), true
	case types.Int8:
		return new(big.Int).Neg(p(7)), m1(p(7)), true
	case types.Int16:
		return new(big.Int).Neg(p(15)), m1(p(15)), true
	case types.Int32:
		return new(big.Int).Neg(p(31)), m1(p(31)), true
	case types.Int64, types.Int, types.UntypedInt:
		return new(big.Int).Neg(p(63)), m1(p(63)), true
	}
	return nil, nil, false
}

func isInt64Like(t types.Type) bool {
	b, ok := t.Underlying().(*types.Basic)
	return ok && (b.Kind() == types.Int || b.Kind() == types.Int64 || b.Kind() == types.UntypedInt)
}

func isIntegerType(t types.Type) bool {
	b, ok := t.Underlying().(*types.Basic)
	return ok && b.Info()&types.IsInteger != 0
}

// ---- crude interval of a value from types and constants only (used to decide wrap-around) ----

func (e *BE) interval(v ssa.Value, depth int) (lo, hi *big.Int) {
	if c := e.capturedLoad(v); c != nil {
		return e.interval(c, depth)
	}
	tlo, thi, ok := typeRange(v.Type())
	if !ok {
		return nil, nil
	}
	if depth > 8 {
		return tlo, thi
	}
	clamp := func(a, b *big.Int) (*big.Int, *big.Int) {
		if a == nil || b == nil {
			return tlo, thi
		}
		if a.Cmp(tlo) < 0 || b.Cmp(thi) > 0 {
			return tlo, thi // may wrap
		}
		return a, b
	}
	switch x := v.(type) {
	case *ssa.Const:
		if x.Value != nil && x.Value.Kind() == constant.Int {
			if b, ok := new(big.Int).SetString(x.Value.ExactString(), 10); ok {
				return b, b
			}
		}
	case *ssa.Convert:
		a, b := e.interval(x.X, depth+1)
		return clamp(a, b)
	case *ssa.Call:
		if bi, ok := x.Call.Value.(*ssa.Builtin); ok && (bi.Name() == "len" || bi.Name() == "cap") {
			return big.NewInt(0), maxLen
		}
	case *ssa.Phi:
		var a, b *big.Int
		for _, ed := range x.Edges {
			if ed == v {
				continue
			}
			l, h := e.interval(ed, depth+3)
			if l == nil {
				return tlo, thi
			}
			if a == nil || l.Cmp(a) < 0 {
				a = l
			}
			if b == nil || h.Cmp(b) > 0 {
				b = h
			}
		}
		return clamp(a, b)
	case *ssa.BinOp:
		a1, b1 := e.interval(x.X, depth+1)
		a2, b2 := e.interval(x.Y, depth+1)
		if a1 == nil || a2 == nil {
			return tlo, thi
		}
		switch x.Op {
		case token.ADD:
			return clamp(new(big.Int).Add(a1, a2), new(big.Int).Add(b1, b2))
		case token.SUB:
			return clamp(new(big.Int).Sub(a1, b2), new(big.Int).Sub(b1, a2))
		case token.MUL:
			if a1.Sign() >= 0 && a2.Sign() >= 0 {
				return clamp(new(big.Int).Mul(a1, a2), new(big.Int).Mul(b1, b2))
			}
		case token.QUO:
			if a1.Sign() >= 0 && a2.Sign() > 0 {
				return clamp(big.NewInt(0), new(big.Int).Set(b1))
			}
		case token.REM:
			if a1.Sign() >= 0 && a2.Sign() > 0 {
				return clamp(big.NewInt(0), new(big.Int).Sub(b2, bigOne))
			}
		case token.SHR:
			if a1.Sign() >= 0 {
				return clamp(big.NewInt(0), new(big.Int).Set(b1))
			}
		case token.AND:
			if a1.Sign() >= 0 && a2.Sign() >= 0 {
				m := b1
				if b2.Cmp(m) < 0 {
					m = b2
				}
				return clamp(big.NewInt(0), new(big.Int).Set(m))
			}
		}
	}
	return tlo, thi
}

// fresh returns a variable standing for v itself (non-linear / opaque value).
func (e *BE) fresh(v ssa.Value) Lin { return linVar(e.id(vkey{v, "", 'v'})) }

// expand translates an integer-typed SSA value into a linear expression over base variables.
func (e *BE) expand(v ssa.Value) Lin {
	if c := e.capturedLoad(v); c != nil {
		return e.expand(c)
	}
	if m, ok := e.memo[v]; ok {
		if m == nil { // cycle
			return e.fresh(v)
		}
		return m.clone()
	}
	e.memo[v] = nil
	r := e.expand1(v)
	e.memo[v] = &r
	return r.clone()
}

func (e *BE) expand1(v ssa.Value) Lin {
	switch x := v.(type) {
	case *ssa.Const:
		if x.Value != nil && x.Value.Kind() == constant.Int {
			if b, ok := new(big.Int).SetString(x.Value.ExactString(), 10); ok {
				return linBig(b)
			}
		}
		if x.Value != nil && x.Value.Kind() == constant.Bool {
			if constant.BoolVal(x.Value) {
				return linConst(1)
			}
			return linConst(0)
		}
		return e.fresh(v)
	case *ssa.BinOp:
		if !isIntegerType(x.Type()) {
			return e.fresh(v)
		}
		// does the operation stay inside the type's range (no wrap-around)? int/int64 arithmetic on sizes is
		// assumed not to overflow (trusted base); narrower and unsigned types are decided by interval analysis.
		exact := func() bool {
			if isInt64Like(x.Type()) {
				return true
			}
			lo, hi := e.interval(x, 0)
			tlo, thi, _ := typeRange(x.Type())
			a1, b1 := e.interval(x.X, 1)
			a2, b2 := e.interval(x.Y, 1)
			if a1 == nil || a2 == nil || lo == nil {
				return false
			}
			var rl, rh *big.Int
			switch x.Op {
			case token.ADD:
				rl, rh = new(big.Int).Add(a1, a2), new(big.Int).Add(b1, b2)
			case token.SUB:
				rl, rh = new(big.Int).Sub(a1, b2), new(big.Int).Sub(b1, a2)
			case token.MUL:
				if a1.Sign() < 0 || a2.Sign() < 0 {
					return false
				}
				rl, rh = new(big.Int).Mul(a1, a2), new(big.Int).Mul(b1, b2)
			default:
				return true
			}
			_ = hi
			return rl.Cmp(tlo) >= 0 && rh.Cmp(thi) <= 0
		}
		switch x.Op {
		case token.ADD:
			if exact() {
				return e.expand(x.X).add(e.expand(x.Y))
			}
		case token.SUB:
			if exact() {
				return e.expand(x.X).sub(e.expand(x.Y))
			}
		case token.MUL:
			a, b := e.expand(x.X), e.expand(x.Y)
			if exact() {
				if a.isConst() {
					return b.scale(a.K)
				}
				if b.isConst() {
					return a.scale(b.K)
				}
			}
		}
		return e.fresh(v) // QUO, REM, shifts, bit operations: opaque variable with definitional facts (defFacts)
	case *ssa.Convert:
		if !isIntegerType(x.Type()) || !isIntegerType(x.X.Type()) {
			return e.fresh(v)
		}
		lo, hi := e.interval(x.X, 0)
		tlo, thi, ok := typeRange(x.Type())
		if ok && lo != nil && lo.Cmp(tlo) >= 0 && hi.Cmp(thi) <= 0 {
			return e.expand(x.X)
		}
		return e.fresh(v) // may wrap: opaque, with a conditional definitional fact (see defFacts)
	case *ssa.ChangeType:
		if isIntegerType(x.Type()) {
			return e.expand(x.X)
		}
	case *ssa.Call:
		if bi, ok := x.Call.Value.(*ssa.Builtin); ok && len(x.Call.Args) >= 1 {
			switch bi.Name() {
			case "len":
				return e.lenOf(x.Call.Args[0], 'l')
			case "cap":
				return e.lenOf(x.Call.Args[0], 'c')
			case "min", "max":
			}
		}
	case *ssa.Extract, *ssa.Parameter, *ssa.Phi, *ssa.UnOp, *ssa.Field, *ssa.Lookup, *ssa.Index:
		if x2, ok := v.(*ssa.UnOp); ok && x2.Op == token.SUB && isIntegerType(x2.Type()) {
			return e.expand(x2.X).neg()
		}
		// field of a struct value: resolve the access path
		if root, path, ok := e.accessPath(v); ok && path != "" {
			return linVar(e.id(vkey{root, path, 'v'}))
		}
	}
	return e.fresh(v)
}

// offOf returns the offset of the first byte of bytes-like value v inside the buffer it was sliced from, together
// with that buffer (the base): a parameter, or nil when the value does not derive from a parameter by slicing.
// For the result of a module call the offset is  off(arg0) + o  where o is a variable constrained by the callee's
// locality postcondition.
func (e *BE) offOf(v ssa.Value) (Lin, ssa.Value) {
	if c := e.capturedLoad(v); c != nil {
		return e.offOf(c)
	}
	switch x := v.(type) {
	case *ssa.Parameter:
		return linConst(0), x
	case *ssa.Slice:
		off, base := e.offOf(x.X)
		if x.Low != nil {
			off = off.add(e.expand(x.Low))
		}
		return off, base
	case *ssa.ChangeType:
		return e.offOf(x.X)
	case *ssa.Convert:
		if bytesLike(x.X.Type()) && bytesLike(x.Type()) {
			// string(b) / []byte(s) copy: the result is not a view of the input
			return linVar(e.id(vkey{v, "", 'o'})), nil
		}
	case *ssa.UnOp:
		if x.Op == token.MUL && stringHeaderCast(x) {
			al := x.X.(*ssa.Convert).X.(*ssa.Convert).X.(*ssa.Alloc)
			if val, rest, ok := e.storedValue(al, nil, x); ok && len(rest) == 0 {
				return e.offOf(val)
			}
		}
	case *ssa.Extract:
		if call, ok := x.Tuple.(*ssa.Call); ok && len(call.Call.Args) > 0 && bytesLike(call.Call.Args[0].Type()) && e.c.calleeOf(&call.Call) != nil {
			a, base := e.offOf(call.Call.Args[0])
			return a.add(linVar(e.id(vkey{v, "", 'o'}))), base
		}
	case *ssa.Call:
		if len(x.Call.Args) > 0 && bytesLike(x.Call.Args[0].Type()) && e.c.calleeOf(&x.Call) != nil {
			a, base := e.offOf(x.Call.Args[0])
			return a.add(linVar(e.id(vkey{v, "", 'o'}))), base
		}
	}
	return linVar(e.id(vkey{v, "", 'o'})), nil
}

// lenOf returns len(v) (kind 'l') or cap(v) (kind 'c') for slice, string, array and *array values.
func (e *BE) lenOf(v ssa.Value, kind byte) Lin {
	if c := e.capturedLoad(v); c != nil {
		return e.lenOf(c, kind)
	}
	t := v.Type().Underlying()
	if p, ok := t.(*types.Pointer); ok {
		if a, ok := p.Elem().Underlying().(*types.Array); ok {
			return linConst(a.Len())
		}
	}
	if a, ok := t.(*types.Array); ok {
		return linConst(a.Len())
	}
	switch x := v.(type) {
	case *ssa.Const:
		if x.Value == nil {
			return linConst(0) // nil slice
		}
		if x.Value.Kind() == constant.String {
			return linConst(int64(len(constant.StringVal(x.Value))))
		}
	case *ssa.Slice:
		lo := linConst(0)
		if x.Low != nil {
			lo = e.expand(x.Low)
		}
		if kind == 'c' {
			if x.Max != nil {
				return e.expand(x.Max).sub(lo)
			}
			if _, isStr := x.X.Type().Underlying().(*types.Basic); isStr {
				kind = 'l'
			}
			return e.lenOf(x.X, 'c').sub(lo)
		}
		if x.High != nil {
			return e.expand(x.High).sub(lo)
		}
		return e.lenOf(x.X, 'l').sub(lo)
	case *ssa.MakeSlice:
		if kind == 'c' {
			return e.expand(x.Cap)
		}
		return e.expand(x.Len)
	case *ssa.ChangeType:
		return e.lenOf(x.X, kind)
	case *ssa.Convert:
		// string <-> []byte conversions keep the length
		return e.lenOf(x.X, 'l')
	case *ssa.Call:
		if bi, ok := x.Call.Value.(*ssa.Builtin); ok && bi.Name() == "append" {
			break
		}
	case *ssa.UnOp:
		// s := *(*string)(unsafe.Pointer(&p)): the string views the bytes of the local slice variable p
		if x.Op == token.MUL && stringHeaderCast(x) {
			al := x.X.(*ssa.Convert).X.(*ssa.Convert).X.(*ssa.Alloc)
			if val, rest, ok := e.storedValue(al, nil, x); ok && len(rest) == 0 {
				return e.lenOf(val, 'l')
			}
		}
	}
	if root, path, ok := e.accessPath(v); ok {
		return linVar(e.id(vkey{root, path, kind}))
	}
	return linVar(e.id(vkey{v, "", kind}))
}

// accessPath resolves v to (root value, field path). Roots are parameters, call results, phis, loads from
// non-local memory. Handles Field, and FieldAddr+load through a local Alloc that holds a copy of a struct value
// or is being built field by field (composite literal).
func (e *BE) accessPath(v ssa.Value) (ssa.Value, string, bool) {
	switch x := v.(type) {
	case *ssa.Field:
		r, p, ok := e.accessPath(x.X)
		if !ok {
			return nil, "", false
		}
		return r, p + "." + fieldOf(x).Name(), true
	case *ssa.UnOp:
		if x.Op != token.MUL {
			return v, "", true
		}
		// load through a field address chain rooted at a local Alloc
		var names []string
		addr := x.X
		for {
			fa, ok := addr.(*ssa.FieldAddr)
			if !ok {
				break
			}
			names = append([]string{fieldOf(fa).Name()}, names...)
			addr = fa.X
		}
		al, ok := addr.(*ssa.Alloc)
		if !ok {
			// field of an object reached through a pointer: only when the caller declared such fields stable
			// (not mutated while the function runs) are two loads of the same path the same variable
			if e.stablePtrFields && len(names) > 0 {
				if _, isParam := addr.(*ssa.Parameter); isParam && !e.storedBefore(addr, names, x) {
					return addr, "." + strings.Join(names, "."), true
				}
			}
			return v, "", true
		}
		// find the value stored into the alloc (whole) or into the addressed field that reaches this load
		val, rest, ok := e.storedValue(al, names, x)
		if !ok {
			return v, "", true
		}
		r, p, ok2 := e.accessPath(val)
		if !ok2 {
			return v, "", true
		}
		for _, n := range rest {
			p += "." + n
		}
		return r, p, true
	case *ssa.ChangeType:
		return e.accessPath(x.X)
	}
	return v, "", true
}

// storedValue finds, for a load of alloc.<names...>, the unique dominating store that defines it: a store to
// the longest prefix of the field chain. Returns the stored value and the remaining field names.
func (e *BE) storedValue(al *ssa.Alloc, names []string, load ssa.Instruction) (ssa.Value, []string, bool) {
	type cand struct {
		st   *ssa.Store
		plen int
	}
	var cands []cand
	var all []*ssa.Store
	var walk func(addr ssa.Value, prefix []string)
	walk = func(addr ssa.Value, prefix []string) {
		for _, u := range users(addr) {
			switch y := u.(type) {
			case *ssa.Store:
				if y.Addr == addr {
					all = append(all, y)
					// prefix must be a prefix of names
					if len(prefix) <= len(names) {
						ok := true
						for i := range prefix {
							if prefix[i] != names[i] {
								ok = false
							}
						}
						if ok {
							cands = append(cands, cand{y, len(prefix)})
						}
					}
				}
			case *ssa.FieldAddr:
				if y.X == addr {
					walk(y, append(append([]string{}, prefix...), fieldOf(y).Name()))
				}
			}
		}
	}
	walk(al, nil)
	// escaping allocs (address passed to calls) are not tracked
	for _, u := range users(al) {
		switch u.(type) {
		case *ssa.Store, *ssa.FieldAddr, *ssa.UnOp, *ssa.DebugRef:
		case *ssa.Convert:
			// unsafe.Pointer(&p) used only for the read-only string header view
		default:
			return nil, nil, false
		}
	}
	var best *cand
	for i := range cands {
		cd := &cands[i]
		if !dominatesInstr(cd.st, load) {
			continue
		}
		// no other store to an overlapping location between cd.st and load
		clobbered := false
		for _, o := range all {
			if o != cd.st && dominatesInstr(cd.st, o) && reachesInstr(o, load) {
				// overlapping? conservative: any store to the alloc after cd.st that can reach the load clobbers,
				// unless it stores to a different sibling field
				if !disjointStore(o, cd.st, names) {
					clobbered = true
				}
			}
		}
		if clobbered {
			continue
		}
		if best == nil || cd.plen > best.plen {
			best = cd
		}
	}
	if best == nil {
		// never stored: zero value
		return nil, nil, false
	}
	return best.st.Val, names[best.plen:], true
}

func fieldChain(addr ssa.Value) []string {
	var names []string
	for {
		fa, ok := addr.(*ssa.FieldAddr)
		if !ok {
			return names
		}
		names = append([]string{fieldOf(fa).Name()}, names...)
		addr = fa.X
	}
}

// disjointStore: store o writes a location that does not overlap the load path `names`.
func disjointStore(o, base *ssa.Store, names []string) bool {
	oc := fieldChain(o.Addr)
	n := len(oc)
	if len(names) < n {
		n = len(names)
	}
	for i := 0; i < n; i++ {
		if oc[i] != names[i] {
			return true
		}
	}
	return false
}

func reachesInstr(a, b ssa.Instruction) bool {
	if a.Block() == b.Block() && instrIndex(a) < instrIndex(b) {
		return true
	}
	return reachableFrom(a.Block())[b.Block()]
}

// ---- facts ----

// Atom is a non-linear path fact: value is (not) nil / bool value is true/false.
type Atom struct {
	V     ssa.Value
	IsNil bool // for pointer/interface values: V == nil (IsNil) or V != nil
	Bool  bool // atom about a boolean value
	Truth bool
}

type factSet struct {
	ineqs []Ineq
	atoms []Atom
	neqs  []Lin // expressions known to be != 0
}

// condFacts translates the branch conditions dominating block b.
func (e *BE) condFacts(b *ssa.BasicBlock, fs *factSet) {
	for _, cd := range pathConds(b) {
		e.addCond(cd, fs)
	}
}

func (e *BE) addCond(cd Cond, fs *factSet) {
	switch v := cd.V.(type) {
	case *ssa.UnOp:
		if v.Op == token.NOT {
			e.addCond(Cond{v.X, !cd.Truth}, fs)
			return
		}
	case *ssa.BinOp:
		op := v.Op
		if !cd.Truth {
			op = negOp(op)
		}
		if isNilConst(v.X) || isNilConst(v.Y) {
			x := v.X
			if isNilConst(x) {
				x = v.Y
			}
			if op == token.EQL || op == token.NEQ {
				fs.atoms = append(fs.atoms, Atom{V: x, IsNil: op == token.EQL})
			}
			return
		}
		if !isIntegerType(v.X.Type()) {
			// boolean comparisons (x == true) are rare; ignore
			fs.atoms = append(fs.atoms, Atom{V: cd.V, Bool: true, Truth: cd.Truth})
			return
		}
		a, b := e.expand(v.X), e.expand(v.Y)
		switch op {
		case token.LSS:
			fs.ineqs = append(fs.ineqs, lss(a, b))
		case token.LEQ:
			fs.ineqs = append(fs.ineqs, leq(a, b))
		case token.GTR:
			fs.ineqs = append(fs.ineqs, gtr(a, b))
		case token.GEQ:
			fs.ineqs = append(fs.ineqs, geq(a, b))
		case token.EQL:
			fs.ineqs = append(fs.ineqs, leq(a, b), geq(a, b))
		case token.NEQ:
			fs.neqs = append(fs.neqs, a.sub(b)) // not convex: case split in the solver
		}
		return
	}
	fs.atoms = append(fs.atoms, Atom{V: cd.V, Bool: true, Truth: cd.Truth})
}

// ---- contracts ----

type cenv struct {
	e       *BE
	params  []ssa.Value
	results []ssa.Value
}

type CExpr func(*cenv) Lin
type CIneq func(*cenv) Ineq

func cP(i int) CExpr    { return func(v *cenv) Lin { return v.e.expand(v.params[i]) } }
func cR(i int) CExpr    { return func(v *cenv) Lin { return v.e.expand(v.results[i]) } }
func cLenP(i int) CExpr { return func(v *cenv) Lin { return v.e.lenOf(v.params[i], 'l') } }
func cLenR(i int) CExpr { return func(v *cenv) Lin { return v.e.lenOf(v.results[i], 'l') } }
func cK(k int64) CExpr  { return func(v *cenv) Lin { return linConst(k) } }
func cFieldR(i int, path string, kind byte) CExpr {
	return func(v *cenv) Lin { return v.e.fieldLin(v.results[i], path, kind) }
}
func cFieldP(i int, path string, kind byte) CExpr {
	return func(v *cenv) Lin { return v.e.fieldLin(v.params[i], path, kind) }
}
func cAdd(a, b CExpr) CExpr { return func(v *cenv) Lin { return a(v).add(b(v)) } }
func cLE(a, b CExpr) CIneq  { return func(v *cenv) Ineq { return leq(a(v), b(v)) } }
func cGE(a, b CExpr) CIneq  { return func(v *cenv) Ineq { return geq(a(v), b(v)) } }

// fieldLin: the linear variable for field path `path` (".a.b") of struct value v; kind 'v' or 'l'.
func (e *BE) fieldLin(v ssa.Value, path string, kind byte) Lin {
	root, p, _ := e.accessPath(v)
	// struct literal built in a local alloc and loaded whole: resolve through the alloc
	if ld, ok := root.(*ssa.UnOp); ok && ld.Op == token.MUL && p == "" {
		if al, ok := ld.X.(*ssa.Alloc); ok {
			names := strings.Split(strings.TrimPrefix(path, "."), ".")
			if val, rest, ok := e.storedValue(al, names, ld); ok {
				sub := ""
				for _, n := range rest {
					sub += "." + n
				}
				if sub == "" {
					if kind == 'v' {
						return e.expand(val)
					}
					return e.lenOf(val, kind)
				}
				return e.fieldLin(val, sub, kind)
			}
			// field never stored: zero value
			if e.neverStored(al, names) {
				return linConst(0)
			}
		}
	}
	if c, ok := root.(*ssa.Const); ok && c.Value == nil {
		return linConst(0) // zero struct
	}
	return linVar(e.id(vkey{root, p + path, kind}))
}

func (e *BE) neverStored(al *ssa.Alloc, names []string) bool {
	stored := false
	var walk func(addr ssa.Value, prefix []string)
	walk = func(addr ssa.Value, prefix []string) {
		for _, u := range users(addr) {
			switch y := u.(type) {
			case *ssa.Store:
				if y.Addr == addr {
					n := len(prefix)
					if len(names) < n {
						n = len(names)
					}
					same := true
					for i := 0; i < n; i++ {
						if prefix[i] != names[i] {
							same = false
						}
					}
					if same {
						stored = true
					}
				}
			case *ssa.FieldAddr:
				if y.X == addr {
					walk(y, append(append([]string{}, prefix...), fieldOf(y).Name()))
				}
			case *ssa.UnOp, *ssa.DebugRef:
			default:
				stored = true // escapes
			}
		}
	}
	walk(al, nil)
	return !stored
}

type Contract struct {
	Pre    []CIneq
	Post   []CIneq // at every return
	PostOK []CIneq // at returns whose error result is nil
	// Axiom: the body is not verified (dependency or builtin semantics), only used
	Axiom bool
	Note  string
	// Locality (on ok returns): bytes-like result Res is a view into the last N bytes of bytes-like parameter Param:
	// base(Res) == Param,  off(Res) >= len(Param) - result[N],  off(Res) + len(Res) <= len(Param).
	// Exact additionally requires the view to be exactly those N bytes (off == len - N, len == N).
	Locality []Locality
}

type Locality struct {
	Res, N, Param int
	Exact         bool
}

func bytesLike(t types.Type) bool {
	switch u := t.Underlying().(type) {
	case *types.Slice:
		b, ok := u.Elem().Underlying().(*types.Basic)
		return ok && b.Kind() == types.Uint8
	case *types.Basic:
		return u.Kind() == types.String
	}
	return false
}

// ---- type invariants ----

// invPaths lists the field paths (relative to a value of type t) at which a types.List/types.Message value
// sits: "" for the type itself, ".list" for spec.MessageList[T], and so on (module struct types only).
func invPaths(t types.Type, depth int) []string {
	if _, isPtr := t.Underlying().(*types.Pointer); isPtr || depth > 3 {
		return nil
	}
	if typeIs(t, pkgPath("internal/types"), "List") || typeIs(t, pkgPath("internal/types"), "Message") {
		return []string{""}
	}
	n := namedOf(t)
	if n == nil || n.Obj().Pkg() == nil || !strings.HasPrefix(n.Obj().Pkg().Path(), Mod) {
		return nil
	}
	st, ok := t.Underlying().(*types.Struct)
	if !ok {
		return nil
	}
	var out []string
	for i := 0; i < st.NumFields(); i++ {
		for _, p := range invPaths(st.Field(i).Type(), depth+1) {
			out = append(out, "."+st.Field(i).Name()+p)
		}
	}
	return out
}

// structInv returns the invariant facts of a struct value v of an invariant-carrying type:
// int(table.data) <= len(bytes) for every types.List / types.Message it contains.
func (e *BE) structInv(v ssa.Value) []Ineq {
	var out []Ineq
	for _, p := range invPaths(v.Type(), 0) {
		data := e.fieldLin(v, p+".table.data", 'v')
		ln := e.fieldLin(v, p+".bytes", 'l')
		out = append(out, leq(data, ln))
	}
	return out
}

func hasInv(t types.Type) bool { return len(invPaths(t, 0)) > 0 }

var _ = fmt.Sprint
var _ = sort.Ints
