package main

import (
	"fmt"
	"go/token"
	"go/types"
	"strings"

	"golang.org/x/tools/go/ssa"
)

func init() {
	props["C07"] = &propInfo{Level: "other", Explanation: "Decides the arithmetic shape and the wake-up protocol of flow control, not the schedules: (R07.1) every path of Send/SendAndClose to a frame-sending call debits the send window first - sendData only behind an OK decrementSendWindow, sendOpen/sendClose/sendOpenClose only behind sendWindow.Add(-len(data)) of the same payload; (R07.2) decrementSendWindow returns OK only after sendWindow.Add(-size) with size == len(data) exactly, admitted by window >= size or window >= initWindow/k_s (+c_s for a strict comparison); (R07.3) ReceiveAsync acknowledges exactly when the consumed counter reaches initWindow/k_r (+c_r), subtracts that same value from the counter and sends that same value as the window delta; (R07.4) threshold lemma: a sender blocks only with outstanding >= W - T_s + 1 and a receiver that consumed everything acknowledges at T_r, so no deadlock for any W needs W - T_s + 1 >= T_r; the checker extracts (k_s,c_s,k_r,c_r) from the code and evaluates the inequality for every W in [1, 2^20], and requires T_s <= floor(W/2) for the stated bound max(W, W - floor(W/2) + size); (R07.5) no lost wake-up: receiveWindow adds the delta before the non-blocking notify, the waiter re-reads the window after waking, the wake channel has capacity >= 1. Not decided: the numeric bound under concurrency, liveness of the receiver, real interleavings.",
		Trusted: []string{"atomic.Int32 Add/Load semantics", "the threshold lemma (stated in DESIGN.md) and its evaluation over W in [1,2^20]"}}

	register(&Rule{ID: "R07.1", Props: []string{"C07"}, Floor: 4,
		Doc: "debit before enqueue on every send path",
		Run: runR07_1})
	// also C03: a flow-control deadlock stalls the sequence - "the whole sequence whenever the receiver keeps reading"
	register(&Rule{ID: "R07.2", Props: []string{"C07", "C03", "C04"}, Floor: 3,
		Doc: "admission shape of decrementSendWindow and acknowledgement shape of ReceiveAsync; threshold lemma",
		Run: runR07_2})
	register(&Rule{ID: "R07.5", Props: []string{"C07"}, Floor: 3,
		Doc: "no lost wake-up: add before notify, re-load after wake, wake channel capacity >= 1",
		Run: runR07_5})
}

func fieldMethodCalls(fn *ssa.Function, field, method string) []*ssa.Call {
	var out []*ssa.Call
	for _, call := range callsIn(fn, false) {
		if c, ok := call.(*ssa.Call); ok && isFieldCall2(call, field, method) {
			out = append(out, c)
		}
	}
	return out
}

// senderCall: call s.sender.<name>(...)
func senderCalls(fn *ssa.Function) map[string][]*ssa.Call {
	out := map[string][]*ssa.Call{}
	for _, call := range callsIn(fn, false) {
		c, ok := call.(*ssa.Call)
		if !ok {
			continue
		}
		o := calleeObj(call)
		if o == nil {
			continue
		}
		if recv := o.Type().(*types.Signature).Recv(); recv != nil && typeIs(recv.Type(), pkgPath("mpx"), "channelSender") {
			out[o.Name()] = append(out[o.Name()], c)
		}
	}
	return out
}

func runR07_1(c *Ctx, r *R) {
	for _, fname := range []string{"channel.Send", "channel.SendAndClose"} {
		r.Need("mpx", fname)
	}
	// every method of channel that sends a payload frame (Send, SendAndClose, or a helper they share)
	for _, f := range c.SrcFuncs("mpx") {
		if f.Parent() != nil || !typeIsRecv(f, "channel") || len(senderCalls(f)) == 0 {
			continue
		}
		var data ssa.Value
		for _, p := range f.Params {
			if bytesLike(p.Type()) {
				data = p
			}
		}
		if data == nil {
			continue // sends control frames only (window updates, close without payload)
		}
		sc := senderCalls(f)
		adds := fieldMethodCalls(f, "sendWindow", "Add")
		for _, name := range sortedKeys(sc) {
			for i, call := range sc[name] {
				key := fmt.Sprintf("%s/%s#%d", fnKey(f), name, i+1)
				switch name {
				case "sendData":
					ok := false
					for _, cd := range pathConds(call.Block()) {
						cv, truth := cd.V, cd.Truth
						if un, isNot := cv.(*ssa.UnOp); isNot && un.Op == token.NOT {
							cv, truth = un.X, !truth
						}
						if v, isOK := okCallOn(cv); isOK && truth {
							if dc, isCall := v.(*ssa.Call); isCall {
								if o := calleeObj(dc); o != nil && o.Name() == "decrementSendWindow" {
									ok = true
								}
							}
						}
					}
					if ok {
						r.OK(key, call.Pos(), "data frame sent only after decrementSendWindow returned OK")
					} else {
						r.Bad(key, call.Pos(), "a data frame can be sent without an admitted window debit: the sender can exceed the negotiated window")
					}
				case "sendOpen", "sendClose", "sendOpenClose":
					// payload of the frame is `data`; a dominating Add(-len(data)) is required
					ok := false
					for _, a := range adds {
						if dominatesInstr(a, call) && len(a.Call.Args) == 2 {
							if _, isNeg := negLenOf(a.Call.Args[1], data); isNeg {
								ok = true
							}
						}
					}
					if ok {
						r.OK(key, call.Pos(), "payload debited from the send window (Add(-len(data))) before the frame is sent")
					} else {
						r.Bad(key, call.Pos(), "the payload of an open/close frame is not debited from the send window before sending: the receiver's acknowledgements over-credit the sender")
					}
				default:
					r.OK(key, call.Pos(), "control frame")
				}
			}
		}
	}
}

// negLenOf: v is  -T(len(data))  for integer conversions T (possibly through a local n := len(data)); returns the
// size operand (the value that is negated).
func negLenOf(v ssa.Value, data ssa.Value) (ssa.Value, bool) {
	un, ok := v.(*ssa.UnOp)
	if !ok || un.Op != token.SUB {
		return nil, false
	}
	x := un.X
	for {
		if cv, ok := x.(*ssa.Convert); ok {
			x = cv.X
			continue
		}
		break
	}
	if isLenOf(x, data) {
		return un.X, true
	}
	return nil, false
}

type threshold struct {
	kind string // "size" or "frac"
	k    int64  // divisor of initWindow
	c    int64  // +1 for strict comparison
	desc string
}

// thresholdOf normalises  x >= Y / x > Y  (rel with X == x) into a threshold on x.
func thresholdOf(e *BE, rel Rel, x ssa.Value, sizeVal ssa.Value) (threshold, bool) {
	a, b, op := rel.X, rel.Y, rel.Op
	if b == x {
		a, b, op = b, a, swapOp(op)
	}
	if a != x {
		return threshold{}, false
	}
	var c int64
	switch op {
	case token.GEQ:
	case token.GTR:
		c = 1
	default:
		return threshold{}, false
	}
	if sizeVal != nil && e.expand(b).equal(e.expand(sizeVal)) {
		return threshold{kind: "size", c: c, desc: "size"}, true
	}
	if bo, ok := b.(*ssa.BinOp); ok {
		src := valueSource(bo.X)
		if k, isK := constInt(bo.Y); isK && len(src) > 0 && (bo.Op == token.QUO || bo.Op == token.SHR) {
			if bo.Op == token.SHR {
				k = 1 << uint(k)
			}
			return threshold{kind: "frac", k: k, c: c, desc: fmt.Sprintf("%s/%d%+d", src[1:], k, c)}, true
		}
	}
	if src := valueSource(b); src != "" {
		return threshold{kind: "frac", k: 1, c: c, desc: src[1:]}, true
	}
	return threshold{}, false
}

func runR07_2(c *Ctx, r *R) {
	e := newBE(c)
	sa := newStatusAn(c)
	var ts, tr *threshold
	if f := r.Need("mpx", "channelState.decrementSendWindow"); f != nil {
		var data ssa.Value
		for _, p := range f.Params {
			if bytesLike(p.Type()) {
				data = p
			}
		}
		loads := fieldMethodCalls(f, "sendWindow", "Load")
		adds := fieldMethodCalls(f, "sendWindow", "Add")
		n, nSize, nFrac := 0, 0, 0
		// The admission decision may sit in decrementSendWindow itself or in a helper method of the same state that it
		// calls ("try to debit; report whether admitted"): A is the function that loads and debits the window,
		// admits(ret) says which of its returns admit the message, negSize recognises -size.
		A := f
		admits := func(ret *ssa.Return) bool {
			return len(ret.Results) == 1 && sa.classOf(ret.Results[0], ret.Block(), false, 0) == SOK
		}
		negSize := func(v ssa.Value) (ssa.Value, bool) { return negLenOf(v, data) }
		// ... or in a helper that decrementSendWindow tail-calls with the size (awaitSendWindow(ctx, size)): the
		// helper's OK returns admit, its size parameter receives len(data)
		if len(loads) == 0 && data != nil {
			for _, call := range callsIn(f, false) {
				cv, ok := call.(*ssa.Call)
				h := call.Common().StaticCallee()
				if !ok || h == nil || h.Blocks == nil || h.Pkg != f.Pkg || len(cv.Call.Args) == 0 || cv.Call.Args[0] != ssa.Value(f.Params[0]) || isBoolType(cv.Type()) {
					continue
				}
				if len(fieldMethodCalls(h, "sendWindow", "Load")) == 0 || len(fieldMethodCalls(h, "sendWindow", "Add")) == 0 {
					continue
				}
				sizeParam := -1
				for i, a := range cv.Call.Args {
					x := a
					for {
						if cv2, ok := x.(*ssa.Convert); ok {
							x = cv2.X
							continue
						}
						break
					}
					if isLenOf(x, data) {
						sizeParam = i
					}
				}
				// every possibly-OK return of decrementSendWindow forwards the helper's status
				forwards := sizeParam >= 0
				for _, ret := range returnsOf(f) {
					if len(ret.Results) != 1 || sa.classOf(ret.Results[0], ret.Block(), false, 0) == SNonOK {
						continue
					}
					if tailCallOf(ret) != cv {
						forwards = false
					}
				}
				if !forwards {
					continue
				}
				A = h
				loads = fieldMethodCalls(h, "sendWindow", "Load")
				adds = fieldMethodCalls(h, "sendWindow", "Add")
				sp := sizeParam
				negSize = func(v ssa.Value) (ssa.Value, bool) {
					un, ok := v.(*ssa.UnOp)
					if !ok || un.Op != token.SUB {
						return nil, false
					}
					x := un.X
					for {
						if cv2, ok := x.(*ssa.Convert); ok {
							x = cv2.X
							continue
						}
						break
					}
					if x == ssa.Value(h.Params[sp]) {
						return un.X, true
					}
					return nil, false
				}
				r.OK(fnKey(f)+"/admit-gate", f.Pos(), "every possibly-OK return forwards the status of %s(…, len(data))", h.Name())
				break
			}
		}
		if len(loads) == 0 && data != nil {
			var hcall *ssa.Call
			nh := 0
			for _, call := range callsIn(f, false) {
				cv, ok := call.(*ssa.Call)
				h := call.Common().StaticCallee()
				if !ok || h == nil || h.Blocks == nil || h.Pkg != f.Pkg || len(cv.Call.Args) == 0 || cv.Call.Args[0] != ssa.Value(f.Params[0]) {
					continue
				}
				if len(fieldMethodCalls(h, "sendWindow", "Load")) > 0 && len(fieldMethodCalls(h, "sendWindow", "Add")) > 0 {
					hcall = cv
					nh++
				}
			}
			if nh == 1 && isBoolType(hcall.Type()) {
				h := hcall.Call.StaticCallee()
				// every OK return of decrementSendWindow lies behind `helper(...) == true` on every path
				gated := true
				for _, ret := range returnsOf(f) {
					if !admits(ret) {
						continue
					}
					for _, alt := range backPaths(ret.Block(), nil, 32) {
						through := false
						for _, cd := range alt {
							if cd.V == ssa.Value(hcall) && cd.Truth {
								through = true
							}
							if un, ok := cd.V.(*ssa.UnOp); ok && un.Op == token.NOT && un.X == ssa.Value(hcall) && !cd.Truth {
								through = true
							}
						}
						if !through {
							gated = false
						}
					}
				}
				if !gated {
					r.Bad(fnKey(f)+"/admit-gate", f.Pos(), "decrementSendWindow returns OK on a path that does not pass %s(...) == true: a message is admitted without consulting the send window", h.Name())
				} else {
					r.OK(fnKey(f)+"/admit-gate", f.Pos(), "every OK return lies behind %s(...) == true", h.Name())
				}
				// the size handed to the helper is len(data)
				sizeParam := -1
				for i, a := range hcall.Call.Args {
					x := a
					for {
						if cv, ok := x.(*ssa.Convert); ok {
							x = cv.X
							continue
						}
						break
					}
					if isLenOf(x, data) {
						sizeParam = i
					}
				}
				A = h
				loads = fieldMethodCalls(h, "sendWindow", "Load")
				adds = fieldMethodCalls(h, "sendWindow", "Add")
				admits = func(ret *ssa.Return) bool {
					if len(ret.Results) != 1 {
						return false
					}
					k, ok := ret.Results[0].(*ssa.Const)
					return ok && k.Value != nil && k.Value.String() == "true"
				}
				negSize = func(v ssa.Value) (ssa.Value, bool) {
					un, ok := v.(*ssa.UnOp)
					if !ok || un.Op != token.SUB || sizeParam < 0 {
						return nil, false
					}
					x := un.X
					for {
						if cv, ok := x.(*ssa.Convert); ok {
							x = cv.X
							continue
						}
						break
					}
					if x == ssa.Value(h.Params[sizeParam]) {
						return un.X, true
					}
					return nil, false
				}
			}
		}
		for _, ret := range returnsOf(A) {
			if !admits(ret) {
				continue // only returns of the OK constant (of `true` in a try-helper) admit the message
			}
			n++
			key := fmt.Sprintf("%s/admit#%d", fnKey(f), n)
			// debit
			debit := false
			var sizeVal ssa.Value
			for _, a := range adds {
				if dominatesInstr(a, ret) && a.Block() == ret.Block() && len(a.Call.Args) == 2 && data != nil {
					if sv, isNeg := negSize(a.Call.Args[1]); isNeg {
						debit = true
						sizeVal = sv
					}
				}
			}
			if !debit {
				r.Bad(key, ret.Pos(), "decrementSendWindow admits a message without debiting exactly len(data) from the send window on that path: the sender's view of the window drifts from what the receiver acknowledges")
				continue
			}
			// admission condition: on every way from the window load to this return, the innermost comparison on the
			// loaded window (two returns, or one return behind `fits || half-window`, are the same thing)
			var ldBlock *ssa.BasicBlock
			for _, ld := range loads {
				if ld.Block().Dominates(ret.Block()) {
					ldBlock = ld.Block()
				}
			}
			var problems, descs []string
			for _, alt := range backPaths(ret.Block(), ldBlock, 16) {
				var th *threshold
				for _, cd := range alt {
					for _, rel := range relsOf(cd) {
						for _, ld := range loads {
							if t, ok := thresholdOf(e, rel, ld, sizeVal); ok && th == nil {
								tt := t
								th = &tt
							}
						}
					}
				}
				switch {
				case th == nil:
					problems = append(problems, "admission is not conditioned on the current send window on some path")
				case th.kind == "size" && th.c == 0:
					nSize++
					descs = append(descs, "window >= size")
				case th.kind == "size":
					problems = append(problems, "admits only when window > size: a message that exactly fits the window is never admitted")
				default:
					nFrac++
					ts = th
					descs = append(descs, "window >= "+th.desc)
				}
			}
			if len(problems) > 0 {
				r.Bad(key, ret.Pos(), "%s", strings.Join(problems, "; "))
				continue
			}
			r.OK(key, ret.Pos(), "admits when %s, debits size", strings.Join(descs, " or when "))
		}
		if n == 0 || nSize == 0 || nFrac == 0 {
			r.Unk(fnKey(f)+"/admit", f.Pos(), "expected both admission alternatives (message fits / half of the window is free), found fits=%d half-window=%d in %d admitting returns", nSize, nFrac, n)
		}
	}
	if f := r.Need("mpx", "channel.ReceiveAsync"); f != nil {
		key := fnKey(f) + "/ack"
		f = ackHost(f)
		adds := fieldMethodCalls(f, "recvBytes", "Add")
		sends := senderCalls(f)["sendWindow"]
		if len(adds) < 2 || len(sends) != 1 {
			r.Unk(key, f.Pos(), "unexpected shape: %d recvBytes.Add, %d sendWindow calls", len(adds), len(sends))
		} else {
			send := sends[0]
			delta := send.Call.Args[len(send.Call.Args)-1]
			// delta must be the value returned by recvBytes.Add(size), and -delta must be subtracted before sending
			isAddResult := false
			for _, a := range adds {
				if ssa.Value(a) == delta {
					isAddResult = true
				}
			}
			subtracted := false
			for _, a := range adds {
				if dominatesInstr(a, send) && len(a.Call.Args) == 2 && e.expand(a.Call.Args[1]).equal(e.expand(delta).neg()) {
					subtracted = true
				}
			}
			// threshold: send happens on the false edge of recv < T  (i.e. recv >= T)
			for _, cd := range pathConds(send.Block()) {
				for _, rel := range relsOf(cd) {
					if t, ok := thresholdOf(e, rel, delta, nil); ok && tr == nil {
						tt := t
						tr = &tt
					}
				}
			}
			switch {
			case !isAddResult:
				r.Bad(key, send.Pos(), "the window delta sent is not the consumed-bytes counter value")
			case !subtracted:
				r.Bad(key, send.Pos(), "the acknowledged amount is not subtracted from the consumed-bytes counter before it is sent: bytes are acknowledged twice or never")
			case tr == nil:
				r.Bad(key, send.Pos(), "acknowledgement is not conditioned on a threshold of the consumed-bytes counter")
			default:
				r.OK(key, send.Pos(), "acknowledges recv when recv >= %s, subtracting the same value", tr.desc)
			}
		}
	}
	// R07.4 threshold lemma
	key := "mpx/flow-control/threshold-lemma"
	if ts == nil || tr == nil {
		r.Bad(key, 0, "thresholds could not be extracted (sender %v, receiver %v)", ts != nil, tr != nil)
		return
	}
	if ts.k < 1 || tr.k < 1 {
		r.Unk(key, 0, "threshold of unrecognised form")
		return
	}
	badW, badBound := int64(0), int64(0)
	for W := int64(1); W <= 1<<20; W++ {
		Ts := W/ts.k + ts.c
		Tr := W/tr.k + tr.c
		if W-Ts+1 < Tr && badW == 0 {
			badW = W
		}
		if Ts > W/2+0 && ts.c == 0 && ts.k < 2 && badBound == 0 {
			badBound = W
		}
		// stated bound uses floor(W/2): admission below it would allow outstanding > W - floor(W/2) + size
		if Ts < W/2 && badBound == 0 {
			badBound = W
		}
	}
	switch {
	case badW != 0:
		r.Bad(key, 0, "deadlock possible: sender blocks while window < %s, receiver acknowledges only at recv >= %s; for W=%d a sender with outstanding W-T_s+1 bytes waits while the receiver that consumed everything stays silent", ts.desc, tr.desc, badW)
	case badBound != 0:
		r.Bad(key, 0, "admission threshold %s is below half the window (W=%d): outstanding data can exceed W - floor(W/2) + size", ts.desc, badBound)
	default:
		r.OK(key, 0, "T_s=%s, T_r=%s: W - T_s + 1 >= T_r and T_s >= floor(W/2) for every W in [1, 2^20]", ts.desc, tr.desc)
	}
}

func runR07_5(c *Ctx, r *R) {
	// receiveWindow: Add before the non-blocking send on sendWindowWait
	if f := r.Need("mpx", "channelState.receiveWindow"); f != nil {
		key := fnKey(f) + "/add-before-notify"
		adds := fieldMethodCalls(f, "sendWindow", "Add")
		var sel *ssa.Select
		allInstrs(f, func(i ssa.Instruction) {
			if s, ok := i.(*ssa.Select); ok {
				sel = s
			}
		})
		switch {
		case len(adds) == 0:
			r.Bad(key, f.Pos(), "a window update does not credit the send window")
		case sel == nil || sel.Blocking:
			r.Bad(key, f.Pos(), "the waiter is not notified by a non-blocking send (a blocking notify would stall the receive loop; no notify would strand the waiter)")
		case !dominatesInstr(adds[0], sel):
			r.Bad(key, sel.Pos(), "the waiter is notified before the window is credited: it can re-read the old window and sleep again (lost wake-up)")
		default:
			r.OK(key, sel.Pos(), "window credited, then non-blocking notify")
		}
	}
	// waiter re-loads the window inside the loop after waking: the Load is in the loop containing the select
	if f := r.Need("mpx", "channelState.decrementSendWindow"); f != nil {
		key := fnKey(f) + "/reload-after-wake"
		// the loop may live in a helper that decrementSendWindow hands over to (awaitSendWindow)
		ownSelect := false
		allInstrs(f, func(i ssa.Instruction) {
			if s2, ok := i.(*ssa.Select); ok && s2.Blocking {
				ownSelect = true
			}
		})
		if len(fieldMethodCalls(f, "sendWindow", "Load")) == 0 && !ownSelect {
			for _, call := range callsIn(f, false) {
				if h := call.Common().StaticCallee(); h != nil && h.Blocks != nil && h.Pkg == f.Pkg && len(fieldMethodCalls(h, "sendWindow", "Load")) > 0 && len(fieldMethodCalls(h, "sendWindow", "Add")) > 0 {
					f = h
					break
				}
			}
		}
		loads := fieldMethodCalls(f, "sendWindow", "Load")
		if len(loads) == 0 {
			// the window is read by a helper called from the loop: the call is the read point
			for _, call := range callsIn(f, false) {
				cv, ok := call.(*ssa.Call)
				h := call.Common().StaticCallee()
				if ok && h != nil && h.Blocks != nil && h.Pkg == f.Pkg && len(fieldMethodCalls(h, "sendWindow", "Load")) > 0 {
					loads = append(loads, cv)
				}
			}
		}
		var sel *ssa.Select
		allInstrs(f, func(i ssa.Instruction) {
			if s, ok := i.(*ssa.Select); ok && s.Blocking {
				sel = s
			}
		})
		// the wait point: the select itself, or the call of a helper of the package that blocks in one
		// (st, ok := s.awaitSendWindow(ctx))
		var wait ssa.Instruction
		if sel != nil {
			wait = sel
		} else {
			for _, call := range callsIn(f, false) {
				h := call.Common().StaticCallee()
				if h == nil || h.Blocks == nil || h.Pkg != f.Pkg {
					continue
				}
				allInstrs(h, func(i ssa.Instruction) {
					if s2, ok := i.(*ssa.Select); ok && s2.Blocking && sel == nil {
						sel = s2
						wait = call.(ssa.Instruction)
					}
				})
			}
		}
		if sel == nil || len(loads) == 0 {
			r.Unk(key, f.Pos(), "anchor lost: no blocking select / window load")
		} else if reachesInstr(wait, loads[0]) && reachesInstr(loads[0], wait) {
			// the select must have a case on the wake channel and on both contexts (C09 checks the contexts)
			hasWake := false
			for _, st := range sel.States {
				if src := valueSource(st.Chan); src == ".sendWindowWait" {
					hasWake = true
				}
			}
			if hasWake {
				r.OK(key, sel.Pos(), "the blocked sender waits on the wake channel and re-reads the window on every wake-up")
			} else {
				r.Bad(key, sel.Pos(), "the blocked sender does not wait on the window wake channel")
			}
		} else {
			r.Bad(key, sel.Pos(), "the window is not re-read after a wake-up")
		}
	}
	// wake channel capacity
	n := 0
	for _, fn := range c.SrcFuncs("mpx") {
		allInstrs(fn, func(i ssa.Instruction) {
			mc, ok := i.(*ssa.MakeChan)
			if !ok {
				return
			}
			// stored into channelState.sendWindowWait ?
			for _, u := range users(mc) {
				if st, ok := u.(*ssa.Store); ok {
					if fa, ok := st.Addr.(*ssa.FieldAddr); ok && fieldOf(fa).Name() == "sendWindowWait" {
						n++
						key := fmt.Sprintf("%s/sendWindowWait-capacity#%d", fnKey(fn), n)
						if k, ok := constInt(mc.Size); ok && k >= 1 {
							r.OK(key, mc.Pos(), "capacity %d: a notify issued while nobody waits is kept for the next waiter", k)
						} else {
							r.Bad(key, mc.Pos(), "unbuffered wake channel: a window update that arrives between the window check and the wait is lost and the sender sleeps forever")
						}
					}
				}
			}
		})
	}
	if n == 0 {
		r.Unk("mpx.channelState.sendWindowWait/make", 0, "anchor lost: wake channel creation not found")
	}
}
