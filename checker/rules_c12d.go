package main

import (
	"go/token"

	"golang.org/x/tools/go/ssa"
)

// typedAccessor: h is an accessor of the nesting stack built on pop/peek/peekSecondLast that takes the expected
// entry type as a parameter and reports ok == true only when the entry it read has that type:
//
//	func (s *stack) peekType(t entryType) (stackEntry, bool) { e, ok := s.peek(); if !ok || e.type_ != t { return stackEntry{}, false }; return e, true }
//
// Returns the base accessor ("stack.peek") and the index of the type parameter. A call peekType(entryList) whose ok
// result is true is a peek() followed by the comparison type_ == entryList.
func typedAccessor(h *ssa.Function) (base string, typeParam int, ok bool) {
	if h == nil || h.Blocks == nil || h.Object() == nil || !returnsEntryAndOK(h.Object()) {
		return "", 0, false
	}
	typeParam = -1
	for i, p := range h.Params {
		if typeIs(p.Type(), pkgPath(writerPkg), "entryType") {
			typeParam = i
		}
	}
	if typeParam < 0 {
		return "", 0, false
	}
	var bc *ssa.Call
	for _, call := range callsIn(h, false) {
		cv, isCall := call.(*ssa.Call)
		o := calleeObj(call)
		if !isCall || o == nil {
			continue
		}
		switch objName(o) {
		case "stack.pop", "stack.peek", "stack.peekSecondLast":
			if bc != nil {
				return "", 0, false
			}
			bc = cv
			base = objName(o)
		}
	}
	if bc == nil {
		return "", 0, false
	}
	entry, okv := extractOf(bc, 0), extractOf(bc, 1)
	if entry == nil || okv == nil {
		return "", 0, false
	}
	var typeReads []ssa.Value
	reads, _ := structFieldReads(entry)
	for _, rd := range reads {
		if rd.Name == "type_" {
			typeReads = append(typeReads, rd.Val)
		}
	}
	n := 0
	for _, ret := range returnsOf(h) {
		if len(ret.Results) != 2 {
			return "", 0, false
		}
		if k, isK := unspill(ret.Results[1]).(*ssa.Const); isK && k.Value != nil && k.Value.String() == "false" {
			continue
		}
		n++
		if rv := unspill(ret.Results[0]); rv != ssa.Value(entry) && singleStoreValue(rv) != ssa.Value(entry) {
			return "", 0, false
		}
		hasOK, hasType := false, false
		for _, cd := range pathConds(ret.Block()) {
			v, truth := cd.V, cd.Truth
			if un, isNot := v.(*ssa.UnOp); isNot && un.Op == token.NOT {
				v, truth = un.X, !truth
			}
			if v == ssa.Value(okv) && truth {
				hasOK = true
			}
			for _, rel := range relsOf(cd) {
				if rel.Op != token.EQL {
					continue
				}
				for _, tr := range typeReads {
					if (rel.X == tr && rel.Y == ssa.Value(h.Params[typeParam])) || (rel.Y == tr && rel.X == ssa.Value(h.Params[typeParam])) {
						hasType = true
					}
				}
			}
		}
		if !hasOK || !hasType {
			return "", 0, false
		}
	}
	return base, typeParam, n > 0
}
