package main

import (
	"fmt"
	"go/token"
	"strings"

	"golang.org/x/tools/go/ssa"
)

func init() {
	props["C19"] = &propInfo{Level: "other", Explanation: "Decides the structural part of 'the client's connection state is consistent, bounded and Close is terminal': (R18.2) lockset of mpx.client (connecting, connectAttempt, conns.Store and every flag update happen under client.mu on every path from every entry point, constructor included once it has started the dial routine); (R19.1) flag pairing: wherever connected_ is set disconnected_ is unset in the same critical section and vice versa; (R19.2) Close is terminal: a connection is added to the set only behind a closed_.IsSet()==false test that was itself evaluated under the mutex in the same critical section, Close sets closed_ before it clears the set, and the locked slow path of conn() re-checks closed_ before dialling; (R19.3) the set grows on channels-target only behind num < max; (R19.4) connect() starts a dial routine only when none is pending. (R19.5) the back-off function reconnectTimeout, a pure branch-free integer function, is evaluated by constant propagation with exact Go integer semantics for every attempt number (2..63 and the uniform class >= 64): within [25 ms, 1 s] and never decreasing. Not decided: reconnection after faults, quiescent invariants under real schedules.",
		Trusted: []string{"async.MutFlag Set/Unset/IsSet semantics", "guarded-by table in rules_c18.go"}}

	register(&Rule{ID: "R19.1", Props: []string{"C19"}, Floor: 4,
		Doc: "flag pairing: connected_.Set <=> disconnected_.Unset and connected_.Unset <=> disconnected_.Set in the same basic block of a critical section",
		Run: runR19_1})
	register(&Rule{ID: "R19.2", Props: []string{"C19"}, Floor: 3,
		Doc: "Close is terminal: conns.Store(add(..)) only behind a locked closed_.IsSet()==false test; Close sets closed_ first; the slow path re-checks closed_ under the lock",
		Run: runR19_2})
	register(&Rule{ID: "R19.3", Props: []string{"C19"}, Floor: 2,
		Doc: "bounded growth: onConnChannelsReached dials only behind num < ClientMaxConns; connect() starts a routine only when none is pending",
		Run: runR19_3})
}

func flagCalls(fn *ssa.Function, field, method string) []ssa.CallInstruction {
	var out []ssa.CallInstruction
	for _, call := range callsIn(fn, false) {
		if isFieldCall(call, field, method) {
			out = append(out, call)
		}
	}
	return out
}

func runR19_1(c *Ctx, r *R) {
	pairs := [][4]string{
		{"connected_", "Set", "disconnected_", "Unset"},
		{"connected_", "Unset", "disconnected_", "Set"},
		{"disconnected_", "Set", "connected_", "Unset"},
		{"disconnected_", "Unset", "connected_", "Set"},
	}
	n := 0
	for _, fn := range c.SrcFuncs("mpx") {
		if recv := fn.Signature.Recv(); recv == nil || !typeIs(recv.Type(), pkgPath("mpx"), "client") {
			continue
		}
		for _, p := range pairs {
			for i, call := range flagCalls(fn, p[0], p[1]) {
				n++
				key := fmt.Sprintf("%s/%s.%s#%d", fnKey(fn), p[0], p[1], i+1)
				ok := false
				for _, other := range flagCalls(fn, p[2], p[3]) {
					if other.Block() == call.Block() {
						ok = true
					}
				}
				if ok {
					r.OK(key, call.Pos(), "paired with %s.%s in the same critical section", p[2], p[3])
				} else {
					r.Bad(key, call.Pos(), "%s.%s without %s.%s in the same critical section: Connected and Disconnected can both be set (or both unset) when the client is quiescent", p[0], p[1], p[2], p[3])
				}
			}
		}
	}
	if n == 0 {
		r.Unk("mpx.client/flags", 0, "anchor lost: no flag updates found")
	}
}

func runR19_2(c *Ctx, r *R) {
	spec := lockSpecs[1]
	la := &lockAn{c: c, spec: spec, held: map[*ssa.Function]*FlowResult{}, requires: map[*ssa.Function]bool{}, why: map[*ssa.Function][]lockSite{}}
	// (a) every conns.Store(x) with x = <...>.add(conn)
	nAdd := 0
	for _, fn := range c.SrcFuncs("mpx") {
		for _, call := range callsIn(fn, false) {
			if !isFieldCall2(call, "conns", "Store") || len(call.Common().Args) == 0 {
				continue
			}
			arg := call.Common().Args[len(call.Common().Args)-1]
			ac, ok := arg.(*ssa.Call)
			if !ok {
				continue
			}
			if o := calleeObj(ac); o == nil || o.Name() != "add" {
				continue
			}
			nAdd++
			key := fmt.Sprintf("%s/conns.Store(add)#%d", fnKey(fn), nAdd)
			good := false
			for _, cd := range pathConds(call.Block()) {
				cv, truth := cd.V, cd.Truth
				if un, ok := cv.(*ssa.UnOp); ok && un.Op == token.NOT {
					cv, truth = un.X, !truth
				}
				ic, ok := cv.(*ssa.Call)
				if !ok || !isFieldCall(ic, "closed_", "IsSet") || truth {
					continue
				}
				// the test itself must be evaluated under the lock, and the lock must not be released in between
				if la.protectedAt(fn, ic) && la.protectedAt(fn, call.(ssa.Instruction)) && !unlockBetween(la, fn, ic, call.(ssa.Instruction)) {
					good = true
				}
			}
			if good {
				r.OK(key, call.Pos(), "connection added only after closed_.IsSet()==false, tested under client.mu in the same critical section")
			} else {
				r.Bad(key, call.Pos(), "a connection is added to the client's set without a closed_ test under client.mu in the same critical section: Close() running in between leaves an open connection on a closed client")
			}
		}
	}
	if nAdd == 0 {
		r.Unk("mpx.client/conns.Store(add)", 0, "anchor lost: no site adds a connection")
	}
	// (b) Close sets closed_ before clearing the set
	if f := r.Need("mpx", "client.Close"); f != nil {
		sets := flagCalls(f, "closed_", "Set")
		var stores []ssa.CallInstruction
		for _, call := range callsIn(f, false) {
			if isFieldCall2(call, "conns", "Store") {
				stores = append(stores, call)
			}
			// a helper of the client called here (closeConns): the call is where its stores happen; a helper that
			// sets the flag on every one of its paths counts as the Set
			if h := call.Common().StaticCallee(); h != nil && h.Blocks != nil && h.Pkg == f.Pkg && h != f && typeIsRecv(h, "client") {
				for _, c2 := range callsIn(h, true) {
					if isFieldCall2(c2, "conns", "Store") {
						stores = append(stores, call)
						break
					}
				}
				if mustCallsAtExit(h)["closed_.Set"] {
					sets = append(sets, call)
				}
			}
		}
		ok := len(sets) > 0 && len(stores) > 0
		for _, st := range stores {
			dom := false
			for _, s := range sets {
				if dominatesInstr(s.(ssa.Instruction), st.(ssa.Instruction)) {
					dom = true
				}
			}
			if !dom {
				ok = false
			}
		}
		if ok {
			r.OK(fnKey(f)+"/closed-before-clear", f.Pos(), "closed_ is set before the connection set is replaced")
		} else {
			r.Bad(fnKey(f)+"/closed-before-clear", f.Pos(), "Close clears the connections without first setting closed_ (under the same lock): a concurrent dial result can be added after the clear")
		}
	}
	// (c) slow path of conn(): connect() only after a locked closed_ re-check
	if f := r.Need("mpx", "client.conn"); f != nil {
		n := 0
		for _, call := range callsIn(f, false) {
			if o := calleeObj(call); o == nil || objName(o) != "client.connect" {
				continue
			}
			n++
			key := fmt.Sprintf("%s/connect#%d", fnKey(f), n)
			good := false
			for _, cd := range pathConds(call.Block()) {
				if ic, ok := cd.V.(*ssa.Call); ok && isFieldCall(ic, "closed_", "IsSet") && !cd.Truth && la.protectedAt(f, ic) {
					good = true
				}
				// the re-check made by a helper called under the lock (lookup := func() (conn, done, st)): the
				// result tested here has this value only on exits of the helper behind closed_.IsSet()==false
				if hc, idx := resultOfCall(cd.V); hc != nil && la.protectedAt(f, hc) {
					if h := hc.Call.StaticCallee(); h != nil && h.Blocks != nil && helperExcludes(h, idx, cd.Truth, func(hcd Cond) bool {
						ic, ok := hcd.V.(*ssa.Call)
						return ok && isFieldCall(ic, "closed_", "IsSet") && !hcd.Truth
					}) {
						good = true
					}
				}
			}
			if good {
				r.OK(key, call.Pos(), "dial started only after closed_ was re-checked under client.mu")
			} else {
				r.Bad(key, call.Pos(), "a pending/later call can start a dial on a closed client: closed_ is not re-checked under client.mu before connect()")
			}
		}
		if n == 0 {
			r.Unk(fnKey(f)+"/connect", f.Pos(), "anchor lost: conn() does not call connect()")
		}
		// (d) the connection set is looked at again under the lock before the client declares itself
		// disconnected and dials: a caller that found nothing on the lock-free fast path may have been overtaken by
		// the connect routine (which registers the connection under client.mu)
		k := 0
		for _, call := range callsIn(f, false) {
			o := calleeObj(call)
			isDial := o != nil && objName(o) == "client.connect"
			isUnset := isFieldCall(call, "connected_", "Unset")
			if !isDial && !isUnset {
				continue
			}
			k++
			key := fmt.Sprintf("%s/recheck-conns#%d", fnKey(f), k)
			rrMiss := func(cd Cond) bool {
				v, truth := cd.V, cd.Truth
				for {
					un, isNot := v.(*ssa.UnOp)
					if !isNot || un.Op != token.NOT {
						break
					}
					v, truth = un.X, !truth
				}
				ex, ok := v.(*ssa.Extract)
				if !ok || truth {
					return false
				}
				rc, ok := ex.Tuple.(*ssa.Call)
				if !ok {
					return false
				}
				ro := calleeObj(rc)
				return ro != nil && ro.Name() == "roundRobin"
			}
			good := false
			for _, cd := range pathConds(call.Block()) {
				if rrMiss(cd) {
					if ex, ok := stripNot(cd.V).(*ssa.Extract); ok {
						if rc, ok := ex.Tuple.(*ssa.Call); ok && la.protectedAt(f, rc) {
							good = true
						}
					}
				}
				if hc, idx := resultOfCall(stripNot(cd.V)); hc != nil && la.protectedAt(f, hc) {
					truth := cd.Truth
					if stripNot(cd.V) != cd.V {
						truth = !truth
					}
					if h := hc.Call.StaticCallee(); h != nil && h.Blocks != nil && (h.Pkg == f.Pkg || h.Parent() == f) && helperExcludes(h, idx, truth, rrMiss) {
						good = true
					}
				}
			}
			if good {
				r.OK(key, call.Pos(), "the connection set was re-read under client.mu and found empty")
			} else if isDial {
				r.Bad(key, call.Pos(), "conn() dials without looking at the connection set again under client.mu: a caller overtaken by the connect routine starts a second dial - a second connection is added without regard to the configured maximum")
			} else {
				r.Bad(key, call.Pos(), "conn() clears Connected without looking at the connection set again under client.mu: a caller overtaken by the connect routine marks a client with a live connection as disconnected (Connected false / Disconnected true for the rest of that connection's life)")
			}
		}
	}
}

func stripNot(v ssa.Value) ssa.Value {
	for {
		un, ok := v.(*ssa.UnOp)
		if !ok || un.Op != token.NOT {
			return v
		}
		v = un.X
	}
}

// isFieldCall2: call of method on obj.field where the receiver is the field address (pointer-receiver methods of
// atomic.Pointer etc.) or the loaded value.
func isFieldCall2(call ssa.CallInstruction, field, method string) bool {
	if isFieldCall(call, field, method) {
		return true
	}
	cc := call.Common()
	if cc.IsInvoke() || len(cc.Args) == 0 {
		return false
	}
	cal := cc.StaticCallee()
	if cal == nil || cal.Name() != method {
		return false
	}
	fa, ok := cc.Args[0].(*ssa.FieldAddr)
	return ok && fieldOf(fa).Name() == field
}

// unlockBetween: an Unlock of the spec's mutex can execute between a and b.
func unlockBetween(la *lockAn, fn *ssa.Function, a, b ssa.Instruction) bool {
	for _, call := range callsIn(fn, false) {
		if _, isDefer := call.(*ssa.Defer); isDefer {
			continue
		}
		if op, ok := la.mutexOp(call); ok && op == "unlock" {
			ci := call.(ssa.Instruction)
			if reachesInstr(a, ci) && reachesInstr(ci, b) {
				return true
			}
		}
	}
	return false
}

func runR19_3(c *Ctx, r *R) {
	if f := r.Need("mpx", "client.onConnChannelsReached"); f != nil {
		n := 0
		for _, call := range callsIn(f, false) {
			if o := calleeObj(call); o == nil || objName(o) != "client.connect" {
				continue
			}
			n++
			key := fmt.Sprintf("%s/connect#%d", fnKey(f), n)
			good := false
			for _, cd := range pathConds(call.Block()) {
				for _, rel := range relsOf(cd) {
					// num < max  with num = <conns>.len() and max read from options.ClientMaxConns
					x, y, op := rel.X, rel.Y, rel.Op
					if op == token.GTR || op == token.GEQ {
						x, y, op = y, x, swapOp(op)
					}
					if op != token.LSS {
						continue
					}
					xc, ok1 := x.(*ssa.Call)
					if !ok1 {
						continue
					}
					if o := calleeObj(xc); o == nil || o.Name() != "len" {
						continue
					}
					if strings.Contains(valueSource(y), "ClientMaxConns") {
						good = true
					}
				}
			}
			if good {
				r.OK(key, call.Pos(), "dials another connection only while len(conns) < ClientMaxConns")
			} else {
				r.Bad(key, call.Pos(), "a new connection is dialled without the len(conns) < ClientMaxConns guard: the number of simultaneous connections is unbounded")
			}
		}
		if n == 0 {
			r.Unk(fnKey(f)+"/connect", f.Pos(), "anchor lost")
		}
	}
	if f := r.Need("mpx", "client.connect"); f != nil {
		n := 0
		for _, call := range callsIn(f, false) {
			cal := call.Common().StaticCallee()
			if cal != nil && cal.Origin() != nil {
				cal = cal.Origin()
			}
			if cal == nil || cal.Pkg == nil || !strings.HasSuffix(cal.Pkg.Pkg.Path(), "baselibrary/async") || !strings.HasPrefix(cal.Name(), "Run") {
				continue
			}
			n++
			key := fmt.Sprintf("%s/async.Run#%d", fnKey(f), n)
			good := false
			for _, cd := range pathConds(call.Block()) {
				if ex, ok := cd.V.(*ssa.Extract); ok && !cd.Truth {
					if uc, ok := ex.Tuple.(*ssa.Call); ok {
						if o := calleeObj(uc); o != nil && o.Name() == "Unwrap" {
							good = true
						}
					}
				}
			}
			if good {
				r.OK(key, call.Pos(), "a dial routine is started only when none is pending")
			} else {
				r.Bad(key, call.Pos(), "a second dial routine can be started while one is pending: concurrent callers no longer share one dial")
			}
		}
		if n == 0 {
			r.Unk(fnKey(f)+"/async.Run", f.Pos(), "anchor lost")
		}
	}
}

// valueSource renders the chain of field names a value was loaded from (for matching option fields).
func valueSource(v ssa.Value) string {
	switch x := v.(type) {
	case *ssa.UnOp:
		return valueSource(x.X)
	case *ssa.FieldAddr:
		return valueSource(x.X) + "." + fieldOf(x).Name()
	case *ssa.Field:
		return valueSource(x.X) + "." + fieldOf(x).Name()
	case *ssa.Convert:
		return valueSource(x.X)
	}
	return ""
}
