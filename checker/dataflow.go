package main

import (
	"golang.org/x/tools/go/ssa"
)

// Generic forward dataflow over the SSA control-flow graph of one function.
// Facts are small string sets; the analysis is either a MUST analysis (meet = intersection, used for
// "X has happened on every path", "lock L is held") or a MAY analysis (meet = union).

type Facts map[string]bool

func (f Facts) clone() Facts {
	g := make(Facts, len(f))
	for k := range f {
		g[k] = true
	}
	return g
}

func (f Facts) equal(g Facts) bool {
	if len(f) != len(g) {
		return false
	}
	for k := range f {
		if !g[k] {
			return false
		}
	}
	return true
}

type Flow struct {
	Must bool
	// Entry facts of the function.
	Entry Facts
	// Transfer mutates the facts for one instruction (may be nil).
	Transfer func(i ssa.Instruction, f Facts)
	// Edge refines the facts flowing along the edge from -> to (to = from.Succs[k]); may be nil.
	Edge func(from *ssa.BasicBlock, k int, f Facts)
}

type FlowResult struct {
	In  map[*ssa.BasicBlock]Facts // facts at block entry (nil = unreachable)
	fl  *Flow
	Out map[*ssa.BasicBlock]Facts
}

func (fl *Flow) Run(fn *ssa.Function) *FlowResult {
	res := &FlowResult{In: map[*ssa.BasicBlock]Facts{}, Out: map[*ssa.BasicBlock]Facts{}, fl: fl}
	if len(fn.Blocks) == 0 {
		return res
	}
	entry := fn.Blocks[0]
	res.In[entry] = fl.Entry.clone()
	work := []*ssa.BasicBlock{entry}
	inWork := map[*ssa.BasicBlock]bool{entry: true}
	// Recover block (if any) is entered with entry facts (conservative for must: empty).
	if fn.Recover != nil {
		if fl.Must {
			res.In[fn.Recover] = Facts{}
		} else {
			res.In[fn.Recover] = fl.Entry.clone()
		}
		work = append(work, fn.Recover)
		inWork[fn.Recover] = true
	}
	edgeOut := map[[2]*ssa.BasicBlock]Facts{}
	for len(work) > 0 {
		b := work[0]
		work = work[1:]
		inWork[b] = false
		f := res.In[b].clone()
		for _, i := range b.Instrs {
			if fl.Transfer != nil {
				fl.Transfer(i, f)
			}
		}
		res.Out[b] = f
		for k, s := range b.Succs {
			g := f.clone()
			if fl.Edge != nil {
				fl.Edge(b, k, g)
			}
			edgeOut[[2]*ssa.BasicBlock{b, s}] = g
			// recompute In[s] as the meet over all computed incoming edges
			var in Facts
			for _, p := range s.Preds {
				e, ok := edgeOut[[2]*ssa.BasicBlock{p, s}]
				if !ok {
					continue // not yet reached
				}
				if e["BOT"] {
					continue // infeasible edge
				}
				if in == nil {
					in = e.clone()
					continue
				}
				if fl.Must {
					for k := range in {
						if !e[k] {
							delete(in, k)
						}
					}
				} else {
					for k := range e {
						in[k] = true
					}
				}
			}
			if in == nil {
				in = Facts{"BOT": true} // only infeasible edges so far
			}
			if s == fn.Recover && fl.Must {
				in = Facts{}
			}
			old, seen := res.In[s]
			if !seen || !old.equal(in) {
				res.In[s] = in
				if !inWork[s] {
					work = append(work, s)
					inWork[s] = true
				}
			}
		}
	}
	return res
}

// At returns the facts holding immediately before instruction i.
func (r *FlowResult) At(i ssa.Instruction) Facts {
	b := i.Block()
	in, ok := r.In[b]
	if !ok {
		return nil // unreachable
	}
	f := in.clone()
	for _, x := range b.Instrs {
		if x == i {
			return f
		}
		if r.fl.Transfer != nil {
			r.fl.Transfer(x, f)
		}
	}
	return f
}

// After returns the facts holding immediately after instruction i.
func (r *FlowResult) After(i ssa.Instruction) Facts {
	f := r.At(i)
	if f == nil {
		return nil
	}
	if r.fl.Transfer != nil {
		r.fl.Transfer(i, f)
	}
	return f
}

// ifCond returns the condition of the If terminating block b (nil if none).
func ifCond(b *ssa.BasicBlock) ssa.Value {
	if len(b.Instrs) == 0 {
		return nil
	}
	if i, ok := b.Instrs[len(b.Instrs)-1].(*ssa.If); ok {
		return i.Cond
	}
	return nil
}
