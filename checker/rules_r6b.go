package main

import (
	"fmt"
	"go/token"
	"go/types"
	"strings"

	"golang.org/x/tools/go/ssa"
)

// R08.8: the readers of the message table read the offset where the encoder wrote it. An entry of the message
// table is tag then offset: big form tag(2) offset(4), small form tag(1) offset(2). The position of the offset
// inside the entry is read off the ENCODER (the constant lower bound of the slice handed to PutUint32 / PutUint16
// in encodeMessageTable or the table writer it calls) and every safe reader of internal/format that decodes the
// offset with BigEndian.Uint32 (big) / Uint16 (small) from t[off+K:] must use that K. A reader of the big form that
// uses the small form's K (t[off+1:]) returns wrong end offsets for every tag with a non-zero low byte - the parser
// skips those fields as empty while the accessors fail on them.
//
// R02.3: the "index out of range" answer of the table means the index is out of range. ListTable.Offset and
// MessageTable.OffsetByIndex answer with a negative constant; List.Get / GetBytes turn a negative start into
// panic("index out of range") - acceptable API misuse for a bad index, a crash on hostile input if the table can
// give the same answer for a valid index whose ENTRY is corrupt. Every return of a negative constant in the
// offset readers of internal/format lies behind a test of the index (against 0 or the entry count).
//
// R20.7: close listeners are invoked without a lock of the connection or of the listener map held: a listener may
// unsubscribe (Delete on the same map) or call back into the connection.
func init() {
	register(&Rule{ID: "R08.8", Props: []string{"C08", "C13", "C01"}, Floor: 2,
		Doc: "every reader of the message table decodes the offset at the position inside the entry at which the encoder writes it",
		Run: runR08_8})
	register(&Rule{ID: "R02.3", Props: []string{"C02"}, Floor: 4,
		Doc: "the negative 'index out of range' answers of the table offset readers lie behind a test of the index",
		Run: runR02_3})
	register(&Rule{ID: "R20.7", Props: []string{"C20"}, Floor: 1,
		Doc: "conn.notifyClosed invokes the listeners without holding a lock of the connection or of the listener map",
		Run: runR20_7})
}

// entryOffsetPos: the constant K of the slice x[K:] (or x itself: 0) handed to a byte-order call.
func sliceLowConst(v ssa.Value) (base ssa.Value, k int64, ok bool) {
	for {
		ct, isCT := v.(*ssa.ChangeType)
		if !isCT {
			break
		}
		v = ct.X
	}
	sl, isSl := v.(*ssa.Slice)
	if !isSl {
		return v, 0, true
	}
	if sl.Low == nil {
		return sl.X, 0, true
	}
	if kk, isK := constInt(sl.Low); isK {
		return sl.X, kk, true
	}
	// off + K
	if b, isB := sl.Low.(*ssa.BinOp); isB && b.Op == token.ADD {
		if kk, isK := constInt(b.Y); isK {
			return sl.X, kk, true
		}
		if kk, isK := constInt(b.X); isK {
			return sl.X, kk, true
		}
		return sl.X, 0, true
	}
	return sl.X, 0, true
}

func runR08_8(c *Ctx, r *R) {
	// the encoder's positions
	pos := map[string]int64{} // "Uint32" (big form offset), "Uint16" (small form offset)
	for _, f := range c.SrcFuncs("internal/encode") {
		if !strings.Contains(strings.ToLower(f.Name()), "message") {
			continue
		}
		for _, call := range callsIn(f, false) {
			o := calleeObj(call)
			if o == nil || o.Pkg() == nil || o.Pkg().Path() != "encoding/binary" || len(call.Common().Args) < 2 {
				continue
			}
			_, k, ok := sliceLowConst(call.Common().Args[1])
			if !ok {
				continue
			}
			switch o.Name() {
			case "PutUint32":
				pos["Uint32"] = k
			case "PutUint16":
				if k > 0 {
					pos["Uint16"] = k
				}
			}
		}
	}
	if len(pos) != 2 {
		r.Unk("internal/encode/message-table-layout", 0, "anchor lost: the positions at which the encoder writes the entry offsets were not found (%v)", pos)
		return
	}
	n := 0
	for _, f := range c.SrcFuncs("internal/format") {
		if !typeIsRecv(f, "messageTable") {
			continue
		}
		form := ""
		switch {
		case strings.Contains(f.Name(), "_big"):
			form = "Uint32"
		case strings.Contains(f.Name(), "_small"):
			form = "Uint16"
		default:
			continue
		}
		k := 0
		for _, call := range callsIn(f, false) {
			o := calleeObj(call)
			if o == nil || o.Pkg() == nil || o.Pkg().Path() != "encoding/binary" || o.Name() != form || len(call.Common().Args) < 2 {
				continue
			}
			_, got, ok := sliceLowConst(call.Common().Args[1])
			if !ok {
				continue
			}
			k++
			n++
			key := fmt.Sprintf("%s/offset-position#%d", fnKey(f), k)
			if got == pos[form] {
				r.OK(key, call.Pos(), "offset decoded at entry+%d, where the encoder writes it", got)
			} else {
				r.Bad(key, call.Pos(), "the offset is decoded at entry+%d, the encoder writes it at entry+%d: the reader mixes tag and offset bytes - end offsets are wrong for every entry, fields are skipped as empty by the parser while accessors fail on them", got, pos[form])
			}
		}
	}
	if n == 0 {
		r.Unk("internal/format/message-table-readers", 0, "anchor lost: no safe reader of the message table decodes an offset")
	}
}

func runR02_3(c *Ctx, r *R) {
	n := 0
	for _, f := range c.SrcFuncs("internal/format") {
		if f.Parent() != nil || f.Signature.Recv() == nil || len(f.Params) < 2 {
			continue
		}
		// offset readers by index: (table, i int) -> int or (int, int), of the list and message tables
		name := strings.ToLower(f.Name())
		if !strings.HasPrefix(name, "offset") {
			continue
		}
		idx := ssa.Value(f.Params[1])
		if b, ok := idx.Type().Underlying().(*types.Basic); !ok || b.Kind() != types.Int {
			continue
		}
		k := 0
		for _, ret := range returnsOf(f) {
			neg := false
			for _, rv := range ret.Results {
				if kk, isK := constInt(unspill(rv)); isK && kk < 0 {
					neg = true
				}
			}
			if !neg {
				continue
			}
			k++
			n++
			key := fmt.Sprintf("%s/out-of-range-answer#%d", fnKey(f), k)
			good := false
			for _, alt := range backPaths(ret.Block(), nil, 64) {
				hit := false
				for _, cd := range alt {
					for _, rel := range relsOf(cd) {
						if rel.X == idx || rel.Y == idx {
							hit = true
						}
					}
				}
				if hit {
					good = true
				} else {
					good = false
					break
				}
			}
			if good {
				r.OK(key, ret.Pos(), "the negative answer is given for an index outside the table only")
			} else {
				r.Bad(key, ret.Pos(), "a negative ('index out of range') answer can be given without a test of the index: a corrupt ENTRY at a valid index makes List.Get / GetBytes panic instead of returning an empty value - hostile bytes crash the parser")
			}
		}
	}
	if n == 0 {
		r.Unk("internal/format/offset-readers", 0, "anchor lost: no offset reader returns a negative constant")
	}
}

func runR20_7(c *Ctx, r *R) {
	f := r.Need("mpx", "conn.notifyClosed")
	if f == nil {
		return
	}
	key := fnKey(f) + "/listeners-unlocked"
	bad := ""
	for _, call := range callsIn(f, false) {
		name := ""
		if call.Common().IsInvoke() {
			name = call.Common().Method.Name()
		} else if cal := call.Common().StaticCallee(); cal != nil {
			name = cal.Name()
		}
		switch name {
		case "Lock", "RLock", "LockMap":
			bad = fmt.Sprintf("%s at %s", name, c.pos(call.Pos()))
		}
	}
	if bad == "" {
		r.OK(key, f.Pos(), "the listeners run without a lock held")
	} else {
		r.Bad(key, f.Pos(), "notifyClosed takes a lock (%s) and invokes the close listeners under it: a listener that unsubscribes (Delete on the same map) or calls back into the connection blocks for ever - the listeners after it never run and run() never returns", bad)
	}
}
