package main

import (
	"fmt"
	"go/constant"
	"go/types"
	"sort"
	"strings"

	"golang.org/x/tools/go/ssa"
)

// R08.5: kind binding. The pinned layout gives every scalar kind its own type code. Two bindings have to hold for
// the bytes of a write operation to carry the code of the kind that was written:
//   (a) encode.Encode<K> emits the code format.Type<K> (and no other code);
//   (b) every typed method <K> of the writer handles (ValueWriter, ListWriter, FieldWriter, ...) reaches
//       encode.Encode<K> and no encoder of another kind.
// DecodeInt16 accepts the int32 code as well, so a list writer that stores an int16 through EncodeInt32 passes
// every round-trip test of the library while producing bytes that differ from the pinned layout.

func init() {
	register(&Rule{ID: "R08.5", Props: []string{"C08"}, Floor: 45,
		Doc: "kind binding: encode.Encode<K> emits exactly the type code Type<K>; every writer method named after a scalar kind reaches exactly encode.Encode<K>",
		Run: runR08_5})
}

// kindCodes: scalar kind -> the pinned type-code constants its encoder may emit.
var kindCodes = map[string][]string{
	"Bool": {"TypeTrue", "TypeFalse"}, "Byte": {"TypeByte"},
	"Int16": {"TypeInt16"}, "Int32": {"TypeInt32"}, "Int64": {"TypeInt64"},
	"Uint16": {"TypeUint16"}, "Uint32": {"TypeUint32"}, "Uint64": {"TypeUint64"},
	"Bin64": {"TypeBin64"}, "Bin128": {"TypeBin128"}, "Bin256": {"TypeBin256"},
	"Float32": {"TypeFloat32"}, "Float64": {"TypeFloat64"},
	"Bytes": {"TypeBytes"}, "String": {"TypeString"},
}

func runR08_5(c *Ctx, r *R) {
	codeName := map[int64]string{}
	for n, v := range pinnedTypes {
		codeName[v] = n
	}
	// (a) encoders
	encPkg := pkgPath("internal/encode")
	encoders := map[string]*ssa.Function{}
	for _, f := range c.SrcFuncs("internal/encode") {
		if f.Parent() == nil && f.Signature.Recv() == nil && strings.HasPrefix(f.Name(), "Encode") {
			encoders[strings.TrimPrefix(f.Name(), "Encode")] = f
		}
	}
	// emitted codes of a function: constant non-zero bytes stored through an index, and constant arguments of type
	// format.Type, followed into static callees of the same package
	var emitted func(f *ssa.Function, seen map[*ssa.Function]bool, out map[int64]bool)
	emitted = func(f *ssa.Function, seen map[*ssa.Function]bool, out map[int64]bool) {
		if seen[f] || f.Blocks == nil {
			return
		}
		seen[f] = true
		allInstrs(f, func(i ssa.Instruction) {
			switch x := i.(type) {
			case *ssa.Store:
				if _, ok := x.Addr.(*ssa.IndexAddr); !ok {
					return
				}
				if k, ok := x.Val.(*ssa.Const); ok && k.Value != nil && k.Value.Kind() == constant.Int {
					if v, _ := constant.Int64Val(k.Value); v != 0 {
						out[v] = true
					}
				}
			case ssa.CallInstruction:
				cc := x.Common()
				for _, a := range cc.Args {
					if k, ok := a.(*ssa.Const); ok && k.Value != nil && typeIs(k.Type(), pkgPath("internal/format"), "Type") {
						v, _ := constant.Int64Val(constant.ToInt(k.Value))
						out[v] = true
					}
				}
				if cal := cc.StaticCallee(); cal != nil && cal.Pkg != nil && cal.Pkg.Pkg.Path() == encPkg {
					emitted(cal, seen, out)
				}
			}
		})
	}
	for _, kind := range sortedKeys(kindCodes) {
		f := encoders[kind]
		key := "internal/encode.Encode" + kind + "/type-code"
		if f == nil {
			r.Unk(key, 0, "anchor lost: encoder Encode%s not found", kind)
			continue
		}
		got := map[int64]bool{}
		emitted(f, map[*ssa.Function]bool{}, got)
		var gotNames, want []string
		for v := range got {
			if n, ok := codeName[v]; ok {
				gotNames = append(gotNames, n)
			} else {
				gotNames = append(gotNames, fmt.Sprintf("byte(%d)", v))
			}
		}
		want = append(want, kindCodes[kind]...)
		sort.Strings(gotNames)
		sort.Strings(want)
		if strings.Join(gotNames, ",") == strings.Join(want, ",") {
			r.OK(key, f.Pos(), "emits exactly %s", strings.Join(want, ","))
		} else {
			r.Bad(key, f.Pos(), "Encode%s emits the constant bytes {%s}, the pinned layout requires exactly {%s}: a value of kind %s is written under a foreign type code", kind, strings.Join(gotNames, ","), strings.Join(want, ","), kind)
		}
	}
	// (b) writer methods named after a kind
	wPkg := pkgPath("internal/writer")
	reach := func(f *ssa.Function) map[string]bool {
		out := map[string]bool{}
		seen := map[*ssa.Function]bool{}
		var visit func(g *ssa.Function, depth int)
		visit = func(g *ssa.Function, depth int) {
			if seen[g] || g.Blocks == nil || depth > 6 {
				return
			}
			seen[g] = true
			for _, call := range callsIn(g, true) {
				cal := call.Common().StaticCallee()
				if cal == nil || cal.Pkg == nil {
					continue
				}
				switch cal.Pkg.Pkg.Path() {
				case encPkg:
					if k := strings.TrimPrefix(cal.Name(), "Encode"); k != cal.Name() {
						if _, scalar := kindCodes[k]; scalar {
							out[k] = true
						}
					}
				case wPkg:
					// follow only value-producing helpers, not the structural transitions (element/field/end...)
					visit(cal, depth+1)
				}
			}
		}
		visit(f, 0)
		return out
	}
	n := 0
	for _, f := range c.SrcFuncs("internal/writer") {
		if f.Parent() != nil || f.Signature.Recv() == nil {
			continue
		}
		if _, scalar := kindCodes[f.Name()]; !scalar {
			continue
		}
		if _, ok := f.Signature.Recv().Type().Underlying().(*types.Struct); !ok {
			if _, ok := deref(f.Signature.Recv().Type()).Underlying().(*types.Struct); !ok {
				continue
			}
		}
		n++
		key := fnKey(f) + "/encoder"
		got := sortedKeys(reach(f))
		if len(got) == 1 && got[0] == f.Name() {
			r.OK(key, f.Pos(), "reaches exactly encode.Encode%s", f.Name())
		} else if len(got) == 0 {
			r.Unk(key, f.Pos(), "no scalar encoder reached from the typed writer method %s (anchor lost)", f.Name())
		} else {
			r.Bad(key, f.Pos(), "the writer method %s writes through encode.Encode{%s}: the value is stored under the type code of another kind, the bytes differ from the pinned layout although the library's own tolerant decoders read them back", f.Name(), strings.Join(got, ","))
		}
	}
	r.Note("%d typed writer methods, %d encoders", n, len(kindCodes))
}
