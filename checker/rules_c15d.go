package main

import (
	"go/constant"
	"go/token"
	"go/types"

	"golang.org/x/tools/go/ssa"
)

// producerLabels: the constants a tag is compared with (== or !=, steering control flow) inside the unexported
// helpers of f's package that PRODUCE the tag - a helper whose result f receives (token, text := l.scan(), where
// scan loops while token == scanner.Comment). typeSwitchLabels covers the helpers that are handed the tag.
func producerLabels(f *ssa.Function, isTag func(v ssa.Value) bool) map[int64]bool {
	out := map[int64]bool{}
	for _, call := range callsIn(f, false) {
		callee := call.Common().StaticCallee()
		if callee == nil || callee.Blocks == nil || callee.Pkg != f.Pkg || token.IsExported(callee.Name()) {
			continue
		}
		produces := false
		res := callee.Signature.Results()
		for i := 0; i < res.Len(); i++ {
			if b, ok := res.At(i).Type().Underlying().(*types.Basic); ok && b.Kind() == types.Int32 {
				produces = true
			}
		}
		if !produces {
			continue
		}
		allInstrs(callee, func(i ssa.Instruction) {
			b, ok := i.(*ssa.BinOp)
			if !ok || (b.Op != token.EQL && b.Op != token.NEQ) {
				return
			}
			x, y := b.X, b.Y
			if _, ok := x.(*ssa.Const); ok {
				x, y = y, x
			}
			k, ok := y.(*ssa.Const)
			if !ok || k.Value == nil || k.Value.Kind() != constant.Int || !isTag(x) {
				return
			}
			for _, u := range users(b) {
				if _, ok := u.(*ssa.If); ok {
					v, _ := constant.Int64Val(k.Value)
					out[v] = true
				}
			}
		})
	}
	return out
}
