package main

import (
	"fmt"
	"go/ast"
	"go/token"
	"go/types"
	"sort"
	"strings"

	"golang.org/x/tools/go/ssa"
)

func init() {
	register(&Rule{ID: "R08.3", Props: []string{"C08", "C01"}, Floor: 2,
		Doc: "trailer order: table, then data size, then table size + type code; only big-endian byte order objects in encode/decode/format",
		Run: runR08_3})
	register(&Rule{ID: "R08.4", Props: []string{"C08", "C10"}, Floor: 24,
		Doc: "Grow coverage (determinism): every byte of every buffer.Grow(n) region in internal/encode is written on every path before the encoder returns",
		Run: func(c *Ctx, r *R) { runR08_4(c, r, "coverage") }})
	register(&Rule{ID: "R08.6", Props: []string{"C08", "C01", "C10"}, Floor: 24,
		Doc: "no stale region: nothing is written into a grown region after a later call that may grow (reallocate) the same buffer",
		Run: func(c *Ctx, r *R) { runR08_4(c, r, "stale") }})
}

func isGrowCall(call ssa.CallInstruction) bool {
	cc := call.Common()
	return cc.IsInvoke() && cc.Method.Name() == "Grow" && strings.HasSuffix(cc.Value.Type().String(), "buffer.Buffer")
}

// sliceBase resolves v to (base region value, offset of v inside base) following Slice chains.
func (e *BE) sliceBase(v ssa.Value, stop ssa.Value) (ssa.Value, Lin) {
	off := linConst(0)
	for {
		if v == stop {
			return v, off
		}
		sl, ok := v.(*ssa.Slice)
		if !ok {
			return v, off
		}
		if sl.Low != nil {
			off = off.add(e.expand(sl.Low))
		}
		v = sl.X
	}
}

type wInterval struct {
	lo, hi Lin
	at     ssa.Instruction
}

func linKey(l Lin) string {
	var sb strings.Builder
	for _, v := range l.vars() {
		fmt.Fprintf(&sb, "%d*%s+", v, l.T[v].String())
	}
	sb.WriteString(l.K.String())
	return sb.String()
}

// writesInto lists the writes of fn whose destination lies in region p (a Grow result or a sub-slice of it given by
// `region` with offset regionOff relative to which intervals are expressed).
func (e *BE) writesInto(fn *ssa.Function, p ssa.Value) []wInterval {
	var out []wInterval
	add := func(lo, hi Lin, at ssa.Instruction) { out = append(out, wInterval{lo, hi, at}) }
	allInstrs(fn, func(i ssa.Instruction) {
		switch x := i.(type) {
		case *ssa.Store:
			ia, ok := x.Addr.(*ssa.IndexAddr)
			if !ok {
				return
			}
			base, off := e.sliceBase(ia.X, p)
			if base != p {
				return
			}
			lo := off.add(e.expand(ia.Index))
			add(lo, lo.addK(1), x)
		case *ssa.Call:
			cc := x.Call
			if b, ok := cc.Value.(*ssa.Builtin); ok && b.Name() == "copy" && len(cc.Args) == 2 {
				base, off := e.sliceBase(cc.Args[0], p)
				if base != p {
					return
				}
				dl, sl := e.lenOf(cc.Args[0], 'l'), e.lenOf(cc.Args[1], 'l')
				n := dl
				if !dl.equal(sl) {
					// copy writes min(len(dst), len(src)); use the source length when the destination is the whole region
					n = sl
				}
				add(off, off.add(n), x)
				return
			}
			o := calleeObj(x)
			if o == nil {
				return
			}
			name := objName(o)
			if o.Pkg() != nil && o.Pkg().Path() == "encoding/binary" && strings.Contains(name, "Put") && len(cc.Args) >= 2 {
				base, off := e.sliceBase(cc.Args[1], p)
				if base != p {
					return
				}
				k := int64(0)
				switch {
				case strings.HasSuffix(name, "PutUint16"):
					k = 2
				case strings.HasSuffix(name, "PutUint32"):
					k = 4
				case strings.HasSuffix(name, "PutUint64"):
					k = 8
				}
				if k > 0 {
					add(off, off.addK(k), x)
				}
				return
			}
			if o.Name() == "MarshalTo" && len(cc.Args) >= 2 {
				base, off := e.sliceBase(cc.Args[len(cc.Args)-1], p)
				if base != p {
					return
				}
				// bin.BinN.MarshalTo(b) writes N/8 bytes
				if recv := o.Type().(*types.Signature).Recv(); recv != nil {
					if n := namedOf(recv.Type()); n != nil {
						k := map[string]int64{"Bin64": 8, "Bin128": 16, "Bin256": 32}[n.Obj().Name()]
						if k > 0 {
							add(off, off.addK(k), x)
						}
					}
				}
			}
		}
	})
	return out
}

// covered: the union of the intervals (each executed on every path to `at`... checked separately) covers [0, n).
func chainCovers(ivs []wInterval, n Lin) (bool, Lin) {
	cur := linConst(0)
	used := make([]bool, len(ivs))
	for steps := 0; steps <= len(ivs); steps++ {
		if cur.equal(n) {
			return true, cur
		}
		progressed := false
		for i, iv := range ivs {
			if !used[i] && iv.lo.equal(cur) {
				used[i] = true
				cur = iv.hi
				progressed = true
				break
			}
		}
		if !progressed {
			return false, cur
		}
	}
	return cur.equal(n), cur
}

func runR08_4(c *Ctx, r0 *R, part string) {
	// the two parts are reported by two rules; r is a filter on the obligation key suffix
	r := &partR{R: r0, part: part}
	e := newBE(c)
	for _, fn := range c.SrcFuncs("internal/encode") {
		nG := 0
		for _, call := range callsIn(fn, false) {
			if !isGrowCall(call) {
				continue
			}
			g := call.(*ssa.Call)
			nG++
			key := fmt.Sprintf("%s/Grow#%d", fnKey(fn), nG)
			N := e.expand(g.Call.Args[0])
			buf := g.Call.Value
			ivs := e.writesInto(fn, g)
			// (1) stale region: a write into p after another call that may grow the same buffer
			stale := ""
			for _, c2 := range callsIn(fn, false) {
				if c2 == ssa.CallInstruction(g) {
					continue
				}
				uses := false
				if c2.Common().Value == buf {
					uses = true
				}
				for _, a := range c2.Common().Args {
					if a == buf {
						uses = true
					}
				}
				if !uses || !reachesInstr(g, c2.(ssa.Instruction)) {
					continue
				}
				for _, iv := range ivs {
					if reachesInstr(c2.(ssa.Instruction), iv.at) {
						stale = fmt.Sprintf("the region grown at %s is written at %s after %s may have grown (reallocated) the same buffer", c.pos(g.Pos()), c.pos(instrPos(iv.at)), calleeLabelOrName(c2))
					}
				}
			}
			if stale != "" {
				r.Bad(key+"/stale", g.Pos(), "%s: the bytes land in the abandoned array and the encoded value reads back as zeros/garbage", stale)
			} else {
				r.OK(key+"/stale", g.Pos(), "no write into the grown region after a later growth of the buffer")
			}
			// (2) coverage
			if loopCov, handled := tableLoopCoverage(c, e, fn, g, N); handled {
				if loopCov == "" {
					r.OK(key+"/coverage", g.Pos(), "table loop: every entry slice p[off:off+S] is fully written, off advances by S from 0, region size = len(table)*S")
				} else {
					r.Bad(key+"/coverage", g.Pos(), "%s", loopCov)
				}
				continue
			}
			if why, handled := tableHelperCoverage(c, e, fn, g, N); handled {
				if why == "" {
					r.OK(key+"/coverage", g.Pos(), "the region is handed to a table writer per entry format; each writes every entry p[off:off+S] fully, off advancing by S from 0 over the table that sized the region")
				} else {
					r.Bad(key+"/coverage", g.Pos(), "%s", why)
				}
				continue
			}
			// group writes by interval; each group must execute on every path to every normal return
			groups := map[string][]wInterval{}
			for _, iv := range ivs {
				k := linKey(iv.lo) + "|" + linKey(iv.hi)
				groups[k] = append(groups[k], iv)
			}
			var must []wInterval
			for _, gk := range sortedKeys(groups) {
				grp := groups[gk]
				if writtenOnAllPaths(fn, g, grp) {
					must = append(must, grp[0])
				}
			}
			ok, reached := chainCovers(must, N)
			if ok {
				r.OK(key+"/coverage", g.Pos(), "all %s bytes of the grown region are written on every path (%d writes)", N.String(e.name), len(must))
			} else {
				r.Bad(key+"/coverage", g.Pos(), "only bytes [0, %s) of the %s bytes obtained from Grow are written on every path: Grow does not zero reused capacity, so the remaining byte(s) keep whatever the buffer held before and the encoding depends on buffer history", reached.String(e.name), N.String(e.name))
			}
		}
	}
	// vacuity guard independent of how the encoders are factored: every exported encoder reaches an analysed Grow
	// (its own, or one in a helper of the package it passes the buffer to)
	hasGrow := map[*ssa.Function]bool{}
	for _, fn := range c.SrcFuncs("internal/encode") {
		for _, call := range callsIn(fn, false) {
			if isGrowCall(call) {
				hasGrow[fn] = true
			}
		}
	}
	var reaches func(fn *ssa.Function, seen map[*ssa.Function]bool) bool
	reaches = func(fn *ssa.Function, seen map[*ssa.Function]bool) bool {
		if seen[fn] {
			return false
		}
		seen[fn] = true
		if hasGrow[fn] {
			return true
		}
		for _, call := range callsIn(fn, false) {
			if cal := call.Common().StaticCallee(); cal != nil && cal.Pkg == fn.Pkg && cal.Blocks != nil && reaches(cal, seen) {
				return true
			}
		}
		return false
	}
	for _, fn := range c.SrcFuncs("internal/encode") {
		if fn.Parent() != nil || !ast.IsExported(fn.Name()) || fn.Signature.Recv() != nil || !strings.HasPrefix(fn.Name(), "Encode") {
			continue
		}
		key := fnKey(fn) + "/reaches-grow/" + part
		if reaches(fn, map[*ssa.Function]bool{}) {
			r.R.OK(key, fn.Pos(), "the encoder appends through an analysed buffer.Grow region")
		} else {
			r.R.Unk(key, fn.Pos(), "no buffer.Grow reachable from this encoder: the region rules do not see how it appends")
		}
	}
}

// partR forwards only the obligations whose key ends in "/<part>".
type partR struct {
	*R
	part string
}

func (p *partR) OK(key string, pos token.Pos, format string, a ...any) {
	if strings.HasSuffix(key, "/"+p.part) {
		p.R.OK(key, pos, format, a...)
	}
}

func (p *partR) Bad(key string, pos token.Pos, format string, a ...any) {
	if strings.HasSuffix(key, "/"+p.part) {
		p.R.Bad(key, pos, format, a...)
	}
}

func calleeLabelOrName(call ssa.CallInstruction) string {
	if l := calleeLabel(call); l != "" {
		return l
	}
	return "a call"
}

// writtenOnAllPaths: on every path from the Grow to a normal return, one of the writes of the group executes.
func writtenOnAllPaths(fn *ssa.Function, g *ssa.Call, grp []wInterval) bool {
	in := map[ssa.Instruction]bool{}
	for _, iv := range grp {
		in[iv.at] = true
	}
	fl := &Flow{Must: true, Entry: Facts{}}
	fl.Transfer = func(i ssa.Instruction, f Facts) {
		if i == ssa.Instruction(g) {
			f["grown"] = true
		}
		if in[i] {
			f["w"] = true
		}
	}
	res := fl.Run(fn)
	any := false
	for _, ret := range returnsOf(fn) {
		f := res.At(ret)
		if f == nil {
			continue
		}
		// only returns after the Grow matter, and error returns (non-nil error constant/call) do not deliver bytes
		if !reachesInstr(g, ret) {
			continue
		}
		if n := len(ret.Results); n > 0 {
			if last := ret.Results[n-1]; types.Identical(last.Type(), types.Universe.Lookup("error").Type()) && !isNilConst(last) {
				continue
			}
		}
		any = true
		if !f["w"] {
			return false
		}
	}
	return any
}

// tableLoopCoverage handles  p := b.Grow(len(table)*S); off := 0; for range table { q := p[off:off+S]; ...; off += S }.
// Returns handled=false if the Grow is not of that shape.
func tableLoopCoverage(c *Ctx, e *BE, fn *ssa.Function, g *ssa.Call, N Lin) (string, bool) {
	// find the entry slice q = p[lo : lo+S] inside a loop, lo being either a running offset (phi: 0, +S) or
	// index*S with index the loop's induction variable over the table
	var q *ssa.Slice
	allInstrs(fn, func(i ssa.Instruction) {
		if sl, ok := i.(*ssa.Slice); ok && sl.X == ssa.Value(g) && sl.Low != nil && sl.High != nil {
			switch lo := sl.Low.(type) {
			case *ssa.Phi:
				q = sl
			case *ssa.BinOp:
				if lo.Op == token.MUL {
					q = sl
				}
			}
		}
	})
	if q == nil {
		return "", false
	}
	hb, ok := q.High.(*ssa.BinOp)
	if !ok || hb.Op != token.ADD || (hb.X != q.Low && hb.Y != q.Low) {
		return "entry slice is not p[off:off+S]", true
	}
	size := hb.Y // S
	if hb.Y == q.Low {
		size = hb.X
	}
	// The grown size and the entry size may be parameters of an unexported helper (the caller computes
	// len(table)*S and selects S): the shape is then checked at every call site, parameters standing for arguments.
	_, nIsPar := g.Call.Args[0].(*ssa.Parameter)
	_, sIsPar := size.(*ssa.Parameter)
	if nIsPar || sIsPar {
		sites, closed := staticCallSites(c, fn)
		if !closed || len(sites) == 0 {
			return "the grown size / entry size are parameters of a function whose callers cannot be enumerated", true
		}
		for _, site := range sites {
			if why := tableLoopCoverageAt(c, e, fn, g, q, size, site); why != "" {
				return why + " (call at " + c.pos(site.Pos()) + ")", true
			}
		}
		return "", true
	}
	return tableLoopCoverageAt(c, e, fn, g, q, size, nil), true
}

// staticCallSites: the calls of fn in its package; closed is false when fn is exported or used as a value.
func staticCallSites(c *Ctx, fn *ssa.Function) ([]*ssa.Call, bool) {
	if fn.Pkg == nil || ast.IsExported(fn.Name()) {
		return nil, false
	}
	var out []*ssa.Call
	closed := true
	for _, m := range fn.Pkg.Members {
		var fns []*ssa.Function
		switch x := m.(type) {
		case *ssa.Function:
			fns = append(fns, x)
		case *ssa.Type:
			for _, t := range []types.Type{x.Type(), types.NewPointer(x.Type())} {
				ms := c.Prog.MethodSets.MethodSet(t)
				for i := 0; i < ms.Len(); i++ {
					if f := c.Prog.MethodValue(ms.At(i)); f != nil && f.Pkg == fn.Pkg {
						fns = append(fns, f)
					}
				}
			}
		}
		for _, f := range fns {
			withAnon(f, func(g *ssa.Function) {
				allInstrs(g, func(i ssa.Instruction) {
					if cv, ok := i.(*ssa.Call); ok && cv.Call.StaticCallee() == fn {
						for _, seen := range out {
							if seen == cv {
								return
							}
						}
						out = append(out, cv)
						return
					}
					for _, op := range i.Operands(nil) {
						if *op == ssa.Value(fn) {
							if ci, ok := i.(ssa.CallInstruction); !ok || ci.Common().Value != ssa.Value(fn) {
								closed = false
							} else if _, isCall := i.(*ssa.Call); !isCall {
								closed = false // go / defer
							}
						}
					}
				})
			})
		}
	}
	return out, closed
}

// tableLoopCoverageAt checks the table-loop shape with the parameters of fn read as the arguments of `site`
// (site == nil: fn computes everything itself).
func tableLoopCoverageAt(c *Ctx, e *BE, fn *ssa.Function, g *ssa.Call, q *ssa.Slice, size ssa.Value, site *ssa.Call) string {
	arg := func(v ssa.Value) ssa.Value {
		if p, ok := v.(*ssa.Parameter); ok && site != nil {
			for i, fp := range fn.Params {
				if fp == p && i < len(site.Call.Args) {
					return site.Call.Args[i]
				}
			}
		}
		return v
	}
	sizeA := arg(size)
	// N == len(table) * S
	nb, ok := arg(g.Call.Args[0]).(*ssa.BinOp)
	if !ok || nb.Op != token.MUL || !(nb.Y == sizeA || nb.X == sizeA) {
		return "the grown size is not len(table) * entry size"
	}
	lenOperand := nb.X
	if nb.X == sizeA {
		lenOperand = nb.Y
	}
	// the table whose length sized the region is the table the loop walks
	var sizedTable ssa.Value
	if lc, ok := lenOperand.(*ssa.Call); ok {
		if b, ok := lc.Call.Value.(*ssa.Builtin); ok && b.Name() == "len" && len(lc.Call.Args) == 1 {
			sizedTable = lc.Call.Args[0]
		}
	}
	if site != nil {
		// inside fn the loop ranges over one of its slice parameters: that parameter's argument must be the sized table
		walked := false
		for i, fp := range fn.Params {
			if _, isSl := fp.Type().Underlying().(*types.Slice); isSl && !bytesLike(fp.Type()) && i < len(site.Call.Args) && site.Call.Args[i] == sizedTable {
				walked = true
			}
		}
		if sizedTable == nil || !walked {
			return "the grown size is not len(table) * entry size of the table handed to the table writer"
		}
	}
	switch off := q.Low.(type) {
	case *ssa.Phi:
		// running offset: init 0, step off+S, one step per visited table entry
		okInit, okStep := false, false
		for _, ed := range off.Edges {
			if isConstInt(ed, 0) {
				okInit = true
			}
			if sb, ok := ed.(*ssa.BinOp); ok && sb.Op == token.ADD && ((sb.X == ssa.Value(off) && sb.Y == size) || (sb.Y == ssa.Value(off) && sb.X == size)) {
				okStep = true
			}
		}
		if !okInit || !okStep {
			return "the entry offset does not advance from 0 by the entry size"
		}
	case *ssa.BinOp:
		// offset = index * S with the index visiting every entry of the table whose length sized the region
		idx := off.X
		if off.X == size {
			idx = off.Y
		} else if off.Y != size {
			return "the entry offset is not index * entry size"
		}
		lenCall := nb.X
		if nb.X == sizeA {
			lenCall = nb.Y
		}
		var table ssa.Value
		if lc, ok := lenCall.(*ssa.Call); ok {
			if b, ok := lc.Call.Value.(*ssa.Builtin); ok && b.Name() == "len" && len(lc.Call.Args) == 1 {
				table = lc.Call.Args[0]
			}
		}
		if table == nil {
			return "the grown size is not len(table) * entry size"
		}
		if site != nil {
			// inside fn the table is the parameter that received it
			for i, fp := range fn.Params {
				if i < len(site.Call.Args) && site.Call.Args[i] == table {
					table = fp
					break
				}
			}
		}
		if ok, why := loopPhiCoversAll(idx, table); !ok {
			return "the entry index does not visit every table entry: " + why
		}
	}
	// every path through the loop body writes q fully: case split on the entry-size phi (big / small)
	ivs := e.writesInto(fn, q)
	sphi, isPhi := sizeA.(*ssa.Phi)
	cases := []struct {
		val  int64
		cond ssa.Value
		tru  bool
	}{}
	if isPhi {
		idom := sphi.Block().Idom()
		cond := ifCond(idom)
		for k, ed := range sphi.Edges {
			v, ok := constInt(ed)
			if !ok || cond == nil {
				return "entry size is not selected from constants by the big flag"
			}
			pred := sphi.Block().Preds[k]
			tru := pred == idom.Succs[0] || (pred == idom && idom.Succs[0] == sphi.Block())
			if pred == idom {
				tru = idom.Succs[0] == sphi.Block()
			}
			cases = append(cases, struct {
				val  int64
				cond ssa.Value
				tru  bool
			}{v, cond, tru})
		}
	} else if v, ok := constInt(sizeA); ok {
		cases = append(cases, struct {
			val  int64
			cond ssa.Value
			tru  bool
		}{v, nil, true})
	} else {
		return "entry size of unrecognised form"
	}
	for _, cs := range cases {
		// writes executed under the branch consistent with this case
		var sel []wInterval
		for _, iv := range ivs {
			consistent := true
			for _, cd := range pathConds(iv.at.Block()) {
				if cs.cond != nil && arg(cd.V) == cs.cond && cd.Truth != cs.tru {
					consistent = false
				}
			}
			if consistent {
				sel = append(sel, iv)
			}
		}
		if ok, reached := chainCovers(sel, linConst(cs.val)); !ok {
			return fmt.Sprintf("table entries of %d bytes are only written up to byte %s: the rest of each entry keeps stale buffer content", cs.val, reached.String(e.name))
		}
	}
	return ""
}

func runR08_3(c *Ctx, r *R) {
	for _, nm := range []struct{ fn, table string }{{"EncodeMessageTable", "encodeMessageTable"}, {"EncodeListTable", "encodeListTable"}} {
		f := r.Need("internal/encode", nm.fn)
		if f == nil {
			continue
		}
		var tbl, sz, szt *ssa.Call
		for _, call := range callsIn(f, false) {
			cv, ok := call.(*ssa.Call)
			if !ok {
				continue
			}
			if o := calleeObj(call); o != nil {
				switch o.Name() {
				case nm.table:
					tbl = cv
				case "encodeSize":
					sz = cv
				case "encodeSizeType":
					szt = cv
				}
			}
		}
		key := fnKey(f) + "/trailer-order"
		switch {
		case tbl == nil || sz == nil || szt == nil:
			r.Bad(key, f.Pos(), "trailer must be written by %s, encodeSize, encodeSizeType (found table=%v size=%v sizeType=%v)", nm.table, tbl != nil, sz != nil, szt != nil)
		case !(dominatesInstr(tbl, sz) && dominatesInstr(sz, szt)):
			r.Bad(key, f.Pos(), "trailer parts are not written in the pinned order table, data size, table size + type")
		default:
			// encodeSize carries the data size parameter, encodeSizeType the table size returned by the table encoder
			dataOK, tableOK := false, false
			if cv, ok := sz.Call.Args[1].(*ssa.Convert); ok {
				if p, ok := cv.X.(*ssa.Parameter); ok && p.Name() == "dataSize" {
					dataOK = true
				}
			}
			if cv, ok := szt.Call.Args[1].(*ssa.Convert); ok {
				tableOK = carriesGrownSize(tbl, cv.X)
			}
			if dataOK && tableOK {
				r.OK(key, f.Pos(), "table, data size (dataSize), table size (bytes of the table) + type")
			} else {
				r.Bad(key, f.Pos(), "the size fields of the trailer do not carry dataSize / the encoded table size (data=%v table=%v): readers locate the table and the body from these two numbers", dataOK, tableOK)
			}
		}
	}
	// byte order objects
	var others []string
	n := 0
	for _, rel := range []string{"internal/encode", "internal/decode", "internal/format"} {
		for _, fn := range c.SrcFuncs(rel) {
			allInstrs(fn, func(i ssa.Instruction) {
				for _, op := range i.Operands(nil) {
					if g, ok := (*op).(*ssa.Global); ok && g.Pkg != nil && g.Pkg.Pkg.Path() == "encoding/binary" {
						n++
						if g.Name() != "BigEndian" {
							others = append(others, fnKey(fn)+":"+g.Name())
						}
					}
				}
			})
		}
	}
	sort.Strings(others)
	if len(others) == 0 && n > 0 {
		r.OK("internal/{encode,decode,format}/byte-order", 0, "%d uses of encoding/binary byte orders, all BigEndian", n)
	} else {
		r.Bad("internal/{encode,decode,format}/byte-order", 0, "non big-endian byte order used: %v", others)
	}
}

// carriesGrownSize: v (in the caller of the table writer) is the number of bytes the table writer appends, i.e. the
// argument of its single buffer.Grow: either the table writer returns that number and v is that result, or the
// caller computed it and handed it to the table writer as the parameter that is grown.
func carriesGrownSize(tbl *ssa.Call, v ssa.Value) bool {
	callee := tbl.Call.StaticCallee()
	if callee == nil || callee.Blocks == nil {
		return false
	}
	var grown ssa.Value
	n := 0
	for _, call := range callsIn(callee, false) {
		if isGrowCall(call) {
			grown = call.Common().Args[0]
			n++
		}
	}
	if n != 1 {
		return false
	}
	if p, ok := grown.(*ssa.Parameter); ok {
		for i, fp := range callee.Params {
			if fp == p && i < len(tbl.Call.Args) {
				return tbl.Call.Args[i] == v
			}
		}
		return false
	}
	ex, ok := v.(*ssa.Extract)
	if !ok || ex.Tuple != ssa.Value(tbl) {
		return false
	}
	any := false
	for _, ret := range returnsOf(callee) {
		if ex.Index >= len(ret.Results) {
			return false
		}
		if last := ret.Results[len(ret.Results)-1]; types.Identical(last.Type(), types.Universe.Lookup("error").Type()) && !isNilConst(last) {
			continue // error return: nothing delivered
		}
		if unspill(ret.Results[ex.Index]) != grown {
			return false
		}
		any = true
	}
	return any
}
