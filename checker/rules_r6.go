package main

import (
	"fmt"
	"go/token"
	"go/types"
	"strings"

	"golang.org/x/tools/go/ssa"
)

// Round-6 rules (sixth seed batch).
//
// R07.10: one sender waits for window at a time. A window update posts ONE token on the wake channel; it wakes one
// waiter. The sender's mutex (the one R07.9 derives as held across the wait) is what makes "one waiter" true, so
// every call of a function that blocks on the wake channel must be made with that mutex held: a Send that waits for
// window before locking lets two senders wait, one update wakes one of them and the other sleeps although the
// window covers its message.
//
// R06.9: tryAcquire takes its reference by CompareAndSwap from a count it observed positive. A separate Load and
// Add lets a concurrent last release slip between them: the count goes 1 -> 0 (state freed) -> 1 and the receive
// path works on a freed state.
//
// R12.11: Reset empties every stack of the writer state. writerState.init is what Reset and acquire run; it must
// reset the object stack, the element table and the field table on every path (directly or through reset()).
//
// R17.5: state constructors are pool factories only. newWriterState / newWriter build the pooled objects; a direct
// call from the write path (Reset creating a fresh state instead of taking one from the pool) allocates per message.
//
// R19.2e / R19.10: the decision to open another connection is taken under client.mu: in onConnChannelsReached the
// connection count compared with the maximum is read under the lock that protects connect().
//
// R04.10: after the end of the stream was received, the rpc client does not poll the transport again: every read of
// the mpx channel in Receive / ReceiveAsync lies behind recvEnd == false (the arm `case s.recvEnd: return End`).
// Polling the closed channel records the transport's End as a receive failure and Response() then returns that
// instead of the stashed result.
//
// R14.21: a type reference through an import marks the import used whatever kind of definition it names (a service
// referenced only as a subservice result still needs its import line in the RPC code).
//
// R14.22: the import path (Context.getPackage, reached from Import.resolve) does not hand out a cached package that
// is still being compiled: a return of the cached value lies behind Compiling == false (else: circular import).
//
// R16.5: the pending field table is kept sorted by tag. messageStack.hasField finds a tag by binary search
// (sort.Search) while the message is being written, so insert must place the new field in tag order (it compares
// the new tag with stored tags); sorting once at pop leaves Merge/Copy blind to fields written out of order.
func init() {
	register(&Rule{ID: "R07.10", Props: []string{"C07", "C03"}, Floor: 1,
		Doc: "every call of a function that blocks on the window wake channel is made with the sender's mutex held (one waiter per wake token)",
		Run: runR07_10})
	register(&Rule{ID: "R06.9", Props: []string{"C06"}, Floor: 1,
		Doc: "channel.tryAcquire increments the reference count only by CompareAndSwap from a value it observed > 0",
		Run: runR06_9})
	register(&Rule{ID: "R12.11", Props: []string{"C12", "C18"}, Floor: 3,
		Doc: "writerState.init resets the object stack, the element table and the field table on every path",
		Run: runR12_11})
	register(&Rule{ID: "R17.5", Props: []string{"C17"}, Floor: 1,
		Doc: "the constructors of pooled writer objects are used as pool factories only, never called from the write path",
		Run: runR17_5})
	register(&Rule{ID: "R19.10", Props: []string{"C19"}, Floor: 1,
		Doc: "client.onConnChannelsReached reads the connection count it compares with the maximum under client.mu",
		Run: runR19_10})
	register(&Rule{ID: "R04.10", Props: []string{"C04"}, Floor: 1,
		Doc: "the rpc client reads the transport only while recvEnd is false",
		Run: runR04_10})
	register(&Rule{ID: "R14.21", Props: []string{"C14", "C05"}, Floor: 1,
		Doc: "Type._resolve marks an import used on every path on which the type is bound to that import",
		Run: runR14_21})
	register(&Rule{ID: "R14.22", Props: []string{"C14"}, Floor: 1,
		Doc: "Context.getPackage returns a cached package only behind Compiling == false",
		Run: runR14_22})
	register(&Rule{ID: "R16.5", Props: []string{"C16", "C01"}, Floor: 1,
		Doc: "messageStack.insert places a field by comparing its tag with the stored tags (the table searched by hasField stays sorted)",
		Run: runR16_5})
}

func runR07_10(c *Ctx, r *R) {
	funcs := mpxSrc(c)
	blocks := map[*ssa.Function]bool{}
	for _, f := range funcs {
		allInstrs(f, func(i ssa.Instruction) {
			if s, ok := i.(*ssa.Select); ok && s.Blocking {
				for _, st := range s.States {
					if valueSource(st.Chan) == ".sendWindowWait" {
						blocks[f] = true
					}
				}
			}
		})
	}
	// a function that only forwards to a blocking one counts as blocking (awaitSendWindow called by decrementSendWindow)
	for changed := true; changed; {
		changed = false
		for _, f := range funcs {
			if blocks[f] || f.Parent() != nil || !typeIsRecv(f, "channelState") {
				continue
			}
			for _, call := range callsIn(f, false) {
				if h := call.Common().StaticCallee(); h != nil && blocks[h] {
					blocks[f] = true
					changed = true
				}
			}
		}
	}
	n := 0
	for _, f := range funcs {
		if blocks[f] {
			continue
		}
		k := 0
		for _, call := range callsIn(f, false) {
			h := call.Common().StaticCallee()
			if h == nil || !blocks[h] {
				continue
			}
			k++
			n++
			key := fmt.Sprintf("%s/wait-under-lock#%d", fnKey(f), k)
			held := ""
			for _, lk := range callsIn(f, false) {
				fld := mutexFieldOf(lk, "Lock")
				if fld == nil || !dominatesInstr(lk.(ssa.Instruction), call.(ssa.Instruction)) {
					continue
				}
				released := false
				for _, ul := range callsIn(f, false) {
					if _, isDefer := ul.(*ssa.Defer); isDefer {
						continue
					}
					if mutexFieldOf(ul, "Unlock") == fld && reachesInstr(lk.(ssa.Instruction), ul.(ssa.Instruction)) && reachesInstr(ul.(ssa.Instruction), call.(ssa.Instruction)) {
						released = true
					}
				}
				if !released {
					held = fld.Name()
				}
			}
			if held != "" {
				r.OK(key, call.Pos(), "called with %s held", held)
			} else {
				r.Bad(key, call.Pos(), "%s waits for send window without holding the sender's mutex: several senders can wait at once, a window update posts one wake token - one sender proceeds, the others stay blocked although the window covers their messages (and two woken senders can both debit the same window)", h.Name())
			}
		}
	}
	if n == 0 {
		r.Unk("mpx/flow-control/wait-sites", 0, "anchor lost: no call of a function that waits for send window")
	}
}

func runR06_9(c *Ctx, r *R) {
	f := r.Need("mpx", "channel.tryAcquire")
	if f == nil {
		return
	}
	key := fnKey(f) + "/cas-increment"
	var cas *ssa.Call
	bad := ""
	for _, call := range callsIn(f, false) {
		cal := call.Common().StaticCallee()
		if cal == nil || len(call.Common().Args) == 0 {
			continue
		}
		fa, ok := call.Common().Args[0].(*ssa.FieldAddr)
		if !ok || fieldOf(fa).Name() != "refs" {
			continue
		}
		switch cal.Name() {
		case "Add", "Store", "Swap":
			bad = fmt.Sprintf("the count is changed by %s at %s", cal.Name(), c.pos(call.Pos()))
		case "CompareAndSwap":
			if cv, ok := call.(*ssa.Call); ok {
				cas = cv
			}
		}
	}
	switch {
	case bad != "":
		r.Bad(key, f.Pos(), "%s instead of a CompareAndSwap from the observed value: the last release can run between the test `refs > 0` and the increment - the count goes 1 -> 0 (state freed and pooled) -> 1 and the receive path uses a freed channel state", bad)
	case cas == nil:
		r.Bad(key, f.Pos(), "tryAcquire does not take its reference by CompareAndSwap")
	default:
		// old value observed > 0: the CAS is not reachable through the `refs <= 0` edge
		old := cas.Call.Args[1]
		good := false
		if lb, ok := lowerBoundAt(cas.Block(), old); ok && lb >= 1 {
			good = true
		}
		r.Check(good, key, cas.Pos(), "reference taken by CompareAndSwap(refs, refs+1) with refs observed > 0", "the CompareAndSwap can run with an observed count <= 0: a freed channel is revived")
	}
}

func runR12_11(c *Ctx, r *R) {
	f := r.Need(writerPkg, "writerState.init")
	if f == nil {
		return
	}
	at := mustCallsAtExit(f)
	for _, lbl := range []string{"stack.reset", "elements.reset", "fields.reset"} {
		key := fnKey(f) + "/resets:" + lbl
		if at[lbl] {
			r.OK(key, f.Pos(), "reset on every path")
		} else {
			r.Bad(key, f.Pos(), "writerState.init does not call %s on every path: after Reset on a writer with unfinished objects stale entries survive - the next root value fails with 'not root value', End on a stale handle slices with stale offsets (panic)", lbl)
		}
	}
}

func runR17_5(c *Ctx, r *R) {
	n := 0
	for _, name := range []string{"newWriterState", "newWriter"} {
		f := c.Func(writerPkg, name)
		if f == nil {
			continue
		}
		n++
		key := fnKey(f) + "/factory-only"
		sites, _ := sitesOf(f)
		var bad []string
		for _, s := range sites {
			caller := s.Parent()
			root := caller
			for root.Parent() != nil {
				root = root.Parent()
			}
			// allowed: package initialiser (pool New function literals), exported constructors of user-owned writers
			if root.Name() == "init" || strings.HasPrefix(root.Name(), "New") || strings.HasPrefix(root.Name(), "new") {
				continue
			}
			bad = append(bad, fnKey(caller)+" at "+c.pos(s.Pos()))
		}
		if len(bad) == 0 {
			r.OK(key, f.Pos(), "called only as a pool factory / from constructors")
		} else {
			r.Bad(key, f.Pos(), "%s is called from the write path (%v): a fresh %s is allocated there instead of taking one from the pool - one allocation per message in a Reset/Free cycle", name, bad, strings.TrimPrefix(name, "new"))
		}
	}
	if n == 0 {
		r.Unk(writerPkg+"/constructors", 0, "anchor lost: newWriterState / newWriter not found")
	}
}

func runR19_10(c *Ctx, r *R) {
	f := r.Need("mpx", "client.onConnChannelsReached")
	if f == nil {
		return
	}
	spec := lockSpecs[1]
	la := &lockAn{c: c, spec: spec, held: map[*ssa.Function]*FlowResult{}, requires: map[*ssa.Function]bool{}, why: map[*ssa.Function][]lockSite{}}
	n := 0
	for _, call := range callsIn(f, false) {
		if o := calleeObj(call); o == nil || objName(o) != "client.connect" {
			continue
		}
		n++
		key := fmt.Sprintf("%s/count-under-lock#%d", fnKey(f), n)
		// the loads of the connection set in this function: each must be evaluated under the lock
		bad := ""
		loads := 0
		for _, c2 := range callsIn(f, false) {
			if !isFieldCall2(c2, "conns", "Load") {
				continue
			}
			loads++
			if !la.protectedAt(f, c2.(ssa.Instruction)) {
				bad = c.pos(c2.Pos())
			}
		}
		switch {
		case !la.protectedAt(f, call.(ssa.Instruction)):
			r.Bad(key, call.Pos(), "connect() is called without client.mu")
		case bad != "":
			r.Bad(key, call.Pos(), "the connection count compared with the maximum is read at %s before client.mu is taken: a callback delayed between the read and the lock acts on a stale count and opens a connection beyond the configured maximum", bad)
		case loads == 0:
			r.Unk(key, call.Pos(), "anchor lost: the connection set is not read in onConnChannelsReached")
		default:
			r.OK(key, call.Pos(), "count read and connect() under client.mu")
		}
	}
	if n == 0 {
		r.Unk(fnKey(f)+"/connect", f.Pos(), "anchor lost: onConnChannelsReached does not call connect()")
	}
}

func runR04_10(c *Ctx, r *R) {
	n := 0
	for _, name := range []string{"channel.Receive", "channel.ReceiveAsync"} {
		f := c.Func("rpc", name)
		if f == nil {
			continue
		}
		k := 0
		for _, call := range callsIn(f, false) {
			o := calleeObj(call)
			if o == nil {
				continue
			}
			on := objName(o)
			// reads of the transport: the state's receive helpers and the mpx channel's Receive*
			isRead := strings.HasPrefix(on, "channelState.receive") && !strings.HasPrefix(on, "channelState.receiveFail")
			if call.Common().IsInvoke() && strings.HasPrefix(call.Common().Method.Name(), "Receive") {
				isRead = true
			}
			if !isRead {
				continue
			}
			k++
			n++
			key := fmt.Sprintf("%s/no-read-after-end#%d", fnKey(f), k)
			good := false
			for _, cd := range pathConds(call.Block()) {
				v, truth := cd.V, cd.Truth
				for {
					un, isNot := v.(*ssa.UnOp)
					if !isNot || un.Op != token.NOT {
						break
					}
					v, truth = un.X, !truth
				}
				if ld, ok := v.(*ssa.UnOp); ok && ld.Op == token.MUL && strings.HasSuffix(valueSource(ld), ".recvEnd") && !truth {
					good = true
				}
			}
			if good {
				r.OK(key, call.Pos(), "the transport is read only while recvEnd is false")
			} else {
				r.Bad(key, call.Pos(), "%s reads the transport although the end of the stream may already have been received: the closed channel answers End, that is recorded as a receive failure, and Response() returns it instead of the stashed result of the call", f.Name())
			}
		}
	}
	if n == 0 {
		r.Unk("rpc.channel/receive", 0, "anchor lost: no transport read in channel.Receive / ReceiveAsync")
	}
}

func runR14_21(c *Ctx, r *R) {
	f := r.Need("internal/lang/model", "Type._resolve")
	if f == nil {
		return
	}
	key := fnKey(f) + "/import-used"
	var impStore, usedStore *ssa.Store
	allInstrs(f, func(i ssa.Instruction) {
		st, ok := i.(*ssa.Store)
		if !ok {
			return
		}
		fa, ok := st.Addr.(*ssa.FieldAddr)
		if !ok {
			return
		}
		switch fieldOf(fa).Name() {
		case "Import":
			impStore = st
		case "Used":
			if k, isK := st.Val.(*ssa.Const); isK && k.Value != nil && k.Value.String() == "true" {
				usedStore = st
			}
		}
	})
	if impStore == nil || usedStore == nil {
		r.Unk(key, f.Pos(), "anchor lost: Type._resolve does not bind the import / mark it used")
		return
	}
	// the mark may be conditioned on the import being present, on nothing else
	bad := ""
	for _, cd := range pathConds(usedStore.Block()) {
		isNilTest := false
		for _, rel := range relsOf(cd) {
			if (rel.Op == token.NEQ || rel.Op == token.EQL) && (isNilConst(rel.X) || isNilConst(rel.Y)) {
				isNilTest = true
			}
		}
		covered := false
		for _, c0 := range pathConds(impStore.Block()) {
			if c0 == cd {
				covered = true
			}
		}
		if !isNilTest && !covered {
			bad = cd.V.String()
		}
	}
	if bad == "" {
		r.OK(key, usedStore.Pos(), "an import is marked used wherever a type is bound to it")
	} else {
		r.Bad(key, usedStore.Pos(), "the import is marked used only under an extra condition (%s): a reference that does not satisfy it (a service named only as a subservice result) leaves the import unused, its import line is not generated and the RPC code that names the package does not compile", bad)
	}
}

func runR14_22(c *Ctx, r *R) {
	f := r.Need("internal/lang/model", "Context.getPackage")
	if f == nil {
		return
	}
	n := 0
	for _, ret := range returnsOf(f) {
		if len(ret.Results) != 2 || !isNilConst(ret.Results[1]) {
			continue
		}
		// the cached package: a value read from the Packages map
		v := unspill(ret.Results[0])
		ex, ok := v.(*ssa.Extract)
		if !ok {
			continue
		}
		if _, isLookup := ex.Tuple.(*ssa.Lookup); !isLookup {
			continue
		}
		n++
		key := fmt.Sprintf("%s/cached-not-compiling#%d", fnKey(f), n)
		good := false
		for _, cd := range pathConds(ret.Block()) {
			v2, truth := cd.V, cd.Truth
			for {
				un, isNot := v2.(*ssa.UnOp)
				if !isNot || un.Op != token.NOT {
					break
				}
				v2, truth = un.X, !truth
			}
			if ld, ok := v2.(*ssa.UnOp); ok && ld.Op == token.MUL && strings.HasSuffix(valueSource(ld), ".Compiling") && !truth {
				good = true
			}
		}
		if good {
			r.OK(key, ret.Pos(), "a cached package is handed to an importer only when it is not being compiled")
		} else {
			r.Bad(key, ret.Pos(), "getPackage returns a cached package without testing Compiling: a package reached again through its own imports is accepted - import cycles compile and the generated Go packages fail with 'import cycle not allowed'")
		}
	}
	if n == 0 {
		r.Unk(fnKey(f)+"/cached", f.Pos(), "anchor lost: getPackage does not return a cached package")
	}
}

func runR16_5(c *Ctx, r *R) {
	ins := r.Need(writerPkg, "messageStack.insert")
	has := c.Func(writerPkg, "messageStack.hasField")
	if ins == nil {
		return
	}
	key := fnKey(ins) + "/ordered-insert"
	binary := false
	if has != nil {
		for _, call := range callsIn(has, true) {
			if o := calleeObj(call); o != nil && o.Pkg() != nil && (o.Pkg().Path() == "sort" || o.Pkg().Path() == "slices") {
				binary = true
			}
		}
	}
	if !binary {
		r.OK(key, ins.Pos(), "hasField does not rely on order")
		return
	}
	// insert compares the tag of the new field with the tag of a stored entry
	compares := false
	isTag := func(v ssa.Value) bool {
		switch x := v.(type) {
		case *ssa.Field:
			return fieldOf(x).Name() == "Tag"
		case *ssa.UnOp:
			if fa, ok := x.X.(*ssa.FieldAddr); ok && x.Op == token.MUL {
				return fieldOf(fa).Name() == "Tag"
			}
		}
		return false
	}
	allInstrs(ins, func(i ssa.Instruction) {
		b, ok := i.(*ssa.BinOp)
		if !ok {
			return
		}
		switch b.Op {
		case token.LSS, token.GTR, token.LEQ, token.GEQ:
			if isTag(b.X) && isTag(b.Y) {
				compares = true
			}
		}
	})
	if compares {
		r.OK(key, ins.Pos(), "the new field is placed by comparing its tag with stored tags")
	} else {
		r.Bad(key, ins.Pos(), "messageStack.insert does not order the new field by tag while hasField binary-searches the pending table: a field written out of tag order is not found, Merge/Copy writes the source's version of it as a duplicate and readers see the stale value")
	}
}

var _ = types.Typ
