package main

import (
	"golang.org/x/tools/go/ssa"
)

// storedBefore: the function that contains `load` stores into the field path base.<names...> (or a prefix / an
// extension of it) at a point from which the load can be reached. Such a load is not the "stable" value of the field
// the function was entered with, even under stablePtrFields.
func (e *BE) storedBefore(base ssa.Value, names []string, load ssa.Instruction) bool {
	fn := load.Parent()
	if fn == nil {
		return false
	}
	found := false
	allInstrs(fn, func(i ssa.Instruction) {
		st, ok := i.(*ssa.Store)
		if !ok || found {
			return
		}
		var sn []string
		addr := st.Addr
		for {
			fa, ok := addr.(*ssa.FieldAddr)
			if !ok {
				break
			}
			sn = append([]string{fieldOf(fa).Name()}, sn...)
			addr = fa.X
		}
		if addr != base || len(sn) == 0 {
			return
		}
		n := len(sn)
		if len(names) < n {
			n = len(names)
		}
		for k := 0; k < n; k++ {
			if sn[k] != names[k] {
				return
			}
		}
		if reachesInstr(st, load) {
			found = true
		}
	})
	return found
}
