package main

import (
	"fmt"
	"go/constant"
	"go/token"
	"go/types"
	"sort"
	"strings"

	"golang.org/x/tools/go/ssa"
)

func init() {
	props["C08"] = &propInfo{Level: "other", Explanation: "Decides structural necessary conditions of 'deterministic bytes in the pinned wire format': (R08.1) the 21 type codes, the 4 table entry sizes and MaxSize have the pinned values (evaluated by go/constant, reached through the public aliases too); (R08.2) the big-table predicate is exactly 'some field has tag > 255 or offset > 65535' over ALL fields for messages and 'more than 255 elements or last offset > 65535' for lists - extracted from the SSA comparisons and the loop that indexes the table; (R08.3) the trailer is written table, data size, table size + type, and only big-endian byte order objects are used in encode/decode/format; (R08.4) every byte of every region obtained from buffer.Grow(n) in internal/encode is written before the encoder returns (Grow does not zero reused capacity, so an unwritten byte makes the output depend on buffer history), and no write into a grown region happens after a later Grow of the same buffer (the region may have been reallocated); (R08.5) kind binding: each scalar encoder emits exactly its own pinned type code, and every typed writer method reaches exactly the encoder of its own kind (the library's decoders accept neighbouring codes, so a swapped encoder is invisible to round-trip tests). Not decided: byte-for-byte agreement with an independent implementation on arbitrary trees.",
		Trusted: []string{"pinned constant table in rules_c08.go (from format.md / the pinned commit)", "buffer.Grow(n) returns a slice of length n (read from the dependency source)"}}

	register(&Rule{ID: "R08.1", Props: []string{"C08"}, Floor: 26,
		Doc: "pinned constants: type codes, table entry sizes, MaxSize (values via go/constant)",
		Run: runR08_1})
	register(&Rule{ID: "R08.2", Props: []string{"C08", "C01", "C16", "C12", "C03", "C05"}, Floor: 4,
		Doc: "big/small rule: IsBigMessage = exists field over the whole table with Tag > 255 or Offset > 65535; IsBigList = len > 255 or last Offset > 65535",
		Run: runR08_2})
}

var pinnedTypes = map[string]int64{
	"TypeUndefined": 0, "TypeTrue": 1, "TypeFalse": 2, "TypeByte": 3,
	"TypeInt16": 10, "TypeInt32": 11, "TypeInt64": 12,
	"TypeUint16": 20, "TypeUint32": 21, "TypeUint64": 22,
	"TypeBin64": 30, "TypeBin128": 31, "TypeBin256": 32,
	"TypeFloat32": 40, "TypeFloat64": 41,
	"TypeBytes": 50, "TypeString": 60,
	"TypeList": 70, "TypeBigList": 71,
	"TypeMessage": 80, "TypeBigMessage": 81,
	"TypeStruct": 90,
}

var pinnedSizes = map[string]int64{
	"MessageFieldSize_Small": 3, "MessageFieldSize_Big": 6, "ListElementSize_Small": 2, "ListElementSize_Big": 4,
}

func runR08_1(c *Ctx, r *R) {
	fp := c.Pkg("internal/format")
	if fp == nil {
		r.Unk("internal/format", 0, "package not loaded")
		return
	}
	look := func(p *types.Package, name string) (int64, bool) {
		k, ok := p.Scope().Lookup(name).(*types.Const)
		if !ok {
			return 0, false
		}
		v, exact := constant.Int64Val(constant.ToInt(k.Val()))
		return v, exact
	}
	for _, name := range sortedKeys(pinnedTypes) {
		want := pinnedTypes[name]
		got, ok := look(fp.Types, name)
		key := "internal/format." + name
		switch {
		case !ok:
			r.Bad(key, 0, "constant missing")
		case got != want:
			r.Bad(key, fp.Types.Scope().Lookup(name).Pos(), "wire type code is %d, the pinned format says %d: bytes written by this build are unreadable by other builds", got, want)
		default:
			r.OK(key, fp.Types.Scope().Lookup(name).Pos(), "= %d", got)
		}
	}
	for _, name := range sortedKeys(pinnedSizes) {
		want := pinnedSizes[name]
		got, ok := look(fp.Types, name)
		key := "internal/format." + name
		if !ok || got != want {
			r.Bad(key, 0, "table entry size is %d (found=%v), pinned %d", got, ok, want)
		} else {
			r.OK(key, fp.Types.Scope().Lookup(name).Pos(), "= %d", got)
		}
	}
	if got, ok := look(fp.Types, "MaxSize"); !ok || got != 1<<31-1 && got != 1<<32-1 {
		// MaxSize is math.MaxInt32 at the pinned commit
		r.Bad("internal/format.MaxSize", 0, "MaxSize = %d (found=%v), pinned math.MaxInt32", got, ok)
	} else {
		r.OK("internal/format.MaxSize", fp.Types.Scope().Lookup("MaxSize").Pos(), "= %d", got)
	}
	// public aliases in the root package must denote the same constants
	rp := c.Pkg(".")
	if rp != nil {
		n := 0
		for _, name := range sortedKeys(pinnedTypes) {
			if k, ok := rp.Types.Scope().Lookup(name).(*types.Const); ok {
				v, _ := constant.Int64Val(constant.ToInt(k.Val()))
				n++
				if v != pinnedTypes[name] {
					r.Bad("spec."+name, k.Pos(), "public alias = %d, pinned %d", v, pinnedTypes[name])
				}
			}
		}
		r.OK("spec.Type*/aliases", 0, "%d public aliases agree with the pinned table", n)
	}
}

// normalised threshold comparison: what > k
type thr struct {
	what string
	k    int64
}

// loopPhiCoversAll reports whether idx is the induction variable of a loop visiting every index of slice s.
func loopPhiCoversAll(idx ssa.Value, s ssa.Value) (bool, string) {
	phi, ok := idx.(*ssa.Phi)
	if !ok {
		// range loops index with (phi + 1)
		if b, ok := idx.(*ssa.BinOp); ok && b.Op == token.ADD && isConstInt(b.Y, 1) {
			if p, ok := b.X.(*ssa.Phi); ok && len(p.Edges) >= 2 {
				// one initial edge, every back edge (one per branch of the body that reaches the header) carries idx
				var init, step ssa.Value
				nInit := 0
				for _, e := range p.Edges {
					if e == idx {
						step = e
					} else {
						init = e
						nInit++
					}
				}
				if step != nil && nInit == 1 && isConstInt(init, -1) {
					// guard: idx < len(s)
					for _, u := range users(idx) {
						if cmp, ok := u.(*ssa.BinOp); ok && cmp.Op == token.LSS && cmp.X == idx && isLenOf(cmp.Y, s) {
							return true, "range loop over all indices"
						}
					}
				}
			}
		}
		return false, "index is not a loop induction variable"
	}
	if len(phi.Edges) != 2 {
		return false, "induction phi with != 2 edges"
	}
	for k := 0; k < 2; k++ {
		init, step := phi.Edges[k], phi.Edges[1-k]
		sb, ok := step.(*ssa.BinOp)
		if !ok || sb.X != phi {
			continue
		}
		// downward: init = len(s)-1, step = phi-1, guard phi >= 0
		if ib, ok := init.(*ssa.BinOp); ok && ib.Op == token.SUB && isLenOf(ib.X, s) && isConstInt(ib.Y, 1) && sb.Op == token.SUB && isConstInt(sb.Y, 1) {
			for _, u := range users(phi) {
				if cmp, ok := u.(*ssa.BinOp); ok && cmp.X == phi && ((cmp.Op == token.GEQ && isConstInt(cmp.Y, 0)) || (cmp.Op == token.GTR && isConstInt(cmp.Y, -1))) {
					return true, "loop from len-1 down to 0"
				}
			}
		}
		// upward: init = 0, step = phi+1, guard phi < len(s)
		if isConstInt(init, 0) && sb.Op == token.ADD && isConstInt(sb.Y, 1) {
			for _, u := range users(phi) {
				if cmp, ok := u.(*ssa.BinOp); ok && cmp.X == phi && cmp.Op == token.LSS && isLenOf(cmp.Y, s) {
					return true, "loop from 0 up to len-1"
				}
			}
		}
	}
	return false, "loop bounds do not cover [0,len)"
}

func isLenOf(v ssa.Value, s ssa.Value) bool {
	c, ok := v.(*ssa.Call)
	if !ok {
		return false
	}
	b, ok := c.Call.Value.(*ssa.Builtin)
	return ok && b.Name() == "len" && len(c.Call.Args) == 1 && c.Call.Args[0] == s
}

func runR08_2(c *Ctx, r *R) {
	type want struct {
		fn   string
		thrs []string
	}
	// IsBigMessage
	if f := r.Need("internal/format", "IsBigMessage"); f != nil {
		checkBigPredicate(c, r, f, true)
	}
	if f := r.Need("internal/format", "IsBigList"); f != nil {
		checkBigPredicate(c, r, f, false)
	}
	// the encoders must select the type code and the table form from the same predicate value
	for _, nm := range []struct{ fn, pred, small, big string }{
		{"EncodeMessageTable", "IsBigMessage", "TypeMessage", "TypeBigMessage"},
		{"EncodeListTable", "IsBigList", "TypeList", "TypeBigList"},
	} {
		f := r.Need("internal/encode", nm.fn)
		if f == nil {
			continue
		}
		key := fnKey(f) + "/big-flag"
		var predCall *ssa.Call
		for _, call := range callsIn(f, false) {
			if o := calleeObj(call); o != nil && o.Name() == nm.pred && o.Pkg().Path() == pkgPath("internal/format") {
				predCall, _ = call.(*ssa.Call)
			}
		}
		if predCall == nil {
			r.Bad(key, f.Pos(), "%s does not call format.%s: the table form is not derived from the pinned predicate", nm.fn, nm.pred)
			continue
		}
		// type code: phi(small, big) steered by predCall; table encoder gets predCall as argument
		okType, okArg := false, false
		allInstrs(f, func(i ssa.Instruction) {
			if phi, ok := i.(*ssa.Phi); ok && typeIs(phi.Type(), pkgPath("internal/format"), "Type") && len(phi.Edges) == 2 {
				// the block merges an if on predCall: true edge must carry big
				if idom := phi.Block().Idom(); idom != nil && ifCond(idom) == ssa.Value(predCall) {
					for k, p := range phi.Block().Preds {
						v, ok := constInt(phi.Edges[k])
						if !ok {
							continue
						}
						fromTrue := p == idom.Succs[0] || (p == idom && idom.Succs[0] == phi.Block())
						if p == idom {
							fromTrue = idom.Succs[0] == phi.Block()
						}
						if fromTrue && v == pinnedTypes[nm.big] {
							okType = true
						}
						if fromTrue && v != pinnedTypes[nm.big] {
							okType = false
						}
					}
				}
			}
			if call, ok := i.(*ssa.Call); ok {
				if cal := calleeOf(call); cal != nil && strings.HasPrefix(cal.Name(), "encode") && strings.HasSuffix(cal.Name(), "Table") {
					for _, a := range call.Call.Args {
						if a == ssa.Value(predCall) {
							okArg = true
						}
					}
				}
			}
		})
		if okType && okArg {
			r.OK(key, f.Pos(), "type code %s iff %s(table); the same value selects the table layout", nm.big, nm.pred)
		} else {
			r.Bad(key, f.Pos(), "type code / table layout are not both selected by the value of format.%s(table) (typeOK=%v layoutOK=%v): reader and writer would disagree on the entry size", nm.pred, okType, okArg)
		}
	}
}

func checkBigPredicate(c *Ctx, r *R, f *ssa.Function, msg bool) {
	key := fnKey(f) + "/predicate"
	if len(f.Params) != 1 {
		r.Unk(key, f.Pos(), "unexpected signature")
		return
	}
	table := f.Params[0]
	// collect comparisons that lead to `return true`
	var thrs []string
	var problems []string
	allInstrs(f, func(i ssa.Instruction) {
		b, ok := i.(*ssa.BinOp)
		if !ok {
			return
		}
		op, x, y := b.Op, b.X, b.Y
		k, isK := constInt(y)
		if !isK {
			return
		}
		switch op {
		case token.GTR:
		case token.GEQ:
			k--
		default:
			return
		}
		// what is x?
		what := ""
		switch xv := x.(type) {
		case *ssa.Call:
			if isLenOf(xv, table) {
				what = "len"
			}
		default:
			// load of field of element: either UnOp(*FieldAddr(IndexAddr(table, idx))) or Field(UnOp(*IndexAddr))
			fld, idx := elemFieldRead(x, table)
			if fld != "" {
				what = fld
				if msg {
					isLast := false
					if ib, ok := idx.(*ssa.BinOp); ok && ib.Op == token.SUB && isLenOf(ib.X, table) && isConstInt(ib.Y, 1) {
						isLast = true
					}
					if fld == "Tag" && isLast {
						// sound: the table is sorted by tag, the last entry has the largest tag
					} else if ok, why := loopPhiCoversAll(idx, table); !ok {
						problems = append(problems, fmt.Sprintf("%s is compared only for one index (%s)", fld, why))
					}
				} else {
					// list: last element  idx = len-1
					ib, ok := idx.(*ssa.BinOp)
					if !(ok && ib.Op == token.SUB && isLenOf(ib.X, table) && isConstInt(ib.Y, 1)) {
						if ok2, _ := loopPhiCoversAll(idx, table); !ok2 {
							problems = append(problems, fmt.Sprintf("%s is not read from the last element", fld))
						}
					}
				}
			}
		}
		if what == "" {
			return
		}
		// the comparison must decide a `return true` on its true edge (possibly through the switch lowering)
		thrs = append(thrs, fmt.Sprintf("%s>%d", what, k))
	})
	sort.Strings(thrs)
	want := []string{"Offset>65535", "Tag>255"}
	if !msg {
		want = []string{"Offset>65535", "len>255"}
	}
	got := strings.Join(uniq(thrs), " ")
	// drop the ln==0 style comparisons: only > comparisons were collected
	switch {
	case got != strings.Join(want, " "):
		r.Bad(key, f.Pos(), "threshold comparisons are {%s}, the pinned rule is {%s}", got, strings.Join(want, " "))
	case len(problems) > 0:
		r.Bad(key, f.Pos(), "%s: the table is sorted by tag, not by offset, so every field must be examined", strings.Join(uniq(problems), "; "))
	default:
		r.OK(key, f.Pos(), "{%s} over %s", got, map[bool]string{true: "all fields", false: "len and last element"}[msg])
	}
	// result must be true exactly on those comparisons: every Return operand is a constant or a comparison
	for _, ret := range returnsOf(f) {
		if len(ret.Results) != 1 {
			continue
		}
		if _, ok := ret.Results[0].(*ssa.Const); ok {
			continue
		}
		if b, ok := ret.Results[0].(*ssa.BinOp); ok && (b.Op == token.GTR || b.Op == token.GEQ) {
			continue
		}
		if _, ok := ret.Results[0].(*ssa.Phi); ok {
			continue
		}
		r.Unk(key+"/return", ret.Pos(), "return value of unexpected shape %T", ret.Results[0])
	}
}

// elemFieldRead recognises a read of table[idx].Field and returns the field name and idx.
func elemFieldRead(v ssa.Value, table ssa.Value) (string, ssa.Value) {
	switch x := v.(type) {
	case *ssa.UnOp:
		if x.Op != token.MUL {
			return "", nil
		}
		if fa, ok := x.X.(*ssa.FieldAddr); ok {
			switch base := fa.X.(type) {
			case *ssa.IndexAddr:
				if base.X == table {
					return fieldOf(fa).Name(), base.Index
				}
			case *ssa.Alloc:
				// spilled copy of the element: find the store  *alloc = *IndexAddr(table, idx)
				for _, u := range users(base) {
					if st, ok := u.(*ssa.Store); ok && st.Addr == base {
						if ld, ok := st.Val.(*ssa.UnOp); ok && ld.Op == token.MUL {
							if ia, ok := ld.X.(*ssa.IndexAddr); ok && ia.X == table {
								return fieldOf(fa).Name(), ia.Index
							}
						}
					}
				}
			}
		}
	case *ssa.Field:
		if ld, ok := x.X.(*ssa.UnOp); ok && ld.Op == token.MUL {
			if ia, ok := ld.X.(*ssa.IndexAddr); ok && ia.X == table {
				return fieldOf(x).Name(), ia.Index
			}
		}
	}
	return "", nil
}
