package main

import (
	"fmt"
	"go/token"
	"go/types"
	"sort"
	"strings"

	"golang.org/x/tools/go/ssa"
)

func init() {
	props["C09"] = &propInfo{Level: "other", Explanation: "Decides structural necessary conditions of 'a transport failure terminates every blocked operation with a non-OK status': (R09.1) every blocking select in mpx and rpc has a case on a channel that the connection/channel teardown closes or signals - a Wait()/ReadWait()/WriteWait()/ReceiveWait() obtained from a field of the connection or channel state (closed flag, channel context, receive queue, write queue) or from a routine/future - the caller's context parameter alone does not count because conn.close does not cancel it; (R09.2) close is total: past the idempotence check conn.close calls ctx.Cancel, the socket Close, closed.Set, writeq.Close, closeChannels, delegate.onConnClosed and notifyClosed on every path (deferred calls included); conn.run defers close and free; channelState.close cancels the channel context and closes the receive queue; closeChannels removes and frees the remaining channels; (R09.3) connReader.read returns a non-nil frame only after both io.ReadFull calls succeeded; (R09.4) failures are never turned into success: on the failing edge of every st.OK() test and every err != nil test in mpx and rpc, a returned status is not OK (provenance lattice), and mpxError maps a non-nil error to a non-OK status; (R09.5) clientConns.roundRobin returns only connections whose Closed() flag is unset. Not decided: bounded time, goroutine release, reconnection after the fault.",
		Trusted: []string{"closing/cancelling the listed sources wakes their waiters (dependency semantics of async.Flag, async.Context, bytequeue)", "status provenance lattice (see C11)"}}

	register(&Rule{ID: "R09.1", Props: []string{"C09", "C04"}, Floor: 8,
		Doc: "every blocking select has a teardown-driven exit",
		Run: runR09_1})
	register(&Rule{ID: "R09.2", Props: []string{"C09", "C20"}, Floor: 10,
		Doc: "close is total (must-call on all paths, defers included)",
		Run: runR09_2})
	register(&Rule{ID: "R09.3", Props: []string{"C09", "C03", "C11"}, Floor: 2,
		Doc: "no partial frame: read returns a buffer only after header and body ReadFull succeeded",
		Run: runR09_3})
	register(&Rule{ID: "R09.4", Props: []string{"C09", "C04"}, Floor: 40,
		Doc: "failure discipline: a status returned on the failing edge of an OK()/err!=nil test is never OK",
		Run: runR09_4})
	register(&Rule{ID: "R09.5", Props: []string{"C09", "C19"}, Floor: 1,
		Doc: "roundRobin never returns a closed connection",
		Run: runR09_5})
}

// waitSource describes where the channel of a select case comes from.
func waitSource(v ssa.Value) (desc string, lifetime bool) {
	switch x := v.(type) {
	case *ssa.Call:
		cc := x.Call
		name := ""
		var recv ssa.Value
		if cc.IsInvoke() {
			name, recv = cc.Method.Name(), cc.Value
		} else if cal := cc.StaticCallee(); cal != nil {
			name = cal.Name()
			if len(cc.Args) > 0 {
				recv = cc.Args[0]
			}
		}
		if recv == nil {
			return name + "()", false
		}
		src := valueSource(recv)
		if src == "" {
			switch r := recv.(type) {
			case *ssa.Parameter:
				return r.Name() + "." + name + "()", !strings.Contains(strings.ToLower(r.Name()), "ctx") && r.Name() != "cancel"
			case *ssa.Call, *ssa.Extract, *ssa.Phi:
				// routine / future / channel obtained from another call
				return "<" + recv.Type().String() + ">." + name + "()", true
			}
			return name + "()", false
		}
		return src[1:] + "." + name + "()", true
	case *ssa.UnOp:
		if src := valueSource(v); src != "" {
			return src[1:], true
		}
	case *ssa.Field, *ssa.FieldAddr:
		if src := valueSource(v); src != "" {
			return src[1:], true
		}
	case *ssa.ChangeType:
		return waitSource(x.X)
	}
	return v.Name(), false
}

func runR09_1(c *Ctx, r *R) {
	for _, rel := range []string{"mpx", "rpc"} {
		for _, fn := range c.SrcFuncs(rel) {
			pos := c.Fset.Position(fn.Pos())
			if strings.HasPrefix(baseName(pos.Filename), "test_") {
				continue
			}
			n := 0
			allInstrs(fn, func(i ssa.Instruction) {
				sel, ok := i.(*ssa.Select)
				if !ok || !sel.Blocking {
					return
				}
				n++
				key := fmt.Sprintf("%s/select#%d", fnKey(fn), n)
				var descs []string
				life := 0
				timerOnly := true
				for _, st := range sel.States {
					d, lt := waitSource(st.Chan)
					if st.Dir == types.SendOnly {
						d = "send:" + d
					}
					descs = append(descs, d)
					// a wake-up slot of the waiter itself is not a teardown source
					if lt && !strings.Contains(d, "sendWindowWait") && !strings.HasSuffix(d, ".C") {
						life++
					}
					if !strings.HasSuffix(d, ".C") {
						timerOnly = false
					}
				}
				sort.Strings(descs)
				_ = timerOnly
				if life > 0 {
					r.OK(key, sel.Pos(), "cases {%s}: woken by teardown", strings.Join(descs, ", "))
				} else {
					r.Bad(key, sel.Pos(), "blocking select with cases {%s} has no case that connection/channel teardown signals: an operation blocked here never returns after the transport fails (the caller's context is not cancelled by conn.close)", strings.Join(descs, ", "))
				}
			})
		}
	}
}

// mustCallFacts: names of callees (method names, with the field they are called through) called on every path.
func calleeLabel(call ssa.CallInstruction) string {
	cc := call.Common()
	name := ""
	var recv ssa.Value
	if cc.IsInvoke() {
		name, recv = cc.Method.Name(), cc.Value
	} else if cal := cc.StaticCallee(); cal != nil {
		name = cal.Name()
		if len(cc.Args) > 0 && cal.Signature.Recv() != nil {
			recv = cc.Args[0]
		}
	} else {
		return ""
	}
	if recv != nil {
		if src := valueSource(recv); src != "" {
			// the field directly on the receiver object (embedded fields further down are promoted methods)
			parts := strings.Split(src, ".")
			return parts[1] + "." + name
		}
	}
	return name
}

func mustCalls(fn *ssa.Function) (atExit Facts, res *FlowResult) {
	return mustCallsGuarded(fn, "")
}

// mustCallsGuarded: like mustCalls, with the idempotence early-exit of fn taken out: the edge on which the call
// <guard> (field.Method) says "already done" - IsSet()/Load() true, CompareAndSwap false - is infeasible for the
// purpose of the must-analysis, whether the function returns at once behind it or skips a block and falls through
// to a shared return (`if ok { cancel; close }`).
func mustCallsGuarded(fn *ssa.Function, guard string) (atExit Facts, res *FlowResult) {
	fl := &Flow{Must: true, Entry: Facts{}}
	if guard != "" {
		fl.Edge = func(from *ssa.BasicBlock, k int, f Facts) {
			iff, ok := from.Instrs[len(from.Instrs)-1].(*ssa.If)
			if !ok || from.Succs[0] == from.Succs[1] {
				return
			}
			cv, truth := iff.Cond, k == 0
			for {
				un, isNot := cv.(*ssa.UnOp)
				if !isNot || un.Op != token.NOT {
					break
				}
				cv, truth = un.X, !truth
			}
			call, isCall := cv.(*ssa.Call)
			if !isCall || calleeLabel(call) != guard {
				return
			}
			done := truth
			if strings.HasSuffix(guard, "CompareAndSwap") {
				done = !truth
			}
			if done {
				f["BOT"] = true
			}
		}
	}
	fl.Transfer = func(i ssa.Instruction, f Facts) {
		if call, ok := i.(ssa.CallInstruction); ok {
			if l := calleeLabel(call); l != "" {
				f[l] = true // deferred calls run before the function returns: counted at registration
			}
			// a helper of the same package (conn.runLoops called by conn.run): what it calls on all of its own
			// paths is called here too
			if _, isGo := i.(*ssa.Go); !isGo {
				if h := call.Common().StaticCallee(); h != nil && h != fn && h.Blocks != nil && h.Pkg != nil && h.Pkg == fn.Pkg && h.Synthetic == "" {
					for l := range mustCallsAtExit(h) {
						f[l] = true
					}
				}
			}
			// deferred closures: count the calls inside
			if d, ok := i.(*ssa.Defer); ok {
				if mc, ok := d.Call.Value.(*ssa.MakeClosure); ok {
					if cf, ok := mc.Fn.(*ssa.Function); ok {
						for _, c2 := range callsIn(cf, false) {
							if l := calleeLabel(c2); l != "" {
								f[l] = true
							}
						}
					}
				}
			}
		}
	}
	res = fl.Run(fn)
	for _, ret := range returnsOf(fn) {
		if ret.Block() == fn.Recover {
			continue
		}
		f := res.At(ret)
		if f == nil {
			continue
		}
		if atExit == nil {
			atExit = f.clone()
		} else {
			for k := range atExit {
				if !f[k] {
					delete(atExit, k)
				}
			}
		}
	}
	if atExit == nil {
		atExit = Facts{}
	}
	return
}

func runR09_2(c *Ctx, r *R) {
	type spec struct {
		fn    string
		need  []string
		guard string // description of the early-exit that is allowed to skip the calls
	}
	specs := []spec{
		{"conn.close", []string{"ctx.Cancel", "conn.Close", "closed.Set", "writeq.Close", "closeChannels", "delegate.onConnClosed", "notifyClosed"}, "closed.IsSet"},
		{"conn.run", []string{"close", "free"}, ""},
		{"channelState.close", []string{"ctx.Cancel", "recvQueue.Close"}, "closed.CompareAndSwap"},
		{"conn.closeChannels", []string{"channels.Range"}, "channelsClosed.Load"},
	}
	for _, sp := range specs {
		f := r.Need("mpx", sp.fn)
		if f == nil {
			continue
		}
		_, res := mustCallsGuarded(f, sp.guard)
		// facts at each return; returns directly behind the idempotence guard may skip
		for _, need := range sp.need {
			key := fmt.Sprintf("%s/must-call:%s", fnKey(f), need)
			ok := true
			nRet := 0
			for _, ret := range returnsOf(f) {
				if ret.Block() == f.Recover {
					continue
				}
				fa := res.At(ret)
				if fa == nil || fa["BOT"] {
					continue
				}
				if sp.guard != "" && returnBehindGuard(ret, sp.guard) {
					continue
				}
				nRet++
				if !fa[need] {
					ok = false
				}
			}
			if nRet == 0 {
				ok = false
			}
			if ok {
				r.OK(key, f.Pos(), "called on every path past the idempotence check")
			} else {
				r.Bad(key, f.Pos(), "%s does not call %s on every path: after a transport failure some waiter or resource of the connection is never released", sp.fn, need)
			}
		}
	}
	// closeChannels' Range callback deletes and frees
	if f := r.Need("mpx", "conn.closeChannels"); f != nil {
		found := false
		// the callback handed to channels.Range: a function literal, a method value (c.closeChannel) or a function
		var callbacks []*ssa.Function
		callbacks = append(callbacks, f.AnonFuncs...)
		for _, call := range callsIn(f, false) {
			if calleeLabel(call) != "channels.Range" {
				continue
			}
			for _, a := range call.Common().Args {
				var g *ssa.Function
				switch x := a.(type) {
				case *ssa.MakeClosure:
					g, _ = x.Fn.(*ssa.Function)
				case *ssa.Function:
					g = x
				}
				if g == nil {
					continue
				}
				callbacks = append(callbacks, g)
				// a bound-method wrapper: the method it forwards to
				if g.Synthetic != "" {
					for _, c2 := range callsIn(g, false) {
						if h := c2.Common().StaticCallee(); h != nil && h.Blocks != nil {
							callbacks = append(callbacks, h)
						}
					}
				}
			}
		}
		for _, a := range callbacks {
			lbls := map[string]bool{}
			for _, call := range callsIn(a, false) {
				lbls[calleeLabel(call)] = true
			}
			// (who may release is R06.2's business; here only: every remaining channel is released)
			for l := range lbls {
				if l == "free" || strings.HasSuffix(l, ".free") {
					found = true
				}
			}
		}
		if found {
			r.OK(fnKey(f)+"/range-deletes-and-frees", f.Pos(), "every remaining channel is removed and freed")
		} else {
			r.Bad(fnKey(f)+"/range-deletes-and-frees", f.Pos(), "channels still registered at connection close are not removed and freed: their contexts are never cancelled and blocked Receive/Send calls hang")
		}
	}
}

// returnBehindGuard: the return is reached through the true edge of a call to <guard> (field.Method) - the
// idempotence early-exit.
func returnBehindGuard(ret *ssa.Return, guard string) bool {
	for _, cd := range pathConds(ret.Block()) {
		cv := cd.V
		truth := cd.Truth
		if un, ok := cv.(*ssa.UnOp); ok && un.Op == token.NOT {
			cv, truth = un.X, !truth
		}
		if call, ok := cv.(*ssa.Call); ok {
			l := calleeLabel(call)
			if l == guard {
				// IsSet()/Load() true  => already closed;  CompareAndSwap false => already closed
				if strings.HasSuffix(guard, "CompareAndSwap") {
					return !truth
				}
				return truth
			}
		}
	}
	return false
}

func runR09_3(c *Ctx, r *R) {
	f := r.Need("mpx", "connReader.read")
	if f == nil {
		return
	}
	var fulls []*ssa.Call
	for _, call := range callsIn(f, false) {
		if o := calleeObj(call); o != nil && o.Pkg() != nil && o.Pkg().Path() == "io" && o.Name() == "ReadFull" {
			fulls = append(fulls, call.(*ssa.Call))
		}
	}
	r.Check(len(fulls) == 2, fnKey(f)+"/readfull-count", f.Pos(), "header and body are read with io.ReadFull", fmt.Sprintf("expected 2 io.ReadFull calls (header, body), found %d: a short read can be delivered as a frame", len(fulls)))
	n := 0
	for _, ret := range returnsOf(f) {
		if len(ret.Results) != 2 || isNilConst(ret.Results[0]) {
			continue
		}
		n++
		key := fmt.Sprintf("%s/return-frame#%d", fnKey(f), n)
		okAll := len(fulls) > 0
		for _, fc := range fulls {
			errv := extractOf(fc, 1)
			good := false
			if errv != nil {
				for _, cd := range pathConds(ret.Block()) {
					for _, rel := range relsOf(cd) {
						if rel.Op == token.EQL && ((rel.X == ssa.Value(errv) && isNilConst(rel.Y)) || (rel.Y == ssa.Value(errv) && isNilConst(rel.X))) {
							good = true
						}
					}
				}
			}
			if !good {
				okAll = false
			}
		}
		if okAll {
			r.OK(key, ret.Pos(), "frame returned only when both ReadFull errors are nil")
		} else {
			r.Bad(key, ret.Pos(), "a frame buffer is returned although a ReadFull error was not excluded: a partial frame can be delivered as a message")
		}
	}
	if n == 0 {
		r.Unk(fnKey(f)+"/return-frame", f.Pos(), "no frame-returning path found")
	}
}

// functions whose failing edges legitimately end in OK (one reason each)
var r09_4exempt = map[string]string{
	"mpx.server.serve": "accept loop: net.ErrClosed from Accept is the normal way a server stops (Stop closes the listener); other accept errors are returned as WrapError or retried",
}

func runR09_4(c *Ctx, r *R) {
	sa := newStatusAn(c)
	// mpxError(err != nil) is NonOK
	if f := r.Need("mpx", "mpxError"); f != nil {
		cl := sa.funcClass(f, 0, true, 0)
		r.Check(cl == SNonOK, fnKey(f)+"/nonnil-error-is-nonok", f.Pos(), "a non-nil error maps to a non-OK status on every path", "mpxError can return a status that "+cl.String()+" for a non-nil error: a transport failure would be reported as success")
	}
	for _, rel := range []string{"mpx", "rpc"} {
		for _, fn := range c.SrcFuncs(rel) {
			pos := c.Fset.Position(fn.Pos())
			if strings.HasPrefix(baseName(pos.Filename), "test_") || strings.HasSuffix(pos.Filename, "_test.go") {
				continue
			}
			if why, ok := r09_4exempt[fnKey(fn)]; ok {
				r.OK(fnKey(fn)+"/exempt", fn.Pos(), "exempt: %s", why)
				continue
			}
			// index of the status result
			sig := fn.Signature
			sidx := -1
			for i := 0; i < sig.Results().Len(); i++ {
				if isStatusType(sig.Results().At(i).Type()) {
					sidx = i
				}
			}
			if sidx < 0 {
				continue
			}
			n := 0
			for _, ret := range returnsOf(fn) {
				if ret.Block() == fn.Recover || sidx >= len(ret.Results) {
					continue
				}
				// failing edges that dominate this return
				why := ""
				for _, cd := range pathConds(ret.Block()) {
					cv, truth := cd.V, cd.Truth
					if un, ok := cv.(*ssa.UnOp); ok && un.Op == token.NOT {
						cv, truth = un.X, !truth
					}
					if v, ok := okCallOn(cv); ok && !truth {
						why = "!" + v.Name() + ".OK()"
						_ = v
					}
					if rel == "mpx" {
						for _, rl := range relsOf(cd) {
							if rl.Op == token.NEQ && (isNilConst(rl.X) || isNilConst(rl.Y)) {
								x := rl.X
								if isNilConst(x) {
									x = rl.Y
								}
								if types.Identical(x.Type(), types.Universe.Lookup("error").Type()) {
									why = x.Name() + " != nil"
								}
							}
						}
					}
				}
				if why == "" {
					continue
				}
				n++
				key := fmt.Sprintf("%s/fail-edge-return#%d", fnKey(fn), n)
				cl := sa.classOf(ret.Results[sidx], ret.Block(), false, 0)
				if cl == SNonOK {
					r.OK(key, ret.Pos(), "returns a non-OK status on the failing edge (%s)", why)
				} else {
					r.Bad(key, ret.Pos(), "on the failing edge (%s) the function returns a status that %s: a failure of the transport or of a callee is reported as success", why, map[SClass]string{SOK: "is OK", SUnknown: "may be OK", SBottom: "is undefined"}[cl])
				}
			}
		}
	}
}

func runR09_5(c *Ctx, r *R) {
	f := r.Need("mpx", "clientConns.roundRobin")
	if f == nil {
		return
	}
	n := 0
	for _, ret := range returnsOf(f) {
		if len(ret.Results) != 2 || isNilConst(ret.Results[0]) {
			continue
		}
		n++
		key := fmt.Sprintf("%s/return-conn#%d", fnKey(f), n)
		good := false
		for _, cd := range pathConds(ret.Block()) {
			cv, truth := cd.V, cd.Truth
			if un, ok := cv.(*ssa.UnOp); ok && un.Op == token.NOT {
				cv, truth = un.X, !truth
			}
			if call, ok := cv.(*ssa.Call); ok && call.Call.IsInvoke() && call.Call.Method.Name() == "IsSet" && !truth {
				if inner, ok := call.Call.Value.(*ssa.Call); ok && inner.Call.IsInvoke() && inner.Call.Method.Name() == "Closed" {
					good = true
				}
			}
		}
		if good {
			r.OK(key, ret.Pos(), "connection returned only when Closed().IsSet() is false")
		} else {
			r.Bad(key, ret.Pos(), "a connection can be handed out without checking its Closed() flag: calls fail on a dead connection although a live one (or a redial) is available")
		}
	}
	if n < 1 {
		r.Unk(fnKey(f)+"/return-conn", f.Pos(), "anchor lost: no connection-returning path")
	}
	roundRobinCoverage(c, r, f)
}

var mustCallsMemo = map[*ssa.Function]Facts{}

// mustCallsAtExit: the labelled calls made on every path through fn (memoised; a function being summarised
// contributes nothing to its own summary).
func mustCallsAtExit(fn *ssa.Function) Facts {
	if m, ok := mustCallsMemo[fn]; ok {
		return m
	}
	mustCallsMemo[fn] = Facts{}
	at, _ := mustCalls(fn)
	mustCallsMemo[fn] = at
	return at
}
