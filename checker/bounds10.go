package main

import (
	"fmt"
	"go/token"
	"go/types"
	"os"

	"golang.org/x/tools/go/ssa"
)

// Pointer postconditions of private helpers.
//
// A helper that RETURNS an unsafe.Pointer into one of its slice parameters
//
//	func (t messageTable) find_big(tag uint16) unsafe.Pointer { ... return ptr1 ... return nil }
//
// is summarised as: a non-nil result points at parameter[i] + off with 0 <= off and off + k <= len(parameter[i]),
// k being the largest number of bytes (<= 16) for which this is PROVED at every non-nil return of the helper. At a
// call site the result has that provenance (base = the argument, off = a variable of the call), and the two facts
// are available where the path establishes result != nil.

type ptrPost struct {
	param int
	k     int64
}

var ptrPostMemo = map[*ssa.Function]*ptrPost{}
var ptrPostBusy = map[*ssa.Function]bool{}

func (e *BE) ptrPostOf(fn *ssa.Function) *ptrPost {
	if fn == nil || fn.Blocks == nil {
		return nil
	}
	if p, ok := ptrPostMemo[fn]; ok {
		return p
	}
	if ptrPostBusy[fn] {
		return nil
	}
	// only successes are kept: a proof that fails while preconditions are still being inferred is tried again
	ptrPostBusy[fn] = true
	defer delete(ptrPostBusy, fn)
	rs := fn.Signature.Results()
	if rs.Len() != 1 || fn.Parent() != nil || token.IsExported(fn.Name()) {
		return nil
	}
	if b, ok := rs.At(0).Type().Underlying().(*types.Basic); !ok || b.Kind() != types.UnsafePointer {
		return nil
	}
	sites, escapes := sitesOf(fn)
	if escapes || len(sites) == 0 {
		return nil
	}
	type rp struct {
		ret *ssa.Return
		pp  ptrProv
	}
	var rets []rp
	param := -1
	for _, ret := range returnsOf(fn) {
		v := unspill(ret.Results[0])
		if isNilConst(v) {
			continue
		}
		pp := e.ptrOf(v, 0)
		if !pp.ok {
			return nil
		}
		pi := paramIndex(fn, pp.base)
		if pi < 0 || (param >= 0 && pi != param) {
			return nil
		}
		param = pi
		rets = append(rets, rp{ret, pp})
	}
	if len(rets) == 0 {
		return nil
	}
	fc := e.newFnCtx(fn)
	best := int64(0)
	for k := int64(16); k >= 1; k-- {
		all := true
		for _, x := range rets {
			b1, b2 := 400, 400
			if !fc.prove(geq(x.pp.off, linConst(0)), x.ret.Block(), nil, nil, 5, &b1) || !fc.prove(leq(x.pp.off.addK(k), e.lenOf(x.pp.base, 'l')), x.ret.Block(), nil, nil, 5, &b2) {
				all = false
				break
			}
		}
		if all {
			best = k
			break
		}
	}
	if os.Getenv("DBGPP") != "" {
		fmt.Fprintf(os.Stderr, "DBGPP %s best=%d rets=%d\n", fnKey(fn), best, len(rets))
	}
	if best == 0 {
		return nil
	}
	p := &ptrPost{param: param, k: best}
	ptrPostMemo[fn] = p
	return p
}

// ptrOfCall: provenance of the pointer returned by a helper with a pointer postcondition.
func (e *BE) ptrOfCall(call *ssa.Call) ptrProv {
	callee := e.c.calleeOf(&call.Call)
	pp := e.ptrPostOf(callee)
	if pp == nil || pp.param >= len(call.Call.Args) {
		return ptrProv{}
	}
	return ptrProv{base: call.Call.Args[pp.param], off: linVar(e.id(vkey{call, "ptroff", 'v'})), ok: true}
}

// ptrPostFacts: 0 <= off, off + k <= len(arg) for the result of a pointer-returning helper, where the path knows
// the result is not nil.
func (st *solveState) ptrPostFacts(call *ssa.Call) {
	e := st.fc.e
	callee := e.c.calleeOf(&call.Call)
	if callee == nil {
		return
	}
	if b, ok := call.Type().Underlying().(*types.Basic); !ok || b.Kind() != types.UnsafePointer {
		return
	}
	pp := e.ptrPostOf(callee)
	if pp == nil || pp.param >= len(call.Call.Args) {
		return
	}
	nonNil := false
	for _, a := range st.fs.atoms {
		if !a.Bool && !a.IsNil && (a.V == ssa.Value(call) || st.substVal(a.V) == ssa.Value(call)) {
			nonNil = true
		}
	}
	if !nonNil {
		return
	}
	o := linVar(e.id(vkey{call, "ptroff", 'v'}))
	st.addIneq(geq(o, linConst(0)))
	st.addIneq(leq(o.addK(pp.k), e.lenOf(call.Call.Args[pp.param], 'l')))
}
