package main

import (
	"fmt"
	"go/ast"
	"go/token"
	"go/types"
	"regexp"
	"sort"
	"strconv"
	"strings"

	"golang.org/x/tools/go/ssa"
)

func init() {
	props["C14"] = &propInfo{Level: "other", Explanation: "Decides structural necessary conditions of 'compiler output always compiles; invalid schemas are rejected cleanly': (R14.1) every qualified identifier pkg.Ident that the generator's templates emit (string literals of internal/lang/generator) resolves to an exported object of that package at the pinned dependency versions - an unresolved one makes generated code fail to build; (R14.3) integer range guards: on every success path of model.newField the tag is proved within [1, 65535], and enum values within int32 (bounds engine); (R14.4 = R15.3) lexical and syntax errors fail the parse; (R14.5) panic audit: every explicit panic under internal/lang is enumerated against a reasoned allow-list; (R14.6) the compiler packages type-check (the load of this run); (R14.7) validation passes reach every element: the call edges among the resolve/compile/validate methods of the model (parent pass -> child pass) must contain the confirmed set, so no element kind silently skips a pass. Not decided: completeness of semantic validation in general (struct cycles, element kinds, channel types) - there is no static oracle for 'the Go compiler will accept the output' short of running the generator; termination.",
		Trusted: []string{"go/types scopes of the loaded dependency packages", "confirmed pass-edge table and panic allow-list in rules_c14.go"}}

	register(&Rule{ID: "R14.1", Props: []string{"C14", "C05"}, Floor: 80,
		Doc: "template identifiers resolve in the packages the generated code imports",
		Run: runR14_1})
	register(&Rule{ID: "R14.3", Props: []string{"C14"}, Floor: 2,
		Doc: "integer range guards: field tags within [1,65535], enum values within int32 on every accepting path",
		Run: runR14_3})
	register(&Rule{ID: "R14.5", Props: []string{"C14"}, Floor: 5,
		Doc: "explicit panics under internal/lang are enumerated against a reasoned allow-list",
		Run: runR14_5})
	register(&Rule{ID: "R14.7", Props: []string{"C14"}, Floor: 20,
		Doc: "validation passes reach every element: confirmed call edges among resolve/compile/validate methods",
		Run: runR14_7})
}

var reQualIdent = regexp.MustCompile(`\b([a-z][a-z0-9]*)\.([A-Z][A-Za-z0-9_]*)`)

func runR14_1(c *Ctx, r *R) {
	p := c.Pkg("internal/lang/generator")
	if p == nil {
		r.Unk("internal/lang/generator", 0, "package not loaded")
		return
	}
	// alias -> import path: quoted import paths written by the generator itself, plus the static ones
	alias := map[string]string{}
	type lit struct {
		s   string
		pos token.Pos
	}
	var lits []lit
	for _, f := range p.Syntax {
		ast.Inspect(f, func(n ast.Node) bool {
			bl, ok := n.(*ast.BasicLit)
			if !ok || bl.Kind != token.STRING {
				return true
			}
			s, err := strconv.Unquote(bl.Value)
			if err != nil {
				return true
			}
			lits = append(lits, lit{s, bl.Pos()})
			if strings.HasPrefix(s, `"`) && strings.HasSuffix(s, `"`) && strings.Contains(s, "/") {
				path := strings.Trim(s, `"`)
				parts := strings.Split(path, "/")
				alias[parts[len(parts)-1]] = path
			}
			return true
		})
	}
	// the root package is imported as "spec"
	for a, path := range alias {
		if path == Mod {
			alias["spec"] = path
			_ = a
		}
	}
	if len(alias) < 6 {
		r.Unk("internal/lang/generator/imports", 0, "only %d emitted import paths recognised", len(alias))
	}
	seen := map[string]token.Pos{}
	for _, l := range lits {
		for _, m := range reQualIdent.FindAllStringSubmatch(l.s, -1) {
			if _, ok := alias[m[1]]; !ok {
				continue
			}
			k := m[1] + "." + m[2]
			if _, ok := seen[k]; !ok {
				seen[k] = l.pos
			}
		}
	}
	for _, k := range sortedKeys(seen) {
		parts := strings.SplitN(k, ".", 2)
		path := alias[parts[0]]
		key := "template/" + k
		dep := c.Pkgs[path]
		if dep == nil || dep.Types == nil {
			r.Unk(key, seen[k], "package %s is not loaded", path)
			continue
		}
		obj := dep.Types.Scope().Lookup(parts[1])
		if obj != nil && obj.Exported() {
			r.OK(key, seen[k], "resolves to %s", types.ObjectString(obj, func(*types.Package) string { return parts[0] }))
		} else {
			r.Bad(key, seen[k], "the generator emits %s but package %s has no such exported identifier: generated code that uses this template does not compile", k, path)
		}
	}
}

func runR14_3(c *Ctx, r *R) {
	e := newBE(c)
	e.stablePtrFields = true // the syntax tree handed to the model is not mutated by the model constructors
	if f := r.Need("internal/lang/model", "newField"); f != nil {
		fc := e.newFnCtx(f)
		n := 0
		for _, ret := range returnsOf(f) {
			if len(ret.Results) != 2 || !isNilConst(ret.Results[1]) {
				continue
			}
			n++
			// tag value stored into the new Field
			var tag ssa.Value
			allInstrs(f, func(i ssa.Instruction) {
				if st, ok := i.(*ssa.Store); ok {
					if fa, ok := st.Addr.(*ssa.FieldAddr); ok && fieldOf(fa).Name() == "Tag" && typeIs(fa.X.Type(), pkgPath("internal/lang/model"), "Field") {
						tag = st.Val
					}
				}
			})
			if tag == nil {
				r.Unk(fnKey(f)+"/tag-range", ret.Pos(), "the stored tag was not found")
				continue
			}
			x := e.expand(tag)
			// integers produced by the parser are non-negative: scanner.Int tokens carry no sign, the grammar has no
			// unary minus, and the checked ParseInt of R15.3 cannot wrap
			nonneg := &factSet{ineqs: []Ineq{geq(x, linConst(0))}}
			budget := 400
			lo := fc.prove(geq(x, linConst(1)), ret.Block(), nonneg, nil, 4, &budget)
			hi := fc.proveAt(leq(x, linConst(65535)), ret, 4)
			for _, side := range []struct {
				name string
				ok   bool
				msg  string
			}{
				{"lower", lo, "a zero or negative tag is accepted: the generator emits it into uint16 positions (does not compile / wraps)"},
				{"upper", hi, "a tag above 65535 is accepted: generated code passes it where a uint16 is required and does not compile"},
			} {
				key := fmt.Sprintf("%s/tag-range-%s#%d", fnKey(f), side.name, n)
				if side.ok {
					r.OK(key, ret.Pos(), "tag %s bound proved on the accepting path", side.name)
				} else {
					r.Bad(key, ret.Pos(), "%s", side.msg)
				}
			}
		}
	}
	// enum values: stores into EnumValue.Number / Value of wider int must be proved within int32
	for _, fn := range c.SrcFuncs("internal/lang/model") {
		fc := e.newFnCtx(fn)
		n := 0
		allInstrs(fn, func(i ssa.Instruction) {
			st, ok := i.(*ssa.Store)
			if !ok {
				return
			}
			fa, ok := st.Addr.(*ssa.FieldAddr)
			if !ok || !typeIs(fa.X.Type(), pkgPath("internal/lang/model"), "EnumValue") || !isIntegerType(st.Val.Type()) {
				return
			}
			n++
			key := fmt.Sprintf("%s/enum-value-range#%d", fnKey(fn), n)
			x := e.expand(st.Val)
			if fc.proveAt(geq(x, linConst(-1<<31)), st, 4) && fc.proveAt(leq(x, linConst(1<<31-1)), st, 4) {
				r.OK(key, st.Pos(), "enum number proved within int32")
			} else {
				r.Bad(key, st.Pos(), "an enum number outside int32 is accepted: the generated constant overflows its int32 type and does not compile")
			}
		})
	}
}

// reasoned allow-list of explicit panics under internal/lang (function -> reason)
var langPanics = map[string]string{
	"internal/lang/generator.typeName":            "fall-through of the kind switch: kinds Undefined/Reference cannot survive model resolution (Type.resolve replaces every reference or returns an error)",
	"internal/lang/generator.typeMakeMessageFunc": "called only for message-typed fields (writer templates for KindMessage / list elements of KindMessage)",
	"internal/lang/model.Definition.parse":        "definition types are a closed set produced by the grammar actions (R15.1 binding table: Type<-syntax.Definition*)",
	"internal/lang/model.Import.lookupType":       "imports are resolved by Package.resolveImports before any type lookup (R14.7 pass edges)",
	"internal/lang/model.Method.parseInput":       "syntax.MethodInput is either *Type or Fields by the grammar (method_input alternatives, R15.1)",
	"internal/lang/model.Method.parseOutput":      "syntax.MethodOutput is either *Type or Fields by the grammar (method_output alternatives, R15.1)",
	"internal/lang/model.Type._resolve":           "called only from Type.resolve on a type whose kind is still Reference",
}

func runR14_5(c *Ctx, r *R) {
	for _, rel := range []string{"internal/lang", "internal/lang/compiler", "internal/lang/generator", "internal/lang/model", "internal/lang/parser", "internal/lang/syntax"} {
		for _, fn := range c.SrcFuncs(rel) {
			pos := c.Fset.Position(fn.Pos())
			if baseName(pos.Filename) == "grammar.go" {
				continue // generated parser driver
			}
			n := 0
			allInstrs(fn, func(i ssa.Instruction) {
				p, ok := i.(*ssa.Panic)
				if !ok || !p.Pos().IsValid() {
					return
				}
				n++
				key := fmt.Sprintf("%s/panic#%d", fnKey(fn), n)
				base := strings.SplitN(fnKey(fn), "$", 2)[0]
				if why, ok := langPanics[base]; ok && why != "" {
					r.OK(key, p.Pos(), "allow-listed: %s", why)
				} else {
					r.Bad(key, p.Pos(), "explicit panic in the schema compiler that is not in the reasoned allow-list: an invalid schema may crash the compiler instead of producing an error")
				}
			})
		}
	}
}

// confirmed call edges among the model's pass methods (caller -> callee), discovered on the reference tree and
// confirmed by reading: every element kind is reached by every pass that applies to it.
var passEdges = []string{
	"Context.compile -> Context.compileFiles",
	"Context.compileFiles -> Package.compile",
	"Context.compileFiles -> Package.resolve",
	"Context.compileFiles -> Package.validate",
	"Definition.compile -> Message.compile",
	"Definition.compile -> Service.compile",
	"Definition.compile -> Struct.compile",
	"Definition.resolve -> Message.resolve",
	"Definition.resolve -> Service.resolve",
	"Definition.resolve -> Struct.resolve",
	"Definition.validate -> Message.validate",
	"Definition.validate -> Struct.validate",
	"Field.resolve -> Type.resolve",
	"Fields.compile -> Field.resolved",
	"Fields.resolve -> Field.resolve",
	"File.compile -> Definition.compile",
	"File.resolve -> Definition.resolve",
	"File.resolveImports -> Import.resolve",
	"File.validate -> Definition.validate",
	"Message.compile -> Fields.compile",
	"Message.resolve -> Fields.resolve",
	"Method.compile -> Method.compileInput",
	"Method.compile -> Method.compileOutput",
	"Method.compile -> Method.compileType",
	"Method.compileInput -> Fields.compile",
	"Method.compileOutput -> Fields.compile",
	"Method.resolve -> Fields.resolve",
	"Method.resolve -> MethodChannel.resolve",
	"Method.resolve -> Type.resolve",
	"MethodChannel.resolve -> Type.resolve",
	"Package.compile -> File.compile",
	"Package.resolve -> Package.resolveImports",
	"Package.resolve -> Package.resolveTypes",
	"Package.resolveImports -> File.resolveImports",
	"Package.resolveTypes -> File.resolve",
	"Package.validate -> File.validate",
	"Service.compile -> Method.compile",
	"Service.resolve -> Method.resolve",
	"Struct.compile -> StructField.compile",
	"Struct.resolve -> StructField.resolve",
	"Struct.validate -> StructField.validate",
	"StructField.resolve -> Type.resolve",
	"Type.resolve -> Type.resolve",
}

var passNames = map[string]bool{"resolve": true, "resolveImports": true, "resolveTypes": true, "resolved": true, "compile": true, "compileInput": true, "compileOutput": true, "compileType": true, "validate": true, "compileFiles": true}

func runR14_7(c *Ctx, r *R) {
	have := map[string]bool{}
	inPkg := func(f *ssa.Function) bool {
		return f != nil && f.Pkg != nil && f.Pkg.Pkg.Path() == pkgPath("internal/lang/model")
	}
	// the pass functions a function reaches: directly, through helpers of the package that are not passes
	// themselves (eachFile), and through function values handed to such a helper that invokes its parameter
	// (p.eachFile((*File).compile))
	var reach func(fn *ssa.Function, depth int, seen map[*ssa.Function]bool, out map[*ssa.Function]bool)
	reach = func(fn *ssa.Function, depth int, seen map[*ssa.Function]bool, out map[*ssa.Function]bool) {
		if fn == nil || seen[fn] || depth > 4 {
			return
		}
		seen[fn] = true
		for _, call := range callsIn(fn, true) {
			cal := call.Common().StaticCallee()
			if cal == nil || !(inPkg(cal) || cal.Synthetic != "" || cal.Parent() != nil) {
				continue
			}
			if inPkg(cal) && passNames[cal.Name()] && cal.Synthetic == "" {
				out[cal] = true
				continue
			}
			reach(cal, depth+1, seen, out)
			for i, a := range call.Common().Args {
				fv := funcValueOf(a)
				if fv == nil {
					continue
				}
				pi := i
				if call.Common().Signature().Recv() != nil && !call.Common().IsInvoke() {
					// Args[0] is the receiver for a static method call: parameters line up with cal.Params
				}
				if pi < len(cal.Params) && paramInvoked(cal, cal.Params[pi]) {
					if inPkg(fv) && passNames[fv.Name()] && fv.Synthetic == "" {
						out[fv] = true
					} else {
						reach(fv, depth+1, seen, out)
					}
				}
			}
		}
	}
	for _, fn := range c.SrcFuncs("internal/lang/model") {
		if !passNames[fn.Name()] || fn.Parent() != nil {
			continue
		}
		out := map[*ssa.Function]bool{}
		reach(fn, 0, map[*ssa.Function]bool{}, out)
		for cal := range out {
			have[strings.TrimPrefix(fnKey(fn), "internal/lang/model.")+" -> "+strings.TrimPrefix(fnKey(cal), "internal/lang/model.")] = true
		}
	}
	if len(passEdges) == 0 {
		var all []string
		for k := range have {
			all = append(all, k)
		}
		sort.Strings(all)
		r.Unk("internal/lang/model/pass-edges", 0, "pass-edge table is empty; edges found: %q", all)
		return
	}
	for _, e := range passEdges {
		key := "internal/lang/model/pass:" + e
		if have[e] {
			r.OK(key, 0, "pass reaches the child element")
		} else {
			r.Bad(key, 0, "the pass edge %s is gone: that element kind is no longer resolved/compiled/validated on this path, so an invalid schema is accepted (and the generated code may not compile)", e)
		}
	}
}
