package main

import (
	"fmt"
	"go/constant"
	"go/token"
	"strings"

	"golang.org/x/tools/go/ssa"
)

// R14.11: imported types are referenced by the name the import line binds. The type templates qualify a type of
// an imported schema package with Type.ImportName - the import's Name, which is the alias when the schema gives
// one. The generated file compiles only if its import line binds the Go package under that same name: an import
// line emitted without a name binds the package's own name, which equals Import.Name only when no alias was given
// (Import.Name == Import.Package.Name). So in the function that emits the import block, every line emitted for a
// schema import either carries the import's Name or is emitted only under that equality.

func init() {
	register(&Rule{ID: "R14.11", Props: []string{"C14", "C05"}, Floor: 1,
		Doc: "import binding: each import line the generator emits for a schema import carries Import.Name, or is emitted only where Import.Name == Import.Package.Name (types are qualified by Import.Name)",
		Run: runR14_11})
}

func runR14_11(c *Ctx, r *R) {
	n := 0
	for _, fn := range c.SrcFuncs("internal/lang/generator") {
		k := 0
		for _, call := range callsIn(fn, false) {
			o := calleeObj(call)
			if o == nil || (o.Name() != "linef" && o.Name() != "writef") {
				continue
			}
			args := call.Common().Args
			// receiver, format, variadic slice
			if len(args) < 3 {
				continue
			}
			fk, ok := args[1].(*ssa.Const)
			if !ok || fk.Value == nil || fk.Value.Kind() != constant.String {
				continue
			}
			format := constant.StringVal(fk.Value)
			// an import line: a quoted %v, optionally preceded by a name verb
			trimmed := strings.TrimSpace(format)
			if trimmed != `"%v"` && trimmed != `%v "%v"` {
				continue
			}
			// is one of the variadic arguments derived from a model.Import (importPackage(imp) / imp.*)?
			var vals []ssa.Value
			if sl, ok := args[2].(*ssa.Slice); ok {
				if al, ok := sl.X.(*ssa.Alloc); ok {
					for _, ref := range *al.Referrers() {
						if ia, ok := ref.(*ssa.IndexAddr); ok {
							for _, u := range *ia.Referrers() {
								if st, ok := u.(*ssa.Store); ok {
									v := st.Val
									if mi, ok := v.(*ssa.MakeInterface); ok {
										v = mi.X
									}
									vals = append(vals, v)
								}
							}
						}
					}
				}
			}
			var imp ssa.Value
			for _, v := range vals {
				if cv, ok := v.(*ssa.Call); ok {
					for _, a := range cv.Call.Args {
						if typeIs(a.Type(), pkgPath("internal/lang/model"), "Import") {
							imp = a
						}
					}
				}
				if ld, ok := v.(*ssa.UnOp); ok && ld.Op == token.MUL {
					if fa, ok := ld.X.(*ssa.FieldAddr); ok && typeIs(fa.X.Type(), pkgPath("internal/lang/model"), "Import") {
						imp = fa.X
					}
				}
			}
			if imp == nil {
				continue
			}
			k++
			n++
			key := fmt.Sprintf("%s/import-line#%d", fnKey(fn), k)
			named := false
			for _, v := range vals {
				if strings.HasSuffix(valueSource(v), ".Name") {
					if ld, ok := v.(*ssa.UnOp); ok {
						if fa, ok := ld.X.(*ssa.FieldAddr); ok && fa.X == imp {
							named = true
						}
					}
				}
			}
			if trimmed == `%v "%v"` && named {
				r.OK(key, call.Pos(), "the import line binds the package under Import.Name")
				continue
			}
			// unnamed line: needs Import.Name == Import.Package.Name on the path
			guarded := false
			for _, cd := range pathConds(call.Block()) {
				for _, rel := range relsOf(cd) {
					if rel.Op != token.EQL {
						continue
					}
					sx, sy := valueSource(rel.X), valueSource(rel.Y)
					if (strings.HasSuffix(sx, ".Name") && strings.HasSuffix(sy, ".Package.Name")) || (strings.HasSuffix(sy, ".Name") && strings.HasSuffix(sx, ".Package.Name")) {
						guarded = true
					}
				}
			}
			if guarded {
				r.OK(key, call.Pos(), "unnamed import line emitted only where Import.Name equals the package's own name")
			} else {
				r.Bad(key, call.Pos(), "the import line for a schema import is emitted without a name and without the guard Import.Name == Import.Package.Name: with an aliased import the generated file refers to alias.Type while the package is bound under its own name - 'undefined: alias', the output does not compile although the compiler reported success")
			}
		}
	}
	if n == 0 {
		r.Unk("internal/lang/generator/import-lines", 0, "anchor lost: no import line emitted for schema imports found")
	}
}
