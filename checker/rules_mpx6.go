package main

import (
	"fmt"
	"go/token"

	"golang.org/x/tools/go/ssa"
)

// R03.7: a message taken off the receive queue is handed to the caller. channel.ReceiveAsync dequeues the next message
// and then, every half window, sends a window update - which can fail (the caller's context is cancelled or times
// out while the write queue is full, the connection closes). Whatever happens after the dequeue, the function must
// return that message: a return of anything else drops it, and the next Receive continues with the following one
// (m0, m1, m3).
//
// R07.8: window credit that could not be sent is kept. Before sending the update ReceiveAsync subtracts the
// acknowledged amount from the consumed-bytes counter. If the update is not sent, the amount must be put back (or the
// channel must be closed): otherwise the sender never gets these bytes of window again, and after two such losses it
// waits for a window update while the receiver, having consumed everything, waits for data.

func init() {
	register(&Rule{ID: "R03.7", Props: []string{"C03"}, Floor: 1,
		Doc: "channel.ReceiveAsync returns the message it dequeued on every path after the dequeue",
		Run: runR03_7})
	register(&Rule{ID: "R07.8", Props: []string{"C07"}, Floor: 1,
		Doc: "channel.ReceiveAsync: the credit subtracted from recvBytes is restored on every path on which the window update was not sent (or the channel is closed)",
		Run: runR07_8})
}

func runR03_7(c *Ctx, r *R) {
	f := r.Need("mpx", "channel.ReceiveAsync")
	if f == nil {
		return
	}
	var read *ssa.Call
	for _, call := range callsIn(f, false) {
		if calleeLabel(call) == "recvQueue.Read" {
			if cv, ok := call.(*ssa.Call); ok {
				read = cv
			}
		}
	}
	if read == nil {
		r.Unk(fnKey(f)+"/dequeue", f.Pos(), "anchor lost: ReceiveAsync does not read the receive queue")
		return
	}
	data, okv := extractOf(read, 0), extractOf(read, 1)
	n := 0
	for _, ret := range returnsOf(f) {
		if !reachesInstr(read, ret) || len(ret.Results) < 1 {
			continue
		}
		// only returns behind a successful dequeue: every path passes ok == true
		dequeued := true
		for _, alt := range backPaths(ret.Block(), read.Block(), 64) {
			hit := false
			for _, cd := range alt {
				v, truth := cd.V, cd.Truth
				if un, isNot := v.(*ssa.UnOp); isNot && un.Op == token.NOT {
					v, truth = un.X, !truth
				}
				if okv != nil && v == ssa.Value(okv) && truth {
					hit = true
				}
			}
			if !hit {
				dequeued = false
			}
		}
		if !dequeued {
			continue
		}
		n++
		key := fmt.Sprintf("%s/dequeued-returned#%d", fnKey(f), n)
		res := unspill(ret.Results[0])
		if data != nil && res == ssa.Value(data) {
			r.OK(key, ret.Pos(), "returns the dequeued message")
		} else {
			r.Bad(key, ret.Pos(), "this return is reached after a message was taken off the receive queue but does not return it: the message is lost and the next Receive continues with the following one - e.g. when the caller's context times out while the window update is being sent")
		}
	}
	if n == 0 {
		r.Unk(fnKey(f)+"/dequeued-returned", f.Pos(), "no return behind a successful dequeue found")
	}
}

func runR07_8(c *Ctx, r *R) {
	f := r.Need("mpx", "channel.ReceiveAsync")
	if f == nil {
		return
	}
	// the subtraction  recvBytes.Add(-x)  and the update  sender.sendWindow(ctx, x)
	key := fnKey(f) + "/credit-kept"
	f = ackHost(f)
	var sub, send *ssa.Call
	var amount ssa.Value
	for _, call := range callsIn(f, false) {
		cv, ok := call.(*ssa.Call)
		if !ok {
			continue
		}
		if calleeLabel(call) == "recvBytes.Add" && len(cv.Call.Args) > 0 {
			if un, ok := cv.Call.Args[len(cv.Call.Args)-1].(*ssa.UnOp); ok && un.Op == token.SUB {
				sub, amount = cv, un.X
			}
		}
		if o := calleeObj(call); o != nil && o.Name() == "sendWindow" {
			send = cv
		}
	}
	if sub == nil || send == nil {
		r.Unk(key, f.Pos(), "anchor lost: no recvBytes.Add(-x) / sendWindow pair in ReceiveAsync")
		return
	}
	isRecredit := func(i ssa.Instruction) bool {
		cv, ok := i.(*ssa.Call)
		if !ok || calleeLabel(cv) != "recvBytes.Add" || len(cv.Call.Args) == 0 {
			return false
		}
		return cv.Call.Args[len(cv.Call.Args)-1] == amount
	}
	// conditions that settle the matter on an edge: the update's status is OK, or the channel is closed
	settles := func(cond ssa.Value, truth bool) bool {
		if un, ok := cond.(*ssa.UnOp); ok && un.Op == token.NOT {
			cond, truth = un.X, !truth
		}
		switch x := cond.(type) {
		case *ssa.Call:
			if o := calleeObj(x); o != nil && o.Name() == "OK" && truth {
				recv := x.Call.Value
				if !x.Call.IsInvoke() && len(x.Call.Args) > 0 {
					recv = x.Call.Args[0]
				}
				if recv == ssa.Value(send) {
					return true
				}
			}
			if calleeLabel(x) == "closed.Load" && truth {
				return true
			}
		case *ssa.BinOp:
			if x.Op == token.EQL && truth {
				for _, side := range []ssa.Value{x.X, x.Y} {
					other := x.Y
					if side == x.Y {
						other = x.X
					}
					if fl, ok := side.(*ssa.Field); ok && fl.X == ssa.Value(send) && fieldOf(fl).Name() == "Code" {
						if k, ok := other.(*ssa.Const); ok && k.Value != nil && constantStringVal(k) == "ok" {
							return true
						}
					}
				}
			}
		}
		return false
	}
	fl := &Flow{Must: true, Entry: Facts{}}
	fl.Transfer = func(i ssa.Instruction, fs Facts) {
		if i == ssa.Instruction(sub) {
			fs["sub"] = true
			delete(fs, "settled")
		}
		if isRecredit(i) {
			fs["settled"] = true
		}
	}
	fl.Edge = func(from *ssa.BasicBlock, k int, fs Facts) {
		if c := ifCond(from); c != nil && len(from.Succs) == 2 && from.Succs[0] != from.Succs[1] {
			if settles(c, k == 0) {
				fs["settled"] = true
			}
		}
	}
	res := fl.Run(f)
	bad := ""
	any := false
	for _, ret := range returnsOf(f) {
		if !reachesInstr(sub, ret) {
			continue
		}
		any = true
		fs := res.At(ret)
		if fs == nil {
			continue
		}
		if !fs["settled"] {
			bad = c.pos(ret.Pos())
		}
	}
	switch {
	case !any:
		r.Unk(key, f.Pos(), "no return behind the credit subtraction")
	case bad == "":
		r.OK(key, sub.Pos(), "on every path the update was sent, the channel is closed, or the amount is added back")
	default:
		r.Bad(key, sub.Pos(), "the return at %s is reached with the acknowledged amount subtracted from recvBytes although the window update was not sent (its status is not OK on that path) and the amount was not added back: the sender never regains this window - after consuming everything the receiver waits for data while the sender waits for credit", bad)
	}
}

// ackHost: the function that keeps the consumed-bytes counter for ReceiveAsync - ReceiveAsync itself, or the helper
// of the package it calls for that (channelState.incrementRecvBytes), two call levels at most.
func ackHost(f *ssa.Function) *ssa.Function {
	var find func(g *ssa.Function, depth int) *ssa.Function
	find = func(g *ssa.Function, depth int) *ssa.Function {
		if len(fieldMethodCalls(g, "recvBytes", "Add")) > 0 {
			return g
		}
		if depth >= 2 {
			return nil
		}
		for _, call := range callsIn(g, false) {
			if _, isCall := call.(*ssa.Call); !isCall {
				continue
			}
			h := call.Common().StaticCallee()
			if h == nil || h.Blocks == nil || h.Pkg != f.Pkg || h == g {
				continue
			}
			if x := find(h, depth+1); x != nil {
				return x
			}
		}
		return nil
	}
	if h := find(f, 0); h != nil {
		return h
	}
	return f
}
