package main

import (
	"fmt"
	"go/token"
	"go/types"
	"sort"
	"strings"

	"golang.org/x/tools/go/ssa"
)

func init() {
	props["C03"] = &propInfo{Level: "other", Explanation: "Decides the serialisation structure that in-order exactly-once delivery depends on, not the delivery itself: (R03.1) every frame-sending call of Send/SendAndClose and the window debit happen inside the channel's sendMu critical section (lockset), with closeUser's payload-less close as the single reasoned exception; (R03.2) single producer/consumer per direction: connWriter.write/flush are called only from the send loop and the handshake, writeq.Read only from sendLoop, writeq.Write only from conn.send, connReader.read only from the message/handshake readers; (R03.4) framing agreement: writer and reader both use a 4-byte big-endian header equal to len(body), header before body; (R03.5) payloads piggy-backed on open/close frames are written to the receive queue before the channel is published/closed; (R03.6) conn.send reports OK only when a writeq.Write call accepted the frame (ok == true on that path); (R03.7) each sender method hands the payload to exactly one frame-building call (no duplication inside batches); (R11.4/R09.3) dispatch by code and no partial frames. Not decided: that the queues are FIFO and lossless (dependency), absence of duplication under real schedules, compression.",
		Trusted: []string{"bytequeue is FIFO and lossless", "guarded-by / who-calls tables in rules_mpx.go"}}
	props["C06"] = &propInfo{Level: "other", Explanation: "Decides structural necessary conditions of 'ending one channel never disturbs the connection': (R06.1) the receive path, which looks a channel up without removing it, obtains the state through the non-panicking tryAcquire - never through acquire, which panics at reference count zero; (R06.2) one releaser of the connection's reference: internalChannel.free() is called only on a value whose map entry this caller removed (channels.Delete with ok == true on the path), on a channel that lost GetOrSet (never published), or under the captured `deleted` flag derived from Delete's result - never on a value from Get/Range; (R06.3) the function that invokes Handler.HandleChannel defers a recover and defers ch.Free(); (R06.4) late frames are dropped silently: on the miss edge of the lookups in receiveData/receiveWindow/receiveClose, and for a freed or closed channel in channel.receive / receiveClose, the status returned is the OK constant; (R06.5) every explicit panic reachable in package mpx is enumerated and must be in the reasoned allow-list. Not decided: effects on sibling channels under real schedules.",
		Trusted: []string{"asyncmap Delete returns ok==true to exactly one caller per entry", "panic allow-list reasons in rules_mpx.go"}}
	props["C20"] = &propInfo{Level: "other", Explanation: "Decides structural necessary conditions of 'handlers and close listeners fire exactly once': (R20.1) receiveOpen submits exactly one handler task on every OK path, outside any loop, and none on the duplicate-id path; (R20.2) the function registered as close listener is the wrapper that guards the user callback with a CompareAndSwap on a per-registration flag; (R20.3) registration is check-insert-recheck: addClosed returns a non-zero id only behind a closed.IsSet()==false test evaluated after the insert, and OnClosed reports false only if the listener was never stored or the registrant won the wrapper's CAS (so it can never run); (R20.4) closed.Set() precedes notifyClosed and the delegate callback (they are deferred, or dominated by the Set); (R20.5) every channel-end route (free, closeUser, SendAndClose, receiveClose) calls channelState.close, which cancels the handler's context (R09.2); (R20.6) a frame sent with the channel's own context is never sent after that context was cancelled by close(). Not decided: counts under real schedules.",
		Trusted: []string{"atomic CompareAndSwap semantics", "workerPool.Run runs each submitted task once"}}

	register(&Rule{ID: "R03.1", Props: []string{"C03"}, Floor: 4,
		Doc: "single sender: frame-sending calls and window debits of a channel happen under channelState.sendMu",
		Run: func(c *Ctx, r *R) {
			runLockset(c, r, guardSpec{Pkg: "mpx", Type: "channelState", Mutex: "sendMu",
				Calls:  []string{"sender.sendOpen", "sender.sendData", "sender.sendClose", "sender.sendOpenClose"},
				Exempt: map[string]string{"closeUser": "Free by the user ends the user's own sequence with a payload-less close frame; ordering against concurrent Send is the caller's contract"},
				Reason: "two concurrent Send calls would interleave open/data/close frames of one channel"})
		}})
	register(&Rule{ID: "R03.2", Props: []string{"C03"}, Floor: 6,
		Doc: "single producer / consumer per direction (who-may-call table)",
		Run: runR03_2})
	register(&Rule{ID: "R03.5", Props: []string{"C03"}, Floor: 4,
		Doc: "payload ordering and conservation: piggy-backed data queued before publish/close; conn.send OK only after an accepted Write; payload passed to exactly one frame builder",
		Run: runR03_5})
	register(&Rule{ID: "R06.1", Props: []string{"C06"}, Floor: 3,
		Doc: "receive path acquires a looked-up channel without panicking",
		Run: runR06_1})
	register(&Rule{ID: "R06.2", Props: []string{"C06", "C09"}, Floor: 5,
		Doc: "the connection's channel reference is released only by whoever removed the map entry",
		Run: runR06_2})
	register(&Rule{ID: "R06.3", Props: []string{"C06", "C04"}, Floor: 2,
		Doc: "handler runs under recover and frees its channel on exit",
		Run: runR06_3})
	register(&Rule{ID: "R06.4", Props: []string{"C06", "C03"}, Floor: 5,
		Doc: "frames for unknown, freed or closed channels are dropped with status OK",
		Run: runR06_4})
	register(&Rule{ID: "R06.5", Props: []string{"C06", "C11"}, Floor: 5,
		Doc: "explicit panics of package mpx are enumerated against a reasoned allow-list",
		Run: runR06_5})
	register(&Rule{ID: "R20.1", Props: []string{"C20"}, Floor: 3,
		Doc: "one handler task per accepted open frame",
		Run: runR20_1})
	register(&Rule{ID: "R20.3", Props: []string{"C20"}, Floor: 3,
		Doc: "close-listener registration: once-wrapper, check-insert-recheck, false only if the listener can never run",
		Run: runR20_3})
	register(&Rule{ID: "R20.4", Props: []string{"C20"}, Floor: 2,
		Doc: "closed flag set before listeners / delegate run",
		Run: runR20_4})
	register(&Rule{ID: "R20.5", Props: []string{"C20"}, Floor: 5,
		Doc: "every channel-end route closes the state; own-context sends never follow close",
		Run: runR20_5})
}

// ---------------------------------------------------------------- C03

func runR03_2(c *Ctx, r *R) {
	// callee (Type.method, package mpx)  ->  allowed callers
	table := []struct {
		callee  string
		label   string
		allowed []string
	}{
		{"connWriter.write", "", []string{"conn.sendMessage", "connWriter.writeAndFlush"}},
		{"connWriter.flush", "", []string{"conn.sendLoop", "connWriter.writeAndFlush", "connWriter.writeLine"}},
		{"connWriter.writeAndFlush", "", []string{"conn.handshakeAsClient", "conn.handshakeAsServer"}},
		{"connReader.read", "", []string{"connReader.readMessage", "connReader.readRequest", "connReader.readResponse"}},
		{"connReader.readMessage", "", []string{"conn.receiveLoop", "connReader.readRequest", "connReader.readResponse"}},
		{"connReader.readRequest", "", []string{"conn.handshakeAsServer"}},
		{"connReader.readResponse", "", []string{"conn.handshakeAsClient"}},
		{"", "writeq.Read", []string{"conn.sendLoop"}},
		{"", "writeq.Write", []string{"conn.send"}},
		{"conn.sendLoop", "", []string{"conn.run"}},
		{"conn.receiveLoop", "", []string{"conn.run"}},
	}
	funcs := c.SrcFuncs("mpx")
	// callers of a function of package mpx (by Type.method name) or of a labelled call
	callersOf := func(callee, label string) []string {
		var callers []string
		for _, fn := range funcs {
			pos := c.Fset.Position(fn.Pos())
			if strings.HasPrefix(baseName(pos.Filename), "test_") {
				continue
			}
			for _, call := range callsIn(fn, false) {
				hit := false
				if callee != "" {
					if o := calleeObj(call); o != nil && o.Pkg() != nil && o.Pkg().Path() == pkgPath("mpx") && objName(o) == callee {
						hit = true
					}
				} else if calleeLabel(call) == label {
					hit = true
				}
				if hit {
					callers = append(callers, strings.TrimPrefix(fnKey(fn), "mpx."))
				}
			}
			// method values (c.receiveLoop passed to async.RunVoid)
			if callee != "" {
				allInstrs(fn, func(i ssa.Instruction) {
					if mc, ok := i.(*ssa.MakeClosure); ok {
						if f2, ok := mc.Fn.(*ssa.Function); ok && strings.HasSuffix(f2.Name(), "$bound") {
							if o, ok := f2.Object().(*types.Func); ok && objName(o) == callee {
								callers = append(callers, strings.TrimPrefix(fnKey(fn), "mpx."))
							}
						}
					}
				})
			}
		}
		return uniq(callers)
	}
	for _, t := range table {
		callers := callersOf(t.callee, t.label)
		name := t.callee
		if name == "" {
			name = t.label
		}
		key := "mpx." + name + "/callers"
		// a caller outside the list is a helper of a listed one when it is unexported and is itself called only
		// from listed functions (conn.run -> conn.runLoops -> receiveLoop): the direction still has one owner
		var viaHelper func(cl string, depth int) bool
		viaHelper = func(cl string, depth int) bool {
			base := strings.SplitN(cl, "$", 2)[0]
			if in(t.allowed, base) {
				return true
			}
			m := base[strings.LastIndex(base, ".")+1:]
			if depth >= 3 || m == "" || token.IsExported(m) {
				return false
			}
			up := callersOf(base, "")
			if len(up) == 0 {
				return false
			}
			for _, u := range up {
				if strings.SplitN(u, "$", 2)[0] == base {
					continue
				}
				if !viaHelper(u, depth+1) {
					return false
				}
			}
			return true
		}
		var bad []string
		for _, cl := range callers {
			if !viaHelper(cl, 0) {
				bad = append(bad, cl)
			}
		}
		switch {
		case len(callers) == 0:
			r.Unk(key, 0, "anchor lost: %s has no caller", name)
		case len(bad) > 0:
			r.Bad(key, 0, "%s is called from %v; only %v may call it: a second producer/consumer on this direction breaks frame ordering", name, bad, t.allowed)
		default:
			r.OK(key, 0, "called only from %v", callers)
		}
	}
}

func runR03_5(c *Ctx, r *R) {
	sa := newStatusAn(c)
	// (a) receiveClose: queue the piggy-backed payload before closing
	if f := r.Need("mpx", "channelState.receiveClose"); f != nil {
		key := fnKey(f) + "/payload-before-close"
		var wr, cl ssa.Instruction
		for _, call := range queueWritePoints(f) {
			wr = call.(ssa.Instruction)
		}
		for _, call := range callsIn(f, false) {
			if calleeLabel(call) == "close" {
				cl = call.(ssa.Instruction)
			}
		}
		switch {
		case wr == nil || cl == nil:
			r.Bad(key, f.Pos(), "receiveClose must queue the closing payload and close the channel (write found=%v, close found=%v)", wr != nil, cl != nil)
		case reachesInstr(cl, wr):
			r.Bad(key, wr.Pos(), "the closing frame's payload is queued after the channel was closed: the receive queue is already closed, the last message is lost")
		default:
			r.OK(key, wr.Pos(), "closing payload queued before the channel state is closed")
		}
	}
	// (b) openChannel: payload queued before the channel is returned (published)
	if f := r.Need("mpx", "openChannel"); f != nil {
		key := fnKey(f) + "/payload-before-publish"
		ok := len(queueWritePoints(f)) > 0
		r.Check(ok, key, f.Pos(), "payload of the open frame is queued inside openChannel, before the channel is registered", "the payload carried by an open frame is not queued: the first message of the channel is lost")
	}
	// (c) conn.send: OK only after writeq.Write accepted the frame
	if f := r.Need("mpx", "conn.send"); f != nil {
		n := 0
		for _, ret := range returnsOf(f) {
			if len(ret.Results) != 1 || sa.classOf(ret.Results[0], ret.Block(), false, 0) == SNonOK {
				continue
			}
			n++
			key := fmt.Sprintf("%s/ok-return#%d", fnKey(f), n)
			good := false
			for _, cd := range pathConds(ret.Block()) {
				if ex, ok := cd.V.(*ssa.Extract); ok && cd.Truth && ex.Index == 0 {
					if call, ok := ex.Tuple.(*ssa.Call); ok && calleeLabel(call) == "writeq.Write" {
						// the accepting Write must be the last Write on the path: no later Write call reaches the return
						later := false
						for _, c2 := range callsIn(f, false) {
							if calleeLabel(c2) == "writeq.Write" && c2 != ssa.CallInstruction(call) && reachesInstr(call, c2.(ssa.Instruction)) && reachesInstr(c2.(ssa.Instruction), ret) {
								later = true
							}
						}
						if !later {
							good = true
						}
					}
				}
			}
			if good {
				r.OK(key, ret.Pos(), "OK returned only when writeq.Write reported the frame as accepted")
			} else {
				r.Bad(key, ret.Pos(), "conn.send can return a possibly-OK status without a writeq.Write that accepted the frame on that path: a frame is dropped while Send reports success (messages go missing mid-stream)")
			}
		}
		if n == 0 {
			r.Unk(fnKey(f)+"/ok-return", f.Pos(), "no OK return found")
		}
	}
	// (d) payload conservation in the sender: `data` goes to exactly one frame-building call
	for _, m := range []string{"sendOpen", "sendOpenClose", "sendClose", "sendData"} {
		f := r.Need("mpx", "channelSender."+m)
		if f == nil {
			continue
		}
		var data ssa.Value
		for _, p := range f.Params {
			if bytesLike(p.Type()) {
				data = p
			}
		}
		key := fnKey(f) + "/payload-once"
		if data == nil {
			r.Unk(key, f.Pos(), "no payload parameter")
			continue
		}
		cnt := 0
		for _, u := range users(data) {
			if call, ok := u.(ssa.CallInstruction); ok {
				if o := calleeObj(call); o != nil && o.Pkg() != nil && o.Pkg().Path() == pkgPath("proto/pmpx") {
					cnt++
				}
			}
		}
		if cnt == 1 {
			r.OK(key, f.Pos(), "payload handed to exactly one frame-building call")
		} else {
			r.Bad(key, f.Pos(), "payload is handed to %d frame-building calls: the message is delivered %s", cnt, map[bool]string{true: "more than once", false: "never"}[cnt > 1])
		}
	}
}

// ---------------------------------------------------------------- C06

func runR06_1(c *Ctx, r *R) {
	f := r.Need("mpx", "channel.receive")
	if f == nil {
		return
	}
	key := fnKey(f) + "/acquire"
	uses := map[string]bool{}
	for _, call := range callsIn(f, false) {
		if o := calleeObj(call); o != nil {
			uses[objName(o)] = true
		}
	}
	switch {
	case uses["channel.acquire"]:
		r.Bad(key, f.Pos(), "channel.receive obtains the state with acquire(), which panics when the reference count is zero: receiveData/receiveWindow look the channel up without removing it, so the send loop or the user can free it first and one late frame tears the whole connection down")
	case uses["channel.tryAcquire"]:
		r.OK(key, f.Pos(), "state obtained with the non-panicking tryAcquire")
	default:
		r.Unk(key, f.Pos(), "channel.receive does not acquire the state through a recognised function")
	}
	// tryAcquire must not panic on refs <= 0: its early exit returns false
	if g := r.Need("mpx", "channel.tryAcquire"); g != nil {
		key := fnKey(g) + "/no-panic-when-freed"
		okRet := false
		for _, ret := range returnsOf(g) {
			if len(ret.Results) == 2 {
				if k, ok := ret.Results[1].(*ssa.Const); ok && k.Value != nil && k.Value.String() == "false" {
					okRet = true
				}
			}
		}
		r.Check(okRet, key, g.Pos(), "returns (nil,false) for a freed channel", "tryAcquire has no non-panicking exit for a freed channel")
	}
	// the lookups themselves
	for _, fn := range []string{"conn.receiveData", "conn.receiveWindow"} {
		if g := r.Need("mpx", fn); g != nil {
			found := lookupHost(g, "channels.Get", 3) != nil
			r.Check(found, fnKey(g)+"/lookup", g.Pos(), "non-removing lookup (channels.Get, directly or in a helper), receive handled by the non-panicking path", "anchor changed: no channels.Get lookup reachable from the handler")
		}
	}
}

func runR06_2(c *Ctx, r *R) {
	n := 0
	for _, fn := range c.SrcFuncs("mpx") {
		pos := c.Fset.Position(fn.Pos())
		if strings.HasPrefix(baseName(pos.Filename), "test_") {
			continue
		}
		for _, call := range callsIn(fn, false) {
			cc := call.Common()
			var recv ssa.Value
			if cc.IsInvoke() && cc.Method.Name() == "free" && typeIs(cc.Value.Type(), pkgPath("mpx"), "internalChannel") {
				recv = cc.Value
			} else if o := calleeObj(call); o != nil && objName(o) == "channel.free" && len(cc.Args) > 0 {
				recv = cc.Args[0]
			}
			if recv == nil {
				continue
			}
			n++
			key := fmt.Sprintf("%s/free#%d", fnKey(fn), n)
			why, ok := ownsReference(fn, call, recv)
			if ok {
				r.OK(key, call.Pos(), "%s", why)
			} else {
				r.Bad(key, call.Pos(), "the connection's reference to a channel is released here although this caller did not remove the map entry (%s): a second party (send loop, receive loop, closeChannels or createChannel) releases it too - 'free of freed channel' panic", why)
			}
		}
	}
}

// ownsReference: receiver value of a free() call is owned by this caller.
func ownsReference(fn *ssa.Function, call ssa.CallInstruction, recv ssa.Value) (string, bool) {
	blk := call.Block()
	condTrue := func(v ssa.Value) bool {
		for _, cd := range pathConds(blk) {
			if cd.V == v && cd.Truth {
				return true
			}
		}
		return false
	}
	// captured variable (deferred closure): resolve loads of free variables
	if ld, ok := recv.(*ssa.UnOp); ok && ld.Op == token.MUL {
		if fv, ok := ld.X.(*ssa.FreeVar); ok {
			_ = fv
		}
	}
	switch x := recv.(type) {
	case *ssa.Extract:
		if dc, ok := x.Tuple.(*ssa.Call); ok && x.Index == 0 {
			switch calleeLabel(dc) {
			case "channels.Delete":
				okv := extractOf(dc, 1)
				if okv != nil && condTrue(okv) {
					return "value removed from the map by this caller (Delete ok == true)", true
				}
				return "Delete result used without testing ok", false
			case "channels.Get", "channels.GetOrSet":
				return "value from a non-removing lookup", false
			}
		}
	case *ssa.Parameter:
		// Range callback parameter
		if fn.Parent() != nil {
			return "value handed to a Range callback (not removed by this caller)", false
		}
	}
	// a channel created in this function that lost the race to be published (GetOrSet exists == true)
	if isFreshChannel(recv) {
		for _, cd := range pathConds(blk) {
			if ex, ok := cd.V.(*ssa.Extract); ok && cd.Truth && ex.Index == 1 {
				if dc, ok := ex.Tuple.(*ssa.Call); ok && calleeLabel(dc) == "channels.GetOrSet" {
					return "freshly created channel that was never published (GetOrSet found an existing entry)", true
				}
			}
		}
	}
	// deferred cleanup guarded by a captured flag fed from Delete's ok result
	if fn.Parent() != nil {
		for _, cd := range pathConds(blk) {
			ld, ok := cd.V.(*ssa.UnOp)
			if !ok || ld.Op != token.MUL || !cd.Truth {
				continue
			}
			fv, ok := ld.X.(*ssa.FreeVar)
			if !ok {
				continue
			}
			// find the binding in the parent and inspect its stores
			if flagFedByDelete(fn, fv) {
				return "cleanup guarded by a flag that is false exactly when the connection removed (and released) the entry", true
			}
		}
	}
	return "origin of the value is not an owning removal", false
}

func isFreshChannel(v ssa.Value) bool {
	switch x := v.(type) {
	case *ssa.Call:
		if o := calleeObj(x); o != nil && (o.Name() == "openChannel" || o.Name() == "newChannel") {
			return true
		}
	case *ssa.MakeInterface:
		return isFreshChannel(x.X)
	case *ssa.ChangeInterface:
		return isFreshChannel(x.X)
	case *ssa.Parameter:
		// parameter of an unexported helper (conn.addOpened(id, ch)) that every caller hands a fresh channel
		fn := x.Parent()
		if fn == nil || fn.Parent() != nil || token.IsExported(fn.Name()) {
			return false
		}
		sites, escapes := sitesOf(fn)
		if escapes || len(sites) == 0 {
			return false
		}
		pi := paramIndex(fn, x)
		for _, s := range sites {
			if _, isGo := s.(*ssa.Go); isGo || pi >= len(s.Common().Args) || !isFreshChannel(s.Common().Args[pi]) {
				return false
			}
		}
		return true
	case *ssa.UnOp:
		if x.Op == token.MUL {
			if al, ok := x.X.(*ssa.Alloc); ok {
				for _, u := range users(al) {
					if st, ok := u.(*ssa.Store); ok && st.Addr == ssa.Value(al) && isFreshChannel(st.Val) {
						return true
					}
				}
			}
			if fv, ok := x.X.(*ssa.FreeVar); ok {
				_ = fv
				return true // captured local of the enclosing function (createChannel's ch)
			}
		}
	}
	return false
}

// flagFedByDelete: the free variable is bound to a local bool of the parent whose stores are the constant true
// and the ok result of channels.Delete.
func flagFedByDelete(closure *ssa.Function, fv *ssa.FreeVar) bool {
	parent := closure.Parent()
	if parent == nil {
		return false
	}
	idx := -1
	for i, f := range closure.FreeVars {
		if f == fv {
			idx = i
		}
	}
	var bound ssa.Value
	allInstrs(parent, func(i ssa.Instruction) {
		if mc, ok := i.(*ssa.MakeClosure); ok && mc.Fn == ssa.Value(closure) && idx >= 0 && idx < len(mc.Bindings) {
			bound = mc.Bindings[idx]
		}
	})
	al, ok := bound.(*ssa.Alloc)
	if !ok {
		return false
	}
	fed := false
	for _, u := range users(al) {
		st, ok := u.(*ssa.Store)
		if !ok || st.Addr != ssa.Value(al) {
			continue
		}
		ok, f := ownershipFlagValue(st.Val, 0)
		if !ok {
			return false
		}
		if f {
			fed = true
		}
	}
	return fed
}

func runR06_3(c *Ctx, r *R) {
	n := 0
	for _, fn := range c.SrcFuncs("mpx") {
		for _, call := range callsIn(fn, false) {
			cc := call.Common()
			if !cc.IsInvoke() || cc.Method.Name() != "HandleChannel" {
				continue
			}
			n++
			key := fnKey(fn) + "/handler-call"
			hasRecover, hasFree := false, false
			var recoverDefer, freeDefer *ssa.Defer
			for _, c2 := range callsIn(fn, false) {
				d, ok := c2.(*ssa.Defer)
				if !ok {
					continue
				}
				// the deferred function - a closure, a method or a function - must call recover() itself
				// (recover only stops a panic when called directly by the deferred function)
				if cf := deferredFunc(d); cf != nil {
					for _, c3 := range callsIn(cf, false) {
						if b, ok := c3.Common().Value.(*ssa.Builtin); ok && b.Name() == "recover" {
							hasRecover = true
							recoverDefer = d
						}
					}
				}
				if d.Call.IsInvoke() && d.Call.Method.Name() == "Free" {
					hasFree = true
					freeDefer = d
				}
				if o := calleeObj(d); o != nil && o.Name() == "Free" {
					hasFree = true
					freeDefer = d
				}
			}
			switch {
			case !hasRecover:
				r.Bad(key, call.Pos(), "the user handler is invoked without a deferred recover: a handler panic kills the process / the connection instead of ending one channel")
			case !hasFree:
				r.Bad(key, call.Pos(), "the channel is not freed (deferred Free) when the handler returns or panics: the peer never sees the channel end")
			case recoverDefer != nil && freeDefer != nil && !dominatesInstr(recoverDefer, freeDefer):
				// defers run last-in-first-out: the recover must be registered BEFORE the Free to run AFTER it
				r.Bad(key, freeDefer.Pos(), "the deferred Free is registered before the deferred recover, so it runs after it: Free panics when the handler has already ended its channel itself ('free called multiple times'), and that panic is no longer recovered - it escapes on a worker goroutine and kills the process")
			default:
				r.OK(key, call.Pos(), "handler runs under a deferred recover and the channel is freed on every exit")
			}
		}
	}
	if n == 0 {
		r.Unk("mpx/HandleChannel-call", 0, "anchor lost: no call to Handler.HandleChannel")
	}
}

// lookupHost: the function that performs the call labelled lbl on behalf of f: f itself, or a function of the same
// package that f reaches through static calls (depth-bounded) - extracting the lookup into a shared helper does not
// move the obligation out of sight.
func lookupHost(f *ssa.Function, lbl string, depth int) *ssa.Function {
	for _, call := range callsIn(f, false) {
		if calleeLabel(call) == lbl {
			return f
		}
	}
	if depth == 0 {
		return nil
	}
	for _, call := range callsIn(f, false) {
		if g := call.Common().StaticCallee(); g != nil && g.Pkg == f.Pkg && g.Blocks != nil && g != f {
			if h := lookupHost(g, lbl, depth-1); h != nil {
				return h
			}
		}
	}
	return nil
}

func runR06_4(c *Ctx, r *R) {
	sa := newStatusAn(c)
	done := map[string]bool{}
	check := func(fnName, label string, miss func(ret *ssa.Return) bool, lookup ...string) {
		f := r.Need("mpx", fnName)
		if f == nil {
			return
		}
		// the lookup may live in a helper the handler delegates to: judge the function that performs it
		if len(lookup) > 0 {
			if h := lookupHost(f, lookup[0], 3); h != nil {
				f = h
			}
		}
		if done[fnKey(f)+"/"+label] {
			return // shared helper already judged
		}
		done[fnKey(f)+"/"+label] = true
		n := 0
		for _, ret := range returnsOf(f) {
			if !miss(ret) {
				continue
			}
			n++
			key := fmt.Sprintf("%s/%s#%d", fnKey(f), label, n)
			cl := sa.classOf(ret.Results[len(ret.Results)-1], ret.Block(), false, 0)
			if cl == SOK {
				r.OK(key, ret.Pos(), "late frame dropped with status OK")
			} else {
				r.Bad(key, ret.Pos(), "a frame for a channel that has already ended is answered with a status that %s: the receive loop exits on any non-OK status and closes the whole connection", map[SClass]string{SNonOK: "is not OK", SUnknown: "may be not OK", SBottom: "is undefined"}[cl])
			}
		}
		if n == 0 {
			r.Bad(fnKey(f)+"/"+label, f.Pos(), "no early exit for a channel that has already ended (%s)", label)
		}
	}
	lookupMiss := func(lbls ...string) func(ret *ssa.Return) bool {
		return func(ret *ssa.Return) bool {
			for _, cd := range pathConds(ret.Block()) {
				if ex, ok := cd.V.(*ssa.Extract); ok && !cd.Truth && ex.Index == 1 {
					if dc, ok := ex.Tuple.(*ssa.Call); ok && in(lbls, calleeLabel(dc)) {
						return true
					}
				}
			}
			return false
		}
	}
	check("conn.receiveData", "unknown-channel", lookupMiss("channels.Get"), "channels.Get")
	check("conn.receiveWindow", "unknown-channel", lookupMiss("channels.Get"), "channels.Get")
	check("conn.receiveClose", "unknown-channel", lookupMiss("channels.Delete"), "channels.Delete")
	check("channel.receive", "freed-channel", func(ret *ssa.Return) bool {
		for _, cd := range pathConds(ret.Block()) {
			if ex, ok := cd.V.(*ssa.Extract); ok && !cd.Truth && ex.Index == 1 {
				if dc, ok := ex.Tuple.(*ssa.Call); ok {
					if o := calleeObj(dc); o != nil && o.Name() == "tryAcquire" {
						return true
					}
				}
			}
		}
		return false
	})
	closedLoad := func(ret *ssa.Return) bool {
		for _, cd := range pathConds(ret.Block()) {
			if call, ok := cd.V.(*ssa.Call); ok && cd.Truth && calleeLabel(call) == "closed.Load" {
				return true
			}
		}
		return false
	}
	check("channel.receive", "closed-channel", closedLoad, "closed.Load")
	check("channelState.receiveClose", "closed-channel", closedLoad, "closed.Load")
	// the per-channel handlers of data, window and close frames: whatever happens to the channel's own queue or
	// window (queue closed by a concurrent Free between the closed test and the write) stays inside the channel -
	// any non-OK status returned here ends the receive loop and with it every channel of the connection
	for _, h := range []string{"channelState.receiveData", "channelState.receiveWindow", "channelState.receiveClose"} {
		f := r.Need("mpx", h)
		if f == nil {
			continue
		}
		key := fnKey(f) + "/always-OK"
		bad := ""
		var pos token.Pos
		for _, ret := range returnsOf(f) {
			if cl := sa.classOf(ret.Results[len(ret.Results)-1], ret.Block(), false, 0); cl != SOK {
				bad = fmt.Sprintf("the return at %s yields a status that %s", c.pos(ret.Pos()), map[SClass]string{SNonOK: "is not OK", SUnknown: "may be not OK", SBottom: "is undefined"}[cl])
				pos = ret.Pos()
			}
		}
		if bad == "" {
			r.OK(key, f.Pos(), "every return is status.OK: a failing write into the channel's own queue is not a connection failure")
		} else {
			r.Bad(key, pos, "%s: a frame racing with the end of its channel (queue already closed) makes the receive loop exit and closes the whole connection instead of being dropped", bad)
		}
	}
}

// allow-list of explicit panics in package mpx: function -> reason
var mpxPanics = map[string]string{
	"mpx.channel.Free":           "API misuse by the owner (double Free), raised in the caller's goroutine, documented",
	"mpx.channel.free":           "reference already released: unreachable while R06.2 holds (one releaser per map entry)",
	"mpx.channel.acquire":        "use after Free by the owner of the handle, raised in the caller's goroutine; never on the receive path (R06.1)",
	"mpx.channel.tryAcquire":     "state nil with a positive reference count: unreachable, the state is cleared only when the count reaches zero",
	"mpx.channel.release":        "double release: unreachable while R06.2 holds",
	"mpx.channel.closeUser":      "unexpected status class from the local write queue: declared unreachable; statuses of a closed connection are in the accepted set",
	"mpx.channelState.open":      "opening a server-side channel: internal misuse, server channels are created opened",
	"mpx.connReader.initLZ4":     "double initialisation during the handshake: internal misuse",
	"mpx.connWriter.initLZ4":     "double initialisation during the handshake: internal misuse",
	"mpx.server.listen":          "listener already set: internal misuse",
	"mpx.channelContext.Free":    "double Free of a context",
	"mpx.context.Free":           "double Free of a context",
	"mpx.clientConns.roundRobin": "",
}

// panicHosts: fn is an unexported helper whose every caller is an allow-listed function (channel.acquire and
// channel.tryAcquire sharing channel.acquiredState): the panic it contains is the panic of those functions.
func panicHosts(fn *ssa.Function, depth int) []string {
	if fn.Parent() != nil || token.IsExported(fn.Name()) || depth >= 2 {
		return nil
	}
	sites, escapes := sitesOf(fn)
	if escapes || len(sites) == 0 {
		return nil
	}
	var out []string
	for _, s := range sites {
		caller := s.Parent()
		for caller.Parent() != nil {
			caller = caller.Parent()
		}
		base := fnKey(caller)
		if why := mpxPanics[base]; why != "" {
			out = append(out, base)
			continue
		}
		up := panicHosts(caller, depth+1)
		if len(up) == 0 {
			return nil
		}
		out = append(out, up...)
	}
	return uniq(out)
}

func runR06_5(c *Ctx, r *R) {
	for _, fn := range c.SrcFuncs("mpx") {
		pos := c.Fset.Position(fn.Pos())
		if strings.HasPrefix(baseName(pos.Filename), "test_") || strings.HasSuffix(baseName(pos.Filename), "_debug.go") {
			continue
		}
		n := 0
		allInstrs(fn, func(i ssa.Instruction) {
			p, ok := i.(*ssa.Panic)
			if !ok {
				return
			}
			if !p.Pos().IsValid() {
				return // synthetic: "blocking select matched no case"
			}
			n++
			key := fmt.Sprintf("%s/panic#%d", fnKey(fn), n)
			base := strings.SplitN(fnKey(fn), "$", 2)[0]
			if why, ok := mpxPanics[base]; ok && why != "" {
				r.OK(key, p.Pos(), "allow-listed: %s", why)
			} else if hosts := panicHosts(fn, 0); len(hosts) > 0 {
				r.OK(key, p.Pos(), "helper called only from allow-listed %v: %s", hosts, mpxPanics[hosts[0]])
			} else {
				r.Bad(key, p.Pos(), "explicit panic in package mpx that is not in the reasoned allow-list: a library panic on the receive/send path tears down the connection (or the process) instead of affecting one channel")
			}
		})
	}
}

// ---------------------------------------------------------------- C20

func runR20_1(c *Ctx, r *R) {
	f := r.Need("mpx", "conn.receiveOpen")
	if f == nil {
		return
	}
	sa := newStatusAn(c)
	var runs []ssa.Instruction
	for _, call := range callsIn(f, false) {
		cc := call.Common()
		if cc.IsInvoke() && cc.Method.Name() == "Run" {
			if g, ok := cc.Value.(*ssa.UnOp); ok {
				if gl, ok := g.X.(*ssa.Global); ok && gl.Name() == "workerPool" {
					runs = append(runs, call.(ssa.Instruction))
				}
			}
		}
	}
	key := fnKey(f) + "/handler-task"
	if len(runs) != 1 {
		r.Bad(key, f.Pos(), "receiveOpen submits %d handler tasks, exactly one is required", len(runs))
		return
	}
	run := runs[0]
	// not in a loop
	if reachableFrom(run.Block())[run.Block()] {
		r.Bad(key, run.Pos(), "the handler task is submitted inside a loop")
		return
	}
	// the task is a newChannelHandler(...)
	isHandler := false
	for _, a := range run.(ssa.CallInstruction).Common().Args {
		v := a
		if mi, ok := v.(*ssa.MakeInterface); ok {
			v = mi.X
		}
		if hc, ok := v.(*ssa.Call); ok {
			if o := calleeObj(hc); o != nil && o.Name() == "newChannelHandler" {
				isHandler = true
			}
		}
	}
	if !isHandler {
		r.Bad(key, run.Pos(), "the submitted task is not a channel handler for the opened channel")
		return
	}
	r.OK(key, run.Pos(), "exactly one handler task, outside any loop")
	// every OK return is dominated by the Run; the duplicate path does not reach it
	n := 0
	for _, ret := range returnsOf(f) {
		cl := sa.classOf(ret.Results[0], ret.Block(), false, 0)
		n++
		k2 := fmt.Sprintf("%s/return#%d", fnKey(f), n)
		switch {
		case cl == SNonOK && reachesInstr(run, ret):
			r.Bad(k2, ret.Pos(), "a rejected open frame has already started a handler")
		case cl == SNonOK:
			r.OK(k2, ret.Pos(), "rejected without starting a handler")
		case dominatesInstr(run, ret):
			r.OK(k2, ret.Pos(), "accepted: handler submitted exactly once before returning")
		default:
			r.Bad(k2, ret.Pos(), "an accepted open frame (status %s) returns without having submitted the handler: the channel is never served", cl)
		}
	}
}

func runR20_3(c *Ctx, r *R) {
	if host := listenerHost(c); host != nil && host.Name() == "OnClosed" {
		runR20_3Inline(c, r, host)
		return
	}
	// (a) addClosed: check-insert-recheck
	if f := r.Need("mpx", "conn.addClosed"); f != nil {
		var set ssa.Instruction
		for _, call := range callsIn(f, false) {
			if calleeLabel(call) == "closedListeners.Set" {
				set = call.(ssa.Instruction)
			}
		}
		n := 0
		for _, ret := range returnsOf(f) {
			if len(ret.Results) != 1 {
				continue
			}
			if k, ok := constInt(ret.Results[0]); ok && k == 0 {
				continue
			}
			n++
			key := fmt.Sprintf("%s/return-id#%d", fnKey(f), n)
			good := false
			for _, cd := range pathConds(ret.Block()) {
				if call, ok := cd.V.(*ssa.Call); ok && !cd.Truth && calleeLabel(call) == "closed.IsSet" && set != nil && dominatesInstr(set, call) {
					good = true
				}
			}
			if set == nil {
				r.Bad(key, ret.Pos(), "the listener is never stored")
			} else if good {
				r.OK(key, ret.Pos(), "success reported only after closed was re-checked behind the insert")
			} else {
				r.Bad(key, ret.Pos(), "registration reports success without re-checking closed after the insert: a close that already iterated the listeners leaves this one registered and never invoked")
			}
		}
		if n == 0 {
			r.Unk(fnKey(f)+"/return-id", f.Pos(), "no success return found")
		}
	}
	// (b) OnClosed: wrapper and the false path
	f := r.Need("mpx", "conn.OnClosed")
	if f == nil {
		return
	}
	var wrapper *ssa.Function
	var flag ssa.Value
	for _, call := range callsIn(f, false) {
		if o := calleeObj(call); o != nil && o.Name() == "addClosed" && len(call.Common().Args) == 2 {
			if mc, ok := call.Common().Args[1].(*ssa.MakeClosure); ok {
				wrapper, _ = mc.Fn.(*ssa.Function)
				// a method value (l.call): the method behind the bound-method wrapper
				if wrapper != nil && wrapper.Synthetic != "" {
					if o, ok := wrapper.Object().(*types.Func); ok {
						if m := c.Prog.FuncValue(o); m != nil && m.Blocks != nil {
							wrapper = m
						}
					}
				}
				for _, b := range mc.Bindings {
					if typeIs(deref(b.Type()), "sync/atomic", "Bool") || strings.Contains(b.Type().String(), "atomic.Bool") {
						flag = b
					}
				}
			}
		}
	}
	key := fnKey(f) + "/once-wrapper"
	if wrapper == nil {
		r.Bad(key, f.Pos(), "the listener handed to addClosed is not a once-wrapper closure")
	} else {
		// in the wrapper: the call of the user callback is dominated by a successful CompareAndSwap
		good := false
		for _, call := range callsIn(wrapper, false) {
			if call.Common().StaticCallee() != nil || call.Common().IsInvoke() {
				continue
			}
			// dynamic call of a captured func value
			for _, cd := range pathConds(call.Block()) {
				if cas, ok := cd.V.(*ssa.Call); ok && cd.Truth && isCASResult(cas, 0) {
					good = true
				}
			}
		}
		r.Check(good, key, wrapper.Pos(), "user callback runs only behind a successful CompareAndSwap of the per-registration flag", "the wrapper invokes the user callback without winning a CompareAndSwap: the listener can run twice (close racing with registration)")
	}
	n := 0
	for _, ret := range returnsOf(f) {
		if len(ret.Results) != 2 {
			continue
		}
		k, ok := unspill(ret.Results[1]).(*ssa.Const)
		if !ok || k.Value == nil || k.Value.String() != "false" {
			continue
		}
		n++
		key := fmt.Sprintf("%s/return-false#%d", fnKey(f), n)
		idZero, casWon := false, false
		for _, cd := range pathConds(ret.Block()) {
			for _, rel := range relsOf(cd) {
				if rel.Op == token.EQL && isConstInt(rel.Y, 0) {
					if ac, ok := singleStoreValue(rel.X).(*ssa.Call); ok {
						if o := calleeObj(ac); o != nil && o.Name() == "addClosed" {
							idZero = true
						}
					}
				}
			}
			if cas, ok := cd.V.(*ssa.Call); ok && cd.Truth {
				if o := calleeObj(cas); o != nil && o.Name() == "CompareAndSwap" && len(cas.Call.Args) > 0 && (flag == nil || singleStoreValue(cas.Call.Args[0]) == singleStoreValue(flag) || cas.Call.Args[0] == flag || loadsFrom(cas.Call.Args[0], flag)) {
					casWon = true
				} else if o != nil && o.Name() != "CompareAndSwap" && isCASResult(cas, 0) {
					// l.disarm(): a method of the once-wrapper object that returns the result of the CAS on its flag
					casWon = true
				}
			}
		}
		switch {
		case !idZero:
			r.Bad(key, ret.Pos(), "OnClosed reports 'already closed' on a path where the listener may be registered")
		case !casWon:
			r.Bad(key, ret.Pos(), "OnClosed reports false although the listener may already have been stored and invoked (the insert/re-check window): the registrant must disarm the once-flag before reporting false")
		default:
			r.OK(key, ret.Pos(), "false only after the registrant won the once-flag: the listener can never run")
		}
	}
	if n == 0 {
		r.Unk(fnKey(f)+"/return-false", f.Pos(), "no 'already closed' return found")
	}
}

func runR20_4(c *Ctx, r *R) {
	f := r.Need("mpx", "conn.close")
	if f == nil {
		return
	}
	var setCall ssa.Instruction
	for _, call := range callsIn(f, false) {
		if _, isDefer := call.(*ssa.Defer); !isDefer && calleeLabel(call) == "closed.Set" {
			setCall = call.(ssa.Instruction)
		}
	}
	for _, lbl := range []string{"notifyClosed", "delegate.onConnClosed"} {
		key := fnKey(f) + "/flag-before-" + lbl
		found := false
		good := true
		for _, call := range callsIn(f, false) {
			if calleeLabel(call) != lbl {
				continue
			}
			found = true
			if _, isDefer := call.(*ssa.Defer); isDefer {
				continue // runs at function exit, after the body set the flag (R09.2 proves the Set is on every path)
			}
			if setCall == nil || !dominatesInstr(setCall, call.(ssa.Instruction)) {
				good = false
			}
		}
		switch {
		case !found:
			r.Bad(key, f.Pos(), "%s is not called by conn.close", lbl)
		case setCall == nil:
			r.Bad(key, f.Pos(), "conn.close never sets the closed flag")
		case good:
			r.OK(key, f.Pos(), "closed flag is set before %s runs", lbl)
		default:
			r.Bad(key, f.Pos(), "%s can run before the closed flag is set: a listener observes an open connection", lbl)
		}
	}
}

func runR20_5(c *Ctx, r *R) {
	routes := []struct{ fn, guard string }{
		{"channel.free", ""},
		{"channel.closeUser", "closed.Load"},
		{"channel.SendAndClose", "closed.Load"},
		{"channelState.receiveClose", "closed.Load"},
	}
	for _, rt := range routes {
		f := r.Need("mpx", rt.fn)
		if f == nil {
			continue
		}
		key := fnKey(f) + "/closes-state"
		ok, nRet := true, 0
		flows := map[*ssa.Function]*FlowResult{}
		for _, ret := range effectiveReturns(f) {
			g := ret.Parent()
			if flows[g] == nil {
				_, flows[g] = mustCallsGuarded(g, rt.guard)
			}
			fa := flows[g].At(ret)
			if fa != nil && fa["BOT"] {
				continue
			}
			if fa == nil {
				continue
			}
			if rt.guard != "" && returnBehindGuard(ret, rt.guard) {
				continue
			}
			nRet++
			if !fa["close"] {
				ok = false
			}
		}
		if nRet == 0 {
			ok = false
		}
		if ok {
			r.OK(key, f.Pos(), "channelState.close (context cancel, queue close) on every path past the already-closed check")
		} else {
			r.Bad(key, f.Pos(), "a path of %s ends the channel without calling channelState.close: the handler's context is never cancelled", rt.fn)
		}
	}
	// own-context sends never follow close
	for _, fn := range c.SrcFuncs("mpx") {
		n := 0
		for _, call := range callsIn(fn, false) {
			o := calleeObj(call)
			if o == nil {
				continue
			}
			sig := o.Type().(*types.Signature)
			if sig.Recv() == nil || !typeIs(sig.Recv().Type(), pkgPath("mpx"), "channelSender") {
				continue
			}
			args := call.Common().Args
			if len(args) < 2 {
				continue
			}
			// ctx argument is the channel's own context: a load of <state>.ctx
			src := valueSource(args[1])
			if mi, ok := args[1].(*ssa.MakeInterface); ok {
				src = valueSource(mi.X)
			}
			if ci, ok := args[1].(*ssa.ChangeInterface); ok {
				src = valueSource(ci.X)
			}
			if src != ".ctx" {
				continue
			}
			n++
			key := fmt.Sprintf("%s/own-ctx-send#%d", fnKey(fn), n)
			bad := false
			for _, c2 := range callsIn(fn, false) {
				if _, isDefer := c2.(*ssa.Defer); isDefer {
					continue
				}
				if o2 := calleeObj(c2); o2 != nil && objName(o2) == "channelState.close" && reachesInstr(c2.(ssa.Instruction), call.(ssa.Instruction)) {
					bad = true
				}
			}
			if bad {
				r.Bad(key, call.Pos(), "a frame is sent with the channel's own context after close() cancelled that context: when the write queue is full the close frame is dropped and the peer never learns the channel ended")
			} else {
				r.OK(key, call.Pos(), "sent before the channel context is cancelled")
			}
		}
	}
}

var _ = sort.Strings

// loadsFrom: v is a load of the cell `cell`.
func loadsFrom(v, cell ssa.Value) bool {
	ld, ok := v.(*ssa.UnOp)
	return ok && ld.Op == token.MUL && ld.X == cell
}

// singleStoreValue resolves a load of a local variable that is assigned exactly once (e.g. a variable captured by
// a closure, which go/ssa keeps in an Alloc) to the stored value.
func singleStoreValue(v ssa.Value) ssa.Value {
	ld, ok := v.(*ssa.UnOp)
	if !ok || ld.Op != token.MUL {
		return v
	}
	al, ok := ld.X.(*ssa.Alloc)
	if !ok {
		return v
	}
	var val ssa.Value
	n := 0
	for _, u := range users(al) {
		if st, ok := u.(*ssa.Store); ok && st.Addr == ssa.Value(al) {
			n++
			val = st.Val
		}
	}
	if n == 1 {
		return val
	}
	return v
}

// queueWritePoints: the instructions of f at which a payload is written to the receive queue: a recvQueue.Write call,
// or a call of a function of the same package that is handed a byte slice and itself (or through one more such
// helper) writes it to the receive queue.
func queueWritePoints(f *ssa.Function) []ssa.CallInstruction {
	var writes func(g *ssa.Function, depth int) bool
	writes = func(g *ssa.Function, depth int) bool {
		if g == nil || g.Blocks == nil || depth > 2 {
			return false
		}
		for _, call := range callsIn(g, false) {
			if calleeLabel(call) == "recvQueue.Write" {
				return true
			}
			if h := call.Common().StaticCallee(); h != nil && h.Pkg == g.Pkg && passesBytes(call) && writes(h, depth+1) {
				return true
			}
		}
		return false
	}
	var out []ssa.CallInstruction
	for _, call := range callsIn(f, false) {
		if calleeLabel(call) == "recvQueue.Write" {
			out = append(out, call)
			continue
		}
		if h := call.Common().StaticCallee(); h != nil && h.Pkg == f.Pkg && passesBytes(call) && writes(h, 1) {
			out = append(out, call)
		}
	}
	return out
}

func passesBytes(call ssa.CallInstruction) bool {
	for _, a := range call.Common().Args {
		if bytesLike(a.Type()) {
			return true
		}
	}
	return false
}

// ownershipFlagValue judges a value stored into the "this caller owns the connection's reference" flag of a deferred
// cleanup: a bool constant (true: the initial "never published"; false: never frees), the ok result of
// channels.Delete (owning removal: fed), or a result of a helper of the package that is one of these at every return.
func ownershipFlagValue(v ssa.Value, depth int) (ok, fed bool) {
	if depth > 3 {
		return false, false
	}
	switch x := unspill(v).(type) {
	case *ssa.Const:
		return x.Value != nil && isBoolType(x.Type()), false
	case *ssa.Phi:
		allOK := true
		for _, e := range x.Edges {
			o, f := ownershipFlagValue(e, depth+1)
			if !o {
				allOK = false
			}
			if f {
				fed = true
			}
		}
		return allOK, fed
	case *ssa.Extract:
		dc, isCall := x.Tuple.(*ssa.Call)
		if !isCall {
			return false, false
		}
		if x.Index == 1 && calleeLabel(dc) == "channels.Delete" {
			return true, true
		}
		h := dc.Call.StaticCallee()
		if h == nil || h.Blocks == nil || h.Pkg == nil || relPkg(h.Pkg.Pkg.Path()) != "mpx" {
			return false, false
		}
		allOK, any := true, false
		for _, ret := range returnsOf(h) {
			if x.Index >= len(ret.Results) {
				return false, false
			}
			any = true
			o, f := ownershipFlagValue(ret.Results[x.Index], depth+1)
			if !o {
				allOK = false
			}
			if f {
				fed = true
			}
		}
		return allOK && any, fed
	}
	return false, false
}

// deferredFunc: the function a defer statement runs, when it has a body: the closure, or the static callee.
func deferredFunc(d *ssa.Defer) *ssa.Function {
	if mc, ok := d.Call.Value.(*ssa.MakeClosure); ok {
		if cf, ok := mc.Fn.(*ssa.Function); ok {
			return cf
		}
	}
	if cf := d.Call.StaticCallee(); cf != nil && cf.Blocks != nil {
		return cf
	}
	return nil
}

// isCASResult: the call is a CompareAndSwap, or a call of a module helper every return of which hands back the
// result of a CompareAndSwap (l.disarm()).
func isCASResult(call *ssa.Call, depth int) bool {
	if o := calleeObj(call); o != nil && o.Name() == "CompareAndSwap" {
		return true
	}
	h := call.Call.StaticCallee()
	if h == nil || h.Blocks == nil || depth > 1 || h.Signature.Results().Len() != 1 {
		return false
	}
	n := 0
	for _, ret := range returnsOf(h) {
		if len(ret.Results) != 1 {
			return false
		}
		c2, ok := unspill(ret.Results[0]).(*ssa.Call)
		if !ok || !isCASResult(c2, depth+1) {
			return false
		}
		n++
	}
	return n > 0
}
