package main

import (
	"fmt"
	"os"
	"regexp"
	"sort"
	"strings"
)

// Structural reader of a goyacc grammar file: declarations (%token/%type with value types), productions with
// their alternatives, and the semantic action text of each alternative.

type yAlt struct {
	LHS    string
	RHS    []string // symbols ('x' literals kept with quotes)
	Action string   // action text without the outer braces
	Line   int
}

type yGrammar struct {
	SymType map[string]string // symbol -> union field ("" = untyped)
	Tokens  map[string]bool
	Alts    []yAlt
	Start   string
}

var reDecl = regexp.MustCompile(`^%(token|type|left|right|nonassoc)\s*(<(\w+)>)?\s*(.*)$`)

func parseYacc(path string) (*yGrammar, error) {
	b, err := os.ReadFile(path)
	if err != nil {
		return nil, err
	}
	src := string(b)
	parts := strings.SplitN(src, "\n%%", 3)
	if len(parts) < 2 {
		return nil, fmt.Errorf("no %%%% separator")
	}
	g := &yGrammar{SymType: map[string]string{}, Tokens: map[string]bool{}}
	// declarations (skip %{ %} and %union{})
	decl := parts[0]
	for _, line := range strings.Split(decl, "\n") {
		line = strings.TrimSpace(line)
		if i := strings.Index(line, "//"); i >= 0 {
			line = strings.TrimSpace(line[:i])
		}
		if strings.HasPrefix(line, "%start") {
			g.Start = strings.TrimSpace(strings.TrimPrefix(line, "%start"))
			continue
		}
		m := reDecl.FindStringSubmatch(line)
		if m == nil {
			continue
		}
		for _, sym := range strings.Fields(m[4]) {
			if m[1] == "token" {
				g.Tokens[sym] = true
			}
			if m[3] != "" || g.SymType[sym] == "" {
				if m[3] != "" {
					g.SymType[sym] = m[3]
				} else if _, ok := g.SymType[sym]; !ok {
					g.SymType[sym] = ""
				}
			}
		}
	}
	// rules section: tokenise respecting braces, quotes and comments
	rules := parts[1]
	baseLine := strings.Count(parts[0], "\n") + 2
	type tok struct {
		s    string
		line int
	}
	var toks []tok
	i, line := 0, baseLine
	for i < len(rules) {
		ch := rules[i]
		switch {
		case ch == '\n':
			line++
			i++
		case ch == ' ' || ch == '\t' || ch == '\r':
			i++
		case strings.HasPrefix(rules[i:], "//"):
			for i < len(rules) && rules[i] != '\n' {
				i++
			}
		case strings.HasPrefix(rules[i:], "/*"):
			j := strings.Index(rules[i+2:], "*/")
			if j < 0 {
				return nil, fmt.Errorf("unterminated comment")
			}
			line += strings.Count(rules[i:i+2+j+2], "\n")
			i += 2 + j + 2
		case ch == '{':
			depth, j := 0, i
			start := line
			for j < len(rules) {
				switch rules[j] {
				case '{':
					depth++
				case '}':
					depth--
				case '"':
					j++
					for j < len(rules) && rules[j] != '"' {
						if rules[j] == '\\' {
							j++
						}
						j++
					}
				case '\'':
					j++
					for j < len(rules) && rules[j] != '\'' {
						if rules[j] == '\\' {
							j++
						}
						j++
					}
				case '`':
					j++
					for j < len(rules) && rules[j] != '`' {
						j++
					}
				case '\n':
					line++
				}
				j++
				if depth == 0 {
					break
				}
			}
			toks = append(toks, tok{rules[i:j], start})
			i = j
		case ch == '\'':
			j := i + 1
			for j < len(rules) && rules[j] != '\'' {
				if rules[j] == '\\' {
					j++
				}
				j++
			}
			toks = append(toks, tok{rules[i : j+1], line})
			i = j + 1
		case ch == ':' || ch == '|' || ch == ';':
			toks = append(toks, tok{string(ch), line})
			i++
		case ch == '%':
			// %prec X
			j := i
			for j < len(rules) && rules[j] != ' ' && rules[j] != '\n' && rules[j] != '\t' {
				j++
			}
			toks = append(toks, tok{rules[i:j], line})
			i = j
		default:
			j := i
			for j < len(rules) && (rules[j] == '_' || rules[j] >= '0' && rules[j] <= '9' || rules[j] >= 'a' && rules[j] <= 'z' || rules[j] >= 'A' && rules[j] <= 'Z') {
				j++
			}
			if j == i {
				return nil, fmt.Errorf("line %d: unexpected character %q", line, ch)
			}
			toks = append(toks, tok{rules[i:j], line})
			i = j
		}
	}
	// productions
	k := 0
	for k < len(toks) {
		if k+1 >= len(toks) || toks[k+1].s != ":" {
			if toks[k].s == ";" {
				k++
				continue
			}
			return nil, fmt.Errorf("line %d: expected a rule, got %q", toks[k].line, toks[k].s)
		}
		lhs := toks[k].s
		k += 2
		cur := yAlt{LHS: lhs, Line: toks[k-2].line}
		flush := func() {
			g.Alts = append(g.Alts, cur)
			cur = yAlt{LHS: lhs}
		}
		for k < len(toks) {
			t := toks[k]
			// a new rule starts: ident followed by ':'
			if k+1 < len(toks) && toks[k+1].s == ":" && !strings.HasPrefix(t.s, "{") && t.s != "|" && t.s != ";" {
				break
			}
			switch {
			case t.s == "|":
				flush()
				cur.Line = t.line
			case t.s == ";":
				// end of rule (a stray ';' inside alternatives is tolerated by goyacc)
			case strings.HasPrefix(t.s, "{"):
				cur.Action = strings.TrimSpace(t.s[1 : len(t.s)-1])
				if cur.Line == 0 {
					cur.Line = t.line
				}
			case t.s == "%prec":
				k++ // skip the precedence symbol
			default:
				if cur.Line == 0 {
					cur.Line = t.line
				}
				cur.RHS = append(cur.RHS, t.s)
			}
			k++
		}
		flush()
	}
	return g, nil
}

// stripDebug removes `if debugParser { ... }` blocks from an action.
func stripDebug(action string) string {
	for {
		i := strings.Index(action, "if debugParser")
		if i < 0 {
			return action
		}
		j := strings.Index(action[i:], "{")
		if j < 0 {
			return action
		}
		depth, k := 0, i+j
		for k < len(action) {
			if action[k] == '{' {
				depth++
			}
			if action[k] == '}' {
				depth--
				if depth == 0 {
					break
				}
			}
			k++
		}
		if k >= len(action) {
			return action
		}
		action = action[:i] + action[k+1:]
	}
}

var reDollar = regexp.MustCompile(`\$(\$|\d+)`)
var reBind = regexp.MustCompile(`(\w+)\s*:\s*([^,\n}]+)`)

// altBindings extracts "Field<-expr" pairs of composite literals and the assignment to $$ of an action.
func altBindings(action string) []string {
	a := stripDebug(action)
	var out []string
	for _, m := range reBind.FindAllStringSubmatch(a, -1) {
		val := strings.TrimSpace(m[2])
		if strings.Contains(val, "$") || strings.HasPrefix(val, "syntax.") || val == "true" || val == "false" || strings.HasPrefix(val, "\"") {
			out = append(out, m[1]+"<-"+strings.Join(strings.Fields(val), ""))
		}
	}
	// plain $$ = <expr> (no composite literal)
	for _, line := range strings.Split(a, "\n") {
		line = strings.TrimSpace(line)
		if strings.HasPrefix(line, "$$") && !strings.Contains(line, "{") {
			out = append(out, strings.Join(strings.Fields(line), ""))
		}
	}
	sort.Strings(out)
	return out
}

func (a yAlt) sig() string { return a.LHS + ": " + strings.Join(a.RHS, " ") }
