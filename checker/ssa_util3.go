package main

import (
	"go/token"
	"strings"

	"golang.org/x/tools/go/ssa"
	"golang.org/x/tools/go/ssa/ssautil"
)

// funcValueOf: the function a function-typed value denotes when that is decidable from the value itself:
// a function, a closure over one, a method expression thunk or a bound method wrapper.
func funcValueOf(v ssa.Value) *ssa.Function {
	switch x := v.(type) {
	case *ssa.Function:
		return x
	case *ssa.MakeClosure:
		if f, ok := x.Fn.(*ssa.Function); ok {
			return f
		}
	case *ssa.ChangeType:
		return funcValueOf(x.X)
	}
	return nil
}

// paramInvoked: fn calls its function-typed parameter p (directly, or hands it on to a callee that does).
func paramInvoked(fn *ssa.Function, p *ssa.Parameter) bool {
	return paramInvokedD(fn, p, 0)
}

func paramInvokedD(fn *ssa.Function, p *ssa.Parameter, depth int) bool {
	if depth > 3 || p.Referrers() == nil {
		return false
	}
	for _, u := range *p.Referrers() {
		call, ok := u.(ssa.CallInstruction)
		if !ok {
			continue
		}
		cc := call.Common()
		if cc.Value == p {
			return true
		}
		if cal := cc.StaticCallee(); cal != nil && cal.Blocks != nil {
			for i, a := range cc.Args {
				if a == p && i < len(cal.Params) && paramInvokedD(cal, cal.Params[i], depth+1) {
					return true
				}
			}
		}
	}
	// captured by a closure of fn that calls it
	for _, an := range fn.AnonFuncs {
		for _, fv := range an.FreeVars {
			_ = fv
		}
	}
	return false
}

// resultOfCall: v is the result (or the idx-th result) of a call.
func resultOfCall(v ssa.Value) (*ssa.Call, int) {
	switch x := v.(type) {
	case *ssa.Call:
		return x, 0
	case *ssa.Extract:
		if c, ok := x.Tuple.(*ssa.Call); ok {
			return c, x.Index
		}
	}
	return nil, 0
}

// helperExcludes: every return of helper h whose idx-th (boolean) result can have the value `truth` lies behind a
// dominating condition accepted by `want`. Returns with the constant !truth cannot be the exit taken.
func helperExcludes(h *ssa.Function, idx int, truth bool, want func(Cond) bool) bool {
	n := 0
	for _, ret := range returnsOf(h) {
		if ret.Block() == h.Recover {
			continue
		}
		if idx >= len(ret.Results) {
			return false
		}
		rv := unspill(ret.Results[idx])
		if k, ok := rv.(*ssa.Const); ok && k.Value != nil && (k.Value.String() == "true") != truth {
			continue
		}
		n++
		ok := false
		for _, cd := range pathConds(ret.Block()) {
			cv, tr := cd.V, cd.Truth
			for {
				un, isNot := cv.(*ssa.UnOp)
				if !isNot || un.Op != token.NOT {
					break
				}
				cv, tr = un.X, !tr
			}
			if want(Cond{cv, tr}) {
				ok = true
			}
		}
		if !ok {
			return false
		}
	}
	return n > 0
}

// guardedThroughCallers: instruction `at` lies behind a dominating condition accepted by pred, either in its own
// function or - when that function is an unexported helper of package rel - at every one of the helper's call
// sites (two levels up at most). A helper nobody calls is not guarded.
func guardedThroughCallers(c *Ctx, rel string, at ssa.Instruction, pred func(cd Cond, fn *ssa.Function) bool, depth int) bool {
	fn := at.Parent()
	for _, cd := range pathConds(at.Block()) {
		if pred(cd, fn) {
			return true
		}
	}
	root := fn
	for root.Parent() != nil {
		root = root.Parent()
	}
	if depth >= 2 || token.IsExported(root.Name()) || root != fn {
		return false
	}
	n := 0
	for _, g := range c.SrcFuncs(rel) {
		for _, call := range callsIn(g, false) {
			if call.Common().StaticCallee() != fn {
				continue
			}
			n++
			if _, isGo := call.(*ssa.Go); isGo {
				return false
			}
			if !guardedThroughCallers(c, rel, call.(ssa.Instruction), pred, depth+1) {
				return false
			}
		}
		// the helper escapes as a method value: its callers are unknown
		bad := false
		allInstrs(g, func(i ssa.Instruction) {
			if mc, ok := i.(*ssa.MakeClosure); ok {
				if f2, ok := mc.Fn.(*ssa.Function); ok && f2.Synthetic != "" && f2.Object() != nil && f2.Object() == fn.Object() {
					bad = true
				}
			}
		})
		if bad {
			return false
		}
	}
	return n > 0
}

// ---- static call sites of module functions (built once per program) ----

type siteIndex struct {
	sites   map[*ssa.Function][]ssa.CallInstruction
	escapes map[*ssa.Function]bool // used as a value (method value, callback): callers unknown
}

var siteIndexes = map[*ssa.Program]*siteIndex{}

func sitesOf(fn *ssa.Function) ([]ssa.CallInstruction, bool) {
	prog := fn.Prog
	ix := siteIndexes[prog]
	if ix == nil {
		ix = &siteIndex{sites: map[*ssa.Function][]ssa.CallInstruction{}, escapes: map[*ssa.Function]bool{}}
		siteIndexes[prog] = ix
		// what a synthetic function (bound-method wrapper, thunk, pointer-receiver wrapper) forwards to. Such
		// wrappers are created on demand (method sets), so their mere existence says nothing: the target escapes
		// only if real code uses the wrapper.
		forwards := func(w *ssa.Function) []*ssa.Function {
			var out []*ssa.Function
			for _, b := range w.Blocks {
				for _, ins := range b.Instrs {
					if call, ok := ins.(ssa.CallInstruction); ok {
						if h := call.Common().StaticCallee(); h != nil {
							out = append(out, h)
						}
					}
				}
			}
			return out
		}
		for g := range ssautil.AllFunctions(prog) {
			if g.Blocks == nil || g.Synthetic != "" {
				continue
			}
			root := g
			for root.Parent() != nil {
				root = root.Parent()
			}
			if root.Pkg == nil || !strings.HasPrefix(root.Pkg.Pkg.Path(), Mod) {
				continue
			}
			for _, b := range g.Blocks {
				for _, ins := range b.Instrs {
					var callee ssa.Value
					if call, ok := ins.(ssa.CallInstruction); ok {
						if h := call.Common().StaticCallee(); h != nil {
							if h.Synthetic != "" && h.Blocks != nil {
								for _, t := range forwards(h) {
									ix.escapes[t] = true
								}
							} else {
								ix.sites[h] = append(ix.sites[h], call)
							}
						}
						callee = call.Common().Value
					}
					for _, op := range ins.Operands(nil) {
						if *op == nil || *op == callee {
							continue
						}
						h, ok := (*op).(*ssa.Function)
						if !ok {
							continue
						}
						ix.escapes[h] = true
						if h.Synthetic != "" && h.Blocks != nil {
							for _, t := range forwards(h) {
								ix.escapes[t] = true
							}
						}
					}
				}
			}
		}
	}
	return ix.sites[fn], ix.escapes[fn]
}

// establishedVia: block b is reached only when `local` holds - at b itself, or at every success exit of a helper of
// the same package whose success result gates b: a boolean result tested true (added := c.add(ch); if added) or a
// status result tested OK (if st := c.addOpened(id, ch); !st.OK() { return st }). Two helper levels at most.
func establishedVia(sa *statusAn, b *ssa.BasicBlock, local func(b *ssa.BasicBlock) bool, depth int) bool {
	if local(b) {
		return true
	}
	if depth >= 2 {
		return false
	}
	fn := b.Parent()
	for _, cd := range pathConds(b) {
		v, truth := cd.V, cd.Truth
		for {
			un, isNot := v.(*ssa.UnOp)
			if !isNot || un.Op != token.NOT {
				break
			}
			v, truth = un.X, !truth
		}
		if x, ok := okCallOn(v); ok {
			if !truth {
				continue
			}
			hc, idx := resultOfCall(unspill(x))
			if hc == nil {
				continue
			}
			h := hc.Call.StaticCallee()
			if h == nil || h.Blocks == nil || h.Pkg == nil || h.Pkg != fn.Pkg {
				continue
			}
			all, n := true, 0
			for _, ret := range returnsOf(h) {
				if ret.Block() == h.Recover || idx >= len(ret.Results) {
					continue
				}
				if sa.classOf(ret.Results[idx], ret.Block(), false, 0) == SNonOK {
					continue
				}
				n++
				if !establishedVia(sa, ret.Block(), local, depth+1) {
					all = false
				}
			}
			if all && n > 0 {
				return true
			}
			continue
		}
		hc, idx := resultOfCall(v)
		if hc == nil || !isBoolType(v.Type()) {
			continue
		}
		h := hc.Call.StaticCallee()
		if h == nil || h.Blocks == nil || h.Pkg == nil || h.Pkg != fn.Pkg {
			continue
		}
		all, n := true, 0
		for _, ret := range returnsOf(h) {
			if ret.Block() == h.Recover || idx >= len(ret.Results) {
				continue
			}
			if k, ok := unspill(ret.Results[idx]).(*ssa.Const); ok && k.Value != nil && (k.Value.String() == "true") != truth {
				continue
			}
			n++
			if !establishedVia(sa, ret.Block(), local, depth+1) {
				all = false
			}
		}
		if all && n > 0 {
			return true
		}
	}
	return false
}

// feasibleUnder: some acyclic path to block b is consistent with the boolean parameter values env (and with itself:
// no value is required both true and false).
func feasibleUnder(b *ssa.BasicBlock, env map[*ssa.Parameter]bool) bool {
	for _, alt := range backPaths(b, nil, 256) {
		seen := map[ssa.Value]bool{}
		ok := true
		for _, cd := range alt {
			v, truth := cd.V, cd.Truth
			for {
				un, isNot := v.(*ssa.UnOp)
				if !isNot || un.Op != token.NOT {
					break
				}
				v, truth = un.X, !truth
			}
			if p, isP := v.(*ssa.Parameter); isP {
				if want, bound := env[p]; bound && want != truth {
					ok = false
					break
				}
			}
			if prev, had := seen[v]; had && prev != truth {
				ok = false
				break
			}
			seen[v] = truth
		}
		if ok {
			return true
		}
	}
	return false
}

// constBoolArgs: the boolean parameters of callee that this call binds to constants.
func constBoolArgs(call ssa.CallInstruction, callee *ssa.Function) map[*ssa.Parameter]bool {
	env := map[*ssa.Parameter]bool{}
	for i, a := range call.Common().Args {
		if k, ok := a.(*ssa.Const); ok && k.Value != nil && isBoolType(k.Type()) && i < len(callee.Params) {
			env[callee.Params[i]] = k.Value.String() == "true"
		}
	}
	return env
}

// effectiveReturns: the returns through which a call of f comes back, where `return h(..., true)` of a helper of the
// same package is replaced by h's own returns that are feasible with the constant boolean arguments
// (SendAndClose -> send(ctx, data, true)). One level.
func effectiveReturns(f *ssa.Function) []*ssa.Return {
	var out []*ssa.Return
	for _, ret := range returnsOf(f) {
		if ret.Block() == f.Recover {
			continue
		}
		if call := tailCallOf(ret); call != nil {
			if h := call.Call.StaticCallee(); h != nil && h.Blocks != nil && h.Pkg == f.Pkg && h != f {
				env := constBoolArgs(call, h)
				if len(env) > 0 {
					for _, hr := range returnsOf(h) {
						if hr.Block() != h.Recover && feasibleUnder(hr.Block(), env) {
							out = append(out, hr)
						}
					}
					continue
				}
			}
		}
		out = append(out, ret)
	}
	return out
}
