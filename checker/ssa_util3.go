package main

import (
	"go/token"

	"golang.org/x/tools/go/ssa"
)

// funcValueOf: the function a function-typed value denotes when that is decidable from the value itself:
// a function, a closure over one, a method expression thunk or a bound method wrapper.
func funcValueOf(v ssa.Value) *ssa.Function {
	switch x := v.(type) {
	case *ssa.Function:
		return x
	case *ssa.MakeClosure:
		if f, ok := x.Fn.(*ssa.Function); ok {
			return f
		}
	case *ssa.ChangeType:
		return funcValueOf(x.X)
	}
	return nil
}

// paramInvoked: fn calls its function-typed parameter p (directly, or hands it on to a callee that does).
func paramInvoked(fn *ssa.Function, p *ssa.Parameter) bool {
	return paramInvokedD(fn, p, 0)
}

func paramInvokedD(fn *ssa.Function, p *ssa.Parameter, depth int) bool {
	if depth > 3 || p.Referrers() == nil {
		return false
	}
	for _, u := range *p.Referrers() {
		call, ok := u.(ssa.CallInstruction)
		if !ok {
			continue
		}
		cc := call.Common()
		if cc.Value == p {
			return true
		}
		if cal := cc.StaticCallee(); cal != nil && cal.Blocks != nil {
			for i, a := range cc.Args {
				if a == p && i < len(cal.Params) && paramInvokedD(cal, cal.Params[i], depth+1) {
					return true
				}
			}
		}
	}
	// captured by a closure of fn that calls it
	for _, an := range fn.AnonFuncs {
		for _, fv := range an.FreeVars {
			_ = fv
		}
	}
	return false
}

// resultOfCall: v is the result (or the idx-th result) of a call.
func resultOfCall(v ssa.Value) (*ssa.Call, int) {
	switch x := v.(type) {
	case *ssa.Call:
		return x, 0
	case *ssa.Extract:
		if c, ok := x.Tuple.(*ssa.Call); ok {
			return c, x.Index
		}
	}
	return nil, 0
}

// helperExcludes: every return of helper h whose idx-th (boolean) result can have the value `truth` lies behind a
// dominating condition accepted by `want`. Returns with the constant !truth cannot be the exit taken.
func helperExcludes(h *ssa.Function, idx int, truth bool, want func(Cond) bool) bool {
	n := 0
	for _, ret := range returnsOf(h) {
		if ret.Block() == h.Recover {
			continue
		}
		if idx >= len(ret.Results) {
			return false
		}
		rv := unspill(ret.Results[idx])
		if k, ok := rv.(*ssa.Const); ok && k.Value != nil && (k.Value.String() == "true") != truth {
			continue
		}
		n++
		ok := false
		for _, cd := range pathConds(ret.Block()) {
			cv, tr := cd.V, cd.Truth
			for {
				un, isNot := cv.(*ssa.UnOp)
				if !isNot || un.Op != token.NOT {
					break
				}
				cv, tr = un.X, !tr
			}
			if want(Cond{cv, tr}) {
				ok = true
			}
		}
		if !ok {
			return false
		}
	}
	return n > 0
}

// guardedThroughCallers: instruction `at` lies behind a dominating condition accepted by pred, either in its own
// function or - when that function is an unexported helper of package rel - at every one of the helper's call
// sites (two levels up at most). A helper nobody calls is not guarded.
func guardedThroughCallers(c *Ctx, rel string, at ssa.Instruction, pred func(cd Cond, fn *ssa.Function) bool, depth int) bool {
	fn := at.Parent()
	for _, cd := range pathConds(at.Block()) {
		if pred(cd, fn) {
			return true
		}
	}
	root := fn
	for root.Parent() != nil {
		root = root.Parent()
	}
	if depth >= 2 || token.IsExported(root.Name()) || root != fn {
		return false
	}
	n := 0
	for _, g := range c.SrcFuncs(rel) {
		for _, call := range callsIn(g, false) {
			if call.Common().StaticCallee() != fn {
				continue
			}
			n++
			if _, isGo := call.(*ssa.Go); isGo {
				return false
			}
			if !guardedThroughCallers(c, rel, call.(ssa.Instruction), pred, depth+1) {
				return false
			}
		}
		// the helper escapes as a method value: its callers are unknown
		bad := false
		allInstrs(g, func(i ssa.Instruction) {
			if mc, ok := i.(*ssa.MakeClosure); ok {
				if f2, ok := mc.Fn.(*ssa.Function); ok && f2.Synthetic != "" && f2.Object() != nil && f2.Object() == fn.Object() {
					bad = true
				}
			}
		})
		if bad {
			return false
		}
	}
	return n > 0
}
