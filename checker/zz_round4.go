package main

// Additions of the fourth round to the per-property explanations (appended here so that the rule files keep the
// text they were reviewed with; this file is initialised last).
func init() {
	add := map[string]string{
		"C01": " (R08.7) one varint encoder; (R12.9) the bytes returned by the writer's end* functions start at the popped entry's start; (R16.1) full-width tag comparison.",
		"C02": " (R02.2) recursion descends: in every recursive cycle of the read cone each call passes a buffer no longer than the caller's and some call a strictly shorter one, so the recursion terminates and its depth is bounded by the input length (see round 6: that is not a bound on the stack). Contract-less helpers are covered by inferred pre/postconditions and per-exit summaries, all verified.",
		"C03": " (R06.6, R08.2) the teardown classification in ReceiveAsync and the big-table predicate also count here.",
		"C04": " (R04.9) frames received from the mpx channel become prpc messages only through prpc.ParseMessage; (R05.8) client and server use Method.Name verbatim as the wire name.",
		"C05": " (R05.8) method wire names; (R14.16) every import line emitted is used; (R16.1) tag width.",
		"C06": " (R06.7) a channel-map miss on the send side never yields a non-OK status.",
		"C07": " (R07.7) recvBytes is modified only where messages are handed to the user.",
		"C08": " (R08.7) one varint encoder; (R10.1 full range, R10.4) reference bytes are read back: no representable value is rejected, decoder size = bytes consumed; (R12.9).",
		"C09": " (R09.10) conn.close() sets the closed flag before channels are failed and the delegate/listeners are told; writeq.Close only there; (R19.6) the reduced connection set is published; (R04.9).",
		"C10": " (R10.1 full range) neither extreme value of the target type is excluded by the guards where the narrowed value is returned; (R10.4) every consumed count is part of the returned size; (R08.7).",
		"C11": " (R11.6) the protocol line is read up to its newline; the handshake reads from the peer only through readLine/readRequest/readResponse.",
		"C12": " (R12.8) Err() returns the sticky error unfiltered; (R12.9) returned bytes start at entry.start.",
		"C13": " (R13.4) the slice and the condition under which it is handed out agree between parser and accessor; (R02.2) recursion descends; (R10.4) decoder size accounting.",
		"C14": " (R14.12) no error of the pipeline is dropped or swallowed after a test; (R14.13) Type.Ref/Element followed only where set; (R14.14) all four single-type positions of a method are kind-checked; (R14.15) struct containment is checked acyclic; (R14.16) every emitted import has a guaranteed use.",
		"C16": " The bounds obligations of the table lookups (R02.1) count here: an absent tag does not panic.",
		"C17": " (R18.5) ownership flags: a cleared flag makes every message allocate.",
		"C18": " (R18.5) releaseState/releaseWriter are set only in constructors and cleared only where the state is Put.",
		"C19": " (R19.7) the attempt counter is reset only where a connection was added.",
		"C20": " (R20.6) close-listener ids come from a counter that only grows; (R09.10) shutdown order.",
	}
	for k, v := range add {
		if p := props[k]; p != nil {
			p.Explanation += " Round 4:" + v
		}
	}
}
