package main

import (
	"fmt"
	"go/ast"
	"go/token"
	"go/types"
	"strconv"
	"strings"

	"golang.org/x/tools/go/packages"
)

// R05.8: one wire name per method. A generated client names the method it calls by a string in the request
// (req.AddEmpty("<name>") / req.AddMessage("<name>", ...)); the generated server dispatches on that string
// (`case "<name>":`). Both strings are emitted by different writers of the generator; they agree for every schema only
// if both are the method's Name verbatim. A site that transforms the name (camel-casing it for a Go identifier is what
// the neighbouring lines do) breaks exactly the methods whose names are not a single lower-case word - which no test
// schema contains.

func init() {
	register(&Rule{ID: "R05.8", Props: []string{"C05", "C04"}, Floor: 3,
		Doc: "method wire names: every template position that puts a method name into a string of the generated code (client request, server dispatch label) is filled with Method.Name verbatim",
		Run: runR05_8})
}

func runR05_8(c *Ctx, r *R) {
	gp := c.Pkg("internal/lang/generator")
	if gp == nil {
		r.Unk("internal/lang/generator", 0, "package not loaded")
		return
	}
	n := 0
	for _, f := range gp.Syntax {
		for _, d := range f.Decls {
			fd, ok := d.(*ast.FuncDecl)
			if !ok || fd.Body == nil {
				continue
			}
			fname := fd.Name.Name
			if fd.Recv != nil && len(fd.Recv.List) == 1 {
				t := fd.Recv.List[0].Type
				if st, ok := t.(*ast.StarExpr); ok {
					t = st.X
				}
				if id, ok := t.(*ast.Ident); ok {
					fname = id.Name + "." + fname
				}
			}
			k := 0
			ast.Inspect(fd.Body, func(nd ast.Node) bool {
				call, ok := nd.(*ast.CallExpr)
				if !ok || len(call.Args) < 2 {
					return true
				}
				se, ok := call.Fun.(*ast.SelectorExpr)
				if !ok || (se.Sel.Name != "writef" && se.Sel.Name != "linef") {
					return true
				}
				bl, ok := call.Args[0].(*ast.BasicLit)
				if !ok || bl.Kind != token.STRING {
					return true
				}
				format, err := strconv.Unquote(bl.Value)
				if err != nil {
					return true
				}
				// positions where a verb sits inside a Go string literal of the generated code, or is %q itself
				verbs := reVerb.FindAllStringIndex(format, -1)
				for vi, loc := range verbs {
					verb := format[loc[0]:loc[1]]
					inString := verb == "%q" || (loc[0] > 0 && format[loc[0]-1] == '"' && loc[1] < len(format) && format[loc[1]] == '"')
					if !inString || vi+1 >= len(call.Args) {
						continue
					}
					isName := strings.Contains(format, "case ") || strings.Contains(format, "req.Add") || strings.Contains(format, ".Add")
					if !isName {
						continue
					}
					arg := call.Args[vi+1]
					// only method names: the argument's value derives from a *model.Method
					src, verbatim := methodNameSource(gp, fd, arg, 0)
					if src == "" {
						continue
					}
					k++
					n++
					key := fmt.Sprintf("generator.%s/method-wire-name#%d", fname, k)
					if verbatim {
						r.OK(key, bl.Pos(), "filled with Method.Name verbatim")
					} else {
						r.Bad(key, bl.Pos(), "the method name in template %q is %s, not Method.Name verbatim: the generated client and the generated server no longer use the same string for methods whose name is not a single lower-case word ('unknown method' at run time)", format, src)
					}
				}
				return true
			})
		}
	}
	if n == 0 {
		r.Unk("generator/method-wire-names", 0, "anchor lost: no template puts a method name into a string position")
	}
}

// methodNameSource: does e derive from the Name of a *model.Method? Returns a description ("" if it does not) and
// whether it is that Name verbatim (directly or through locals assigned from it).
func methodNameSource(gp *packages.Package, fd *ast.FuncDecl, e ast.Expr, depth int) (string, bool) {
	if depth > 4 {
		return "", false
	}
	e = ast.Unparen(e)
	switch x := e.(type) {
	case *ast.SelectorExpr:
		if x.Sel.Name == "Name" {
			if tv, ok := gp.TypesInfo.Types[x.X]; ok && typeIs(tv.Type, pkgPath("internal/lang/model"), "Method") {
				return types.ExprString(x), true
			}
		}
	case *ast.CallExpr:
		for _, a := range x.Args {
			if s, _ := methodNameSource(gp, fd, a, depth+1); s != "" {
				return types.ExprString(x.Fun) + "(" + s + ")", false
			}
		}
	case *ast.Ident:
		// a local assigned once from something
		obj := gp.TypesInfo.Uses[x]
		var src ast.Expr
		cnt := 0
		ast.Inspect(fd.Body, func(n ast.Node) bool {
			as, ok := n.(*ast.AssignStmt)
			if !ok || len(as.Lhs) != len(as.Rhs) {
				return true
			}
			for i, l := range as.Lhs {
				if li, ok := l.(*ast.Ident); ok && obj != nil && (gp.TypesInfo.Defs[li] == obj || gp.TypesInfo.Uses[li] == obj) {
					src = as.Rhs[i]
					cnt++
				}
			}
			return true
		})
		if cnt == 1 && src != nil {
			return methodNameSource(gp, fd, src, depth+1)
		}
	}
	return "", false
}
