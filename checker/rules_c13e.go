package main

import (
	"fmt"
	"go/types"
	"sort"

	"golang.org/x/tools/go/ssa"
)

// R13.10: opening a container keeps exactly the container's own bytes. types.OpenMessageErr / decodeList build a
// Message / List from the table decoded at the END of the input b and the bytes of the value. Field and element
// offsets in the table are relative to the start of the value, and accessors are handed untruncated prefixes
// (parent.bytes[:end]): the `bytes` stored in the container must be b[len(b)-size:] with size the size result of
// the very decoder call that produced the table. Keeping b itself applies the offsets to the start of whatever
// precedes the value - every field of a nested message is sliced at the wrong place.
func init() {
	register(&Rule{ID: "R13.10", Props: []string{"C13", "C16", "C01"}, Floor: 2,
		Doc: "a Message/List built from a table decoded from b stores b[len(b)-size:], size being the size result of that decoder call",
		Run: runR13_10})
}

func runR13_10(c *Ctx, r *R) {
	n := 0
	for _, f := range c.SrcFuncs("internal/types") {
		// stores into the fields `table` and `bytes` of a local container
		type pair struct{ table, bytes *ssa.Store }
		objs := map[ssa.Value]*pair{}
		allInstrs(f, func(i ssa.Instruction) {
			st, ok := i.(*ssa.Store)
			if !ok {
				return
			}
			fa, ok := st.Addr.(*ssa.FieldAddr)
			if !ok {
				return
			}
			if !(typeIs(deref(fa.X.Type()), pkgPath("internal/types"), "Message") || typeIs(deref(fa.X.Type()), pkgPath("internal/types"), "List")) {
				return
			}
			p := objs[fa.X]
			if p == nil {
				p = &pair{}
				objs[fa.X] = p
			}
			switch fieldOf(fa).Name() {
			case "table":
				p.table = st
			case "bytes":
				p.bytes = st
			}
		})
		k := 0
		var ps []*pair
		for _, p := range objs {
			if p.table != nil {
				ps = append(ps, p)
			}
		}
		sort.Slice(ps, func(i, j int) bool { return ps[i].table.Pos() < ps[j].table.Pos() })
		for _, p := range ps {
			ex, ok := p.table.Val.(*ssa.Extract)
			if !ok {
				continue
			}
			call, ok := ex.Tuple.(*ssa.Call)
			if !ok || len(call.Call.Args) == 0 {
				continue
			}
			b := call.Call.Args[0]
			if _, isParam := b.(*ssa.Parameter); !isParam || !bytesLike(b.Type()) {
				continue
			}
			callee := c.calleeOf(&call.Call)
			if callee == nil {
				continue
			}
			// the size result: the int before the error
			si := -1
			rs := callee.Signature.Results()
			for i := 1; i < rs.Len(); i++ {
				if isErrorType(rs.At(i).Type()) {
					if bt, ok := rs.At(i - 1).Type().Underlying().(*types.Basic); ok && bt.Kind() == types.Int {
						si = i - 1
					}
				}
			}
			if si < 0 {
				continue
			}
			k++
			n++
			key := fmt.Sprintf("%s/own-bytes#%d", fnKey(f), k)
			good := false
			if p.bytes != nil {
				// decided on linear terms, not on the spelling of the slice expression
				e := newBE(c)
				if sz := extractOf(call, si); sz != nil {
					off, base := e.offOf(p.bytes.Val)
					size := e.expand(sz)
					if base == b && off.equal(e.lenOf(b, 'l').sub(size)) && e.lenOf(p.bytes.Val, 'l').equal(size) {
						good = true
					}
				}
			}
			if good {
				r.OK(key, p.table.Pos(), "bytes = b[len(b)-size:] with the size reported by %s", callee.Name())
			} else {
				r.Bad(key, p.table.Pos(), "the container built from the table of %s(b) does not keep exactly b[len(b)-size:] as its bytes: offsets of the table are relative to the value's first byte, with leading bytes kept (a nested message opened from parent.bytes[:end]) every field is sliced at the wrong place", callee.Name())
			}
		}
	}
	if n == 0 {
		r.Unk("internal/types/open", 0, "anchor lost: no container is built from a decoded table")
	}
}
