package main

import (
	"fmt"
	"math/big"
	"sort"
	"strings"
)

// Linear integer arithmetic: expressions  K + sum a_i * x_i  over interned variables, and a sound
// (incomplete) entailment check by Fourier-Motzkin elimination with integer tightening.

type Lin struct {
	K *big.Int
	T map[int]*big.Int
}

func linConst(k int64) Lin  { return Lin{K: big.NewInt(k), T: map[int]*big.Int{}} }
func linBig(k *big.Int) Lin { return Lin{K: new(big.Int).Set(k), T: map[int]*big.Int{}} }
func linVar(id int) Lin     { return Lin{K: big.NewInt(0), T: map[int]*big.Int{id: big.NewInt(1)}} }

func (a Lin) clone() Lin {
	b := Lin{K: new(big.Int).Set(a.K), T: make(map[int]*big.Int, len(a.T))}
	for k, v := range a.T {
		b.T[k] = new(big.Int).Set(v)
	}
	return b
}

func (a Lin) add(b Lin) Lin {
	r := a.clone()
	r.K.Add(r.K, b.K)
	for k, v := range b.T {
		if x, ok := r.T[k]; ok {
			x.Add(x, v)
			if x.Sign() == 0 {
				delete(r.T, k)
			}
		} else {
			r.T[k] = new(big.Int).Set(v)
		}
	}
	return r
}

func (a Lin) scale(c *big.Int) Lin {
	r := Lin{K: new(big.Int).Mul(a.K, c), T: map[int]*big.Int{}}
	if c.Sign() == 0 {
		return r
	}
	for k, v := range a.T {
		r.T[k] = new(big.Int).Mul(v, c)
	}
	return r
}

func (a Lin) neg() Lin           { return a.scale(big.NewInt(-1)) }
func (a Lin) sub(b Lin) Lin      { return a.add(b.neg()) }
func (a Lin) addK(k int64) Lin   { r := a.clone(); r.K.Add(r.K, big.NewInt(k)); return r }
func (a Lin) isConst() bool      { return len(a.T) == 0 }
func (a Lin) constVal() *big.Int { return a.K }

func (a Lin) equal(b Lin) bool {
	d := a.sub(b)
	return d.isConst() && d.K.Sign() == 0
}

func (a Lin) vars() []int {
	var vs []int
	for k := range a.T {
		vs = append(vs, k)
	}
	sort.Ints(vs)
	return vs
}

// subst replaces variable id by expression e.
func (a Lin) subst(id int, e Lin) Lin {
	c, ok := a.T[id]
	if !ok {
		return a
	}
	r := a.clone()
	delete(r.T, id)
	return r.add(e.scale(c))
}

func (a Lin) String(name func(int) string) string {
	var parts []string
	for _, v := range a.vars() {
		c := a.T[v]
		switch {
		case c.Cmp(big.NewInt(1)) == 0:
			parts = append(parts, name(v))
		case c.Cmp(big.NewInt(-1)) == 0:
			parts = append(parts, "-"+name(v))
		default:
			parts = append(parts, c.String()+"*"+name(v))
		}
	}
	if a.K.Sign() != 0 || len(parts) == 0 {
		parts = append(parts, a.K.String())
	}
	return strings.Join(parts, " + ")
}

// Ineq is the constraint  L >= 0.
type Ineq struct{ L Lin }

func geq(a, b Lin) Ineq { return Ineq{a.sub(b)} } // a >= b
func leq(a, b Lin) Ineq { return Ineq{b.sub(a)} } // a <= b
func gtr(a, b Lin) Ineq { return Ineq{a.sub(b).addK(-1)} }
func lss(a, b Lin) Ineq { return Ineq{b.sub(a).addK(-1)} }

// tighten divides by the gcd of the coefficients and floors the constant (sound over the integers).
func (q Ineq) tighten() Ineq {
	if len(q.L.T) == 0 {
		return q
	}
	g := new(big.Int)
	for _, c := range q.L.T {
		g.GCD(nil, nil, g, new(big.Int).Abs(c))
	}
	if g.Cmp(big.NewInt(1)) <= 0 {
		return q
	}
	r := Lin{K: new(big.Int), T: map[int]*big.Int{}}
	for k, c := range q.L.T {
		r.T[k] = new(big.Int).Quo(c, g)
	}
	// floor division of K by g
	r.K.Div(q.L.K, g) // Euclidean division: for positive g this is floor
	return Ineq{r}
}

// key identifies the coefficient vector of an inequality (without the constant): of two inequalities with the same
// vector only the one with the smaller constant (the stronger one) needs to be kept.
func (q Ineq) key() string {
	var sb strings.Builder
	for _, v := range q.L.vars() {
		fmt.Fprintf(&sb, "%d:%s,", v, q.L.T[v].String())
	}
	return sb.String()
}

// fmUnsat reports whether the conjunction of the inequalities is unsatisfiable over the rationals after
// integer tightening (hence unsatisfiable over the integers). Incomplete, sound.
func fmUnsat(qs []Ineq) bool {
	cur := map[string]Ineq{}
	add := func(m map[string]Ineq, q Ineq) bool {
		q = q.tighten()
		if len(q.L.T) == 0 {
			return q.L.K.Sign() < 0 // contradiction
		}
		k := q.key()
		if old, ok := m[k]; !ok || q.L.K.Cmp(old.L.K) < 0 {
			m[k] = q // same coefficients: keep the tighter bound
		}
		return false
	}
	for _, q := range qs {
		if add(cur, q) {
			return true
		}
	}
	for iter := 0; iter < 64; iter++ {
		// pick variable minimising pos*neg
		cnt := map[int][2]int{}
		for _, q := range cur {
			for v, c := range q.L.T {
				x := cnt[v]
				if c.Sign() > 0 {
					x[0]++
				} else {
					x[1]++
				}
				cnt[v] = x
			}
		}
		if len(cnt) == 0 {
			return false
		}
		best, bestCost := -1, 1<<62
		var ids []int
		for v := range cnt {
			ids = append(ids, v)
		}
		sort.Ints(ids)
		for _, v := range ids {
			x := cnt[v]
			cost := x[0]*x[1] - x[0] - x[1]
			if cost < bestCost {
				best, bestCost = v, cost
			}
		}
		next := map[string]Ineq{}
		var pos, neg []Ineq
		for _, q := range cur {
			c, ok := q.L.T[best]
			switch {
			case !ok:
				add(next, q)
			case c.Sign() > 0:
				pos = append(pos, q)
			default:
				neg = append(neg, q)
			}
		}
		if len(pos)*len(neg) > 20000 {
			return false // give up
		}
		for _, p := range pos {
			for _, n := range neg {
				cp := p.L.T[best]
				cn := new(big.Int).Neg(n.L.T[best])
				// cn*p + cp*n eliminates best
				comb := p.L.scale(cn).add(n.L.scale(cp))
				delete(comb.T, best)
				if add(next, Ineq{comb}) {
					return true
				}
			}
		}
		if len(next) > 8000 {
			return false
		}
		cur = next
	}
	return false
}

// entails reports whether facts imply goal (goal.L >= 0).
func entails(facts []Ineq, goal Ineq) bool {
	// cone of influence
	need := map[int]bool{}
	for v := range goal.L.T {
		need[v] = true
	}
	used := make([]bool, len(facts))
	var sel []Ineq
	for changed := true; changed; {
		changed = false
		for i, f := range facts {
			if used[i] {
				continue
			}
			hit := false
			for v := range f.L.T {
				if need[v] {
					hit = true
					break
				}
			}
			if len(f.L.T) == 0 && f.L.K.Sign() < 0 {
				return true // facts are contradictory
			}
			if hit {
				used[i] = true
				sel = append(sel, f)
				for v := range f.L.T {
					if !need[v] {
						need[v] = true
						changed = true
					}
				}
			}
		}
	}
	// refute facts and not goal:  -goal - 1 >= 0
	ng := Ineq{goal.L.neg().addK(-1)}
	return fmUnsat(append(sel, ng))
}
