package main

import (
	"go/ast"
	"go/token"
	"go/types"
	"strconv"
	"strings"

	"golang.org/x/tools/go/packages"
)

// kindTable: a table-driven template. e is (an identifier assigned from) an index expression into a package-level
// map variable of the generator whose literal maps model.Kind constants to string literals, and which nothing in the
// package assigns to or updates. Returns KindX -> template string (nil if e is not of that form).
func kindTable(gp *packages.Package, fd *ast.FuncDecl, e ast.Expr) map[string]string {
	e = ast.Unparen(e)
	if id, ok := e.(*ast.Ident); ok {
		obj := gp.TypesInfo.Uses[id]
		if obj == nil {
			return nil
		}
		var src ast.Expr
		ast.Inspect(fd, func(n ast.Node) bool {
			as, ok := n.(*ast.AssignStmt)
			if !ok || len(as.Rhs) != 1 {
				return true
			}
			for _, l := range as.Lhs {
				if li, ok := l.(*ast.Ident); ok && gp.TypesInfo.Defs[li] == obj {
					src = as.Rhs[0]
				}
			}
			return true
		})
		if src == nil {
			return nil
		}
		e = ast.Unparen(src)
	}
	ix, ok := e.(*ast.IndexExpr)
	if !ok {
		return nil
	}
	tid, ok := ast.Unparen(ix.X).(*ast.Ident)
	if !ok {
		return nil
	}
	tv, ok := gp.TypesInfo.Uses[tid].(*types.Var)
	if !ok || tv.Parent() != gp.Types.Scope() {
		return nil
	}
	var lit *ast.CompositeLit
	written := false
	for _, f := range gp.Syntax {
		ast.Inspect(f, func(n ast.Node) bool {
			switch x := n.(type) {
			case *ast.ValueSpec:
				for i, nm := range x.Names {
					if gp.TypesInfo.Defs[nm] == types.Object(tv) && i < len(x.Values) {
						lit, _ = ast.Unparen(x.Values[i]).(*ast.CompositeLit)
					}
				}
			case *ast.AssignStmt:
				for _, l := range x.Lhs {
					l = ast.Unparen(l)
					if li, ok := l.(*ast.Ident); ok && gp.TypesInfo.Uses[li] == types.Object(tv) {
						written = true
					}
					if lx, ok := l.(*ast.IndexExpr); ok {
						if li, ok := ast.Unparen(lx.X).(*ast.Ident); ok && gp.TypesInfo.Uses[li] == types.Object(tv) {
							written = true
						}
					}
				}
			case *ast.UnaryExpr:
				if x.Op == token.AND {
					if li, ok := ast.Unparen(x.X).(*ast.Ident); ok && gp.TypesInfo.Uses[li] == types.Object(tv) {
						written = true
					}
				}
			case *ast.CallExpr:
				// delete(m, k) / clear(m)
				if fi, ok := x.Fun.(*ast.Ident); ok && (fi.Name == "delete" || fi.Name == "clear") && len(x.Args) > 0 {
					if li, ok := ast.Unparen(x.Args[0]).(*ast.Ident); ok && gp.TypesInfo.Uses[li] == types.Object(tv) {
						written = true
					}
				}
			}
			return true
		})
	}
	if lit == nil || written {
		return nil
	}
	out := map[string]string{}
	for _, el := range lit.Elts {
		kv, ok := el.(*ast.KeyValueExpr)
		if !ok {
			return nil
		}
		name := ""
		switch k := ast.Unparen(kv.Key).(type) {
		case *ast.SelectorExpr:
			name = k.Sel.Name
		case *ast.Ident:
			name = k.Name
		}
		bl, ok := ast.Unparen(kv.Value).(*ast.BasicLit)
		if !strings.HasPrefix(name, "Kind") || !ok || bl.Kind != token.STRING {
			return nil
		}
		s, err := strconv.Unquote(bl.Value)
		if err != nil {
			return nil
		}
		out[name] = s
	}
	return out
}
