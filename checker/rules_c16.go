package main

import (
	"fmt"
	"go/token"

	"golang.org/x/tools/go/ssa"
)

// R16.4: the writer-side membership test. MessageWriter.Copy/Merge skip a source field exactly when
// messageStack.hasField reports the tag present in the table being built. A test that answers true for a tag
// that is not in the table silently drops that (possibly unknown) field; one that answers false for a present
// tag writes a duplicate entry.

func init() {
	register(&Rule{ID: "R16.4", Props: []string{"C16", "C01", "C12"}, Floor: 7,
		Doc: "writer-side table access: every call into messageStack/listStack addresses the table by the stack entry's tableStart (C16, C01, C12); the membership test messageStack.hasField returns true only under entry.Tag == tag for the entry the search selected, the search being the lower bound of the tag or a scan of the whole table (C16, C01)",
		Run: runR16_4})
}

// offsetSource names the struct field an integer value was read from (through conversions, local copies and the
// field-of-a-spilled-struct pattern), or describes the value otherwise.
func offsetSource(v ssa.Value, depth int) string {
	if depth > 6 {
		return "?"
	}
	switch x := v.(type) {
	case *ssa.Field:
		return fieldOf(x).Name()
	case *ssa.Convert:
		return offsetSource(x.X, depth+1)
	case *ssa.ChangeType:
		return offsetSource(x.X, depth+1)
	case *ssa.UnOp:
		if x.Op == token.MUL {
			if fa, ok := x.X.(*ssa.FieldAddr); ok {
				return fieldOf(fa).Name()
			}
		}
	case *ssa.Phi:
		name := ""
		for _, e := range x.Edges {
			s := offsetSource(e, depth+1)
			if name != "" && s != name {
				return "several sources"
			}
			name = s
		}
		return name
	case *ssa.Call:
		// accessor method returning the field: entry.tableStart via a getter
		if cal := x.Call.StaticCallee(); cal != nil && cal.Blocks != nil {
			rets := returnsOf(cal)
			if len(rets) == 1 && len(rets[0].Results) == 1 {
				return offsetSource(rets[0].Results[0], depth+1)
			}
		}
	}
	return v.Name()
}

func runR16_4(c *Ctx, r *R) {
	// (0) every caller addresses the table of the message/list being built by the entry's tableStart - the offset
	// into the table stack recorded when the object was opened - and by nothing else (the data-buffer offset `start`
	// coincides with it only for a root object in a fresh buffer)
	outer := r
	tr := &R{c: c, rule: &Rule{ID: outer.rule.ID, Props: []string{"C16", "C01", "C12"}}} // a wrong offset also panics (D20)
	mr := &R{c: c, rule: &Rule{ID: outer.rule.ID, Props: []string{"C16", "C01"}}}
	defer func() { outer.n += tr.n + mr.n }()
	r = tr
	nSites := 0
	for _, fn := range c.SrcFuncs("internal/writer") {
		cnt := map[string]int{}
		for _, call := range callsIn(fn, false) {
			cal := call.Common().StaticCallee()
			if cal == nil || cal.Signature.Recv() == nil {
				continue
			}
			rn := namedOf(cal.Signature.Recv().Type())
			if rn == nil || (rn.Obj().Name() != "messageStack" && rn.Obj().Name() != "listStack") {
				continue
			}
			pi := -1
			for i, p := range cal.Params {
				if i > 0 && (p.Name() == "tableOffset" || p.Name() == "offset") && isIntegerType(p.Type()) {
					pi = i
				}
			}
			if pi < 0 || pi >= len(call.Common().Args) {
				continue
			}
			nSites++
			lbl := rn.Obj().Name() + "." + cal.Name()
			cnt[lbl]++
			key := fmt.Sprintf("%s/%s#%d/table-offset", fnKey(fn), lbl, cnt[lbl])
			src := offsetSource(call.Common().Args[pi], 0)
			if src == "tableStart" {
				r.OK(key, call.Pos(), "table addressed by the stack entry's tableStart")
			} else {
				r.Bad(key, call.Pos(), "the table offset passed to %s comes from %q, not from the stack entry's tableStart: for a nested message, a list element or a root written into a non-empty buffer the lookup/insert/pop works on the wrong slice of the table stack (Copy/Merge re-copy or skip fields, or panic)", lbl, src)
			}
		}
	}
	if nSites < 4 {
		r.Unk("internal/writer/table-offset", 0, "only %d calls into messageStack/listStack with a table offset found (5 confirmed)", nSites)
	}
	r = mr
	f := outer.Need("internal/writer", "messageStack.hasField")
	if f == nil {
		return
	}
	var tag *ssa.Parameter
	for _, p := range f.Params {
		if p.Name() == "tag" {
			tag = p
		}
	}
	if tag == nil {
		r.Unk(fnKey(f)+"/tag", f.Pos(), "no tag parameter")
		return
	}
	// a load of <something>[idx].Tag ; returns idx
	tagLoadIndex := func(v ssa.Value) (ssa.Value, bool) {
		u, ok := v.(*ssa.UnOp)
		if !ok || u.Op != token.MUL {
			return nil, false
		}
		fa, ok := u.X.(*ssa.FieldAddr)
		if !ok || fieldOf(fa).Name() != "Tag" {
			return nil, false
		}
		if ia, ok := fa.X.(*ssa.IndexAddr); ok {
			return ia.Index, true
		}
		return nil, false
	}
	isTagValue := func(fn *ssa.Function, v ssa.Value) bool {
		if v == ssa.Value(tag) {
			return true
		}
		// inside the predicate closure the tag is a captured variable
		if fv, ok := v.(*ssa.FreeVar); ok {
			for k, x := range fn.FreeVars {
				if x == fv {
					_ = k
					return fv.Name() == "tag"
				}
			}
		}
		if u, ok := v.(*ssa.UnOp); ok && u.Op == token.MUL {
			if fv, ok := u.X.(*ssa.FreeVar); ok {
				return fv.Name() == "tag"
			}
			if al, ok := u.X.(*ssa.Alloc); ok {
				// tag spilled to a cell because the closure captures it: single store of the parameter
				n, fromParam := 0, false
				for _, ref := range *al.Referrers() {
					if st, ok := ref.(*ssa.Store); ok && st.Addr == ssa.Value(al) {
						n++
						fromParam = st.Val == ssa.Value(tag)
					}
				}
				return n == 1 && fromParam
			}
		}
		return false
	}
	// (1) the search
	var search *ssa.Call
	for _, call := range callsIn(f, false) {
		if o := calleeObj(call); o != nil && objIs(o, "sort", "Search") {
			search, _ = call.(*ssa.Call)
		}
	}
	keyS := fnKey(f) + "/search"
	var selected ssa.Value // the index whose entry decides
	switch {
	case search != nil:
		// predicate closure returns entry[i].Tag >= tag
		var pred *ssa.Function
		if mc, ok := search.Call.Args[1].(*ssa.MakeClosure); ok {
			pred, _ = mc.Fn.(*ssa.Function)
		} else if fn, ok := search.Call.Args[1].(*ssa.Function); ok {
			pred = fn
		}
		ok := false
		if pred != nil && len(pred.Params) == 1 {
			rets := returnsOf(pred)
			ok = len(rets) > 0
			for _, ret := range rets {
				b, isBin := ret.Results[0].(*ssa.BinOp)
				good := false
				if isBin {
					x, y, op := b.X, b.Y, b.Op
					if isTagValue(pred, x) {
						x, y, op = y, x, swapOp(op)
					}
					if idx, isLoad := tagLoadIndex(x); isLoad && idx == ssa.Value(pred.Params[0]) && isTagValue(pred, y) && op == token.GEQ {
						good = true
					}
				}
				if !good {
					ok = false
				}
			}
		}
		r.Check(ok, keyS, search.Pos(), "sort.Search with the lower-bound predicate entry[i].Tag >= tag over the table",
			"the sort.Search predicate is not entry[i].Tag >= tag: the selected index is not the lower bound of the searched tag, so a present tag can be missed or a wrong entry compared")
		selected = search
	default:
		// a scan: some loop index phi starting at 0
		found := false
		allInstrs(f, func(i ssa.Instruction) {
			if phi, ok := i.(*ssa.Phi); ok && isIntegerType(phi.Type()) {
				for _, e := range phi.Edges {
					if isConstInt(e, 0) {
						selected = phi
						found = true
					}
				}
			}
		})
		if !found {
			// range loops over a slice use an index phi initialised to -1
			allInstrs(f, func(i ssa.Instruction) {
				if phi, ok := i.(*ssa.Phi); ok && isIntegerType(phi.Type()) {
					for _, e := range phi.Edges {
						if isConstInt(e, -1) {
							found = true
							selected = nil
						}
					}
				}
			})
		}
		r.Check(found, keyS, f.Pos(), "linear scan of the table", "neither sort.Search nor a scan of the table found in hasField")
	}
	// (2) every possibly-true result is an equality of the selected entry's tag with the searched tag
	keyT := fnKey(f) + "/true-only-on-equal"
	var isEq func(v ssa.Value, depth int) bool
	isEq = func(v ssa.Value, depth int) bool {
		b, ok := v.(*ssa.BinOp)
		if !ok || b.Op != token.EQL {
			return false
		}
		x, y := b.X, b.Y
		if isTagValue(f, x) {
			x, y = y, x
		}
		idx, isLoad := tagLoadIndex(x)
		if !isLoad || !isTagValue(f, y) {
			return false
		}
		if selected != nil {
			if idx != selected {
				// the range-loop form indexes with index+1 phi etc.: accept only the selected index itself
				return false
			}
		}
		return true
	}
	okTrue, nRet := true, 0
	why := ""
	hasFalse := false
	// leaves of the result value: (value, block in which it is selected); phis of the short-circuit form
	// n < len(table) && table[n].Tag == tag are followed edge by edge
	var leaf func(v ssa.Value, b *ssa.BasicBlock, depth int)
	leaf = func(v ssa.Value, b *ssa.BasicBlock, depth int) {
		if phi, ok := v.(*ssa.Phi); ok && depth < 4 {
			for k, e := range phi.Edges {
				leaf(e, phi.Block().Preds[k], depth+1)
			}
			return
		}
		if cst, ok := v.(*ssa.Const); ok && cst.Value != nil {
			if cst.Value.String() == "false" {
				hasFalse = true
				return
			}
			// literal true: must be dominated by the equality
			dom := false
			conds := pathConds(b)
			for _, cd := range conds {
				if cd.Truth && isEq(cd.V, 0) {
					dom = true
				}
			}
			if !dom {
				okTrue, why = false, "a literal true is returned without a dominating entry.Tag == tag test"
			}
			return
		}
		if !isEq(v, 0) {
			okTrue, why = false, "the result "+v.String()+" is not the comparison entry[selected].Tag == tag"
		}
	}
	for _, ret := range returnsOf(f) {
		nRet++
		leaf(ret.Results[0], ret.Block(), 0)
	}
	r.Check(okTrue && nRet > 0, keyT, f.Pos(), "true is returned only when the selected entry carries the searched tag",
		"hasField can report a tag present that is not in the table ("+why+"): Copy/Merge then skip that source field and its value is lost")
	// (3) the absent answer exists
	keyF := fnKey(f) + "/false-when-past-end"
	r.Check(hasFalse, keyF, f.Pos(), "an explicit false result exists for a search that runs past the table", "no false result: a search past the end of the table has no 'absent' answer")
}
