package main

import (
	"fmt"
	"go/token"
	"sort"
	"strings"

	"golang.org/x/tools/go/ssa"
)

// R09.10: the order of a connection's shutdown. conn.close() is the one place where a connection ends: it cancels the
// context, closes the socket, sets the closed flag, closes the write queue, and then - as deferred calls - fails every
// channel, tells the client (delegate.onConnClosed) and fires the close listeners. Two orderings are relied on:
//   (a) the closed flag is set BEFORE channels are failed and the delegate / listeners are told: whoever observes a
//       failed channel or a close callback and immediately asks the client for a channel must not be routed to this
//       connection again (roundRobin skips connections whose closed flag is set);
//   (b) the write queue is closed nowhere else: closing it earlier (in the public Close()) ends the send loop first,
//       so the teardown above runs while the receive loop still accepts open frames - their handlers are started
//       after closeChannels has swept the map and their contexts are never cancelled.
// Deferred calls run last-in-first-out after the body, so the effective order is: body calls in order, then the
// defers in reverse registration order.

func init() {
	register(&Rule{ID: "R09.10", Props: []string{"C09", "C20"}, Floor: 4,
		Doc: "shutdown order in conn.close(): closed.Set executes before closeChannels, delegate.onConnClosed and notifyClosed; writeq.Close is called only from conn.close()",
		Run: runR09_10})
	register(&Rule{ID: "R19.7", Props: []string{"C19"}, Floor: 1,
		Doc: "the reconnect attempt counter is reset only where a connection has just been added to the client's set",
		Run: runR19_7})
	register(&Rule{ID: "R20.6", Props: []string{"C20"}, Floor: 1,
		Doc: "close-listener ids come from a counter that only grows (never from the number of live listeners)",
		Run: runR20_6})
}

// effectiveOrder: the calls of fn labelled by calleeLabel in the order they execute on the straight path: body calls
// in instruction order (entry-dominating blocks first), then deferred calls in reverse registration order.
func effectiveOrder(fn *ssa.Function) []string {
	var body, defers []string
	for _, call := range callsIn(fn, false) {
		lbl := calleeLabel(call)
		if lbl == "" {
			if o := calleeObj(call); o != nil {
				lbl = o.Name()
			}
		}
		if lbl == "" {
			continue
		}
		if _, isDefer := call.(*ssa.Defer); isDefer {
			defers = append(defers, lbl)
		} else {
			body = append(body, lbl)
		}
	}
	for i := len(defers) - 1; i >= 0; i-- {
		body = append(body, defers[i])
	}
	return body
}

func runR09_10(c *Ctx, r *R) {
	f := r.Need("mpx", "conn.close")
	if f != nil {
		order := effectiveOrder(f)
		idx := func(name string) int {
			for i, l := range order {
				if l == name || strings.HasSuffix(l, "."+name) {
					return i
				}
			}
			return -1
		}
		set := idx("closed.Set")
		for _, later := range []string{"closeChannels", "onConnClosed", "notifyClosed"} {
			key := fnKey(f) + "/closed-before-" + later
			li := idx(later)
			switch {
			case set < 0:
				r.Bad(key, f.Pos(), "conn.close() never sets the closed flag")
			case li < 0:
				r.Unk(key, f.Pos(), "anchor lost: conn.close() does not call %s", later)
			case set < li:
				r.OK(key, f.Pos(), "closed flag set before %s runs (effective order %v)", later, order)
			default:
				r.Bad(key, f.Pos(), "%s runs before the closed flag is set (effective order of calls, defers last-in-first-out: %v): a caller that sees its channel fail / its close callback fire and retries at once is routed to this dying connection again and gets 'connection closed' although the server is reachable", later, order)
			}
		}
	}
	// (b) census of writeq.Close
	var sites []string
	var pos token.Pos
	for _, fn := range c.SrcFuncs("mpx") {
		for _, call := range callsIn(fn, false) {
			if calleeLabel(call) == "writeq.Close" {
				sites = append(sites, fnKey(fn))
				if fnKey(fn) != "mpx.conn.close" {
					pos = call.Pos()
				}
			}
		}
	}
	sort.Strings(sites)
	key := "mpx/writeq.Close-callers"
	switch {
	case len(sites) == 0:
		r.Unk(key, 0, "anchor lost: writeq.Close is not called")
	case len(sites) == 1 && sites[0] == "mpx.conn.close":
		r.OK(key, 0, "the write queue is closed only by conn.close()")
	default:
		r.Bad(key, pos, "writeq.Close is called from %v: closing the write queue outside conn.close() ends the send loop first, the connection's teardown (closeChannels, listeners) then runs while the receive loop still starts handlers for buffered open frames - those handlers' contexts are never cancelled", sites)
	}
}

func runR19_7(c *Ctx, r *R) {
	n := 0
	for _, fn := range c.SrcFuncs("mpx") {
		k := 0
		allInstrs(fn, func(i ssa.Instruction) {
			st, ok := i.(*ssa.Store)
			if !ok {
				return
			}
			fa, ok := st.Addr.(*ssa.FieldAddr)
			if !ok || fieldOf(fa).Name() != "connectAttempt" {
				return
			}
			if _, isConst := st.Val.(*ssa.Const); !isConst {
				return // the increment of the retry step
			}
			k++
			n++
			key := fmt.Sprintf("%s/connectAttempt-reset#%d", fnKey(fn), k)
			added := false
			for _, call := range callsIn(fn, false) {
				if o := calleeObj(call); o != nil && objName(o) == "clientConns.add" && dominatesInstr(call.(ssa.Instruction), st) {
					added = true
				}
			}
			if added {
				r.OK(key, st.Pos(), "reset after a new connection was added to the set")
			} else {
				r.Bad(key, st.Pos(), "the attempt counter is reset in %s without a connection having been added: user calls made during an outage (conn() calls connect() on every miss) restart the back-off sequence, the delays stop growing and the client redials without pause", fn.Name())
			}
		})
	}
	if n == 0 {
		r.Unk("mpx/connectAttempt-reset", 0, "anchor lost: no constant store to client.connectAttempt")
	}
}

func runR20_6(c *Ctx, r *R) {
	f := listenerHost(c)
	if f == nil {
		r.Unk("mpx.conn/listener-id", 0, "anchor lost: no method of conn calls closedListeners.Set")
		return
	}
	n := 0
	for _, call := range callsIn(f, false) {
		if calleeLabel(call) != "closedListeners.Set" {
			continue
		}
		n++
		key := fmt.Sprintf("%s/listener-id#%d", fnKey(f), n)
		args := call.Common().Args
		if len(args) == 0 {
			continue
		}
		id := args[0]
		if call.Common().IsInvoke() == false && len(args) >= 2 {
			id = args[len(args)-2]
		}
		for {
			if cv, ok := id.(*ssa.Convert); ok {
				id = cv.X
				continue
			}
			if u := unspill(id); u != id {
				id = u
				continue
			}
			break
		}
		good, why := false, "its source was not recognised as a counter"
		switch x := id.(type) {
		case *ssa.Call:
			if o := calleeObj(x); o != nil && o.Name() == "Add" && o.Pkg() != nil && o.Pkg().Path() == "sync/atomic" {
				if k, ok := constInt(x.Call.Args[len(x.Call.Args)-1]); ok && k > 0 {
					good = true
				}
			}
			if o := calleeObj(x); o != nil && o.Name() == "Len" {
				why = "it is derived from the number of live listeners (Len), which shrinks when a listener unsubscribes"
			}
		case *ssa.BinOp:
			// field + const, stored back into the same field in this function
			if x.Op == token.ADD {
				var ld *ssa.UnOp
				var k ssa.Value
				if l, ok := x.X.(*ssa.UnOp); ok {
					ld, k = l, x.Y
				} else if l, ok := x.Y.(*ssa.UnOp); ok {
					ld, k = l, x.X
				}
				if kv, isK := constInt(k); ld != nil && isK && kv > 0 {
					if fa, ok := ld.X.(*ssa.FieldAddr); ok {
						allInstrs(f, func(i ssa.Instruction) {
							if st, ok := i.(*ssa.Store); ok && st.Val == ssa.Value(x) {
								if fa2, ok := st.Addr.(*ssa.FieldAddr); ok && fieldOf(fa2) == fieldOf(fa) {
									good = true
								}
							}
						})
					}
				}
				for _, side := range []ssa.Value{x.X, x.Y} {
					s := side
					if cv, ok := s.(*ssa.Convert); ok {
						s = cv.X
					}
					if cl, ok := s.(*ssa.Call); ok {
						if o := calleeObj(cl); o != nil && o.Name() == "Len" {
							why = "it is derived from the number of live listeners (Len), which shrinks when a listener unsubscribes"
						}
					}
				}
			}
		}
		if good {
			r.OK(key, call.Pos(), "listener ids come from a counter that only grows")
		} else {
			r.Bad(key, call.Pos(), "the id under which a close listener is registered is not unique over the connection's lifetime: %s - after an unsubscribe a new listener gets the id of a live one, overwrites it (that listener never fires) and shares its unsubscribe", why)
		}
	}
	if n == 0 {
		r.Unk(fnKey(f)+"/listener-id", f.Pos(), "anchor lost: addClosed does not call closedListeners.Set")
	}
}
