package main

import (
	"fmt"
	"sort"
	"strings"

	"golang.org/x/tools/go/ssa"
)

// R09.8: no lock is left held. In packages mpx and rpc every sync.Mutex / RWMutex acquired by a function is
// released on every path to every return of that function - by a deferred Unlock registered while the lock is held,
// or by an explicit Unlock on the path. A return that leaves a connection/client/channel mutex locked blocks every
// later operation on that object forever (no "non-OK status within bounded time").

func init() {
	register(&Rule{ID: "R09.8", Props: []string{"C09", "C19", "C18", "C04", "C11"}, Floor: 16,
		Doc: "lock pairing: every Lock/RLock in mpx and rpc is matched by an Unlock/RUnlock (explicit or deferred) on every path to every return of the acquiring function",
		Run: runR09_8})
}

func mutexCall(call ssa.CallInstruction) (path, op string, ok bool) {
	o := calleeObj(call)
	if o == nil || o.Pkg() == nil || o.Pkg().Path() != "sync" {
		return "", "", false
	}
	name := objName(o)
	switch name {
	case "Mutex.Lock", "RWMutex.Lock", "Mutex.Unlock", "RWMutex.Unlock", "RWMutex.RLock", "RWMutex.RUnlock":
	default:
		return "", "", false
	}
	args := call.Common().Args
	if len(args) == 0 {
		return "", "", false
	}
	p := valueSource(args[0])
	if p == "" {
		p = args[0].Name()
	}
	op = name[strings.Index(name, ".")+1:]
	kind := "w"
	if strings.HasPrefix(op, "R") {
		kind = "r"
	}
	return kind + p, op, true
}

func runR09_8(c *Ctx, r *R) {
	n := 0
	outer := r
	for _, rel := range []string{"mpx", "rpc"} {
		// a mutex of a pooled call/channel state that is left locked travels to the next user of the state (C18,
		// and for rpc the next call hangs: C04); the client/server mutexes of mpx are C19's
		// ... and an unlock of a mutex that is not held is a fatal error that takes the server process down (C11)
		props := []string{"C09", "C18", "C19", "C11"}
		if rel == "rpc" {
			props = []string{"C09", "C18", "C04"}
		}
		r := &R{c: c, rule: &Rule{ID: outer.rule.ID, Props: props}}
		defer func() { outer.n += r.n }()
		for _, fn := range c.SrcFuncs(rel) {
			hasLock := false
			for _, call := range callsIn(fn, false) {
				if _, op, ok := mutexCall(call); ok && (op == "Lock" || op == "RLock") {
					hasLock = true
				}
			}
			if !hasLock {
				continue
			}
			fl := &Flow{Must: false, Entry: Facts{}}
			fl.Transfer = func(i ssa.Instruction, f Facts) {
				call, ok := i.(ssa.CallInstruction)
				if !ok {
					return
				}
				p, op, ok := mutexCall(call)
				if !ok {
					return
				}
				_, isDefer := i.(*ssa.Defer)
				switch {
				case isDefer && (op == "Unlock" || op == "RUnlock"):
					f["deferred:"+p] = true
				case op == "Lock" || op == "RLock":
					f["held:"+p+"@"+c.pos(call.Pos())] = true
				case op == "Unlock" || op == "RUnlock":
					for k := range f {
						if strings.HasPrefix(k, "held:"+p+"@") {
							delete(f, k)
						}
					}
				}
			}
			res := fl.Run(fn)
			// one obligation per Lock site
			bad := map[string][]string{}
			sites := map[string]ssa.CallInstruction{}
			for _, call := range callsIn(fn, false) {
				if p, op, ok := mutexCall(call); ok && (op == "Lock" || op == "RLock") {
					if _, isDefer := call.(*ssa.Defer); !isDefer {
						sites["held:"+p+"@"+c.pos(call.Pos())] = call
					}
				}
			}
			for _, ret := range returnsOf(fn) {
				f := res.At(ret)
				if f == nil || f["BOT"] {
					continue
				}
				for k := range f {
					if !strings.HasPrefix(k, "held:") {
						continue
					}
					p := strings.TrimPrefix(k[:strings.LastIndex(k, "@")], "held:")
					// a deferred Unlock counts only if it is registered on every path to this return
					deferred := false
					for _, call := range callsIn(fn, false) {
						if d, isDefer := call.(*ssa.Defer); isDefer {
							if p2, op, ok := mutexCall(call); ok && p2 == p && (op == "Unlock" || op == "RUnlock") && dominatesInstr(d, ret) {
								deferred = true
							}
						}
					}
					if deferred {
						continue
					}
					bad[k] = append(bad[k], c.pos(ret.Pos()))
				}
			}
			var keys []string
			for k := range sites {
				keys = append(keys, k)
			}
			sort.Strings(keys)
			cnt := map[string]int{}
			for _, k := range keys {
				call := sites[k]
				lbl := calleeLabel(call)
				cnt[lbl]++
				n++
				key := fmt.Sprintf("%s/%s#%d", fnKey(fn), lbl, cnt[lbl])
				if rets := bad[k]; len(rets) > 0 {
					sort.Strings(rets)
					r.Bad(key, call.Pos(), "the mutex acquired here may still be held at the return(s) at %v (no Unlock on that path and none deferred): every later operation on the object blocks forever", rets)
				} else {
					r.OK(key, call.Pos(), "released on every path to every return (explicit or deferred Unlock)")
				}
			}
		}
	}
	r.Note("%d lock sites", n)
}
