package main

import (
	"fmt"
	"go/types"
	"os"

	"golang.org/x/tools/go/ssa"
)

// R09.7: no status is dropped on the floor. In packages mpx and rpc a call whose result carries a status.Status (or
// an error) and whose status is never looked at hides a transport failure from the operation that caused it. Every
// such call site must either use the status (test, return, store, pass on) or be in the reviewed table below with the
// reason why ignoring it cannot turn a failure into a success.

func init() {
	register(&Rule{ID: "R09.7", Props: []string{"C09"}, Floor: 250,
		Doc: "status discipline: every status/error returned by a call in mpx and rpc is used, or the call site is in the reviewed table with a reason",
		Run: runR09_7})
}

// reviewed: function/callee#ordinal -> reason
var r09Dropped = map[string]string{
	"rpc.builder.buildRequest/CopyReq#1": "writer errors are sticky (R12.3/R12.6): the w.Build() that follows returns it",
	"rpc.builder.buildResponse/Any#1":    "writer errors are sticky: the w1.End() that follows returns it",
	"rpc.Request.AddMessage/CopyInput#1": "writer errors are sticky: the call.End() that follows returns it",
	"mpx.debugPrint/Println#1":           "debug output",
}

// reviewed by callee: the reason lies in what is called, not in who calls it, so the site may move between functions.
// package -> callee label -> reason
var r09DroppedCallee = map[string]map[string]string{
	"mpx": {
		"recvQueue.Write": "the receive queue is unbounded (R03.6 proves no limit is ever configured): Write cannot refuse data; an End status means the channel was freed concurrently and the payload is dropped on purpose (R06.4)",
		"conn.Close":      "closing the socket: the error changes nothing, the connection is closed either way and no operation's result depends on it",
		"Close":           "closing a connection during teardown / discard: Close's status reports only the socket's close error, the caller's own status is produced separately",
	},
}

func runR09_7(c *Ctx, r *R) {
	dbg := os.Getenv("DBG097") != ""
	sa := newStatusAn(c)
	n := 0
	for _, rel := range []string{"mpx", "rpc"} {
		for _, fn := range c.SrcFuncs(rel) {
			cnt := map[string]int{}
			for _, call := range callsIn(fn, false) {
				cc := call.Common()
				sig := cc.Signature()
				if sig == nil || sig.Results().Len() == 0 {
					continue
				}
				idx := -1
				for i := 0; i < sig.Results().Len(); i++ {
					t := sig.Results().At(i).Type()
					if isStatusType(t) || isErrorType(t) {
						idx = i
					}
				}
				if idx < 0 {
					continue
				}
				lbl := calleeLabel(call)
				if lbl == "" {
					lbl = "dynamic"
				}
				cnt[lbl]++
				key := fmt.Sprintf("%s/%s#%d", fnKey(fn), lbl, cnt[lbl])
				used := false
				switch x := call.(type) {
				case *ssa.Call:
					var v ssa.Value = x
					if sig.Results().Len() > 1 {
						ex := extractOf(x, idx)
						if ex == nil {
							v = nil
						} else {
							v = ex
						}
					}
					if v != nil {
						for _, u := range users(v) {
							if _, isDbg := u.(*ssa.DebugRef); !isDbg {
								used = true
							}
						}
					}
				case *ssa.Defer, *ssa.Go:
					used = false
				}
				n++
				if used {
					r.OK(key, call.Pos(), "status/error of %s is used", lbl)
					continue
				}
				if why := r09Dropped[key]; why != "" {
					r.OK(key, call.Pos(), "reviewed: %s", why)
					continue
				}
				if why := r09DroppedCallee[rel][lbl]; why != "" {
					r.OK(key, call.Pos(), "reviewed (by callee): %s", why)
					continue
				}
				// a callee whose status result is OK on every return carries no failure to drop
				if cal := cc.StaticCallee(); cal != nil && cal.Blocks != nil && isStatusType(sig.Results().At(idx).Type()) {
					if sa.funcClass(cal, idx, false, 0) == SOK {
						r.OK(key, call.Pos(), "%s returns status.OK on every path (provenance lattice): nothing to drop", lbl)
						continue
					}
				}
				if dbg {
					fmt.Fprintf(os.Stderr, "DROPPED %s %s\n", key, c.pos(call.Pos()))
				}
				r.Bad(key, call.Pos(), "the status/error returned by %s is dropped: a failure of this call is invisible to the operation that caused it", lbl)
			}
		}
	}
	_ = types.Typ
	r.Note("%d status-returning call sites in mpx and rpc", n)
}
