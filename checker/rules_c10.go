package main

import (
	"fmt"
	"go/constant"
	"go/token"
	"go/types"
	"math"
	"math/big"
	"strings"

	"golang.org/x/tools/go/ssa"
)

func init() {
	props["C10"] = &propInfo{Level: "other", Explanation: "Decides structural necessary conditions of 'exact inverses, no silent truncation': (R10.1) every narrowing integer conversion in internal/decode (int64->int32/int16, int32->int16, uint64->uint32/uint16, uint32->uint16) is proved value-preserving by the bounds engine from the range guards that dominate it - a missing, off-by-one or wrap-prone guard leaves the obligation undischarged; (R10.2) the float64->float32 narrowing is reached only through magnitude guards that let exactly the infinities through: on every path the value is either within +-MaxFloat32 or math.IsInf with the matching sign was true, and both infinity paths do reach the conversion (IEEE: +Inf > MaxFloat32, so a guard without the exemption rejects a representable value); (R10.3) per scalar encoder the returned size equals the bytes grown and the type byte written is the type's own code. Not decided: value-level inversion over the whole domains; the varint arithmetic of the dependency.",
		Trusted: []string{"bounds engine (see C02)", "math.IsInf(f, sign) semantics"}}

	register(&Rule{ID: "R10.1", Props: []string{"C10", "C08", "C11"}, Floor: 4,
		Doc: "guarded narrowing: every narrowing integer Convert in internal/decode is proved in range of the target type",
		Run: runR10_1})
	register(&Rule{ID: "R10.2", Props: []string{"C10"}, Floor: 1,
		Doc: "float32 narrowing: magnitude guards on all paths, infinities (and only out-of-range finite values) excluded from rejection",
		Run: runR10_2})
}

// narrowing conversions that are safe for a reason outside the function (one line each)
var r10Reviewed = map[string]string{
	"internal/encode.EncodeListTable/narrow-int-to-uint32#1":    "dataSize is end-start of the writer's list entry (>= 0: the buffer only grows while the list is open, R12.7 I2) and was checked against MaxSize above",
	"internal/encode.EncodeListTable/narrow-int-to-uint32#2":    "tableSize is the size returned by encodeListTable = len(table)*entry size >= 0, bounded by MaxSize there",
	"internal/encode.EncodeMessageTable/narrow-int-to-uint32#1": "dataSize is end-start of the writer's message entry (>= 0, R12.7 I2), checked against MaxSize above",
	"internal/encode.EncodeMessageTable/narrow-int-to-uint32#2": "tableSize is the size returned by encodeMessageTable = len(table)*entry size >= 0, bounded by MaxSize there",
	"internal/encode.EncodeStruct/narrow-int-to-uint32#1":       "dataSize is the sum of the sizes reported by the field encoders (each >= 0, R10.3), checked against MaxSize above",
}

func runR10_1(c *Ctx, outer *R) {
	// registered for C10 and C08: the no-truncation obligations are C10's; "both extreme values are read back"
	// is also C08's (reference-encoded bytes are read back identically)
	r := &R{c: c, rule: &Rule{ID: outer.rule.ID, Props: []string{"C10"}}}
	rFull := &R{c: c, rule: &Rule{ID: outer.rule.ID, Props: []string{"C10", "C08"}}}
	// the decoders also read the handshake and every frame header of the mpx protocol (version, code, window): a
	// value reduced modulo 2^32 instead of rejected lets a peer negotiate a version nobody supports (C11)
	rDec := &R{c: c, rule: &Rule{ID: outer.rule.ID, Props: []string{"C10", "C11"}}}
	rEnc := r
	defer func() { outer.n += rEnc.n + rDec.n + rFull.n }()
	e := newBE(c)
	var fns []*ssa.Function
	fns = append(fns, c.SrcFuncs("internal/decode")...)
	fns = append(fns, c.SrcFuncs("internal/encode")...)
	for _, fn := range fns {
		r := rEnc
		if fn.Pkg != nil && strings.HasSuffix(fn.Pkg.Pkg.Path(), "internal/decode") {
			r = rDec
		}
		fc := e.newFnCtx(fn)
		n := 0
		allInstrs(fn, func(i ssa.Instruction) {
			cv, ok := i.(*ssa.Convert)
			if !ok || !isIntegerType(cv.Type()) || !isIntegerType(cv.X.Type()) {
				return
			}
			if _, isC := cv.X.(*ssa.Const); isC {
				return
			}
			slo, shi, _ := typeRange(cv.X.Type())
			tlo, thi, _ := typeRange(cv.Type())
			if slo == nil || tlo == nil || (tlo.Cmp(slo) <= 0 && thi.Cmp(shi) >= 0) {
				return // widening
			}
			// int(uint32) etc. on 64-bit: value preserving by type when the source interval fits
			if lo, hi := e.interval(cv.X, 0); lo != nil && lo.Cmp(tlo) >= 0 && hi.Cmp(thi) <= 0 {
				return
			}
			// only wire-derived narrowing to a *smaller* width is an obligation (int -> uint32 of sizes is checked by C02 where it matters)
			n++
			key := fmt.Sprintf("%s/narrow-%s-to-%s#%d", fnKey(fn), cv.X.Type(), cv.Type(), n)
			x := e.expand(cv.X)
			ok1 := fc.proveAt(geq(x, linBig(tlo)), cv, 5)
			ok2 := fc.proveAt(leq(x, linBig(thi)), cv, 5)
			if ok1 && ok2 {
				r.OK(key, cv.Pos(), "value proved within [%s, %s] by the dominating range guards", tlo, thi)
				// exactness: when the narrowed value is what the decoder returns, the guards must not be tighter
				// than the target type - its smallest and largest value are stored values like any other
				if returnedAsValue(cv) {
					key2 := fmt.Sprintf("%s/full-range-%s-to-%s#%d", fnKey(fn), cv.X.Type(), cv.Type(), n)
					one := big.NewInt(1)
					cutLo := fc.proveAt(geq(x, linBig(new(big.Int).Add(tlo, one))), cv, 5)
					cutHi := fc.proveAt(leq(x, linBig(new(big.Int).Sub(thi, one))), cv, 5)
					switch {
					case cutLo:
						rFull.Bad(key2, cv.Pos(), "the range guards exclude %s, the smallest value of %s: a stored value that fits the requested width is rejected as overflow (the encoder writes it, the decoder cannot read it back)", tlo, cv.Type())
					case cutHi:
						rFull.Bad(key2, cv.Pos(), "the range guards exclude %s, the largest value of %s: a stored value that fits the requested width is rejected as overflow", thi, cv.Type())
					default:
						rFull.OK(key2, cv.Pos(), "both extreme values of %s pass the guards", cv.Type())
					}
				}
			} else if why, ok := smallFormNarrowing(c, cv); ok {
				r.OK(key, cv.Pos(), "%s", why)
			} else if why := r10Reviewed[key]; why != "" {
				r.OK(key, cv.Pos(), "reviewed: %s", why)
			} else {
				side := "lower"
				if ok1 {
					side = "upper"
				}
				r.Bad(key, cv.Pos(), "narrowing %s -> %s is not guarded on the %s side: a stored value outside the target range would be silently truncated instead of reported as overflow", cv.X.Type(), cv.Type(), side)
			}
		})
	}
}

func floatConst(v ssa.Value) (float64, bool) {
	c, ok := v.(*ssa.Const)
	if !ok || c.Value == nil {
		return 0, false
	}
	switch c.Value.Kind() {
	case constant.Float, constant.Int:
		f, _ := constant.Float64Val(c.Value)
		return f, true
	}
	return 0, false
}

func runR10_2(c *Ctx, r *R) {
	for _, fn := range c.SrcFuncs("internal/decode") {
		n := 0
		allInstrs(fn, func(i ssa.Instruction) {
			cv, ok := i.(*ssa.Convert)
			if !ok {
				return
			}
			tb, ok1 := cv.Type().Underlying().(*types.Basic)
			sb, ok2 := cv.X.Type().Underlying().(*types.Basic)
			if !ok1 || !ok2 || tb.Kind() != types.Float32 || sb.Kind() != types.Float64 {
				return
			}
			n++
			key := fmt.Sprintf("%s/narrow-float64-to-float32#%d", fnKey(fn), n)
			v := cv.X
			// classify an edge condition
			type ev struct{ fact string }
			edgeFacts := func(cond ssa.Value, truth bool) []string {
				cvv := cond
				if un, ok := cvv.(*ssa.UnOp); ok && un.Op == token.NOT {
					cvv, truth = un.X, !truth
				}
				switch x := cvv.(type) {
				case *ssa.BinOp:
					a, b, op := x.X, x.Y, x.Op
					if b == v {
						a, b, op = b, a, swapOp(op)
					}
					if a != v {
						return nil
					}
					k, ok := floatConst(b)
					if !ok {
						return nil
					}
					if !truth {
						op = negOp(op)
					}
					// v <= MaxFloat32 (or tighter)  => ok+ ;  v >= -MaxFloat32 => ok-
					switch op {
					case token.LEQ, token.LSS:
						if k <= math.MaxFloat32 {
							return []string{"ok+"}
						}
					case token.GEQ, token.GTR:
						if k >= -math.MaxFloat32 {
							return []string{"ok-"}
						}
					}
				case *ssa.Call:
					o := calleeObj(x)
					if o == nil || o.Pkg() == nil || o.Pkg().Path() != "math" || o.Name() != "IsInf" || len(x.Call.Args) != 2 || x.Call.Args[0] != v || !truth {
						return nil
					}
					s, ok := constInt(x.Call.Args[1])
					if !ok {
						return nil
					}
					var out []string
					if s >= 0 {
						out = append(out, "ok+", "inf+")
					}
					if s <= 0 {
						out = append(out, "ok-", "inf-")
					}
					return out
				}
				return nil
			}
			must := &Flow{Must: true, Entry: Facts{}}
			must.Edge = func(from *ssa.BasicBlock, k int, f Facts) {
				if cond := ifCond(from); cond != nil {
					for _, ft := range edgeFacts(cond, k == 0) {
						if ft == "ok+" || ft == "ok-" {
							f[ft] = true
						}
					}
				}
			}
			may := &Flow{Must: false, Entry: Facts{}}
			may.Edge = func(from *ssa.BasicBlock, k int, f Facts) {
				if cond := ifCond(from); cond != nil {
					for _, ft := range edgeFacts(cond, k == 0) {
						if ft == "inf+" || ft == "inf-" {
							f[ft] = true
						}
					}
				}
			}
			mf := must.Run(fn).At(cv)
			yf := may.Run(fn).At(cv)
			switch {
			case mf == nil:
				r.OK(key, cv.Pos(), "unreachable")
			case !mf["ok+"] || !mf["ok-"]:
				r.Bad(key, cv.Pos(), "float64 -> float32 narrowing is reachable without a magnitude guard on the %s side: a finite value beyond MaxFloat32 would silently become Inf", map[bool]string{true: "negative", false: "positive"}[mf["ok+"]])
			case !yf["inf+"] || !yf["inf-"]:
				r.Bad(key, cv.Pos(), "the magnitude guard rejects %sInf (no path on which math.IsInf with that sign holds reaches the conversion): infinities are float32 values, decode(encode(Inf)) must succeed", map[bool]string{true: "-", false: "+"}[yf["inf+"]])
			default:
				r.OK(key, cv.Pos(), "guards exclude finite out-of-range values on every path and let both infinities through")
			}
		})
	}
}

// returnedAsValue: the converted value is (through phis) result 0 of a function whose result 0 has that type.
func returnedAsValue(cv *ssa.Convert) bool {
	seen := map[ssa.Value]bool{}
	var walk func(v ssa.Value) bool
	walk = func(v ssa.Value) bool {
		if seen[v] {
			return false
		}
		seen[v] = true
		for _, u := range users(v) {
			switch x := u.(type) {
			case *ssa.Return:
				if len(x.Results) > 0 && x.Results[0] == v {
					return true
				}
			case *ssa.Phi:
				if walk(x) {
					return true
				}
			}
		}
		return false
	}
	return walk(cv)
}
