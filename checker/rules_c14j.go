package main

import (
	"fmt"
	"go/constant"
	"go/token"
	"go/types"

	"golang.org/x/tools/go/ssa"
)

// R14.17: a service is not data. The model rejects a service type as the type of a message field and of a struct
// field; the same must hold for the element type of a list (`l []Svc 1`), for which the generator would emit a value
// list of a type that has no decoder. Sibling cross-check over the positions that hold a data type: Field.Type,
// StructField.Type, Type.Element - each must reach a comparison with the service definition type / kind in a function
// that returns an error.
//
// R14.18: only a subservice can be returned by a method. The generator emits <Name>Call types for services declared
// `subservice` only; Method.Subservice may be assigned only where the referenced service's Sub flag was tested true.

func init() {
	register(&Rule{ID: "R14.17", Props: []string{"C14"}, Floor: 3,
		Doc: "service types are rejected in every data position of the model: message field, struct field, list element",
		Run: runR14_17})
	register(&Rule{ID: "R14.18", Props: []string{"C14"}, Floor: 1,
		Doc: "Method.Subservice is assigned only where the referenced service was tested to be a subservice",
		Run: runR14_18})
}

func runR14_17(c *Ctx, r *R) {
	mp := c.Pkg("internal/lang/model")
	if mp == nil {
		r.Unk("internal/lang/model", 0, "package not loaded")
		return
	}
	isServiceConst := func(v ssa.Value) bool {
		k, ok := v.(*ssa.Const)
		if !ok || k.Value == nil {
			return false
		}
		for _, name := range []string{"DefinitionService", "KindService"} {
			if kc, ok := mp.Types.Scope().Lookup(name).(*types.Const); ok && types.Identical(kc.Type(), k.Type()) && constant.Compare(kc.Val(), token.EQL, k.Value) {
				return true
			}
		}
		return false
	}
	positions := []struct{ owner, field string }{{"Field", "Type"}, {"StructField", "Type"}, {"Type", "Element"}}
	// which positions does a *Type value come from (through phis, loads of .Element chains are positions themselves)
	var positionsOf func(v ssa.Value, depth int, out map[string]bool)
	positionsOf = func(v ssa.Value, depth int, out map[string]bool) {
		if depth > 5 {
			return
		}
		switch x := v.(type) {
		case *ssa.UnOp:
			if x.Op == token.MUL {
				if fa, ok := x.X.(*ssa.FieldAddr); ok {
					for _, p := range positions {
						if fieldOf(fa).Name() == p.field && typeIs(fa.X.Type(), pkgPath("internal/lang/model"), p.owner) {
							out[p.owner+"."+p.field] = true
						}
					}
				}
			}
		case *ssa.Phi:
			for _, e := range x.Edges {
				positionsOf(e, depth+1, out)
			}
		}
	}
	checked := map[string]token.Pos{}
	for _, fn := range c.SrcFuncs("internal/lang/model") {
		rs := fn.Signature.Results()
		if rs.Len() == 0 || !isErrorType(rs.At(rs.Len()-1).Type()) {
			continue
		}
		allInstrs(fn, func(i ssa.Instruction) {
			b, ok := i.(*ssa.BinOp)
			if !ok || (b.Op != token.EQL && b.Op != token.NEQ) {
				return
			}
			side := b.X
			if isServiceConst(b.X) {
				side = b.Y
			} else if !isServiceConst(b.Y) {
				return
			}
			// side = (T.Ref).Type  or  T.Kind : find T
			var T ssa.Value
			if ld, ok := side.(*ssa.UnOp); ok && ld.Op == token.MUL {
				if fa, ok := ld.X.(*ssa.FieldAddr); ok {
					switch fieldOf(fa).Name() {
					case "Kind":
						T = fa.X
					case "Type":
						// Definition.Type: the definition is T.Ref
						def := fa.X
						if ph, isPhi := def.(*ssa.Phi); isPhi && len(ph.Edges) > 0 {
							def = ph.Edges[0]
						}
						if l2, ok := def.(*ssa.UnOp); ok && l2.Op == token.MUL {
							if f2, ok := l2.X.(*ssa.FieldAddr); ok && fieldOf(f2).Name() == "Ref" {
								T = f2.X
							}
						}
					}
				}
			}
			if T == nil {
				return
			}
			got := map[string]bool{}
			positionsOf(T, 0, got)
			for p := range got {
				if _, seen := checked[p]; !seen {
					checked[p] = b.Pos()
				}
			}
		})
	}
	for _, p := range positions {
		key := "internal/lang/model." + p.owner + "." + p.field + "/service-rejected"
		if pos, ok := checked[p.owner+"."+p.field]; ok {
			r.OK(key, pos, "compared with the service definition type in a function that returns an error")
		} else {
			r.Bad(key, 0, "a type in position %s.%s is never compared with the service definition type although its siblings are: `message M { l []Svc 1; }` is accepted and generated as a value list of a service type, which has no decoder - the output does not compile", p.owner, p.field)
		}
	}
}

func runR14_18(c *Ctx, r *R) {
	n := 0
	for _, fn := range c.SrcFuncs("internal/lang/model") {
		k := 0
		allInstrs(fn, func(i ssa.Instruction) {
			st, ok := i.(*ssa.Store)
			if !ok {
				return
			}
			fa, ok := st.Addr.(*ssa.FieldAddr)
			if !ok || fieldOf(fa).Name() != "Subservice" || !typeIs(fa.X.Type(), pkgPath("internal/lang/model"), "Method") {
				return
			}
			if isNilConst(st.Val) {
				return
			}
			k++
			n++
			key := fmt.Sprintf("%s/Subservice=#%d", fnKey(fn), k)
			all := true
			for _, alt := range backPaths(st.Block(), nil, 64) {
				ok := false
				for _, cd := range alt {
					v, truth := cd.V, cd.Truth
					if un, isNot := v.(*ssa.UnOp); isNot && un.Op == token.NOT {
						v, truth = un.X, !truth
					}
					if ld, isLd := v.(*ssa.UnOp); isLd && ld.Op == token.MUL && truth {
						if f2, isFa := ld.X.(*ssa.FieldAddr); isFa && fieldOf(f2).Name() == "Sub" && typeIs(f2.X.Type(), pkgPath("internal/lang/model"), "Service") {
							ok = true
						}
					}
				}
				if !ok {
					all = false
				}
			}
			if all {
				r.OK(key, st.Pos(), "assigned only where Service.Sub was tested true")
			} else {
				r.Bad(key, st.Pos(), "Method.Subservice is assigned without testing that the referenced service is declared `subservice`: `service Svc { sub() Svc; }` is accepted, the generator refers to a SvcCall type it only emits for subservices - the output does not compile")
			}
		})
	}
	if n == 0 {
		r.Unk("internal/lang/model/Method.Subservice", 0, "anchor lost: no assignment of Method.Subservice found")
	}
}
