package main

import (
	"go/ast"
	"go/parser"
	"go/token"
	"strings"
)

// R05.7: named results of generated functions. Several templates emit functions with named results and bare
// returns (Decode<Enum>(b) (result E, size int, err error), Decode<Struct>, (*Struct).Decode, Parse<Message>...).
// A named result that the emitted body never assigns is returned as its zero value: Decode<Enum> reporting size 0
// makes the generated struct decoder read the previous field from the enum's own bytes.

func init() {
	register(&Rule{ID: "R05.7", Props: []string{"C05"}, Floor: 8,
		Doc: "generated functions with named results: the body synthesised from the template assigns every named result it returns through a bare return (a never-assigned size/value result reports zero)",
		Run: runR05_7})
}

func runR05_7(c *Ctx, r *R) {
	gp := c.Pkg("internal/lang/generator")
	if gp == nil {
		r.Unk("internal/lang/generator", 0, "package not loaded")
		return
	}
	nFuncs := 0
	for _, file := range gp.Syntax {
		for _, d := range file.Decls {
			fd, ok := d.(*ast.FuncDecl)
			if !ok || fd.Body == nil {
				continue
			}
			text := synthTemplate(fd)
			if !strings.Contains(text, "func ") {
				continue
			}
			gname := fd.Name.Name
			if fd.Recv != nil && len(fd.Recv.List) == 1 {
				t := fd.Recv.List[0].Type
				if st, ok := t.(*ast.StarExpr); ok {
					t = st.X
				}
				if id, ok := t.(*ast.Ident); ok {
					gname = id.Name + "." + gname
				}
			}
			fset := token.NewFileSet()
			syn, err := parser.ParseFile(fset, "synth.go", "package p\n"+text, parser.SkipObjectResolution)
			if err != nil {
				// templates with data-dependent structure (loops emitting partial statements) are not synthesisable
				// as one file; they are covered only if they contain a named-result function header
				if strings.Contains(text, "err error) {") && namedResultHeader(text) {
					r.Unk("generator."+gname+"/synthesised-body", fd.Pos(), "template with a named-result function does not synthesise to valid Go: %v", err)
				}
				continue
			}
			for _, sd := range syn.Decls {
				sfd, ok := sd.(*ast.FuncDecl)
				if !ok || sfd.Body == nil || sfd.Type.Results == nil {
					continue
				}
				var named []string
				for _, f := range sfd.Type.Results.List {
					for _, n := range f.Names {
						if n.Name != "_" {
							named = append(named, n.Name)
						}
					}
				}
				if len(named) == 0 {
					continue
				}
				nFuncs++
				bare := false
				ast.Inspect(sfd.Body, func(n ast.Node) bool {
					if _, isLit := n.(*ast.FuncLit); isLit {
						return false
					}
					if rs, ok := n.(*ast.ReturnStmt); ok && len(rs.Results) == 0 {
						bare = true
					}
					return true
				})
				assigned := map[string]bool{}
				mark := func(e ast.Expr) {
					if id, ok := e.(*ast.Ident); ok {
						assigned[id.Name] = true
					}
					// s.field = ... / s[i] = ... assign into the named result
					for {
						switch x := e.(type) {
						case *ast.SelectorExpr:
							e = x.X
							continue
						case *ast.IndexExpr:
							e = x.X
							continue
						case *ast.StarExpr:
							e = x.X
							continue
						}
						break
					}
					if id, ok := e.(*ast.Ident); ok {
						assigned[id.Name] = true
					}
				}
				// := declares in its own scope: only a := directly in the function's outermost block assigns the result
				top := map[ast.Stmt]bool{}
				for _, st := range sfd.Body.List {
					top[st] = true
				}
				ast.Inspect(sfd.Body, func(n ast.Node) bool {
					switch x := n.(type) {
					case *ast.FuncLit:
						return false
					case *ast.AssignStmt:
						if x.Tok == token.DEFINE && !top[x] {
							return true
						}
						for _, l := range x.Lhs {
							mark(l)
						}
					case *ast.IncDecStmt:
						mark(x.X)
					case *ast.UnaryExpr:
						if x.Op == token.AND {
							mark(x.X)
						}
					case *ast.CallExpr:
						// method with pointer receiver on the result: s.Decode(b) style
						if se, ok := x.Fun.(*ast.SelectorExpr); ok {
							if id, ok := se.X.(*ast.Ident); ok {
								for _, nm := range named {
									if id.Name == nm {
										assigned[nm] = true
									}
								}
							}
						}
					}
					return true
				})
				for _, nm := range named {
					key := "generator." + gname + "/" + sfd.Name.Name + "/result:" + nm
					switch {
					case !bare:
						r.OK(key, fd.Pos(), "every return of the emitted function lists its results explicitly")
					case assigned[nm]:
						r.OK(key, fd.Pos(), "assigned in the emitted body before the bare return")
					default:
						r.Bad(key, fd.Pos(), "the function emitted by %s returns through a bare return but never assigns its named result %q: callers always receive the zero value (a decoder that reports size 0 makes the enclosing struct decoder read the next field from the same bytes)", gname, nm)
					}
				}
			}
		}
	}
	r.Note("%d emitted functions with named results analysed", nFuncs)
}

func namedResultHeader(text string) bool {
	for _, line := range strings.Split(text, "\n") {
		if strings.HasPrefix(line, "func ") && strings.Contains(line, " int, err error) {") {
			return true
		}
	}
	return false
}
