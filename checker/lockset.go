package main

import (
	"fmt"
	"go/token"
	"go/types"
	"sort"
	"strings"

	"golang.org/x/tools/go/ssa"
	"golang.org/x/tools/go/ssa/ssautil"
)

// Lockset analysis for a frozen guarded-by table. For one struct type T with mutex field M and a set of guarded
// operations (field accesses, or calls through a field), a must-dataflow computes where M is held; unexported
// methods that touch guarded state without locking get the summary "caller must hold M", which is checked at
// every call site up to the entry points (exported methods, goroutine / callback targets, interface methods).
// A freshly allocated object is exempt until it escapes from the allocating function.

type guardSpec struct {
	Pkg    string   // module-relative package
	Type   string   // struct type name
	Mutex  string   // mutex field
	Fields []string // guarded fields: any read or write
	Writes []string // fields guarded for writes only (reads are lock-free by design)
	// Calls: "field.Method" - calling Method through the named field requires the lock (e.g. conns.Store)
	Calls  []string
	Reason string
	// Exempt: functions of the package that access guarded state with exclusive ownership (name -> reason)
	Exempt map[string]string
}

type lockSite struct {
	ins  ssa.Instruction
	what string
}

type lockAn struct {
	c        *Ctx
	spec     guardSpec
	funcs    []*ssa.Function
	held     map[*ssa.Function]*FlowResult
	requires map[*ssa.Function]bool
	why      map[*ssa.Function][]lockSite // unguarded sites (direct or via callee) inside the function
	entry    map[*ssa.Function]string
	spawn    map[*ssa.Function]int
}

func (la *lockAn) isObj(v ssa.Value) bool { return la.isObjType(v.Type()) }

func (la *lockAn) isObjType(t types.Type) bool {
	return typeIs(t, pkgPath(la.spec.Pkg), la.spec.Type)
}

func (la *lockAn) mutexOp(call ssa.CallInstruction) (string, bool) {
	cc := call.Common()
	if cc.IsInvoke() || len(cc.Args) == 0 {
		return "", false
	}
	cal := cc.StaticCallee()
	if cal == nil || cal.Pkg == nil || cal.Pkg.Pkg.Path() != "sync" {
		return "", false
	}
	fa, ok := cc.Args[0].(*ssa.FieldAddr)
	if !ok || !la.isObj(fa.X) || fieldOf(fa).Name() != la.spec.Mutex {
		return "", false
	}
	switch cal.Name() {
	case "Lock", "RLock":
		return "lock", true
	case "Unlock", "RUnlock":
		return "unlock", true
	}
	return "", false
}

func in(list []string, s string) bool {
	for _, x := range list {
		if x == s {
			return true
		}
	}
	return false
}

// guardedSites lists the guarded operations of fn.
func (la *lockAn) guardedSites(fn *ssa.Function) []lockSite {
	var out []lockSite
	if _, ok := la.spec.Exempt[fn.Name()]; ok {
		return nil
	}
	allInstrs(fn, func(i ssa.Instruction) {
		switch x := i.(type) {
		case *ssa.FieldAddr:
			if !la.isObj(x.X) {
				return
			}
			name := fieldOf(x).Name()
			if in(la.spec.Fields, name) {
				// the access happens where the address is used (load/store/call); report at the FieldAddr
				out = append(out, lockSite{x, "access to " + la.spec.Type + "." + name})
			}
			if in(la.spec.Writes, name) {
				for _, u := range users(x) {
					if st, ok := u.(*ssa.Store); ok && st.Addr == ssa.Value(x) {
						out = append(out, lockSite{st, "write to " + la.spec.Type + "." + name})
					}
				}
			}
		case ssa.CallInstruction:
			cc := x.Common()
			var recv ssa.Value
			var mname string
			if cc.IsInvoke() {
				recv, mname = cc.Value, cc.Method.Name()
			} else if cal := cc.StaticCallee(); cal != nil && len(cc.Args) > 0 && cal.Signature.Recv() != nil {
				recv, mname = cc.Args[0], cal.Name()
			} else {
				return
			}
			// receiver is obj.field (address or loaded value)
			var fa *ssa.FieldAddr
			switch r := recv.(type) {
			case *ssa.FieldAddr:
				fa = r
			case *ssa.UnOp:
				if r.Op == token.MUL {
					fa, _ = r.X.(*ssa.FieldAddr)
				}
			}
			if fa == nil || !la.isObj(fa.X) {
				return
			}
			if in(la.spec.Calls, fieldOf(fa).Name()+"."+mname) {
				out = append(out, lockSite{x, fmt.Sprintf("%s.%s.%s()", la.spec.Type, fieldOf(fa).Name(), mname)})
			}
		}
	})
	return out
}

// returnsPoolFresh: every return of fn yields an object just taken from a pool (pools.Pool.New()) or just
// allocated, directly or through another such helper, possibly after initialising it.
func returnsPoolFresh(fn *ssa.Function, depth int) bool {
	if fn == nil || fn.Blocks == nil || depth > 3 {
		return false
	}
	rets := returnsOf(fn)
	if len(rets) == 0 {
		return false
	}
	for _, ret := range rets {
		if len(ret.Results) == 0 {
			return false
		}
		v := unspill(ret.Results[0])
		switch x := v.(type) {
		case *ssa.Alloc:
			if !x.Heap {
				return false
			}
		case *ssa.Call:
			cc := x.Common()
			if cc.IsInvoke() && cc.Method.Name() == "New" && typeIs(cc.Value.Type(), poolsPath, "Pool") {
				continue
			}
			if !returnsPoolFresh(cc.StaticCallee(), depth+1) {
				return false
			}
		default:
			return false
		}
	}
	return true
}

func (la *lockAn) flow(fn *ssa.Function) *FlowResult {
	if r, ok := la.held[fn]; ok {
		return r
	}
	entry := Facts{}
	// constructor exemption: the object is allocated here and has not escaped yet
	var allocs []ssa.Value
	isFresh := func(i ssa.Instruction) (ssa.Value, bool) {
		if al, ok := i.(*ssa.Alloc); ok && al.Heap && la.isObj(al) {
			return al, true
		}
		// object taken from its pool: exclusively owned until it is published
		if call, ok := i.(*ssa.Call); ok && la.isObjType(call.Type()) {
			cc := call.Common()
			if cc.IsInvoke() && cc.Method.Name() == "New" && typeIs(cc.Value.Type(), poolsPath, "Pool") {
				return call, true
			}
			// a helper that hands out a pool object (acquireState() { return statePool.New() }) - judged by what it
			// returns, not by its name: channel.acquire() returns the SHARED state of a reference-counted channel
			if cal := cc.StaticCallee(); cal != nil && returnsPoolFresh(cal, 0) {
				return call, true
			}
		}
		return nil, false
	}
	allInstrs(fn, func(i ssa.Instruction) {
		if v, ok := isFresh(i); ok {
			allocs = append(allocs, v)
		}
	})
	fl := &Flow{Must: true, Entry: entry}
	fl.Transfer = func(i ssa.Instruction, f Facts) {
		if _, ok := isFresh(i); ok {
			f["private"] = true
			return
		}
		if call, ok := i.(ssa.CallInstruction); ok {
			if _, isDefer := i.(*ssa.Defer); !isDefer {
				if op, ok := la.mutexOp(call); ok {
					if op == "lock" {
						f["held"] = true
					} else {
						delete(f, "held")
					}
					return
				}
			}
			// publication: the fresh object is handed to something that starts a goroutine (go statement, a callee
			// that spawns, or an unknown callee). Storing the pointer in another object does not yet share it.
			if f["private"] {
				_, isGo := i.(*ssa.Go)
				for _, a := range call.Common().Args {
					for _, al := range allocs {
						if a == al && (isGo || la.spawning(call.Common().StaticCallee())) {
							delete(f, "private")
						}
					}
				}
			}
			return
		}
		if f["private"] {
			switch x := i.(type) {
			case *ssa.Store:
				if _, isGlobal := x.Addr.(*ssa.Global); isGlobal {
					for _, al := range allocs {
						if x.Val == al {
							delete(f, "private")
						}
					}
				}
			case *ssa.MakeClosure:
				for _, b := range x.Bindings {
					for _, al := range allocs {
						if b == al {
							delete(f, "private")
						}
					}
				}
			}
		}
	}
	r := fl.Run(fn)
	la.held[fn] = r
	return r
}

func (la *lockAn) protectedAt(fn *ssa.Function, ins ssa.Instruction) bool {
	f := la.flow(fn).At(ins)
	if f == nil || f["held"] {
		return true
	}
	if f["private"] {
		// a call to a method that itself starts a goroutine publishes the object during the call:
		// "not yet shared" does not protect what the callee does after spawning
		if call, ok := ins.(ssa.CallInstruction); ok && la.spawning(call.Common().StaticCallee()) {
			return false
		}
		return true
	}
	return false
}

// spawning: fn (transitively, through static calls inside the module) starts a goroutine: a go statement or a
// call into baselibrary/async Run*/Go*. Unknown callees (nil) are assumed to spawn.
func (la *lockAn) spawning(fn *ssa.Function) bool {
	if fn == nil {
		return true
	}
	if la.spawn == nil {
		la.spawn = map[*ssa.Function]int{}
	}
	switch la.spawn[fn] {
	case 1:
		return true
	case 2, 3:
		return false
	}
	la.spawn[fn] = 3 // in progress
	res := false
	if fn.Pkg != nil && strings.HasSuffix(fn.Pkg.Pkg.Path(), "baselibrary/async") {
		n := fn.Name()
		res = strings.HasPrefix(n, "Run") || strings.HasPrefix(n, "Go") || strings.HasPrefix(n, "Call")
	} else if fn.Blocks != nil && fn.Pkg != nil && strings.HasPrefix(fn.Pkg.Pkg.Path(), Mod) {
		for _, call := range callsIn(fn, true) {
			if _, isGo := call.(*ssa.Go); isGo {
				res = true
				break
			}
			cal := call.Common().StaticCallee()
			if cal == nil {
				continue // dynamic calls inside: interface methods of collaborators; not treated as spawning
			}
			if g := cal; g.Origin() != nil {
				cal = g.Origin()
			}
			if la.spawning(cal) {
				res = true
				break
			}
		}
	}
	if res {
		la.spawn[fn] = 1
	} else {
		la.spawn[fn] = 2
	}
	return res
}

func runLockset(c *Ctx, r *R, spec guardSpec) {
	la := &lockAn{c: c, spec: spec, held: map[*ssa.Function]*FlowResult{}, requires: map[*ssa.Function]bool{}, why: map[*ssa.Function][]lockSite{}, entry: map[*ssa.Function]string{}}
	sp := c.SPkg(spec.Pkg)
	if sp == nil {
		r.Unk(spec.Pkg+"."+spec.Type, 0, "package not loaded")
		return
	}
	if _, ok := sp.Members[spec.Type].(*ssa.Type); !ok {
		r.Unk(spec.Pkg+"."+spec.Type, 0, "anchor lost: type %s not found", spec.Type)
		return
	}
	la.funcs = c.SrcFuncs(spec.Pkg)
	// direct unguarded sites
	nSites := 0
	for _, fn := range la.funcs {
		for _, s := range la.guardedSites(fn) {
			nSites++
			if !la.protectedAt(fn, s.ins) {
				la.requires[fn] = true
				la.why[fn] = append(la.why[fn], s)
			}
		}
	}
	// propagate through unguarded calls
	type callEdge struct {
		caller *ssa.Function
		call   ssa.CallInstruction
		callee *ssa.Function
	}
	var edges []callEdge
	for _, fn := range la.funcs {
		for _, call := range callsIn(fn, false) {
			if cal := call.Common().StaticCallee(); cal != nil && cal.Pkg == sp {
				edges = append(edges, callEdge{fn, call, cal})
			}
		}
	}
	for changed := true; changed; {
		changed = false
		for _, e := range edges {
			if !la.requires[e.callee] {
				continue
			}
			if _, isGo := e.call.(*ssa.Go); isGo {
				continue // a new goroutine holds nothing: the callee is an entry point
			}
			if la.protectedAt(e.caller, e.call.(ssa.Instruction)) {
				continue
			}
			if !la.requires[e.caller] {
				la.requires[e.caller] = true
				changed = true
			}
			found := false
			for _, s := range la.why[e.caller] {
				if s.ins == e.call.(ssa.Instruction) {
					found = true
				}
			}
			if !found {
				la.why[e.caller] = append(la.why[e.caller], lockSite{e.call.(ssa.Instruction), "call to " + e.callee.Name() + " (which needs " + spec.Type + "." + spec.Mutex + ")"})
			}
		}
	}
	// entry points
	named, _ := sp.Pkg.Scope().Lookup(spec.Type).(*types.TypeName)
	var ifaces []*types.Interface
	for _, n := range sp.Pkg.Scope().Names() {
		if tn, ok := sp.Pkg.Scope().Lookup(n).(*types.TypeName); ok {
			if it, ok := tn.Type().Underlying().(*types.Interface); ok {
				ifaces = append(ifaces, it)
			}
		}
	}
	taken := map[*ssa.Function]string{}
	for fn := range ssautil.AllFunctions(c.Prog) {
		if fn.Synthetic == "" || fn.Blocks == nil {
			continue
		}
		for _, call := range callsIn(fn, false) {
			if cal := call.Common().StaticCallee(); cal != nil && cal.Pkg == sp && (strings.Contains(fn.Synthetic, "bound") || strings.Contains(fn.Synthetic, "thunk") || strings.Contains(fn.Synthetic, "wrapper")) {
				taken[cal] = fn.Synthetic
			}
		}
	}
	for _, fn := range la.funcs {
		for _, call := range callsIn(fn, false) {
			if g, isGo := call.(*ssa.Go); isGo {
				if cal := g.Call.StaticCallee(); cal != nil {
					taken[cal] = "go statement"
				}
			}
		}
		allInstrs(fn, func(i ssa.Instruction) {
			if mc, ok := i.(*ssa.MakeClosure); ok {
				if f2, ok := mc.Fn.(*ssa.Function); ok {
					taken[f2] = "closure"
				}
			}
		})
	}
	isEntry := func(fn *ssa.Function) string {
		if fn.Parent() != nil {
			return "closure"
		}
		if token.IsExported(fn.Name()) {
			return "exported"
		}
		if why, ok := taken[fn]; ok {
			return why
		}
		if recv := fn.Signature.Recv(); recv != nil && named != nil && la.isObjType(recv.Type()) {
			for _, it := range ifaces {
				for i := 0; i < it.NumMethods(); i++ {
					if it.Method(i).Name() == fn.Name() && types.Implements(types.NewPointer(named.Type()), it) {
						return "interface method"
					}
				}
			}
		}
		return ""
	}
	// report: one obligation per guarded site
	cnt := map[string]int{}
	violFn := map[*ssa.Function]string{}
	for _, fn := range la.funcs {
		if la.requires[fn] {
			if why := isEntry(fn); why != "" {
				violFn[fn] = why
			}
		}
	}
	// which functions' requirement reaches an entry point unguarded: walk callers
	reachesEntry := map[*ssa.Function]string{}
	for fn, why := range violFn {
		reachesEntry[fn] = fnKey(fn) + " (" + why + ")"
	}
	for changed := true; changed; {
		changed = false
		for _, e := range edges {
			if _, isGo := e.call.(*ssa.Go); isGo {
				continue
			}
			if la.requires[e.callee] && !la.protectedAt(e.caller, e.call.(ssa.Instruction)) {
				if ep, ok := reachesEntry[e.caller]; ok {
					if _, done := reachesEntry[e.callee]; !done {
						reachesEntry[e.callee] = ep + " -> " + e.callee.Name()
						changed = true
					}
				}
			}
		}
	}
	for _, fn := range la.funcs {
		sites := la.guardedSites(fn)
		sort.SliceStable(sites, func(i, j int) bool { return sites[i].ins.Pos() < sites[j].ins.Pos() })
		for _, s := range sites {
			base := fmt.Sprintf("%s/%s", fnKey(fn), strings.ReplaceAll(s.what, " ", "-"))
			cnt[base]++
			key := fmt.Sprintf("%s#%d", base, cnt[base])
			if la.protectedAt(fn, s.ins) {
				r.OK(key, instrPos(s.ins), "%s.%s held (or object not yet shared)", spec.Type, spec.Mutex)
				continue
			}
			if ep, bad := reachesEntry[fn]; bad {
				r.Bad(key, instrPos(s.ins), "%s without %s.%s: reachable unlocked from entry point %s. %s", s.what, spec.Type, spec.Mutex, ep, spec.Reason)
			} else {
				r.OK(key, instrPos(s.ins), "every caller of %s holds %s.%s", fn.Name(), spec.Type, spec.Mutex)
			}
		}
	}
	r.Note("%s.%s: %d guarded sites in %d functions; functions requiring the lock from callers: %d", spec.Type, spec.Mutex, nSites, len(la.funcs), len(la.requires))
}
