package main

import (
	"bufio"
	"fmt"
	"go/ast"
	"go/token"
	"go/types"
	"os"
	"os/exec"
	"path/filepath"
	"regexp"
	"sort"
	"strconv"
	"strings"

	"golang.org/x/tools/go/ssa"
)

func init() {
	props["C17"] = &propInfo{Level: "other", Explanation: "Decides an allocation-site audit, not measured allocations: (R17.1) read cone (the functions of C02's cone: Parse*/Open*/Decode*, accessors of Value/List/Message and the typed lists; Clone*, String, Values, Fields, Elements excluded): the set of heap-allocation sites - lines the Go compiler's own escape analysis reports ('escapes to heap', 'moved to heap'; `go build -gcflags=-m` on the current tree) plus SSA operators that allocate without a diagnostic (append, string concatenation, []byte<->string conversion, make of map/chan) - must be empty outside error construction (source lines that build an error with errors.New/fmt.Errorf or panic); (R17.2) write cone (internal/writer, internal/encode and the root writer constructors): allocation sites must be in the reasoned allow-list - writer/state constructors and pool New functions, the amortised appends of the three table stacks, error construction; (R17.3) amortisation holds: the reset path of the pooled stacks only truncates them (s.x = s.x[:0]); re-pointing a stack at its preallocated array happens only in the constructor, so capacity grown for a large message is kept across reuse; (R16.2) reading an absent field builds no error value. Not decided: measured allocations per message shape; inlining-dependent stack allocation is the compiler's verdict for this Go version.",
		Trusted: []string{"the Go compiler's escape analysis output (-gcflags=-m) of the installed toolchain", "allow-list in rules_c17.go"}}

	register(&Rule{ID: "R17.1", Props: []string{"C17"}, Floor: 100,
		Doc: "read cone: no heap-allocation site outside error construction (compiler escape diagnostics + SSA allocating operators)",
		Run: func(c *Ctx, r *R) { runR17(c, r, true) }})
	register(&Rule{ID: "R17.2", Props: []string{"C17"}, Floor: 20,
		Doc: "write cone: heap-allocation sites only in the reasoned allow-list (constructors, pool New, amortised stack appends, error construction)",
		Run: func(c *Ctx, r *R) { runR17(c, r, false) }})
	register(&Rule{ID: "R17.3", Props: []string{"C17"}, Floor: 3,
		Doc: "grown capacity of the pooled table stacks survives reset (truncate only; re-pointing only in the constructor)",
		Run: runR17_3})
}

type escLine struct {
	file string
	line int
	msg  string
}

var escCache []escLine
var escErr error
var escDone bool

// escInlined: "file:line" -> callees the compiler inlined at that line
var escInlined = map[string][]string{}

// simpleName strips package qualifier and receiver from a compiler-printed function name:
// "(*stack).pushElement" -> "pushElement", "decode.DecodeBool" -> "DecodeBool".
func simpleName(s string) string {
	if i := strings.LastIndex(s, "."); i >= 0 {
		s = s[i+1:]
	}
	return strings.TrimSuffix(s, "[...]")
}

var reEsc = regexp.MustCompile(`^(\S+\.go):(\d+):(\d+): (.*)$`)

func escapeDiagnostics(c *Ctx) ([]escLine, error) {
	if escDone {
		return escCache, escErr
	}
	escDone = true
	cmd := exec.Command("go", "build", "-gcflags=-m", ".", "./internal/decode", "./internal/format", "./internal/types", "./internal/encode", "./internal/writer")
	cmd.Dir = c.Repo
	cmd.Env = append(os.Environ(), "GOFLAGS=-mod=mod", "GOPROXY=off", "GOSUMDB=off", "GOTOOLCHAIN=local", "GOWORK=off")
	out, err := cmd.CombinedOutput()
	if err != nil {
		escErr = fmt.Errorf("go build -gcflags=-m failed: %v: %s", err, tailStr(string(out), 400))
		return nil, escErr
	}
	seen := map[string]bool{}
	sc := bufio.NewScanner(strings.NewReader(string(out)))
	sc.Buffer(make([]byte, 1<<20), 1<<24)
	for sc.Scan() {
		m := reEsc.FindStringSubmatch(sc.Text())
		if m == nil {
			continue
		}
		msg := m[4]
		if strings.HasPrefix(msg, "inlining call to ") && !strings.HasPrefix(m[1], "/") {
			ln, _ := strconv.Atoi(m[2])
			k := fmt.Sprintf("%s:%d", filepath.Clean(m[1]), ln)
			escInlined[k] = append(escInlined[k], strings.TrimPrefix(msg, "inlining call to "))
			continue
		}
		if !(strings.Contains(msg, "escapes to heap") || strings.HasPrefix(msg, "moved to heap")) {
			continue
		}
		f := filepath.Clean(m[1])
		if strings.HasPrefix(f, "/") {
			continue // dependency source
		}
		ln, _ := strconv.Atoi(m[2])
		k := fmt.Sprintf("%s:%d:%s", f, ln, msg)
		if seen[k] {
			continue
		}
		seen[k] = true
		escCache = append(escCache, escLine{f, ln, msg})
	}
	return escCache, nil
}

func tailStr(s string, n int) string {
	if len(s) > n {
		return s[len(s)-n:]
	}
	return s
}

type fnRange struct {
	fn         *ssa.Function
	file       string
	start, end int
}

var reEmptyLit = regexp.MustCompile(`compiler: [\w.\[\]]*\{\} escapes to heap`)

var reErrCtor = regexp.MustCompile(`errors\.New\(|fmt\.Errorf\(|\bErrorf\(|\bpanic\(|\bfailf\(`)

// write-cone allow-list: function key -> reason
var allocAllow = map[string]string{
	"internal/writer.newWriter":           "constructor of a user-owned writer (one allocation per writer, not per message)",
	"internal/writer.init$1":              "pool New function of writerPool",
	"internal/writer.newWriterState":      "constructor of the pooled writer state",
	"internal/writer.stack.pushData":      "amortised append to the pooled nesting stack",
	"internal/writer.stack.pushList":      "amortised append to the pooled nesting stack",
	"internal/writer.stack.pushElement":   "amortised append to the pooled nesting stack",
	"internal/writer.stack.pushMessage":   "amortised append to the pooled nesting stack",
	"internal/writer.stack.pushField":     "amortised append to the pooled nesting stack",
	"internal/writer.listStack.push":      "amortised append to the pooled element table",
	"internal/writer.messageStack.insert": "amortised append to the pooled field table",
	"internal/writer.writer.Reset":        "buffer.New() when the caller passes no buffer (per writer, not per message in steady state)",
	"spec.NewWriter":                      "constructor (inlined newWriter)",
	"spec.NewWriterBuffer":                "constructor (inlined newWriter)",
	"spec.NewListWriter":                  "constructor (inlined newWriter)",
	"spec.NewMessageWriter":               "constructor (inlined newWriter)",
	"spec.NewValueWriter":                 "constructor (inlined newWriter)",
}

func runR17(c *Ctx, r *R, read bool) {
	diags, err := escapeDiagnostics(c)
	if err != nil {
		r.Unk("go build -gcflags=-m", 0, "%v", err)
		return
	}
	// cone functions with their source ranges
	var cone []*ssa.Function
	if read {
		cone = readCone(c)
	} else {
		for _, rel := range []string{"internal/writer", "internal/encode"} {
			cone = append(cone, c.SrcFuncs(rel)...)
		}
		for _, f := range c.SrcFuncs(".") {
			pos := c.Fset.Position(f.Pos())
			if strings.HasPrefix(baseName(pos.Filename), "writer") || strings.HasPrefix(baseName(pos.Filename), "encode") {
				cone = append(cone, f)
			}
		}
	}
	excluded := func(f *ssa.Function) bool {
		n := f.Name()
		for f.Parent() != nil {
			f = f.Parent()
			n = f.Name()
		}
		if !read {
			return false
		}
		ln := strings.ToLower(n)
		if strings.Contains(ln, "clone") {
			return true
		}
		for _, p := range []string{"string", "values", "fields", "elements", "debug"} {
			if ln == p {
				return true // materialising accessors: documented to allocate their result
			}
		}
		return false
	}
	var ranges []fnRange
	srcLines := map[string][]string{}
	coneNames := map[string]bool{}
	for _, f := range cone {
		if f.Syntax() == nil || excluded(f) {
			continue
		}
		coneNames[f.Name()] = true
		st, en := c.Fset.Position(f.Syntax().Pos()), c.Fset.Position(f.Syntax().End())
		rel, err := filepath.Rel(c.Repo, st.Filename)
		if err != nil {
			continue
		}
		ranges = append(ranges, fnRange{f, filepath.Clean(rel), st.Line, en.Line})
		if _, ok := srcLines[rel]; !ok {
			b, _ := os.ReadFile(st.Filename)
			srcLines[filepath.Clean(rel)] = strings.Split(string(b), "\n")
		}
	}
	// innermost function containing a position
	find := func(file string, line int) *fnRange {
		var best *fnRange
		for i := range ranges {
			rg := &ranges[i]
			if rg.file == file && rg.start <= line && line <= rg.end {
				if best == nil || (rg.end-rg.start) < (best.end-best.start) {
					best = rg
				}
			}
		}
		return best
	}
	lineText := func(file string, line int) string {
		ls := srcLines[file]
		if line-1 < len(ls) && line >= 1 {
			return ls[line-1]
		}
		return ""
	}
	type site struct {
		fn   *ssa.Function
		file string
		line int
		what string
	}
	var sites []site
	for _, d := range diags {
		if rg := find(d.file, d.line); rg != nil {
			sites = append(sites, site{rg.fn, d.file, d.line, "compiler: " + d.msg})
		}
	}
	// SSA operators that allocate without a compiler diagnostic
	for _, rg := range ranges {
		f := rg.fn
		allInstrs(f, func(i ssa.Instruction) {
			what := ""
			switch x := i.(type) {
			case *ssa.Call:
				if b, ok := x.Call.Value.(*ssa.Builtin); ok && b.Name() == "append" {
					what = "append (may grow the backing array)"
				}
			case *ssa.BinOp:
				if x.Op == token.ADD {
					if bt, ok := x.Type().Underlying().(*types.Basic); ok && bt.Info()&types.IsString != 0 {
						what = "string concatenation"
					}
				}
			case *ssa.Convert:
				ft, tt := x.X.Type().Underlying(), x.Type().Underlying()
				_, fs := ft.(*types.Slice)
				_, ts := tt.(*types.Slice)
				fb, _ := ft.(*types.Basic)
				tb, _ := tt.(*types.Basic)
				if (fs && tb != nil && tb.Info()&types.IsString != 0) || (ts && fb != nil && fb.Info()&types.IsString != 0) {
					if _, isConst := x.X.(*ssa.Const); !isConst {
						what = "[]byte <-> string conversion (copies)"
					}
				}
			case *ssa.MakeMap:
				what = "make(map)"
			case *ssa.MakeChan:
				what = "make(chan)"
			}
			if what != "" && i.Pos().IsValid() {
				p := c.Fset.Position(i.Pos())
				rel, _ := filepath.Rel(c.Repo, p.Filename)
				sites = append(sites, site{f, filepath.Clean(rel), p.Line, "ssa: " + what})
			}
		})
	}
	sort.Slice(sites, func(i, j int) bool {
		if sites[i].file != sites[j].file {
			return sites[i].file < sites[j].file
		}
		if sites[i].line != sites[j].line {
			return sites[i].line < sites[j].line
		}
		return sites[i].what < sites[j].what
	})
	cnt := map[string]int{}
	for _, s := range sites {
		base := fnKey(s.fn) + "/alloc"
		cnt[base]++
		key := fmt.Sprintf("%s#%d", base, cnt[base])
		pos := fmt.Sprintf("%s:%d", s.file, s.line)
		txt := lineText(s.file, s.line)
		report := func(st Status, format string, a ...any) {
			for _, p := range r.rule.Props {
				r.c.Obs = append(r.c.Obs, &Ob{Prop: p, Rule: r.rule.ID, Key: key, Pos: pos, Status: st.String(), status: st, Msg: fmt.Sprintf(format, a...)})
			}
			r.n++
		}
		// allocations that the compiler attributes to this line because a callee was inlined here
		inlinedHere := escInlined[fmt.Sprintf("%s:%d", s.file, s.line)]
		attributed := ""
		// ... but not the boxing of an argument written on this line (checkIndex(ok, "...", i): `i escapes to heap`):
		// the conversion to an interface happens in the caller, before the inlined body and on every path
		callSiteExpr := false
		if strings.HasPrefix(s.what, "compiler: ") && strings.HasSuffix(s.what, " escapes to heap") {
			expr := strings.TrimSuffix(strings.TrimPrefix(s.what, "compiler: "), " escapes to heap")
			if isPlainOperand(expr) && wordIn(txt, expr) {
				callSiteExpr = true
			}
		}
		if strings.HasPrefix(s.what, "compiler:") && !callSiteExpr {
			for _, cal := range inlinedHere {
				sn := simpleName(cal)
				if coneNames[sn] {
					attributed = "judged in the body of the inlined callee " + cal
				}
				for k, why := range allocAllow {
					if !read && strings.HasSuffix(k, "."+sn) {
						attributed = "inlined " + cal + ": " + why
					}
				}
			}
		}
		switch {
		case strings.Contains(s.what, "errors.errorString") || strings.Contains(s.what, "fmt.wrapError"):
			report(Discharged, "error construction (errors.New / fmt.Errorf inlined): %s", s.what)
		case reEmptyLit.MatchString(s.what):
			report(Discharged, "empty slice literal: zero bytes, the runtime allocates nothing (%s)", s.what)
		case reErrCtor.MatchString(txt) || errorOnlyLine(c, s.fn, s.line):
			report(Discharged, "error construction (%s)", s.what)
		case attributed != "":
			report(Discharged, "%s (%s)", attributed, s.what)
		case !read && strings.Contains(s.what, "append") && selfAppendLine(c, s.fn, s.line):
			report(Discharged, "amortised append to a slice field of the pooled writer state, stored back into the same field (%s)", s.what)
		case !read && allocAllow[strings.SplitN(fnKey(s.fn), "$", 2)[0]] != "":
			report(Discharged, "allow-listed: %s (%s)", allocAllow[strings.SplitN(fnKey(s.fn), "$", 2)[0]], s.what)
		case !read && allocAllow[fnKey(s.fn)] != "":
			report(Discharged, "allow-listed: %s (%s)", allocAllow[fnKey(s.fn)], s.what)
		default:
			cone := "writing a message in steady state"
			if read {
				cone = "reading"
			}
			report(Violated, "heap allocation on a non-error path of %s: %s at `%s`", cone, s.what, strings.TrimSpace(txt))
		}
	}
	r.Note("%d functions in the cone, %d allocation sites classified, %d compiler diagnostics in total", len(ranges), len(sites), len(diags))
}

// errorOnlyLine: every instruction of fn on that source line lies in a block from which only returns with a
// non-nil error (or panics) are reachable.
func errorOnlyLine(c *Ctx, fn *ssa.Function, line int) bool {
	found := false
	ok := true
	allInstrs(fn, func(i ssa.Instruction) {
		if !i.Pos().IsValid() || c.Fset.Position(i.Pos()).Line != line {
			return
		}
		found = true
		if !blockOnlyReachesErrors(i.Block(), map[*ssa.BasicBlock]bool{}) {
			ok = false
		}
	})
	return found && ok
}

func blockOnlyReachesErrors(b *ssa.BasicBlock, seen map[*ssa.BasicBlock]bool) bool {
	if seen[b] {
		return true
	}
	seen[b] = true
	if len(b.Instrs) == 0 {
		return false
	}
	switch t := b.Instrs[len(b.Instrs)-1].(type) {
	case *ssa.Panic:
		return true
	case *ssa.Return:
		n := len(t.Results)
		if n == 0 {
			return false
		}
		last := unspill(t.Results[n-1])
		if !types.Identical(last.Type(), types.Universe.Lookup("error").Type()) {
			return false
		}
		return !isNilConst(last) && knownNonNil(last)
	}
	for _, s := range b.Succs {
		if !blockOnlyReachesErrors(s, seen) {
			return false
		}
	}
	return len(b.Succs) > 0
}

func runR17_3(c *Ctx, r *R) {
	// stores to the `stack` slice field of stack / listStack / messageStack
	n := 0
	perFn := map[string]int{}
	for _, fn := range c.SrcFuncs("internal/writer") {
		allInstrs(fn, func(i ssa.Instruction) {
			st, ok := i.(*ssa.Store)
			if !ok {
				return
			}
			fa, ok := st.Addr.(*ssa.FieldAddr)
			if !ok || fieldOf(fa).Name() != "stack" {
				return
			}
			if _, isSlice := fieldOf(fa).Type().Underlying().(*types.Slice); !isSlice {
				return
			}
			n++
			perFn[fnKey(fn)+namedOrStruct(fa.X.Type())]++
			key := fmt.Sprintf("%s/%s.stack=#%d", fnKey(fn), namedOrStruct(fa.X.Type()), perFn[fnKey(fn)+namedOrStruct(fa.X.Type())])
			// value: slice/append of the same field (keeps the backing array) or something else (re-pointing)
			keeps := false
			switch v := st.Val.(type) {
			case *ssa.Slice:
				if ld, ok := v.X.(*ssa.UnOp); ok {
					if fa2, ok := ld.X.(*ssa.FieldAddr); ok && fieldOf(fa2) == fieldOf(fa) {
						keeps = true
					}
				}
			case *ssa.Call:
				if b, ok := v.Call.Value.(*ssa.Builtin); ok && b.Name() == "append" {
					keeps = true
				}
			}
			root := fn
			for root.Parent() != nil {
				root = root.Parent()
			}
			isCtor := strings.HasPrefix(root.Name(), "new") || root.Synthetic != ""
			switch {
			case keeps:
				r.OK(key, st.Pos(), "truncate / append in place: grown capacity is kept")
			case isCtor:
				r.OK(key, st.Pos(), "constructor points the stack at its preallocated array")
			default:
				r.Bad(key, st.Pos(), "a pooled stack is re-pointed at another backing array outside the constructor: capacity grown for a large message is dropped on every reuse, so such messages allocate on every write (steady-state writing is no longer allocation free)")
			}
		})
	}
	if n < 3 {
		r.Unk("internal/writer/stack-stores", 0, "expected stores to the three stack slices, found %d", n)
	}
}

var _ = ast.Inspect

// isPlainOperand: an identifier or selector chain (i, x.n): the form of an argument that is boxed at a call site.
func isPlainOperand(e string) bool {
	if e == "" {
		return false
	}
	for _, r := range e {
		if !(r == '_' || r == '.' || (r >= '0' && r <= '9') || (r >= 'a' && r <= 'z') || (r >= 'A' && r <= 'Z')) {
			return false
		}
	}
	return !(e[0] >= '0' && e[0] <= '9')
}

// wordIn: e occurs in line as a whole token.
func wordIn(line, e string) bool {
	isW := func(b byte) bool {
		return b == '_' || b == '.' || (b >= '0' && b <= '9') || (b >= 'a' && b <= 'z') || (b >= 'A' && b <= 'Z')
	}
	for i := 0; i+len(e) <= len(line); i++ {
		if line[i:i+len(e)] != e {
			continue
		}
		if i > 0 && isW(line[i-1]) {
			continue
		}
		if j := i + len(e); j < len(line) && isW(line[j]) {
			continue
		}
		return true
	}
	return false
}
