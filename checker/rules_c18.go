package main

import (
	"fmt"
	"go/token"
	"go/types"
	"sort"
	"strings"

	"golang.org/x/tools/go/ssa"
)

const poolsPath = "github.com/basecomplextech/baselibrary/pools"

func init() {
	props["C18"] = &propInfo{Level: "other", Explanation: "Decides structural necessary conditions of 'a recycled object never carries state of its previous use, and an object in use is never handed to another goroutine': (R18.1) for every pools.Pool.Put(x) in the module, a must-dataflow over the release path (the function containing Put and the reset methods it calls, recursively into struct-typed fields) proves that every field of the pooled struct is overwritten, truncated to length 0, reset through its own Reset/reset method, or is in a reasoned keep-table; (R18.2) lockset: every access to a field in the frozen guarded-by table happens with its mutex held (see C19 for mpx.client); (R18.3) no use after release: guarded may-release summaries (which parameter a function may hand to pools.Pool.Put, under which nil/flag conditions) are propagated through the call graph, and no function touches an object again after a call that may have released it - the releasing goroutine would race with the next owner. Not decided: general data-race freedom, equivalence of concurrent and sequential results (schedules).",
		Trusted: []string{"sync.Pool semantics", "keep-table reasons in rules_c18.go (mutexes, preallocated backing arrays)"}}

	register(&Rule{ID: "R18.1", Props: []string{"C18", "C04", "C11", "C09", "C03", "C12"}, Floor: 40,
		Doc: "release-path completeness: on every path to pools.Pool.Put(x) each field of x's struct is overwritten, truncated, Reset() or in the keep-table with its required cleanup",
		Run: runR18_1})
}

// keep-table: pkg.Type.field -> reason (fields that legitimately survive recycling).
var r18keep = map[string]string{
	"internal/writer.writerState._stack":    "preallocated backing array of stack; unreachable after the stack slice is truncated to length 0",
	"internal/writer.writerState._elements": "preallocated backing array of elements; unreachable after truncation",
	"internal/writer.writerState._fields":   "preallocated backing array of fields; unreachable after truncation",
	"rpc.channelState.sendBuilder":          "builder is an empty struct (no state)",
	"rpc.serverChannelState.sendBuilder":    "builder is an empty struct (no state)",
}

type resetAn struct {
	c    *Ctx
	memo map[*ssa.Function]Facts
}

func structOf(t types.Type) (*types.Struct, *types.Named) {
	n := namedOf(t)
	if n == nil {
		return nil, nil
	}
	st, _ := n.Underlying().(*types.Struct)
	return st, n
}

// isResetName: a method whose contract is to clear its receiver.
func isResetName(n string) bool { return n == "Reset" || n == "reset" }

// written computes, by must-dataflow, the fields of obj (a pointer to struct) that are definitely reset
// immediately before instruction `at` (at == nil: at every return of fn).
func (ra *resetAn) written(fn *ssa.Function, obj ssa.Value, at ssa.Instruction) Facts {
	st, _ := structOf(obj.Type())
	if st == nil {
		return Facts{}
	}
	all := func(f Facts) {
		for i := 0; i < st.NumFields(); i++ {
			f[st.Field(i).Name()] = true
		}
	}
	isObj := func(v ssa.Value) bool { return v == obj }
	// field values loaded from obj: value -> field name
	loadField := func(v ssa.Value) string {
		u, ok := v.(*ssa.UnOp)
		if !ok || u.Op != token.MUL {
			return ""
		}
		fa, ok := u.X.(*ssa.FieldAddr)
		if !ok || !isObj(fa.X) {
			return ""
		}
		return fieldOf(fa).Name()
	}
	fl := &Flow{Must: true, Entry: Facts{}}
	fl.Transfer = func(i ssa.Instruction, f Facts) {
		switch x := i.(type) {
		case *ssa.Store:
			if isObj(x.Addr) {
				all(f)
				return
			}
			fa, ok := x.Addr.(*ssa.FieldAddr)
			if !ok {
				return
			}
			// obj.F.G = v : a store into a struct-typed field; F counts as reset once all of its fields are written
			if outer, ok := fa.X.(*ssa.FieldAddr); ok && isObj(outer.X) {
				fname := fieldOf(outer).Name()
				f["sub:"+fname+"."+fieldOf(fa).Name()] = true
				if st2, ok := fieldOf(outer).Type().Underlying().(*types.Struct); ok {
					complete := true
					for i := 0; i < st2.NumFields(); i++ {
						if !f["sub:"+fname+"."+st2.Field(i).Name()] {
							complete = false
						}
					}
					if complete {
						f[fname] = true
					}
				}
				return
			}
			if !isObj(fa.X) {
				return
			}
			name := fieldOf(fa).Name()
			// keep-assignment  s.f = <value loaded from s.f earlier>  does not reset the field,
			// except the truncation idiom s.f = s.f[:0].
			if lf := loadField(x.Val); lf == name {
				f["kept:"+name] = true
				delete(f, name)
				return
			}
			if sl, ok := x.Val.(*ssa.Slice); ok && loadField(sl.X) == name {
				if sl.High != nil && isConstInt(sl.High, 0) {
					f[name] = true
				} else {
					delete(f, name)
				}
				return
			}
			f[name] = true
		case ssa.CallInstruction:
			if _, ok := x.(*ssa.Defer); ok {
				return
			}
			cc := x.Common()
			var recv ssa.Value
			var name string
			if cc.IsInvoke() {
				recv, name = cc.Value, cc.Method.Name()
			} else if cal := cc.StaticCallee(); cal != nil && len(cc.Args) > 0 && cal.Signature.Recv() != nil {
				recv, name = cc.Args[0], cal.Name()
			} else {
				return
			}
			// obj.method(): apply callee summary
			if isObj(recv) {
				if cal := cc.StaticCallee(); cal != nil && cal.Blocks != nil {
					for k := range ra.atReturn(cal) {
						f[k] = true
					}
				}
				return
			}
			// (&obj.F).reset(): F is reset if the callee resets all fields of F's struct
			if fa, ok := recv.(*ssa.FieldAddr); ok && isObj(fa.X) {
				fname := fieldOf(fa).Name()
				if cal := cc.StaticCallee(); cal != nil && cal.Blocks != nil && len(cal.Params) > 0 {
					sub := ra.atReturn(cal)
					if st2, _ := structOf(cal.Params[0].Type()); st2 != nil {
						ok := true
						for i := 0; i < st2.NumFields(); i++ {
							if !sub[st2.Field(i).Name()] {
								ok = false
							}
						}
						if ok {
							f[fname] = true
						}
					}
				} else if isResetName(name) {
					f[fname] = true
				}
				return
			}
			// obj.F.Reset() on the loaded field value (interface or pointer): F cleaned by its own Reset
			if lf := loadField(recv); lf != "" && isResetName(name) {
				f[lf] = true
				f["cleaned:"+lf] = true
			}
			// mutex etc: ignore
		case *ssa.Select:
			// non-blocking receive from a channel loaded from obj.F: drains the wake slot
			if !x.Blocking {
				for _, st := range x.States {
					if st.Dir == types.RecvOnly {
						if lf := loadField(st.Chan); lf != "" {
							f["drained:"+lf] = true
						}
					}
				}
			}
		}
	}
	res := fl.Run(fn)
	if at != nil {
		f := res.At(at)
		if f == nil {
			return Facts{}
		}
		return f
	}
	var out Facts
	for _, ret := range returnsOf(fn) {
		f := res.At(ret)
		if f == nil {
			continue
		}
		if out == nil {
			out = f.clone()
			continue
		}
		for k := range out {
			if !f[k] {
				delete(out, k)
			}
		}
	}
	if out == nil {
		out = Facts{}
	}
	return out
}

func (ra *resetAn) atReturn(fn *ssa.Function) Facts {
	if f, ok := ra.memo[fn]; ok {
		if f == nil {
			return Facts{}
		}
		return f
	}
	ra.memo[fn] = nil
	var f Facts
	if len(fn.Params) > 0 {
		f = ra.written(fn, fn.Params[0], nil)
	} else {
		f = Facts{}
	}
	ra.memo[fn] = f
	return f
}

func runR18_1(c *Ctx, r *R) {
	ra := &resetAn{c: c, memo: map[*ssa.Function]Facts{}}
	nPut := 0
	for _, rel := range analysedPkgs {
		for _, fn := range c.SrcFuncs(rel) {
			for _, call := range callsIn(fn, false) {
				cc := call.Common()
				if !cc.IsInvoke() || cc.Method.Name() != "Put" || !typeIs(cc.Value.Type(), poolsPath, "Pool") || len(cc.Args) != 1 {
					continue
				}
				obj := cc.Args[0]
				st, named := structOf(obj.Type())
				if st == nil {
					r.Unk(fnKey(fn)+"/Put", call.Pos(), "pooled value is not a pointer to a named struct: %s", obj.Type())
					continue
				}
				nPut++
				tkey := relPkg(named.Obj().Pkg().Path()) + "." + named.Obj().Name()
				// which properties a leak through this pool breaks
				outer := r
				props := []string{"C18"}
				switch relPkg(named.Obj().Pkg().Path()) {
				case "rpc":
					props = []string{"C18", "C04", "C09", "C11"} // call states: another call / another connection inherits the state
				case "mpx":
					props = []string{"C18", "C09", "C03"}
				case "internal/writer":
					props = []string{"C18", "C12"}
				}
				r := &R{c: outer.c, rule: &Rule{ID: outer.rule.ID, Props: props}}
				defer func() { outer.n += r.n }()
				// the pooled object may itself come from a field load when the release path is a method: trace obj to a parameter
				f := ra.written(fn, obj, call.(ssa.Instruction))
				for i := 0; i < st.NumFields(); i++ {
					fld := st.Field(i)
					key := fmt.Sprintf("%s/Put(%s).%s", fnKey(fn), tkey, fld.Name())
					switch {
					case f[fld.Name()]:
						msg := "overwritten / truncated / Reset on every path before Put"
						r.OK(key, call.Pos(), "%s", msg)
					case f["kept:"+fld.Name()]:
						// kept across a whole-struct zeroing: requires its cleanup
						if f["drained:"+fld.Name()] || f["cleaned:"+fld.Name()] {
							r.OK(key, call.Pos(), "kept across recycling and cleaned (drained / Reset) before Put")
						} else {
							r.Bad(key, call.Pos(), "field %s.%s survives recycling (re-assigned from its old value) without being drained or Reset before Put: the next user inherits its content", tkey, fld.Name())
						}
					case r18keep[tkey+"."+fld.Name()] != "":
						r.OK(key, call.Pos(), "keep-table: %s", r18keep[tkey+"."+fld.Name()])
					case isMutexType(fld.Type()):
						r.OK(key, call.Pos(), "mutex: carries no data; unlocked when the last reference is dropped")
					case embedsPooledState(c, fn, obj, fld, ra):
						r.OK(key, call.Pos(), "attached pooled sub-object is reset through its own reset method on the non-nil path")
					default:
						r.Bad(key, call.Pos(), "field %s.%s is not reset on every path to Put: a recycled %s carries the previous user's %s", tkey, fld.Name(), named.Obj().Name(), fld.Name())
					}
				}
			}
		}
	}
	r.Note("%d Put call sites analysed", nPut)
	if nPut < 7 {
		r.Unk("pools.Pool.Put", 0, "only %d Put call sites found, 7 confirmed on the reference tree", nPut)
	}
}

func isMutexType(t types.Type) bool {
	return typeIs(t, "sync", "Mutex") || typeIs(t, "sync", "RWMutex")
}

// embedsPooledState: field is a pointer to a struct whose reset method is called under a non-nil guard in fn or
// in a method of obj called before Put (writer.reset: if w.writerState != nil { w.writerState.reset() }).
func embedsPooledState(c *Ctx, fn *ssa.Function, obj ssa.Value, fld *types.Var, ra *resetAn) bool {
	if _, ok := fld.Type().Underlying().(*types.Pointer); !ok {
		return false
	}
	found := false
	var scan func(g *ssa.Function, o ssa.Value, depth int)
	scan = func(g *ssa.Function, o ssa.Value, depth int) {
		if depth > 3 {
			return
		}
		for _, call := range callsIn(g, false) {
			cc := call.Common()
			cal := cc.StaticCallee()
			if cal == nil || len(cc.Args) == 0 {
				continue
			}
			if cc.Args[0] == o && cal.Blocks != nil && len(cal.Params) > 0 {
				scan(cal, cal.Params[0], depth+1)
				continue
			}
			u, ok := cc.Args[0].(*ssa.UnOp)
			if !ok || u.Op != token.MUL {
				continue
			}
			fa, ok := u.X.(*ssa.FieldAddr)
			if !ok || fa.X != o || fieldOf(fa) != fld || !isResetName(cal.Name()) {
				continue
			}
			// guarded by non-nil check of a load of the same field
			for _, cd := range pathConds(call.Block()) {
				for _, rel := range relsOf(cd) {
					if rel.Op != token.NEQ {
						continue
					}
					x := rel.X
					if isNilConst(x) {
						x = rel.Y
					}
					if xu, ok := x.(*ssa.UnOp); ok && xu.Op == token.MUL {
						if xfa, ok := xu.X.(*ssa.FieldAddr); ok && xfa.X == o && fieldOf(xfa) == fld {
							// the sub-object's reset must itself be complete
							sub := ra.atReturn(cal)
							if st2, n2 := structOf(cal.Params[0].Type()); st2 != nil {
								okAll := true
								for i := 0; i < st2.NumFields(); i++ {
									nm := st2.Field(i).Name()
									if !sub[nm] && r18keep[relPkg(n2.Obj().Pkg().Path())+"."+n2.Obj().Name()+"."+nm] == "" && !isMutexType(st2.Field(i).Type()) {
										// flags reset elsewhere are checked at the state's own Put
										if nm == "releaseState" || nm == "releaseWriter" {
											continue
										}
										okAll = false
									}
								}
								if okAll {
									found = true
								}
							}
						}
					}
				}
			}
		}
	}
	scan(fn, obj, 0)
	return found
}

var _ = sort.Strings
var _ = strings.Join

var lockSpecs = []guardSpec{
	{Pkg: "mpx", Type: "server", Mutex: "mu", Fields: []string{"ln"},
		Reason: "closeListener clears the listener under the mutex while the serve goroutine runs"},
	{Pkg: "mpx", Type: "client", Mutex: "mu", Fields: []string{"connecting", "connectAttempt"},
		Calls:  []string{"conns.Store", "connected_.Set", "connected_.Unset", "disconnected_.Set", "disconnected_.Unset", "closed_.Set"},
		Reason: "connection list, dial routine and flags are updated together; readers use the lock-free conns.Load / flag reads"},
	{Pkg: "rpc", Type: "channelState", Mutex: "sendMu", Fields: []string{"sendReq", "sendEnd"},
		Exempt: map[string]string{"reset": "release path: exclusive after the reference count reached zero (R18.3)"},
		Reason: "send state of one call is shared by concurrent Send/SendEnd/Free"},
	{Pkg: "rpc", Type: "channelState", Mutex: "recvMu", Fields: []string{"recvEnd", "recvResp", "recvFailed", "recvError", "result", "resultOK", "resultSt"},
		Exempt: map[string]string{"reset": "release path: exclusive after the reference count reached zero (R18.3)"},
		Reason: "receive state of one call is shared by concurrent Receive/Response"},
	{Pkg: "rpc", Type: "serverChannelState", Mutex: "sendMu", Fields: []string{"sendReq", "sendEnd"},
		Exempt: map[string]string{"reset": "release path: exclusive after the reference count reached zero (R18.3)"},
		Reason: "send state of one server call"},
	{Pkg: "rpc", Type: "serverChannelState", Mutex: "recvMu", Fields: []string{"recvEnd", "recvFailed", "recvError"},
		Exempt: map[string]string{"reset": "release path: exclusive after the reference count reached zero (R18.3)"},
		Reason: "receive state of one server call"},
}

func init() {
	register(&Rule{ID: "R18.2", Props: []string{"C18", "C19"}, Floor: 30,
		Doc: "lockset: every access in the frozen guarded-by table (server.ln; client.connecting/connectAttempt/conns.Store/flag updates; rpc send*/recv* state) happens with its mutex held on every path from every entry point",
		Run: func(c *Ctx, r *R) {
			for _, sp := range lockSpecs {
				runLockset(c, r, sp)
			}
		}})
}
