package main

import (
	"fmt"
	"go/token"
	"sort"
	"strings"

	"golang.org/x/tools/go/ssa"
)

// R11.6: the handshake never waits for bytes the protocol does not promise. A connection whose first line is wrong,
// or that was refused, is closed - promptly, because the handshake function returns its error and conn.run closes
// the socket. That only holds if the handshake reads exactly what the protocol defines and in the way it defines it:
//   (a) the protocol line is read up to its '\n' delimiter (bufio ReadString / ReadBytes / ReadSlice / ReadLine): a
//       fixed-length read blocks for ever on a complete but shorter line ("PING\n") while the peer keeps its side open;
//   (b) the handshake functions read from the peer only through the connection reader's protocol methods (readLine,
//       readRequest, readResponse), each a fixed number of times: an extra read - draining the socket after a refusal
//       "so that the peer can read the answer" - hands the peer the decision when the server lets go of the
//       goroutine, the buffers and the descriptor.

func init() {
	register(&Rule{ID: "R11.6", Props: []string{"C11"}, Floor: 3,
		Doc: "handshake input discipline: the protocol line is read up to its newline delimiter; handshake functions read from the peer only through readLine/readRequest/readResponse",
		Run: runR11_6})
}

func runR11_6(c *Ctx, r *R) {
	// (a)
	if f := r.Need("mpx", "connReader.readLine"); f != nil {
		key := fnKey(f) + "/delimited"
		delimited, fixed := false, ""
		for _, call := range callsIn(f, false) {
			o := calleeObj(call)
			if o == nil || o.Pkg() == nil {
				continue
			}
			switch {
			case o.Pkg().Path() == "bufio" && (o.Name() == "ReadString" || o.Name() == "ReadBytes" || o.Name() == "ReadSlice"):
				args := call.Common().Args
				if k, ok := constInt(args[len(args)-1]); ok && k == '\n' {
					delimited = true
				}
			case o.Pkg().Path() == "bufio" && o.Name() == "ReadLine":
				delimited = true
			case o.Pkg().Path() == "io" && (o.Name() == "ReadFull" || o.Name() == "ReadAtLeast" || o.Name() == "ReadAll"):
				fixed = "io." + o.Name()
			case o.Pkg().Path() == "bufio" && (o.Name() == "Read" || o.Name() == "Peek" || o.Name() == "Discard"):
				fixed = "bufio.Reader." + o.Name()
			}
		}
		switch {
		case fixed != "":
			r.Bad(key, f.Pos(), "the protocol line is read with %s, a length-bound read: a peer that sends a complete but shorter wrong line and keeps the connection open is never answered nor closed - the handshake blocks for ever", fixed)
		case delimited:
			r.OK(key, f.Pos(), "the line is read up to its '\\n' delimiter")
		default:
			r.Bad(key, f.Pos(), "readLine does not read up to a '\\n' delimiter")
		}
	}
	// (b)
	allowed := map[string]bool{"reader.readLine": true, "reader.readRequest": true, "reader.readResponse": true}
	for _, name := range []string{"conn.handshakeAsServer", "conn.handshakeAsClient"} {
		f := r.Need("mpx", name)
		if f == nil {
			continue
		}
		key := fnKey(f) + "/reads"
		var reads []string
		bad := ""
		var pos token.Pos
		for _, call := range callsIn(f, false) {
			lbl := calleeLabel(call)
			if allowed[lbl] {
				reads = append(reads, lbl)
				continue
			}
			o := calleeObj(call)
			readsPeer := false
			if o != nil && o.Pkg() != nil && (o.Pkg().Path() == "io" || o.Pkg().Path() == "bufio") {
				readsPeer = true
			}
			if strings.HasPrefix(lbl, "reader.") && !strings.HasPrefix(lbl, "reader.init") {
				readsPeer = true
			}
			for _, a := range call.Common().Args {
				if src := valueSource(a); strings.HasSuffix(src, ".reader.src") || strings.HasSuffix(src, ".conn") {
					readsPeer = true
				}
			}
			if readsPeer {
				what := lbl
				if what == "" && o != nil {
					what = o.Pkg().Name() + "." + o.Name()
				}
				bad = what
				pos = call.Pos()
			}
		}
		sort.Strings(reads)
		if bad != "" {
			r.Bad(key, pos, "the handshake reads from the peer through %s, outside the protocol reads %v: the function does not return (and the connection is not closed) until the peer chooses to send or hang up - a refused or wrong-first peer keeps its goroutine, buffers and descriptor for as long as it likes", bad, reads)
		} else if len(reads) == 0 {
			r.Unk(key, f.Pos(), "anchor lost: no protocol read in %s", name)
		} else {
			r.OK(key, f.Pos(), "reads from the peer: %v only", reads)
		}
	}
	_ = fmt.Sprint
	_ = ssa.Value(nil)
}
