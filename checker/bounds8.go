package main

import (
	"go/token"
	"go/types"

	"golang.org/x/tools/go/ssa"
)

// Pointer preconditions of private helpers.
//
// A helper that reads through an unsafe.Pointer parameter at constant offsets
//
//	func unsafeUint16(ptr unsafe.Pointer) uint16 { b0 := *(*byte)(ptr); b1 := *(*byte)(unsafe.Add(ptr, 1)); ... }
//
// cannot be verified on its own: the provenance of ptr is its callers' business. For an unexported function whose
// every use is a static call, the loads are summarised as "k bytes are readable at parameter i" (k = the largest
// offset + size read), discharged inside the helper by reference to its call sites and proved at each of them from
// the provenance of the argument: 0 <= off and off + k <= len(base).

var ptrReqMemo = map[*ssa.Function]map[int]int64{}

func scalarSize(t types.Type) int64 {
	bt, ok := t.Underlying().(*types.Basic)
	if !ok {
		return -1
	}
	switch bt.Kind() {
	case types.Uint8, types.Int8, types.Bool:
		return 1
	case types.Uint16, types.Int16:
		return 2
	case types.Uint32, types.Int32, types.Float32:
		return 4
	case types.Uint64, types.Int64, types.Float64, types.Int, types.Uint:
		return 8
	}
	return -1
}

// ptrParamOf: v is parameter p of unsafe.Pointer type advanced by a constant number of bytes.
func ptrParamOf(v ssa.Value, depth int) (*ssa.Parameter, int64, bool) {
	if depth > 10 {
		return nil, 0, false
	}
	switch x := v.(type) {
	case *ssa.Parameter:
		if b, ok := x.Type().Underlying().(*types.Basic); ok && b.Kind() == types.UnsafePointer {
			return x, 0, true
		}
	case *ssa.Convert:
		return ptrParamOf(x.X, depth+1)
	case *ssa.ChangeType:
		return ptrParamOf(x.X, depth+1)
	case *ssa.Call:
		if bi, ok := x.Call.Value.(*ssa.Builtin); ok && bi.Name() == "Add" && len(x.Call.Args) == 2 {
			k, isK := constInt(x.Call.Args[1])
			if !isK || k < 0 {
				return nil, 0, false
			}
			p, off, ok := ptrParamOf(x.Call.Args[0], depth+1)
			return p, off + k, ok
		}
	}
	return nil, 0, false
}

// ptrReqs: parameter index -> number of bytes that must be readable at that pointer; nil when fn is not such a helper.
func (e *BE) ptrReqs(fn *ssa.Function) map[int]int64 {
	if fn == nil || fn.Blocks == nil {
		return nil
	}
	if m, ok := ptrReqMemo[fn]; ok {
		return m
	}
	ptrReqMemo[fn] = nil
	if fn.Parent() != nil || token.IsExported(fn.Name()) || fn.Synthetic != "" {
		return nil
	}
	sites, escapes := sitesOf(fn)
	if escapes || len(sites) == 0 {
		return nil
	}
	for _, s := range sites {
		if _, isCall := s.(*ssa.Call); !isCall {
			return nil
		}
	}
	req := map[int]int64{}
	good := true
	n := 0
	allInstrs(fn, func(i ssa.Instruction) {
		ld, ok := i.(*ssa.UnOp)
		if !ok || ld.Op != token.MUL || !isUnsafePointerDerived(ld.X, 0) {
			return
		}
		n++
		p, off, ok := ptrParamOf(ld.X, 0)
		sz := scalarSize(ld.Type())
		if !ok || sz < 0 {
			good = false
			return
		}
		idx := paramIndex(fn, p)
		if off+sz > req[idx] {
			req[idx] = off + sz
		}
	})
	if !good || n == 0 {
		return nil
	}
	ptrReqMemo[fn] = req
	return req
}
