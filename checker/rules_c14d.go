package main

import (
	"fmt"
	"go/constant"
	"go/token"
	"sort"
	"strings"

	"golang.org/x/tools/go/ssa"
)

// R14.10: the method classification table. model.Method.compileType decides, from four facts about a method
// signature - oneway marker, response present, subservice result, channel present - whether the signature is
// malformed (error) or which MethodType it has; the generator's templates are chosen by that type and are only
// defined for the combinations accepted here. The function is a finite decision table: it is evaluated, world by
// world (2^4), by following its control flow with the four facts fixed, and compared with the confirmed table:
//   oneway                      -> malformed if it has a response, a subservice or a channel, else Oneway
//   channel (not oneway)        -> malformed if it returns a subservice, else Channel
//   subservice (no channel)     -> Subservice
//   otherwise                   -> Request
// The comparison is on outcomes, not on code shape: removing an unreachable check changes nothing, dropping the
// channel+subservice rejection turns one row from "malformed" into "Channel" (the generator then emits Go that does
// not compile).

func init() {
	register(&Rule{ID: "R14.10", Props: []string{"C14"}, Floor: 16,
		Doc: "method classification: Method.compileType, evaluated over all 16 combinations of (oneway, response, subservice, channel), rejects exactly the malformed signatures and assigns the confirmed MethodType to the others",
		Run: runR14_10})
}

func runR14_10(c *Ctx, r *R) {
	f := r.Need("internal/lang/model", "Method.compileType")
	if f == nil {
		return
	}
	recv := ssa.Value(f.Params[0])
	// atom of a condition value: (field, kind) with kind "bool" or "nonnil"
	type atom struct {
		field string
		truth bool // value of the condition when the fact "field is set / non-nil" holds
	}
	fieldLoad := func(v ssa.Value) string {
		if u, ok := v.(*ssa.UnOp); ok && u.Op == token.MUL {
			if fa, ok := u.X.(*ssa.FieldAddr); ok && fa.X == recv {
				return fieldOf(fa).Name()
			}
		}
		return ""
	}
	var atomOf func(v ssa.Value) (atom, bool)
	atomOf = func(v ssa.Value) (atom, bool) {
		if u, ok := v.(*ssa.UnOp); ok && u.Op == token.NOT {
			a, ok := atomOf(u.X)
			a.truth = !a.truth
			return a, ok
		}
		if fl := fieldLoad(v); fl != "" {
			return atom{fl, true}, true
		}
		if b, ok := v.(*ssa.BinOp); ok && (b.Op == token.NEQ || b.Op == token.EQL) {
			x, y := b.X, b.Y
			if isNilConst(x) {
				x, y = y, x
			}
			if fl := fieldLoad(x); fl != "" && isNilConst(y) {
				return atom{fl, b.Op == token.NEQ}, true
			}
		}
		return atom{}, false
	}
	names := []string{"Oneway", "Response", "Subservice", "Channel"}
	typeName := map[string]string{}
	if p := c.Pkg("internal/lang/model"); p != nil {
		for _, n := range p.Types.Scope().Names() {
			if strings.HasPrefix(n, "MethodType_") {
				if k, ok := p.Types.Scope().Lookup(n).(interface{ Val() constant.Value }); ok {
					typeName[k.Val().ExactString()] = strings.TrimPrefix(n, "MethodType_")
				}
			}
		}
	}
	expected := func(w map[string]bool) string {
		switch {
		case w["Oneway"]:
			if w["Response"] || w["Subservice"] || w["Channel"] {
				return "malformed"
			}
			return "Oneway"
		case w["Channel"]:
			if w["Subservice"] {
				return "malformed"
			}
			return "Channel"
		case w["Subservice"]:
			return "Subservice"
		}
		return "Request"
	}
	for world := 0; world < 16; world++ {
		w := map[string]bool{}
		var desc []string
		for i, n := range names {
			w[n] = world&(1<<i) != 0
			if w[n] {
				desc = append(desc, strings.ToLower(n))
			}
		}
		sort.Strings(desc)
		key := fmt.Sprintf("%s/{%s}", fnKey(f), strings.Join(desc, ","))
		// follow the control flow in this world
		b := f.Blocks[0]
		var prev *ssa.BasicBlock
		outcome, why := "", ""
		assigned := ""
		// values merged at joins are followed along the path taken in this world (err = fmt.Errorf(...) in an arm,
		// tested after the switch)
		env := map[ssa.Value]ssa.Value{}
		var val func(v ssa.Value) ssa.Value
		val = func(v ssa.Value) ssa.Value {
			if x, ok := env[v]; ok {
				return x
			}
			if x, ok := v.(*ssa.ChangeInterface); ok {
				return val(x.X)
			}
			return v
		}
		nilness := func(v ssa.Value) (isNil bool, known bool) {
			v = val(v)
			if isNilConst(v) {
				return true, true
			}
			if knownNonNil(v) {
				return false, true
			}
			return false, false
		}
		for steps := 0; steps < 200 && outcome == "" && why == ""; steps++ {
			for _, ins := range b.Instrs {
				if phi, ok := ins.(*ssa.Phi); ok && prev != nil {
					for i, pb := range b.Preds {
						if pb == prev {
							env[phi] = val(phi.Edges[i])
						}
					}
				}
			}
			for _, ins := range b.Instrs {
				if st, ok := ins.(*ssa.Store); ok {
					if fa, ok := st.Addr.(*ssa.FieldAddr); ok && fa.X == recv && fieldOf(fa).Name() == "Type" {
						assigned = "?"
						if k, isK := val(st.Val).(*ssa.Const); isK && k.Value != nil {
							if n := typeName[k.Value.ExactString()]; n != "" {
								assigned = n
							}
						}
					}
				}
			}
			prev = b
			switch x := b.Instrs[len(b.Instrs)-1].(type) {
			case *ssa.Return:
				if len(x.Results) != 1 {
					why = "unexpected result arity"
					break
				}
				isNil, known := nilness(x.Results[0])
				switch {
				case !known:
					why = "the returned error is not decidable on this path: " + x.Results[0].String()
				case isNil:
					outcome = assigned
					if outcome == "" {
						outcome = "accepted without a type"
					}
				default:
					outcome = "malformed"
				}
			case *ssa.If:
				a, ok := atomOf(x.Cond)
				if !ok {
					// a test of a value built on this path: err == nil
					cond, neg := x.Cond, false
					for {
						u, isNot := cond.(*ssa.UnOp)
						if !isNot || u.Op != token.NOT {
							break
						}
						cond, neg = u.X, !neg
					}
					if bo, isB := cond.(*ssa.BinOp); isB && (bo.Op == token.EQL || bo.Op == token.NEQ) {
						xv, yv := bo.X, bo.Y
						if isNilConst(xv) {
							xv, yv = yv, xv
						}
						if isNilConst(yv) {
							if isNil, known := nilness(xv); known {
								t := isNil == (bo.Op == token.EQL)
								if neg {
									t = !t
								}
								if t {
									b = b.Succs[0]
								} else {
									b = b.Succs[1]
								}
								break
							}
						}
					}
					why = "a branch of compileType tests something other than the four signature facts: " + x.Cond.String()
					break
				}
				v, known := w[a.field]
				if !known {
					why = "compileType branches on the field " + a.field + ", which is not one of the four signature facts"
					break
				}
				if v == a.truth {
					b = b.Succs[0]
				} else {
					b = b.Succs[1]
				}
			case *ssa.Jump:
				b = b.Succs[0]
			default:
				why = fmt.Sprintf("unexpected terminator %T", x)
			}
		}
		want := expected(w)
		switch {
		case why != "":
			r.Unk(key, f.Pos(), "%s", why)
		case outcome == want:
			r.OK(key, f.Pos(), "%s", want)
		case want == "malformed":
			r.Bad(key, f.Pos(), "a method signature with {%s} is malformed but compileType accepts it as %s: the generator has no template for that combination and emits Go that does not compile", strings.Join(desc, ", "), outcome)
		default:
			r.Bad(key, f.Pos(), "a method signature with {%s} must be classified %s, compileType yields %s", strings.Join(desc, ", "), want, outcome)
		}
	}
}
