package main

import (
	"encoding/json"
	"fmt"
	"go/ast"
	"go/token"
	"go/types"
	"os"
	"path/filepath"
	"sort"
	"strings"
	"time"

	"golang.org/x/tools/go/callgraph"
	"golang.org/x/tools/go/callgraph/cha"
	"golang.org/x/tools/go/callgraph/vta"
	"golang.org/x/tools/go/packages"
	"golang.org/x/tools/go/ssa"
	"golang.org/x/tools/go/ssa/ssautil"
)

// Module path of the analysed repository.
const Mod = "github.com/basecomplextech/spec"

// Packages the build covers (internal/tests/* and internal/bench need generated, git-ignored files).
var analysedPkgs = []string{
	".", "internal/decode", "internal/encode", "internal/format", "internal/types", "internal/writer",
	"mpx", "rpc", "proto/pmpx", "proto/prpc",
	"internal/lang", "internal/lang/compiler", "internal/lang/generator", "internal/lang/model",
	"internal/lang/parser", "internal/lang/syntax", "cmd/spec",
}

type Status int

const (
	Discharged Status = iota
	Violated
	Undecided
)

func (s Status) String() string { return [...]string{"discharged", "VIOLATED", "UNDECIDED"}[s] }

// Ob is one obligation: a rule applied to one construct.
type Ob struct {
	Prop   string `json:"property"`
	Rule   string `json:"rule"`
	Key    string `json:"key"` // construct key: pkg.Func[/detail], never a line number
	Pos    string `json:"pos"` // file:line (diagnostic only)
	Status string `json:"status"`
	Msg    string `json:"msg,omitempty"`
	Known  bool   `json:"known_finding,omitempty"`
	status Status
}

type Rule struct {
	ID    string
	Props []string // properties this rule serves
	Doc   string   // the rule, in words
	Floor int      // minimum number of obligations confirmed on the reference tree
	Run   func(c *Ctx, r *R)
}

// R is the per-rule reporting handle.
type R struct {
	c    *Ctx
	rule *Rule
	n    int
}

type Ctx struct {
	Repo  string
	Tier  string
	Arch  string
	Fset  *token.FileSet
	Pkgs  map[string]*packages.Package // by import path
	Prog  *ssa.Program
	SSA   map[string]*ssa.Package
	cgVTA *callgraph.Graph
	cgCHA *callgraph.Graph
	Obs   []*Ob
	Notes map[string][]string // rule -> free-form notes for evidence
	fnIdx map[string]*ssa.Function
	LoadS float64
}

func pkgPath(rel string) string {
	if rel == "." {
		return Mod
	}
	return Mod + "/" + rel
}

func load(repo, arch string) (*Ctx, error) {
	t0 := time.Now()
	c := &Ctx{Repo: repo, Arch: arch, Pkgs: map[string]*packages.Package{}, SSA: map[string]*ssa.Package{}, Notes: map[string][]string{}}
	if _, err := os.Stat("/opt/veriftools/go1.26.8/bin/go"); err == nil && !strings.HasPrefix(os.Getenv("PATH"), "/opt/veriftools/go1.26.8/bin") {
		os.Setenv("PATH", "/opt/veriftools/go1.26.8/bin:"+os.Getenv("PATH"))
	}
	env := os.Environ()
	var env2 []string
	for _, e := range env {
		if strings.HasPrefix(e, "GOWORK=") || strings.HasPrefix(e, "GOARCH=") || strings.HasPrefix(e, "GOFLAGS=") {
			continue
		}
		env2 = append(env2, e)
	}
	env2 = append(env2, "GOWORK=off", "GOFLAGS=-mod=mod", "GOPROXY=off", "GOSUMDB=off", "GOTOOLCHAIN=local", "CGO_ENABLED=0")
	if arch != "" {
		env2 = append(env2, "GOARCH="+arch)
	}
	cfg := &packages.Config{
		Mode: packages.LoadAllSyntax,
		Dir:  repo,
		Env:  env2,
		Fset: token.NewFileSet(),
	}
	var pats []string
	for _, p := range analysedPkgs {
		if p == "." {
			pats = append(pats, ".")
		} else {
			pats = append(pats, "./"+p)
		}
	}
	pkgs, err := packages.Load(cfg, pats...)
	if err != nil {
		return nil, err
	}
	c.Fset = cfg.Fset
	var typeErrs []string
	packages.Visit(pkgs, nil, func(p *packages.Package) {
		c.Pkgs[p.PkgPath] = p
		if strings.HasPrefix(p.PkgPath, Mod) {
			for _, e := range p.Errors {
				typeErrs = append(typeErrs, e.Error())
			}
		}
	})
	if len(pkgs) != len(analysedPkgs) {
		return nil, fmt.Errorf("loaded %d packages, expected %d", len(pkgs), len(analysedPkgs))
	}
	if len(typeErrs) > 0 {
		return nil, fmt.Errorf("type errors in analysed packages:\n  %s", strings.Join(typeErrs, "\n  "))
	}
	prog, spkgs := ssautil.AllPackages(pkgs, ssa.InstantiateGenerics)
	prog.Build()
	c.Prog = prog
	for _, sp := range spkgs {
		if sp != nil {
			c.SSA[sp.Pkg.Path()] = sp
		}
	}
	for _, sp := range prog.AllPackages() {
		c.SSA[sp.Pkg.Path()] = sp
	}
	c.LoadS = time.Since(t0).Seconds()
	return c, nil
}

func (c *Ctx) VTA() *callgraph.Graph {
	if c.cgVTA == nil {
		c.cgVTA = vta.CallGraph(ssautil.AllFunctions(c.Prog), cha.CallGraph(c.Prog))
	}
	return c.cgVTA
}

func (c *Ctx) CHA() *callgraph.Graph {
	if c.cgCHA == nil {
		c.cgCHA = cha.CallGraph(c.Prog)
	}
	return c.cgCHA
}

// ---- lookup helpers (by package path + names, never by line) ----

func (c *Ctx) Pkg(rel string) *packages.Package { return c.Pkgs[pkgPath(rel)] }

func (c *Ctx) SPkg(rel string) *ssa.Package { return c.SSA[pkgPath(rel)] }

// Func finds a package-level function or a method "Type.Method" / "(*Type).Method" in a module-relative package.
func (c *Ctx) Func(rel, name string) *ssa.Function {
	sp := c.SPkg(rel)
	if sp == nil {
		return nil
	}
	return ssaFunc(c.Prog, sp, name)
}

func ssaFunc(prog *ssa.Program, sp *ssa.Package, name string) *ssa.Function {
	if i := strings.Index(name, "."); i >= 0 {
		tn, mn := name[:i], name[i+1:]
		tn = strings.TrimPrefix(strings.TrimSuffix(strings.TrimPrefix(tn, "("), ")"), "*")
		m := sp.Members[tn]
		t, ok := m.(*ssa.Type)
		if !ok {
			return nil
		}
		for _, typ := range []types.Type{t.Type(), types.NewPointer(t.Type())} {
			ms := prog.MethodSets.MethodSet(typ)
			for i := 0; i < ms.Len(); i++ {
				sel := ms.At(i)
				if sel.Obj().Name() == mn && sel.Obj().Pkg() == sp.Pkg {
					if fn := prog.MethodValue(sel); fn != nil {
						// skip promoted-wrapper functions: want the declared method
						if fn.Synthetic == "" {
							return fn
						}
						// value method reached through pointer receiver wrapper: find declared
						if d := prog.FuncValue(sel.Obj().(*types.Func)); d != nil {
							return d
						}
					}
				}
			}
		}
		return nil
	}
	if f, ok := sp.Members[name].(*ssa.Function); ok {
		return f
	}
	return nil
}

// SrcFuncs returns all source-level functions (incl. methods and anonymous functions) of a module-relative package.
func (c *Ctx) SrcFuncs(rel string) []*ssa.Function {
	sp := c.SPkg(rel)
	if sp == nil {
		return nil
	}
	var out []*ssa.Function
	seen := map[*ssa.Function]bool{}
	var add func(f *ssa.Function)
	add = func(f *ssa.Function) {
		if f == nil || seen[f] || f.Synthetic != "" && !strings.HasPrefix(f.Synthetic, "instance") {
			return
		}
		seen[f] = true
		if f.Blocks != nil {
			out = append(out, f)
		}
		for _, a := range f.AnonFuncs {
			add(a)
		}
	}
	for _, m := range sp.Members {
		switch m := m.(type) {
		case *ssa.Function:
			if m.Synthetic != "" {
				// package initializer: its closures (pool constructors, ...) are source functions
				for _, a := range m.AnonFuncs {
					add(a)
				}
			}
			add(m)
		case *ssa.Type:
			for _, typ := range []types.Type{m.Type(), types.NewPointer(m.Type())} {
				ms := c.Prog.MethodSets.MethodSet(typ)
				for i := 0; i < ms.Len(); i++ {
					if fo, ok := ms.At(i).Obj().(*types.Func); ok && fo.Pkg() == sp.Pkg {
						add(c.Prog.FuncValue(fo))
					}
				}
			}
		}
	}
	sort.Slice(out, func(i, j int) bool { return fnKey(out[i]) < fnKey(out[j]) })
	return out
}

// fnKey is the stable name of a function: pkgrel.Func, pkgrel.Type.Method, with $n for closures.
func fnKey(f *ssa.Function) string {
	if f == nil {
		return "<nil>"
	}
	if f.Parent() != nil {
		return fnKey(f.Parent()) + "$" + strings.TrimPrefix(f.Name(), f.Parent().Name()+"$")
	}
	pk := ""
	if f.Pkg != nil {
		pk = relPkg(f.Pkg.Pkg.Path())
	} else if o := f.Object(); o != nil && o.Pkg() != nil {
		pk = relPkg(o.Pkg().Path())
	}
	name := f.Name()
	if recv := f.Signature.Recv(); recv != nil {
		t := recv.Type()
		if p, ok := t.(*types.Pointer); ok {
			t = p.Elem()
		}
		if n, ok := t.(*types.Named); ok {
			name = n.Obj().Name() + "." + name
		}
	}
	return pk + "." + name
}

func relPkg(path string) string {
	if path == Mod {
		return "spec"
	}
	if strings.HasPrefix(path, Mod+"/") {
		return strings.TrimPrefix(path, Mod+"/")
	}
	return path
}

func (c *Ctx) pos(p token.Pos) string {
	if !p.IsValid() {
		return "-"
	}
	pp := c.Fset.Position(p)
	f := pp.Filename
	if r, err := filepath.Rel(c.Repo, f); err == nil && !strings.HasPrefix(r, "..") {
		f = r
	}
	return fmt.Sprintf("%s:%d", f, pp.Line)
}

// instrPos gives the best available position of an instruction.
func instrPos(i ssa.Instruction) token.Pos {
	if p := i.Pos(); p.IsValid() {
		return p
	}
	if v, ok := i.(ssa.Value); ok {
		_ = v
	}
	return i.Parent().Pos()
}

// ---- reporting ----

func (r *R) report(st Status, key string, p token.Pos, format string, a ...any) {
	for _, prop := range r.rule.Props {
		r.c.Obs = append(r.c.Obs, &Ob{Prop: prop, Rule: r.rule.ID, Key: key, Pos: r.c.pos(p), Status: st.String(), status: st, Msg: fmt.Sprintf(format, a...)})
	}
	r.n++
}

func (r *R) OK(key string, p token.Pos, format string, a ...any) {
	r.report(Discharged, key, p, format, a...)
}
func (r *R) Bad(key string, p token.Pos, format string, a ...any) {
	r.report(Violated, key, p, format, a...)
}
func (r *R) Unk(key string, p token.Pos, format string, a ...any) {
	r.report(Undecided, key, p, format, a...)
}

// Check reports OK or Bad.
func (r *R) Check(cond bool, key string, p token.Pos, okMsg, badMsg string) {
	if cond {
		r.OK(key, p, "%s", okMsg)
	} else {
		r.Bad(key, p, "%s", badMsg)
	}
}

// Need returns fn or reports an undecided "anchor lost" obligation.
func (r *R) Need(rel, name string) *ssa.Function {
	f := r.c.Func(rel, name)
	if f == nil || f.Blocks == nil {
		r.Unk(rel+"."+name, token.NoPos, "anchor lost: function %s.%s not found", rel, name)
		return nil
	}
	return f
}

func (r *R) Note(format string, a ...any) {
	r.c.Notes[r.rule.ID] = append(r.c.Notes[r.rule.ID], fmt.Sprintf(format, a...))
}

// ---- known findings ----

type KnownFinding struct {
	Property string `json:"property"`
	Rule     string `json:"rule"`
	Key      string `json:"key"`
	What     string `json:"what"`
}

type KnownFile struct {
	Known []KnownFinding `json:"known"`
	Fixed []string       `json:"fixed"`
}

func loadKnown(path string) (*KnownFile, error) {
	kf := &KnownFile{}
	b, err := os.ReadFile(path)
	if err != nil {
		if os.IsNotExist(err) {
			return kf, nil
		}
		return nil, err
	}
	if err := json.Unmarshal(b, kf); err != nil {
		return nil, err
	}
	return kf, nil
}

// ---- small AST/SSA utilities shared by rules ----

func isNilConst(v ssa.Value) bool {
	c, ok := v.(*ssa.Const)
	return ok && c.Value == nil
}

func calleeOf(call ssa.CallInstruction) *ssa.Function {
	return call.Common().StaticCallee()
}

// calleeObj returns the *types.Func a call resolves to (static callee, or the interface method for invoke calls).
func calleeObj(call ssa.CallInstruction) *types.Func {
	cc := call.Common()
	if cc.IsInvoke() {
		return cc.Method
	}
	if f := cc.StaticCallee(); f != nil {
		if o, ok := f.Object().(*types.Func); ok {
			return o
		}
		// instantiated generic: Origin
		if f.Origin() != nil {
			if o, ok := f.Origin().Object().(*types.Func); ok {
				return o
			}
		}
	}
	return nil
}

// objIs reports whether fn is pkgpath.Name or pkgpath.Type.Name.
func objIs(fn *types.Func, pkgpath, name string) bool {
	if fn == nil || fn.Pkg() == nil || fn.Pkg().Path() != pkgpath {
		return false
	}
	return objName(fn) == name
}

func objName(fn *types.Func) string {
	if fn == nil {
		return ""
	}
	sig := fn.Type().(*types.Signature)
	if recv := sig.Recv(); recv != nil {
		t := recv.Type()
		if p, ok := t.(*types.Pointer); ok {
			t = p.Elem()
		}
		switch n := t.(type) {
		case *types.Named:
			return n.Obj().Name() + "." + fn.Name()
		case *types.Alias:
			return n.Obj().Name() + "." + fn.Name()
		}
	}
	return fn.Name()
}

func allInstrs(f *ssa.Function, visit func(ssa.Instruction)) {
	for _, b := range f.Blocks {
		for _, i := range b.Instrs {
			visit(i)
		}
	}
}

// withAnon visits f and all nested anonymous functions.
func withAnon(f *ssa.Function, visit func(*ssa.Function)) {
	visit(f)
	for _, a := range f.AnonFuncs {
		withAnon(a, visit)
	}
}

// funcDecl finds the AST declaration of an ssa function (nil for closures/synthetic).
func (c *Ctx) funcDecl(f *ssa.Function) *ast.FuncDecl {
	if fd, ok := f.Syntax().(*ast.FuncDecl); ok {
		return fd
	}
	return nil
}

func sortedKeys[M ~map[string]V, V any](m M) []string {
	var ks []string
	for k := range m {
		ks = append(ks, k)
	}
	sort.Strings(ks)
	return ks
}
