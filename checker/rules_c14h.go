package main

import (
	"fmt"
	"go/token"
	"go/types"

	"golang.org/x/tools/go/ssa"
)

// R14.13: optional links of model.Type are followed only where they exist. A *model.Type carries Ref (the resolved
// definition) only for reference kinds (enum, message, struct, service) and Element only for lists; for every other
// kind the pointer is nil. "Invalid schemas are rejected cleanly" means with an error, not with a nil dereference in
// a validation or naming helper: every dereference of t.Ref / t.Element in the compiler pipeline must be dominated by
// a nil test of that pointer or by a comparison of the same Type's Kind with a kind for which the link is set.

func init() {
	register(&Rule{ID: "R14.13", Props: []string{"C14"}, Floor: 3,
		Doc: "optional links of model.Type (Ref, Element) are dereferenced only under a nil test or a Kind comparison that implies the link is set",
		Run: runR14_13})
}

var r14LinkKinds = map[string]map[string]bool{
	"Ref":     {"KindEnum": true, "KindMessage": true, "KindStruct": true, "KindService": true},
	"Element": {"KindList": true},
}

var r14LinkReviewed = map[string]string{
	"internal/lang/generator.clientImplNew/Ref#1":    "called only with Method.Subservice, which model.Method sets only for a result type whose Ref is a service definition (R14.10 decision table)",
	"internal/lang/generator.clientImplNewErr/Ref#1": "called only with Method.Subservice, which model.Method sets only for a result type whose Ref is a service definition (R14.10 decision table)",
}

func runR14_13(c *Ctx, r *R) {
	mp := c.Pkg("internal/lang/model")
	if mp == nil {
		r.Unk("internal/lang/model", 0, "package not loaded")
		return
	}
	kindName := map[int64]string{}
	for _, nm := range mp.Types.Scope().Names() {
		if len(nm) > 4 && nm[:4] == "Kind" {
			if k, ok := mp.Types.Scope().Lookup(nm).(*types.Const); ok {
				if v, ok := constIntVal(k); ok {
					kindName[v] = nm
				}
			}
		}
	}
	isTypePtr := func(v ssa.Value) bool { return typeIs(v.Type(), pkgPath("internal/lang/model"), "Type") }
	n := 0
	for _, rel := range []string{"internal/lang/model", "internal/lang/compiler", "internal/lang/generator"} {
		for _, fn := range c.SrcFuncs(rel) {
			cnt := map[string]int{}
			allInstrs(fn, func(i ssa.Instruction) {
				// a dereference: FieldAddr / method call whose base pointer is a load of t.Ref / t.Element
				var base ssa.Value
				switch x := i.(type) {
				case *ssa.FieldAddr:
					base = x.X
				case *ssa.Call:
					if !x.Call.IsInvoke() && len(x.Call.Args) > 0 && x.Call.StaticCallee() != nil && x.Call.StaticCallee().Signature.Recv() != nil {
						base = x.Call.Args[0]
					}
				}
				if base == nil {
					return
				}
				ld, ok := base.(*ssa.UnOp)
				if !ok || ld.Op != token.MUL {
					return
				}
				fa, ok := ld.X.(*ssa.FieldAddr)
				if !ok || !isTypePtr(fa.X) {
					return
				}
				link := fieldOf(fa).Name()
				kinds := r14LinkKinds[link]
				if kinds == nil {
					return
				}
				// a method call on a nil *Type receiver that does not touch it is still a deref in Go only when the
				// method reads a field; be conservative: treat as deref
				cnt[link]++
				n++
				key := fmt.Sprintf("%s/%s#%d", fnKey(fn), link, cnt[link])
				owner := fa.X // the *Type whose link is followed
				guarded := false
				for _, alt := range backPaths(i.Block(), nil, 64) {
					ok := false
					for _, cd := range alt {
						for _, rl := range relsOf(cd) {
							// nil test of the same link of the same owner
							for _, side := range []ssa.Value{rl.X, rl.Y} {
								if l2, isLd := side.(*ssa.UnOp); isLd && l2.Op == token.MUL {
									if f2, isFa := l2.X.(*ssa.FieldAddr); isFa && sameOwner(f2.X, owner) && fieldOf(f2).Name() == link && rl.Op == token.NEQ && (isNilConst(rl.X) || isNilConst(rl.Y)) {
										ok = true
									}
									// Kind comparison of the same owner
									if f2, isFa := l2.X.(*ssa.FieldAddr); isFa && sameOwner(f2.X, owner) && fieldOf(f2).Name() == "Kind" && rl.Op == token.EQL {
										other := rl.Y
										if side == rl.Y {
											other = rl.X
										}
										if k, isK := constInt(other); isK && kinds[kindName[k]] {
											ok = true
										}
									}
								}
							}
						}
					}
					if !ok {
						guarded = false
						goto done
					}
					guarded = true
				}
			done:
				switch {
				case guarded:
					r.OK(key, i.Pos(), "%s followed under a nil test / a Kind comparison for which it is set", link)
				case r14LinkReviewed[key] != "":
					r.OK(key, i.Pos(), "reviewed: %s", r14LinkReviewed[key])
				default:
					r.Bad(key, i.Pos(), "Type.%s is dereferenced on a path that neither tested it non-nil nor established a Kind for which it is set: for any other kind of type (a list, a builtin) the compiler panics with a nil dereference instead of returning an error", link)
				}
			})
		}
	}
	if n == 0 {
		r.Unk("internal/lang/type-links", 0, "anchor lost: no dereference of Type.Ref / Type.Element found")
	}
}

// sameOwner: the two pointer values are the same value, or loads of the same field path from the same root (the
// model tree is not mutated while it is validated / printed).
func sameOwner(a, b ssa.Value) bool {
	if a == b {
		return true
	}
	root := func(v ssa.Value) ssa.Value {
		for {
			switch x := v.(type) {
			case *ssa.UnOp:
				v = x.X
				continue
			case *ssa.FieldAddr:
				v = x.X
				continue
			case *ssa.Field:
				v = x.X
				continue
			}
			return v
		}
	}
	sa, sb := valueSource(a), valueSource(b)
	return sa != "" && sa == sb && root(a) == root(b)
}
